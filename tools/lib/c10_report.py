"""C10 helpers: run the real client on report texts (batch subprocess per hash seed), an independent
tokenisation of a report (the oracle of the property), Coq literals of what the client returned, and the
synthetic-report generator.  `python -m lib.c10_report IN.pkl OUT.pkl` is the batch worker."""
import csv
import io
import json
import logging
import os
import pickle
import re
import subprocess
import sys
import tempfile
from fractions import Fraction
from pathlib import Path

from . import qconv

CS = qconv.coq_bytes
POWER, HEAT = 'POWER GENERATION PROFILE', 'HEAT AND/OR ELECTRICITY EXTRACTION AND GENERATION PROFILE'
EXT, REV, SDAC = 'EXTENDED ECONOMIC PROFILE', 'REVENUE & CASHFLOW PROFILE', 'S-DAC-GT PROFILE'
BANNERS = {POWER: ['HEATING, COOLING AND/OR ELECTRICITY PRODUCTION PROFILE', POWER],
           HEAT: ['ANNUAL HEATING, COOLING AND/OR ELECTRICITY PRODUCTION PROFILE', HEAT],
           EXT: [EXT], REV: [REV], SDAC: [SDAC], 'CCUS PROFILE': ['CCUS PROFILE']}


# ------------------------------------------------------------------------------------------ the real client

def observe(path):
    """everything the property looks at on ONE GeophiresXResult object: the parsed result, as_csv() twice, and the
    result again afterwards.  An exception of the client is an observation, never an error of the harness."""
    import copy
    from geophires_x_client.geophires_x_result import GeophiresXResult
    out = {'raised': None, 'result': None, 'csv': None, 'csv_raised': None, 'csv2': None, 'csv2_raised': None, 'result_kept': True}
    try:
        r = GeophiresXResult(path)
        strip = lambda d: {k: v for k, v in d.items() if k != 'metadata'}
        out['result'] = copy.deepcopy(strip(r.result))
        out['metadata'] = {k: v for k, v in r.result['metadata'].items() if k != 'output_file_path'}
        for key in ('csv', 'csv2'):
            try:
                out[key] = r.as_csv()
            except Exception as e:  # noqa
                out[key + '_raised'] = f'{type(e).__name__}: {e}'[:200]
        try:
            after = copy.deepcopy(strip(r.result))
            out['result_kept'] = after == out['result']
            if not out['result_kept']:
                out['result_after'] = {k: (after.get(k)[:2] if isinstance(after.get(k), list) else after.get(k))
                                       for k in out['result'] if after.get(k) != out['result'][k]}
        except Exception as e:  # noqa
            out['result_kept'], out['result_after'] = False, f'{type(e).__name__}: {e}'[:200]
    except Exception as e:  # noqa
        out['raised'] = type(e).__name__
    return out


def client_parse(text, workdir):
    """GeophiresXResult on a file holding `text` (picklable observation, see observe)"""
    fd, p = tempfile.mkstemp(suffix='.out', dir=workdir)
    with os.fdopen(fd, 'w', encoding='ascii', newline='') as f:
        f.write(text)
    try:
        return observe(p)
    finally:
        os.unlink(p)


def _job(args):
    return client_parse(*args)


def parse_many(ctx, texts, hashseed=0, workers=8):
    """the client on every text, in one interpreter started with PYTHONHASHSEED=hashseed"""
    if not texts:
        return []
    d = Path(tempfile.mkdtemp(dir=ctx.scratch))
    (d / 'in.pkl').write_bytes(pickle.dumps(texts))
    env = dict(os.environ, PYTHONHASHSEED=str(hashseed))
    p = subprocess.run(['timeout', '1500', sys.executable, '-B', '-m', 'lib.c10_report', str(d / 'in.pkl'), str(d / 'out.pkl'),
                        str(workers)], env=env, capture_output=True, text=True)
    if p.returncode != 0:
        raise RuntimeError('client batch failed: ' + (p.stdout + p.stderr)[-1500:])
    return pickle.loads((d / 'out.pkl').read_bytes())


def history_parse(ctx, texts):
    """ONE client process, ONE path: the file is re-written with each text in turn and parsed again"""
    d = Path(tempfile.mkdtemp(dir=ctx.scratch))
    (d / 'in.pkl').write_bytes(pickle.dumps(texts))
    p = subprocess.run(['timeout', '900', sys.executable, '-B', '-m', 'lib.c10_report', '--history', str(d / 'in.pkl'), str(d / 'out.pkl')],
                       env=dict(os.environ, PYTHONHASHSEED='0'), capture_output=True, text=True)
    if p.returncode != 0:
        raise RuntimeError('client history failed: ' + (p.stdout + p.stderr)[-1500:])
    return pickle.loads((d / 'out.pkl').read_bytes())


def _history_main(argv):
    from geophires_x_client.geophires_x_result import GeophiresXResult
    logging.disable(logging.CRITICAL)
    texts = pickle.loads(Path(argv[2]).read_bytes())
    path = str(Path(argv[2]).parent / 'report.out')
    out = []
    for t in texts:
        with open(path, 'w', encoding='ascii', newline='') as f:
            f.write(t)
        out.append(observe(path))
    Path(argv[3]).write_bytes(pickle.dumps(out))


def named_runs(ctx, runs):
    """simulate [(input text, report file name)] through GEOPHIRESv3.main in ONE directory (one process), then read every
    report and the .json GeophiresXResult.json_output_file_path points to -> [{'report', 'json', 'json_name', 'files', 'error'}]"""
    d = Path(tempfile.mkdtemp(dir=ctx.scratch))
    (d / 'in.pkl').write_bytes(pickle.dumps(runs))
    env = dict(os.environ, PYTHONHASHSEED='0', GEOPHIRES_X_VERIF='0')
    p = subprocess.run(['timeout', '900', sys.executable, '-B', '-m', 'lib.c10_report', '--runs', str(d / 'in.pkl'), str(d / 'out.pkl')],
                       env=env, capture_output=True, text=True)
    if p.returncode != 0:
        raise RuntimeError('named runs failed: ' + (p.stdout + p.stderr)[-1500:])
    return pickle.loads((d / 'out.pkl').read_bytes())


def _runs_main(argv):
    logging.disable(logging.CRITICAL)
    import geophires_x.Model  # noqa: F401
    from geophires_x import GEOPHIRESv3
    from geophires_x_client.geophires_x_result import GeophiresXResult
    runs = pickle.loads(Path(argv[2]).read_bytes())
    d = Path(argv[2]).parent / 'case'
    d.mkdir()
    errors = []
    for k, (text, name) in enumerate(runs):
        inp = d / f'input{k}.txt'
        inp.write_text(text)
        cwd, av, so = os.getcwd(), sys.argv, sys.stdout
        sys.argv, sys.stdout = ['', str(inp), str(d / name)], io.StringIO()
        try:
            GEOPHIRESv3.main(enable_geophires_logging_config=False)
            errors.append(None)
        except BaseException as e:  # noqa
            errors.append(f'{type(e).__name__}: {e}'[:200])
        finally:
            sys.argv, sys.stdout = av, so
            os.chdir(cwd)
    out = []
    for (text, name), err in zip(runs, errors):
        rp = d / name
        jp = GeophiresXResult(str(rp)).json_output_file_path if rp.exists() else rp.with_suffix('.json')
        out.append({'report': rp.read_text() if rp.exists() else None, 'json': Path(jp).read_text() if Path(jp).exists() else None,
                    'json_name': Path(jp).name, 'files': sorted(x.name for x in d.iterdir()), 'error': err})
    Path(argv[3]).write_bytes(pickle.dumps(out))


def _main(argv):
    if argv[1] == '--history':
        return _history_main(argv)
    if argv[1] == '--runs':
        return _runs_main(argv)
    from concurrent.futures import ProcessPoolExecutor
    logging.disable(logging.CRITICAL)
    import geophires_x_client.geophires_x_result  # noqa: F401  (once, before the workers are forked)
    texts = pickle.loads(Path(argv[1]).read_bytes())
    workdir = str(Path(argv[1]).parent)
    with ProcessPoolExecutor(max_workers=int(argv[3])) as ex:
        res = list(ex.map(_job, [(t, workdir) for t in texts], chunksize=max(1, len(texts) // 64)))
    Path(argv[2]).write_bytes(pickle.dumps(res))


# ------------------------------------------------------------------------------------------ independent tokenisation

SECTION_RE = re.compile(r'^\s*\*\*\*([^*].*?)\*\*\*\s*$')
COLON_RE = re.compile(r':(?= |$)')


NUMBER = r'[+-]?(?:\d+\.?\d*|\.\d+)(?:[eE][+-]?\d+)?'


def num(tok):
    """the figure a printed token denotes, read independently of the client: None for N/A-like tokens, int for digits,
    float otherwise; a token that is no figure at all comes back as ('UNREADABLE', tok) and never equals a client value"""
    if tok in ('N/A', 'nan', 'NaN', 'inf', '-inf', '+inf'):
        return None
    t = tok.replace(',', '')
    if re.fullmatch(r'[+-]?\d+', t):
        return int(t)
    if re.fullmatch(NUMBER, t):
        return float(t)
    return ('UNREADABLE', tok)


def value_unit(toks, name):
    """(value, unit) printed for a numeric field: a number, then the unit; '93.48%' is the number 93.48 with unit %"""
    if not toks:
        return None, ('count' if name.startswith('Number') else None)
    first, rest = toks[0], toks[1:]
    m = re.fullmatch('(' + NUMBER.replace('\\d', '[\\d,]') + r')(%)', first)
    if m:
        first, rest = m.group(1), ['%'] + rest
    return num(first), (' '.join(rest) if rest else ('count' if name.startswith('Number') else None))


def scalar_lines(report):
    """[(section, label, tokens, indent, raw value)] for every indented 'label: value [unit]' line"""
    sec, out = None, []
    for line in report.split('\n'):
        m = SECTION_RE.match(line)
        if m:
            sec = m.group(1)
            continue
        if line.strip() == 'Simulation Metadata':
            sec = 'Simulation Metadata'
        if not line.startswith(' '):
            continue
        body = line.strip()
        cuts = [m.start() for m in COLON_RE.finditer(body)]
        if not cuts:
            continue
        label, val = body[:cuts[-1]], body[cuts[-1] + 1:]
        out.append((sec, label, val.split(), len(line) - len(line.lstrip(' ')), val.strip()))
    return out


def eq_lines(report):
    """[(label, value)] for every indented 'label = value' line (label: text before the first ' = ')"""
    out = []
    for line in report.split('\n'):
        if line.startswith('  ') and ' = ' in line:
            label, val = line.split(' = ', 1)
            out.append((label.strip(), val))
    return out


def expected_fields(report, fields):
    """{(cat, name): ('none',) | ('one', value-dict) | ('ambiguous', [dicts])} from the tokenisation.
    A field is looked up in its own section first, anywhere in the report otherwise."""
    sl, el = scalar_lines(report), eq_lines(report)
    out = {}
    for cat, name, kind, indent in fields:
        if kind == 2:
            exps = [v for lab, v in el if lab == name]
        else:
            cands = [s for s in sl if s[1] == name and s[3] >= indent]
            cands = [s for s in cands if s[0] == cat] or cands
            exps = []
            for c in cands:
                if kind == 1:
                    exps.append({'value': c[4], 'unit': None})
                else:
                    v, u = value_unit(c[2], name)
                    exps.append({'value': v, 'unit': u})
        uniq = [e for i, e in enumerate(exps) if e not in exps[:i]]
        out[(cat, name)] = ('none',) if not uniq else ('one', uniq[0]) if len(uniq) == 1 else ('ambiguous', uniq)
    return out


def table_block(report, banner):
    """lines between the banner box and the next blank line, or None"""
    lines = report.split('\n')
    for i, l in enumerate(lines):
        if l.strip() == f'*  {banner}  *':
            j = i + 2
            blk = []
            while j < len(lines) and lines[j].strip() != '':
                blk.append(lines[j])
                j += 1
            return blk
    return None


SPAN_RE = re.compile(r'\S+(?: \S+)*')


def positional_headers(h3):
    """column titles of a three-line heading, rebuilt from character positions: a word group of line 2/3
    belongs to the column of line 1 whose centre is nearest"""
    spans = [[(m.start(), m.end(), m.group()) for m in SPAN_RE.finditer(l)] for l in h3]
    cols = [[t] for _, _, t in spans[0]]
    centres = [(a + b) / 2 for a, b, _ in spans[0]]
    for row in spans[1:]:
        for a, b, t in row:
            k = min(range(len(centres)), key=lambda i: abs(centres[i] - (a + b) / 2))
            cols[k].append(t)
    return [' '.join(c) for c in cols]


def expected_table(report, key):
    """(headings or None, rows, unit-line units) as printed, or None when the report has no such table"""
    for banner in BANNERS[key]:
        blk = table_block(report, banner)
        if blk is not None:
            break
    else:
        return None
    head, data = blk[:3], blk[3:]
    if data and re.fullmatch(r'_+', data[0].strip() or 'x'):
        data = data[1:]
    rows = [[num(t) for t in l.replace('|', ' ').split()] for l in data if l.strip()]
    heads = positional_headers(head) if key in (POWER, HEAT) and len(head) == 3 else None
    units = re.findall(r'\(([^()]*)\)', head[2]) if len(head) == 3 else []
    return heads, rows, units


def flatten_csv(result):
    """independent re-statement of the CSV contract: one row per non-empty field, one per table cell"""
    rows = [['Category', 'Field', 'Year', 'Value', 'Units']]
    s = lambda v: '' if v is None else (repr(v) if isinstance(v, float) else str(v))
    for cat, content in result.items():
        if isinstance(content, dict):
            for name, vu in content.items():
                if vu is None:
                    continue
                v, u = (vu['value'], vu['unit']) if isinstance(vu, dict) else (vu, '')
                rows.append([cat, name.replace(',', '\\,'), '', s(v), s(u)])
        else:
            for i, h in enumerate(content[0][1:], 1):
                m = re.fullmatch(r'(.*?) \(([^()]*)\)', h)
                nm, un = (m.group(1), m.group(2)) if m else (h, '')
                for r in content[1:]:
                    rows.append([cat, nm, s(r[0]), s(r[i]), un])
    return rows


# ------------------------------------------------------------------------------------------ Coq literals

def q_of_float(x):
    return Fraction(repr(float(x)))


def ival(v):
    if v is None:
        return 'INone'
    if isinstance(v, bool):
        raise ValueError('bool value')
    if isinstance(v, int):
        return f'IInt ({v})%Z'
    if isinstance(v, float):
        if v != v or v in (float('inf'), float('-inf')):
            return 'IStr "non-finite"'
        return 'IFlt ' + qconv.q(q_of_float(v))
    return 'IStr ' + CS(v)


def opt(x, f):
    return 'None' if x is None else f'(Some {f(x)})'


def ires(vu):
    if isinstance(vu, dict):
        return f'(IR ({ival(vu["value"])}) {opt(vu["unit"], CS)})'
    return f'(IR ({ival(vu)}) None)'


def rows_lit(rows):
    return '[' + '; '.join('[' + '; '.join(ival(v) for v in r) + ']' for r in rows) + ']'


def strlist(xs):
    return '[' + '; '.join(CS(x) for x in xs) + ']'


def impl_report_lit(res, fields, carbon_name, legacy_name):
    """Coq term of type impl_report for a client result (None when the constructor raised)"""
    if res is None:
        return 'IRep [] None None None None None None'
    fl = '[' + '; '.join(opt(res[c].get(n), ires) for c, n, _, _ in fields) + ']'
    prof = lambda t: 'None' if t is None else f'(Some ({strlist(t[0] or [])}, {rows_lit(t[1:])}))'
    tab = lambda t: 'None' if t is None else f'(Some {rows_lit(t[1:])})'
    if legacy_name in res:
        carbon = f'(Some (true, {rows_lit(res[legacy_name][1:])}))'
    elif carbon_name in res:
        carbon = f'(Some (false, {rows_lit(res[carbon_name][1:])}))'
    else:
        carbon = 'None'
    return (f'IRep {fl}\n   {prof(res.get(POWER))}\n   {prof(res.get(HEAT))}\n   {tab(res.get(EXT))}\n   {tab(res.get(REV))}\n'
            f'   {carbon}\n   {tab(res.get(SDAC))}')


def csv_text(v):
    return '' if v is None else (repr(v) if isinstance(v, float) else str(v))


def cats_lit(result):
    """Coq term list (string * catval string): the result with every value as csv.writer would write it"""
    items = []
    for cat, content in result.items():
        if isinstance(content, dict):
            fs = []
            for name, vu in content.items():
                if vu is None:
                    fs.append(f'({CS(name)}, None)')
                elif isinstance(vu, dict):
                    fs.append(f'({CS(name)}, Some ({CS(csv_text(vu["value"]))}, {opt(vu["unit"], CS)}))')
                else:
                    fs.append(f'({CS(name)}, Some ({CS(csv_text(vu))}, None))')
            items.append(f'({CS(cat)}, CFields [' + '; '.join(fs) + '])')
        else:
            rows = '[' + '; '.join('[' + '; '.join(CS(csv_text(v)) for v in r) + ']' for r in content[1:]) + ']'
            items.append(f'({CS(cat)}, CTable {strlist(content[0] or [])} {rows})')
    return '[' + ';\n    '.join(items) + ']'


def csv_rows_lit(text):
    """Coq term option (list (csvrow string)) read back from the text as_csv() returned
    (consecutive rows with the same category, field and unit are grouped to keep the literal small)"""
    if text is None:
        return 'None'
    rows = list(csv.reader(io.StringIO(text)))
    if not rows or rows[0] != ['Category', 'Field', 'Year', 'Value', 'Units']:
        return '(Some [CSV "bad header" "" None "" ""])'
    groups = []
    for r in rows[1:]:
        r = r if len(r) == 5 else ['bad row', '', '', '', '']
        key = (r[0], r[1], r[4])
        if not groups or groups[-1][0] != key:
            groups.append((key, []))
        # a field row has an empty year (csv cannot tell '' from None; as_csv writes '' for fields only)
        groups[-1][1].append(f'({"None" if r[2] == "" else "Some " + CS(r[2])}, {CS(r[3])})')
    return '(Some (expand_groups [' + ';\n    '.join(
        f'({CS(k[0])}, {CS(k[1])}, {CS(k[2])}, [' + '; '.join(cells) + '])' for k, cells in groups) + ']))'


def line_lit(line):
    """Coq term for one report line; runs of >= 4 blanks are written as a number (Model.ResultParserFast.unpack)"""
    parts = re.split(r'( {4,})', line)      # text, blanks, text, blanks, ...
    segs, n = [], 0
    for i, p in enumerate(parts):
        if i % 2:
            n = len(p)
        elif p or n:
            segs.append(f'({n}%nat, {CS(p)})')
            n = 0
    if n:
        segs.append(f'({n}%nat, "")')
    return CS(line) if len(segs) == 1 and segs[0].startswith('(0%nat,') or not segs else 'unpack [' + '; '.join(segs) + ']'


def text_lit(text):
    """Coq term of type string for a report, line by line"""
    pieces = text.split('\n')
    return '(join_nl [' + ';\n '.join(line_lit(x) for x in pieces[:-1]) + '] ++ ' + line_lit(pieces[-1]) + ')'


# ------------------------------------------------------------------------------------------ synthetic reports

def wild_number(rnd, like):
    """a figure the writers' formats can produce for extreme quantities: over-wide, negative, huge, tiny,
    thousands separators, N/A; `like` is the token being replaced (keeps int-ness where it matters)"""
    x = rnd.choice([1, -1]) * rnd.choice([0.0, 0.004, 0.5, 7.25, 123.456, 98765.4321, 1.5e9, 3.25e13]) * rnd.random()
    k = rnd.random()
    if k < 0.08:
        return 'N/A'
    if k < 0.18:
        return f'{x:,.2f}'
    if re.fullmatch(r'-?\d+', like):
        return f'{x:10.0f}'.strip()
    d = len(like.split('.')[1].split('e')[0].split('E')[0]) if '.' in like else 2
    if k < 0.26:
        return f'{x:10.2E}'.strip()
    return f'{x:10.{d}f}'.strip()


SCALAR_LINE_RE = re.compile(r'^( +)(.*?:)( +)(\S+)( \S+)?( ?)$')
CELL_RE = re.compile(r'(?<![\w.(/^])-?\d[\d,]*\.?\d*(?![\w.)/%^])')


def synthesize(rnd, report):
    """a variant of a real report with the same layout and other figures: values that overflow their column,
    negative / huge / N/A entries, different label padding, some sections removed.  A label printed in two
    sections keeps one value (as the writer prints one quantity), with independent padding."""
    out, chosen = [], {}
    in_table, cur = False, None
    secs = [m.group(1) for m in (SECTION_RE.match(l) for l in report.split('\n')) if m]
    drop = set(rnd.sample(secs, rnd.randint(1, min(3, len(secs))))) if secs and rnd.random() < 0.3 else set()
    for line in report.split('\n'):
        m = SECTION_RE.match(line)
        if m:
            cur, in_table = m.group(1), False
        if line.strip().startswith('*  ') and line.strip().endswith('  *'):
            in_table, cur = True, None
        if cur in drop:
            continue
        if in_table and re.match(r'^\s*\d+\s', line):
            p = rnd.choice([0.0, 0.15, 0.6])
            line = CELL_RE.sub(lambda mm: wild_number(rnd, mm.group()) if mm.start() > 4 and rnd.random() < p else mm.group(),
                               line).rstrip()
        elif not in_table:
            sm = SCALAR_LINE_RE.match(line)
            if sm and re.fullmatch(r'-?[\d,]*\.?\d+(e[+-]?\d+)?|N/A', sm.group(4), re.I) \
                    and sm.group(2) not in ('Simulation Date:', 'Simulation Time:'):
                if sm.group(2) not in chosen:
                    chosen[sm.group(2)] = wild_number(rnd, sm.group(4)) if rnd.random() < 0.5 else sm.group(4)
                pad = ' ' * rnd.choice([1, 2, len(sm.group(3)), len(sm.group(3)), len(sm.group(3)) + 7])
                line = sm.group(1) + sm.group(2) + pad + chosen[sm.group(2)] + (sm.group(5) or '') + sm.group(6)
        out.append(line)
    return '\n'.join(out)


if __name__ == '__main__':
    _main(sys.argv)
