"""Monte Carlo harness shared by C13 and C14: builds settings files, runs the real driver through tools/lib/mc_driver.py
(a process of its own per job) and parses what it left behind, independently of the driver's own parsing."""
import json
import os
import subprocess
from fractions import Fraction
from pathlib import Path

from . import framework as fw

DRIVER = Path(__file__).with_name('mc_driver.py')
MC_TESTS = fw.REPO / 'tests' / 'geophires_monte_carlo_tests'
CONTINUOUS = ('normal', 'uniform', 'triangular', 'lognormal')
DISTS = {'normal': 'DNormal', 'uniform': 'DUniform', 'triangular': 'DTriangular', 'lognormal': 'DLognormal',
         'binomial': 'DBinomial'}

# HIP-RA-X: inputs that may be sampled (distribution word, fields) - all inside the parameter ranges - and outputs
HIPRAX_INPUTS = {
    'Reservoir Temperature': [('normal', [150, 5]), ('uniform', [130, 170]), ('triangular', [130, 145, 170])],
    'Rejection Temperature': [('uniform', [20, 33]), ('triangular', [20, 20, 33])],
    'Reservoir Porosity': [('uniform', [9.0, 28.0]), ('normal', [18, 1.5])],
    'Reservoir Area': [('uniform', [50.0, 120.0]), ('lognormal', [4.4, 0.1])],
    'Reservoir Thickness': [('uniform', [0.122, 0.299]), ('triangular', [0.122, 0.299, 0.299])],
    'Reservoir Life Cycle': [('binomial', [40, 0.6])],
    'Verif Unused A': [('lognormal', [-11, 0.5])],       # unknown names are ignored by HIP-RA-X: exercise tiny values
    'Verif Unused B': [('normal', [0, 1000]), ('binomial', [3, 0.5])],   # ... negative values and small integers
}
# '#': the value of the base file (HIP-RA-X example1: temperature 250, rejection 60, area 55, thickness 0.25, life cycle 25)
HIPRAX_HASH_INPUTS = {
    'Reservoir Temperature': [('normal', ['#', 5])],
    'Rejection Temperature': [('uniform', [20, '#'])],
    'Reservoir Area': [('triangular', [40, '#', 70])],
    'Reservoir Thickness': [('uniform', ['#', 0.299])],
    'Reservoir Life Cycle': [('binomial', ['#', 0.6])],
}
HIPRAX_OUTPUTS = ['Reservoir Volume (reservoir)', 'Stored Heat (reservoir)', 'Stored Heat (rock)', 'Stored Heat (fluid)',
                  'Available Heat (reservoir)', 'Producible Heat (reservoir)', 'Producible Electricity (reservoir)',
                  'Recovery Factor (reservoir)', 'Specific Enthalpy (fluid)', 'Reservoir Pressure', 'Reservoir Depth',
                  'Producible Electricity/Unit Area (reservoir)']


def hiprax_base():
    return (MC_TESTS / 'HIP-RA-X_example1.txt').read_text()


def make_settings(rnd, iterations, n_inputs=None, n_outputs=None, inputs=None, outputs=None, hash_share=0.0, output_file=None):
    """-> settings text.  Both comma styles of the shipped settings files ('X, normal' and 'X,normal') are produced;
    with probability hash_share an input takes a parameter from the base file ('#'); output_file adds an MC_OUTPUT_FILE line
    ('{JOBDIR}' in it is replaced by the job directory when the job is run)."""
    names = list(HIPRAX_INPUTS)
    if inputs is None:
        chosen = rnd.sample(names, n_inputs or rnd.randint(2, 6))
        inputs = [(n,) + rnd.choice(HIPRAX_HASH_INPUTS[n] if n in HIPRAX_HASH_INPUTS and rnd.random() < hash_share else HIPRAX_INPUTS[n])
                  for n in names if n in chosen]
    if outputs is None:
        outputs = sorted(rnd.sample(HIPRAX_OUTPUTS, n_outputs or rnd.randint(1, 4)), key=HIPRAX_OUTPUTS.index)
    lines = []
    for name, word, fields in inputs:
        sep = rnd.choice([', ', ','])
        lines.append(f'INPUT, {name},{sep[1:]}{word}, ' + ', '.join(x if isinstance(x, str) else repr(x) for x in fields))
    lines += [f'OUTPUT, {o}' for o in outputs]
    if output_file:
        lines.insert(rnd.randint(0, len(lines)), f'MC_OUTPUT_FILE, {output_file}')
    lines.insert(rnd.randint(0, len(lines)), f'ITERATIONS, {iterations}')
    return '\n'.join(lines) + '\n'


def parse_settings_raw(text):
    """Independent reading of a settings file, as text: INPUT field lists (name stripped, the rest raw), OUTPUT labels,
    ITERATIONS text and MC_OUTPUT_FILE text (the last line of a kind governs)."""
    inputs, outputs, iterations, output_file = [], [], None, None
    for line in text.splitlines():
        p = line.strip().split(',')
        key, val = p[0], p[1].strip()
        if key.startswith('INPUT'):
            inputs.append([val] + p[2:])
        elif key.startswith('OUTPUT'):
            outputs.append(val)
        elif key.startswith('ITERATIONS'):
            iterations = val
        elif key.startswith('MC_OUTPUT_FILE'):
            output_file = val
    return inputs, outputs, iterations, output_file


def resolve_hash(fields, base_text):
    """'#' in an INPUT line: -> (fields with the first '#' field replaced, source line of the base file or None).
    The value is the second comma field of the first base-file line that starts with the parameter name."""
    idx = next((i for i, f in enumerate(fields) if '#' in f), None)
    src = None if idx is None else next((ln for ln in base_text.splitlines(True) if ln.startswith(fields[0])), None)
    if src is None:
        return list(fields), None
    return fields[:idx] + [src.split(',')[1]] + fields[idx + 1:], src


def simulated_value(base_text, name):
    """The value the simulator uses for a parameter: the last non-comment line whose name field is the name (C12)."""
    val = None
    for ln in base_text.splitlines():
        ln = ln.strip()
        p = ln.split(',')
        if not ln.startswith(('#', '--', '*')) and len(p) >= 2 and p[0].strip() == name:
            val = p[1].strip()
    return val


def parse_settings(text, base=None):
    """inputs [(name, word, [float fields])] ('#' resolved through the base file when given), outputs, iterations."""
    raw, outputs, iterations, _ = parse_settings_raw(text)
    inputs = []
    for f in raw:
        f = resolve_hash(f, base)[0] if base is not None else f
        inputs.append((f[0], f[1], [float(x) for x in f[2:]]))
    return inputs, outputs, int(iterations or 0)


def corpus_specs(pid, quick=False):
    """corpus/<pid>/*.json -> job specs (name, st, W, mode, program, base), run before the generated ones;
    a seed marked "tier": "thorough" is left out of the quick tier (its class is covered there by another seed)"""
    out = []
    for f in sorted((fw.VERIF / 'corpus' / pid).glob('*.json')):
        d = json.loads(f.read_text())
        if quick and d.get('tier') == 'thorough':
            continue
        base = d.get('base')
        if 'base_file' in d:
            base = (fw.REPO / d['base_file']).read_text()
        if 'base_rstrip_then_append' in d:
            base = base.rstrip('\n') + d['base_rstrip_then_append']
        out.append({'name': d['name'], 'st': d['settings'], 'st2': d.get('settings2'), 'W': d['W'], 'mode': d.get('mode', 'pool'),
                    'program': d.get('program', 'HIP_RA_X'), 'base': base, 'default_output': d.get('default_output', False)})
    return out


def dist_of(word):
    w = word.strip()
    return next((d for d in DISTS if w.startswith(d)), None)


class Run:
    def __init__(self, d):
        self.__dict__.update(d)

    @property
    def ok_tasks(self):
        return [t for t in self.tasks if t['status'] == 'ok']


TOY = Path(__file__).with_name('mc_toy_sim.py')
TOY_BASE = 'Toy A, 0.5\nToy B, 2.0\n'


def run_job(ctx, name, settings, W=16, mode='pool', program='HIP_RA_X', base=None, timeout=900, settings2=None, default_output=False):
    d = ctx.scratch / f'mc_{name}'
    d.mkdir()
    (d / 'base.txt').write_text(base if base is not None else hiprax_base())
    settings_run = settings.replace('{JOBDIR}', str(d))
    (d / 'settings.txt').write_text(settings_run)
    if parse_settings_raw(settings_run)[3]:
        Path(parse_settings_raw(settings_run)[3]).parent.mkdir(parents=True, exist_ok=True)
    job = {'program': program, 'base': str(d / 'base.txt'), 'settings': str(d / 'settings.txt'),
           'result': str(d / 'result.txt'), 'W': W, 'mode': mode}
    if program == 'TOY':
        job['code_file'] = str(TOY)
    if default_output:
        job['default_output'] = True
    first = None
    if settings2 is not None:       # mode 'api2': `settings` is the first call, `settings2` the second - the run that is analysed
        (d / 'settings2.txt').write_text(settings2)
        job['settings2'] = str(d / 'settings2.txt')
        first, settings, settings_run = settings, settings2, settings2
    (d / 'job.json').write_text(json.dumps(job))
    p = subprocess.run(['timeout', str(timeout), fw.PY, '-B', str(DRIVER), str(d)], capture_output=True, text=True,
                       env=dict(os.environ, PYTHONPATH=f'{fw.SRC}:{fw.VERIF / "tools"}'))
    out = d / 'out.json'
    if not out.exists():
        raise RuntimeError(f'Monte Carlo driver produced no observation (rc={p.returncode}): {p.stderr[-600:]}')
    o = json.loads(out.read_text())
    res = Path(parse_settings_raw(settings_run)[3] or d / 'result.txt')      # an MC_OUTPUT_FILE line overrides the argument
    js = res.with_suffix('.json')
    stray = [str(q.relative_to(d)) for q in d.rglob('*.json')      # summaries written anywhere else in the job directory
             if q not in (js, d / 'job.json', d / 'out.json') and q.relative_to(d).parts[0] not in ('tmp', 'log')]
    api = o.get('api') or []
    rt = api[-1]['result_text'] if default_output and api else (res.read_text() if res.exists() else None)
    jt = api[-1]['json_text'] if default_output and api else (js.read_text() if js.exists() else None)
    return Run({'name': name, 'dir': d, 'default_output': default_output, 'settings': settings, 'settings_run': settings_run, 'W': W, 'mode': mode, 'program': program,
                'base': base if base is not None else hiprax_base(), 'main_error': o['main_error'], 'tasks': o['tasks'], 'api': o.get('api') or [], 'settings_first': first, 'stray_json': stray, 'result_path': str(res),
                'result_text': rt, 'json_text': jt})


def parse_result(text):
    """Result file -> header columns, data rows, trailing statistics text.  A data row is 'o1, o2, (n:v;n:v;)'."""
    lines = text.split('\n')
    header = [c.strip() for c in lines[0].split(',')]
    rows, i = [], 1
    while i < len(lines) and lines[i].rstrip().endswith(')') and '(' in lines[i]:
        line = lines[i]
        outs_part, _, ins_part = line.rstrip()[:-1].rpartition('(')
        outs = [x.strip() for x in outs_part.strip().rstrip(',').split(',')] if outs_part.strip() else []
        ins = [tuple(x.rsplit(':', 1)) for x in ins_part.split(';') if x]
        rows.append({'line': line, 'outs': outs, 'ins': ins})
        i += 1
    return header, rows, '\n'.join(lines[i:])


def task_entries(task):
    """(numpy function, value text) of every draw of a task, in order (seed calls excluded)."""
    return [(c[0], c[2]) for c in task['trace'] if c[0] != 'seed']


def match_rows(run, rows):
    """Pair rows with the ok tasks that produced them through the sampled values.  -> (pairs, foreign rows, tasks without row)"""
    by_vals = {}
    for t in run.ok_tasks:
        by_vals.setdefault(tuple(v for _, v in task_entries(t)), []).append(t)
    for ts in by_vals.values():     # identical draws (fork-copy): let the tasks the lock layer complained about stay unmatched
        ts.sort(key=lambda t: lock_loss_reason(t) is not None)
    pairs, foreign = [], []
    for r in rows:
        ts = by_vals.get(tuple(v for _, v in r['ins']))
        if ts:
            pairs.append((r, ts.pop(0)))
        else:
            foreign.append(r)
    return pairs, foreign, [t for ts in by_vals.values() for t in ts]


def lock_loss_reason(task):
    """Why the lock layer dropped this task's row, or None when the lock layer reports a clean append."""
    lk = task.get('lock')
    if not lk:
        return None
    if not lk['acquired'] or lk['fd_none']:    # the known class is: gave up after waiting the full 10 s
        return 'lock-timeout' if task['t1'] - task['t0'] >= 9.5 else 'lock-gave-up-early'
    if not lk.get('released', True):
        return 'lock-double-acquire'
    return None


def qF(text):
    return Fraction(float(text))


# ---------------------------------------------------------------------------------------------- independent re-simulation
def _resim_init(tmp):
    os.environ['TMPDIR'] = tmp
    import tempfile
    tempfile.tempdir = tmp
    import logging
    logging.disable(logging.CRITICAL)
    dn = os.open(os.devnull, os.O_WRONLY)
    os.dup2(dn, 1)
    os.dup2(dn, 2)


def _resim(args):
    """base input text + 'name, value' lines through the program's own client -> report text (None when it raises)"""
    program, base, entries, tmp, k = args
    path = Path(tmp, f'resim_{os.getpid()}_{k}.txt')
    path.write_text(base + ''.join(f'{n}, {v}\n' for n, v in entries))
    try:
        if program == 'TOY':
            from lib.mc_toy_sim import simulate
            return simulate(path.read_text())
        if program == 'GEOPHIRES':
            from geophires_x_client import GeophiresInputParameters, GeophiresXClient
            out = GeophiresXClient().get_geophires_result(GeophiresInputParameters(from_file_path=path)).output_file_path
        else:
            from hip_ra import HipRaInputParameters
            from hip_ra_x import HipRaXClient
            out = HipRaXClient().get_hip_ra_result(HipRaInputParameters(file_path_or_params_dict=path)).output_file_path
        with open(out) as f:        # same decoding as work_package
            return f.read()
    except BaseException as e:  # noqa
        return None
    finally:
        path.unlink(missing_ok=True)


def resimulate(ctx, jobs, workers=16):
    """jobs: [(program, base text, entries)] -> report texts, one pool of workers for all of them"""
    from concurrent.futures import ProcessPoolExecutor
    tmp = ctx.scratch / 'resim'
    tmp.mkdir(exist_ok=True)
    jobs = [(p, b if b.endswith('\n') else b + '\n', e, str(tmp), k) for k, (p, b, e) in enumerate(jobs)]
    if not jobs:
        return []
    with ProcessPoolExecutor(max_workers=min(workers, len(jobs)), initializer=_resim_init, initargs=(str(tmp),)) as ex:
        return list(ex.map(_resim, jobs, chunksize=max(1, len(jobs) // (workers * 3))))


def run_jobs(ctx, specs, parallel=3):
    """specs: [dict(name, st, W, program?, base?, mode?)] -> Runs, a few driver processes at a time"""
    from concurrent.futures import ThreadPoolExecutor
    with ThreadPoolExecutor(max_workers=parallel) as ex:
        return list(ex.map(lambda s: run_job(ctx, s['name'], s['st'], W=s['W'], mode=s.get('mode', 'pool'), program=s.get('program', 'HIP_RA_X'),
                                             base=s.get('base'), settings2=s.get('st2'), default_output=s.get('default_output', False)), specs))


def report_tokens(report, outputs):
    """Independent reading of a report: for every requested label the first token after the colon of THE line that
    carries '  <label>: ' (None when there is no such line or more than one)."""
    out = []
    for o in outputs:
        hits = [ln for ln in report.splitlines() if f'  {o}: ' in ln]
        out.append(hits[0].split(':')[1].split()[0] if len(hits) == 1 and hits[0].split(':')[1].split() else None)
    return out


def parse_stats_text(rest, outputs):
    """statistics block of the result file -> {output: {stat: exact decimal text}}"""
    lines, res = rest.split('\n'), {}
    for o in outputs:
        if f'{o}:' in lines:
            i = lines.index(f'{o}:')
            res[o] = {ln.split(':')[0].strip(): ln.split(':')[1].strip().replace(',', '') for ln in lines[i + 1:i + 7] if ':' in ln}
    return res
