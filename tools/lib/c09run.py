"""C09 runner: like lib.runner.run_many, plus a second snapshot of the Model taken when Outputs.PrintOutputs
returns (the print-time state: after the unit-conversion pass).  The repository is not modified: the wrapper
is installed in the worker process only."""
import os
from concurrent.futures import ProcessPoolExecutor

from . import runner, snapshot


def _take_post(model):
    snap = snapshot.take(model)
    # the cash-flow table reads economics outputs through OutputParameterDict (helper o()), which the conversion pass may rebind
    d = {}
    for name, p in getattr(model.economics, 'OutputParameterDict', {}).items():
        d[name] = {'name': p.Name, 'display_name': p.display_name, 'value': snapshot._val(p.value), 'cur': snapshot._unit(p.CurrentUnits),
                   'pref': snapshot._unit(p.PreferredUnits)}
    snap['economics']['__outdict__'] = d
    return snap


def _init_worker(scratch):
    runner._init_worker(scratch)
    import geophires_x.Model  # noqa: F401  (circular import: Model first)
    from geophires_x import Outputs as O, SUTRAOutputs as SO
    for cls in (O.Outputs, SO.SUTRAOutputs):      # the main writer and the one SUTRA runs use instead
        _wrap(cls)


def _wrap(cls):
    orig = cls.__dict__.get('PrintOutputs')
    if orig is None or getattr(orig, '_c09_wrapped', False):
        return

    def wrapped(self, model):
        snapshot.LAST['snap_post'] = None
        try:
            return orig(self, model)
        finally:
            try:
                snapshot.LAST['snap_post'] = _take_post(model)
            except Exception as e:  # noqa
                snapshot.LAST['snap_post_error'] = repr(e)

    wrapped._c09_wrapped = True
    cls.PrintOutputs = wrapped


def _job(args):
    idx, text, scratch = args
    snapshot.LAST['snap_post'] = None
    r = runner.run_text(text, scratch, False)
    r['snap_post'] = snapshot.LAST.get('snap_post')
    r['idx'] = idx
    return r


def run_many(ctx, texts, workers=16):
    if not texts:
        return []
    scratch = str(ctx.scratch)
    jobs = [(i, t, scratch) for i, t in enumerate(texts)]
    with ProcessPoolExecutor(max_workers=min(workers, len(jobs)), initializer=_init_worker, initargs=(scratch,)) as ex:
        return list(ex.map(_job, jobs, chunksize=max(1, len(jobs) // (workers * 4))))
