"""Cheaper Coq literals for large numeric case files (used by C02).

Measured with coqc 8.16.1: elaborating a rational literal of a binary64 value costs ~1.5 ms written `(n#d)` in decimal
and ~0.8 ms written `(Qmake 0x..%Z 0x..%positive)` (the decimal number notation is half of the cost; the rest is the
~100 constructors of the term).  Whole-run snapshots carry thousands of floats, so this module writes hexadecimal
literals and uses small shards (one coqc process per shard, 16 in parallel).  Same terms, same kernel evaluation as
qconv.q / framework.kernel_cases - only the concrete syntax differs."""
from . import flatcorr, framework as fw, qconv


def q(x):
    f = qconv.F(x)
    n = f.numerator
    z = f'0x{n:x}%Z' if n >= 0 else f'(-0x{-n:x})%Z'
    return f'(Qmake {z} 0x{f.denominator:x}%positive)'


def qlist(xs):
    return '[' + '; '.join(q(x) for x in xs) + ']'


def res_lit(r):
    kind, v = r
    return 'Vals ' + qlist(v) if kind == 'V' else f'Err ({int(v)})%Z'


def kernel_cases(ctx, name, requires, run_expr, tol, cases, shard=40):
    """framework.kernel_cases with hexadecimal literals: cases = [(flat inputs, res)], returns failing indices."""
    def body(lo, hi):
        return f'run_cases {q(tol)} ({run_expr}) [\n ' + \
               ';\n '.join('(' + qlist(i) + ', ' + res_lit(r) + ')' for i, r in cases[lo:hi]) + ']'
    return fw.kernel_eval(ctx, name, ['Base.Flat'] + list(requires), body, len(cases), shard)


def run(ctx, part, requires, run_expr, tol, cases, kind='property', key_of=None, what=None, shard=40, max_report=5, failing=None):
    """flatcorr.run with hexadecimal literals (same case dicts, same violation records)."""
    if failing is None:     # (a caller may have evaluated several parts concurrently and pass the verdicts in)
        failing = kernel_cases(ctx, part, requires, run_expr, tol, [(c['flat'], flatcorr.res_of(c['impl'])) for c in cases], shard)
    ctx.count(part, evaluations=len(cases), nontrivial_keys=[c['nontrivial'] for c in cases if c.get('nontrivial') is not None])
    for c in cases[:2]:
        ctx.sample(part, c['desc'])
    for i in failing[:max_report]:
        c = cases[i]
        ctx.violate(kind, key_of(c) if key_of else f'{part}:{i}',
                    (what or f'model {run_expr} and implementation disagree') + f' on {str(c["desc"])[:600]}',
                    inp={'part': part, 'desc': c['desc']}, observed=flatcorr._show(c['impl']),
                    expected=f'value of Coq model {run_expr} within {float(tol)} (see replay)')
    if len(failing) > max_report:
        ctx.note(f'{part}: {len(failing)} disagreeing cases, first {max_report} reported')
    return failing
