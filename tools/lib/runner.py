"""Run GEOPHIRES-X through GEOPHIRESv3.main() (the path every entry point uses) in worker processes and
return (snapshot taken by the hook, report text, error)."""
import io
import logging
import os
import sys
import time
import traceback
import uuid
from concurrent.futures import ProcessPoolExecutor
from pathlib import Path

from . import snapshot


def _init_worker(scratch):
    os.environ['GEOPHIRES_X_VERIF'] = '1'
    os.environ['GEOPHIRES_X_VERIF_OBSERVER'] = 'lib.snapshot:observe'
    os.environ['TMPDIR'] = scratch
    logging.disable(logging.CRITICAL)
    import warnings
    warnings.simplefilter('ignore')


def run_text(input_text, scratch, want_json=False, keep_files=False):
    """One run in the current process. Returns dict(ok, error, snap, report, json, wall)."""
    from geophires_x import GEOPHIRESv3
    rid = uuid.uuid4().hex[:12]
    inp = Path(scratch, f'in_{rid}.txt')
    out = Path(scratch, f'out_{rid}.out')
    inp.write_text(input_text)
    stash_cwd, stash_argv = os.getcwd(), sys.argv
    sys.argv = ['', str(inp), str(out)]
    snapshot.LAST['snap'] = None
    res = {'ok': False, 'error': None, 'snap': None, 'report': None, 'json': None}
    t = time.time()
    old_stdout = sys.stdout
    sys.stdout = io.StringIO()
    try:
        GEOPHIRESv3.main(enable_geophires_logging_config=False)
        res['ok'] = True
    except SystemExit as e:
        res['error'] = f'SystemExit({e.code})'
    except BaseException as e:  # noqa
        res['error'] = f'{type(e).__name__}: {e}'
        res['trace'] = traceback.format_exc()[-1500:]
    finally:
        sys.stdout = old_stdout
        sys.argv = stash_argv
        os.chdir(stash_cwd)
    res['wall'] = time.time() - t
    res['snap'] = snapshot.LAST['snap']
    if out.exists():
        res['report'] = out.read_text(encoding='UTF-8', errors='replace')
    js = out.with_suffix('.json')
    if want_json and js.exists():
        res['json'] = js.read_text()
    if not keep_files:
        for p in (inp, out, js):
            try:
                p.unlink()
            except OSError:
                pass
    else:
        res['paths'] = (str(inp), str(out), str(js))
    return res


def _job(args):
    idx, text, scratch, want_json = args
    r = run_text(text, scratch, want_json)
    r['idx'] = idx
    return r


def run_many(ctx, texts, want_json=False, workers=16):
    """texts: list of input-file texts -> list of result dicts in the same order."""
    if not texts:
        return []
    scratch = str(ctx.scratch)
    jobs = [(i, t, scratch, want_json) for i, t in enumerate(texts)]
    with ProcessPoolExecutor(max_workers=min(workers, len(jobs)), initializer=_init_worker, initargs=(scratch,)) as ex:
        out = list(ex.map(_job, jobs, chunksize=max(1, len(jobs) // (workers * 4))))
    return out


def params_to_text(params):
    """params: list of (name, value) or dict -> input file text."""
    items = params.items() if isinstance(params, dict) else params
    return ''.join(f'{k}, {v}\n' for k, v in items)
