"""Input-file layout transformations shared by C12 (tokenizer level and whole-run level).

A file is a list of logical lines; a parameter line is ('p', name, value, tail) with tail = '' or ',<comment text>';
anything else is ('o', raw).  Every transformation keeps the parameter set {name: value} (last occurrence) and the
relative order of the add-on lines, so by property C12 the simulation result must not change."""

# str.isspace() code points (all of them, incl. U+00A0, U+2003, U+3000 ...) that are not line terminators for file.readlines()
WS = [' ', ' ', ' ', '\t', '\t', '\x0b', '\x0c', '\x1c', '\x1d', '\x1e', '\x1f', '\x85', '\xa0', '\xa0', '\u1680', '\u2000', '\u2003',
      '\u2009', '\u200a', '\u2028', '\u2029', '\u202f', '\u205f', '\u3000']
EOLS = {'lf': '\n', 'crlf': '\r\n', 'cr': '\r'}
CLASSES = ['perm', 'ws', 'comment', 'dup', 'eol', 'all']
BLOCK_CLASSES = ['block-first', 'block-last']   # whole runs only: the add-on block moved before / after everything else


def split_text(text):
    """text -> logical lines (own, deliberately simple splitter: used only to build variants)"""
    out = []
    for raw in text.replace('\r\n', '\n').replace('\r', '\n').split('\n'):
        s = raw.strip()
        if not s or s.startswith(('#', '--', '*')) or ',' not in s:
            out.append(('o', raw))
            continue
        parts = s.split(',', 2)
        out.append(('p', parts[0].strip(), parts[1].strip(), (',' + parts[2]) if len(parts) > 2 else ''))
    return out


def is_block(name):
    return name.startswith('AddOn')


LIST_NAMES = ('Gradients', 'Thicknesses')     # list-valued parameters without a position: re-read from the raw line


def _listlike(line):
    """list-valued parameters are re-parsed from the raw line (Parameter.ReadParameter): their comment needs its '--'"""
    t = line[3].lstrip(',').strip()
    return line[1] in LIST_NAMES or (bool(t) and (t[0].isdigit() or t[0] in '+-.'))


def render(lines, eol='\n', final=True):
    body = [(l[1] if l[0] == 'o' else f'{l[1]}, {l[2]}{l[3]}') if len(l) < 5 else l[4] for l in lines]
    return eol.join(body) + (eol if final and body else '')


def ws(rnd, lo=0, hi=3):
    return ''.join(rnd.choice(WS) for _ in range(rnd.randint(lo, hi)))


def t_perm(rnd, lines):
    block = [l for l in lines if l[0] == 'p' and is_block(l[1])]
    rest = [l for l in lines if not (l[0] == 'p' and is_block(l[1]))]
    rnd.shuffle(rest)
    out = list(rest)
    pos = sorted(rnd.randint(0, len(out)) for _ in block)
    for off, (p, l) in enumerate(zip(pos, block)):
        out.insert(p + off, l)
    return out


def t_block(rnd, lines, first):
    """the add-on block (own order kept) before / after all other lines, which are shuffled"""
    block = [l for l in lines if l[0] == 'p' and is_block(l[1])]
    rest = [l for l in lines if not (l[0] == 'p' and is_block(l[1]))]
    rnd.shuffle(rest)
    return block + rest if first else rest + block


def t_ws(rnd, lines):
    out, seen = [], {}      # identical logical lines get the identical decoration: verbatim repeats stay verbatim
    for l in lines:
        if l[0] == 'p':
            if l[:4] not in seen:
                seen[l[:4]] = f'{ws(rnd)}{l[1]}{ws(rnd)},{ws(rnd)}{l[2]}{ws(rnd)}{l[3]}{ws(rnd) if not l[3] else ""}'
            out.append(l[:4] + (seen[l[:4]],))
        else:
            out.append(l)
    return out


COMMENTS = [' -- note', ' a remark, with, commas', '--[unit] text', ' #1', '\t*', ' ', '', ' x']


def t_comment(rnd, lines):
    out = []
    for l in lines:
        if rnd.random() < 0.3:
            out.append(('o', rnd.choice(['', '   ', '# ' + 'comment, with comma', '-- Gradient 1, 999', '*** Reservoir Depth, 1 ***',
                                         ' \t# indented', 'no comma here'])))
        if l[0] == 'p' and not l[3] and not _listlike(l) and rnd.random() < 0.7:
            out.append(('p', l[1], l[2], ',' + rnd.choice(COMMENTS)))
        elif l[0] == 'p' and l[3] and not _listlike(l) and rnd.random() < 0.3:
            out.append(('p', l[1], l[2], l[3] + rnd.choice([', more', ' -- more', ','])))
        elif l[0] == 'p' and _listlike(l) and '--' not in l[3]:
            # list-valued line (Gradients, 50, 40): the comment needs its '--', but may then contain anything
            out.append(('p', l[1], l[2], l[3] + rnd.choice([', -- per segment, 0.5 km each', ',-- 1, 2, 3', ',\t--note', ', -- a, b -- c, 7'])))
        else:
            out.append(l)
    return out


def t_dup(rnd, lines, junk=('99999', '1e-3', 'junk', '-1', '0')):
    out = list(lines)
    params = [l for l in lines if l[0] == 'p']
    for n, l in enumerate(rnd.sample(params, min(len(params), rnd.randint(2, 4)))):
        i = out.index(l)
        j = i if is_block(l[1]) else rnd.randint(0, i)
        out.insert(j, ('p', l[1], l[2] if is_block(l[1]) else rnd.choice(junk), ''))
        if n % 2 == 0 and not is_block(l[1]):
            # set / override / set back: the governing last line is character-for-character a repeat of an earlier one
            out.insert(rnd.randint(0, j), l)
    return out


def variant(rnd, lines, cls):
    """-> (text, description)"""
    eol, final = '\n', True
    if cls in BLOCK_CLASSES:
        lines = t_block(rnd, lines, cls == 'block-first')
    if cls in ('perm', 'all'):
        lines = t_perm(rnd, lines)
    if cls in ('dup', 'all'):
        lines = t_dup(rnd, lines)
    if cls in ('comment', 'all'):
        lines = t_comment(rnd, lines)
    if cls in ('ws', 'all'):
        lines = t_ws(rnd, lines)
    if cls in ('eol', 'all'):
        eol = EOLS[rnd.choice(['crlf', 'cr', 'lf'] if cls == 'all' else ['crlf', 'cr'])]
        final = rnd.random() < 0.5
    return render(lines, eol, final)


def expected_map(lines):
    d = {}
    for l in lines:
        if l[0] == 'p':
            d[l[1]] = l[2]
    return d
