"""C06, second round: one-line list parameters, the post-read heuristics on whole runs, HIP-RA-X runs, profile tables of
the report under an output-unit request, and the coverage of theorem C06_catalogue on the regenerated catalogue.
The functions take the property module (tools/props/C06.py) as [m] to reuse its term builders and oracles."""
import io
import os
import re
import sys
from concurrent.futures import ProcessPoolExecutor
from fractions import Fraction as F

from . import c06_units as cu, framework as fw, qconv, runner


# ---------------------------------------------------------------------------------------------------------------
# one-line list parameters ("Gradients, 50, 40"; "Thicknesses, 1 kilometer, 2") through the real ReadParameter
# ---------------------------------------------------------------------------------------------------------------

def check_lists(m, ctx, d):
    rnd = ctx.rng
    cases = []
    for r in d['lists']:
        p = r['param']
        lo, hi = F(float(p.Min)), F(float(p.Max))
        for u in [None] + [u for u in r['units'] if u != '']:
            for form in ('plain', 'first', 'all', 'out-of-range'):
                if u is None and form in ('first', 'all'):
                    continue
                # elements written in unit u (or bare), equivalent values inside the range
                t = [lo + (hi - lo) * F(rnd.randint(100, 900), 1000) for _ in range(rnd.choice([1, 2, 3]))]
                if form == 'out-of-range':
                    t[0] = hi * 3 + 1
                held = r['cur'][1]            # ConvertUnits converts into the unit the list is held in (its CurrentUnits)
                xs = [m.to_unit(d, v, held, u) if u is not None else v for v in t]
                if any(x is None for x in xs):
                    xs = [F(3)] * len(t)
                txt = [m.sig7(x) for x in xs]
                suffix = [u is not None and (form == 'all' or (i == 0 and form in ('first', 'out-of-range'))) for i in range(len(t))]
                elems = [f'{a} {u}' if s else a for a, s in zip(txt, suffix)]
                o = cu.real_read_list(p, elems[0], f'{r["name"]}, ' + ', '.join(elems))
                cases.append({'row': r, 'u': u if suffix[0] else None, 'form': form, 'elems': elems, 'x': [F(float(a)) for a in txt],
                              'suffix': suffix, 'obs': o})
    terms = []
    for c in cases:
        r, p = c['row'], c['row']['param']
        spec = (f'(mkS KFloat {qconv.blit(r["currency"])} {m.cs(r["pref"])} {m.q(float(p.Min))} {m.q(float(p.Max))} 0 [])')
        st = f'(mkO {qconv.qlist([F(float(v)) for v in p.value])} {m.uref(r["cur"])} {m.cs(r["pref"])})'
        raw = '[' + '; '.join(f'({m.q(x)}, {qconv.blit(s)})' for x, s in zip(c['x'], c['suffix'])) + ']'
        u = f'(Some {m.cs(c["u"])})' if c['u'] is not None else 'None'
        terms.append(f'agree_output {m.q(m.TOL)} 0 (read_list_line gen_tables {spec} {st} {m.q(c["x"][0])} {u} {raw}) {m.oobs_term(c["obs"])}')
    bad = fw.kernel_bools(ctx, 'list-corr', m.REQ, terms, open_scope='Q_scope')
    accepted = sum(1 for c in cases if any(c['suffix']) and c['obs']['status'] == 'ok' and c['form'] != 'out-of-range')
    ctx.count('list-line-corr', evaluations=len(terms), nontrivial_keys=[(c['row']['name'], c['u'], c['form']) for c in cases],
              outcome={k: sum(1 for c in cases if (c['obs'].get('code') or 'ok') == k) for k in {c['obs'].get('code') or 'ok' for c in cases}},
              lines_with_a_unit_suffix_accepted=accepted)
    # should a line with unit suffixes ever be accepted, the stored numbers must denote what was written
    for c in cases:
        if any(c['suffix']) and c['obs']['status'] == 'ok' and c['form'] != 'out-of-range':
            held = c['obs']['cur'][1]
            want = [m.to_unit(d, x, c['u'], held) if s else x for x, s in zip(c['x'], c['suffix'])]
            got = c['obs']['vals']
            if len(got) != len(want) or any(w is None or abs(g - w) > F(1, 10 ** 6) * max(abs(g), abs(w)) for g, w in zip(got, want)):
                ctx.violate('property', f'list:value:{c["row"]["name"]}:{c["u"]}', f'"{c["row"]["name"]}, {", ".join(c["elems"])}" is stored as '
                            f'{[float(g) for g in got]} {held}', inp={'part': 'list', 'entry': f'{c["row"]["name"]}, ' + ', '.join(c['elems'])},
                            expected=[float(w) if w is not None else None for w in want], observed=[float(g) for g in got])
    for i in bad[:5]:
        c = cases[i]
        ctx.violate('corr', f'corr:list-line:{c["row"]["name"]}:{c["u"]}:{c["form"]}', f'Coq model of the one-line list reader and the implementation '
                    f'disagree on "{c["row"]["name"]}, {", ".join(c["elems"])}"', inp={'part': 'list', 'entry': f'{c["row"]["name"]}, ' + ', '.join(c['elems'])},
                    observed=str({k: v for k, v in c['obs'].items() if k != 'vals'})[:300])


# ---------------------------------------------------------------------------------------------------------------
# post-read heuristics (depth x1000, diameter > 2, impedance x1000) on whole runs: snapshot state vs the model,
# echo line vs the quantity written
# ---------------------------------------------------------------------------------------------------------------

HEUR = {  # parameter -> (snapshot component, attribute, model post-step, echo label regex, echo scale)
    'Reservoir Depth': ('reserv', 'depth', 'post_depth_back (post_depth', r'Well depth', 1),
    'Production Well Diameter': ('wellbores', 'prodwelldiam', 'post_diameter', r'Production well casing ID', 1),
    'Injection Well Diameter': ('wellbores', 'injwelldiam', 'post_diameter', r'Injection well casing ID', 1),
    'Reservoir Impedance': ('wellbores', 'impedance', 'post_impedance', r'Reservoir impedance', 1),
}


def check_heuristics(m, ctx, d):
    from . import configs
    rnd = ctx.rng
    base = [(k, v) for k, v in configs.synthetic(rnd, enduse=1, plant=2, resmodel=4, econ=1, nseg=1, addons=False, overpressure=False)
            if k not in ('Productivity Index', 'Injectivity Index', 'Reservoir Impedance', 'Maximum Temperature', 'Gradient 1', 'Reservoir Depth')]
    base += [('Reservoir Impedance', '0.1'), ('Maximum Temperature', '500'), ('Gradient 1', '40'), ('Reservoir Depth', '3')]
    dec = lambda lo, hi, k=3: format(rnd.randint(int(lo * 10 ** k), int(hi * 10 ** k)) / 10 ** k, 'g')
    entries = []
    for u, lo, hi in (('', 2, 4), ('kilometer', 2, 4), ('meter', 2000, 4000), ('ft', 7000, 13000), ('mile', 1.3, 2.4), ('centimeter', 200000, 400000)):
        entries.append(('Reservoir Depth', dec(lo, hi), u))
    for name in ('Production Well Diameter', 'Injection Well Diameter'):
        for u, lo, hi in (('', 6, 12), ('', 1.1, 1.9), ('in', 6, 12), ('in', 1.1, 1.9), ('meter', 0.15, 0.3), ('centimeter', 15, 30), ('ft', 0.5, 1)):
            entries.append((name, dec(lo, hi), u))
    for u in ('', 'GPa.s/m**3'):
        entries.append(('Reservoir Impedance', dec(0.05, 0.3), u))
    if ctx.quick:
        entries = [e for i, e in enumerate(entries) if e[0] != 'Injection Well Diameter' or i % 2]
    texts = [runner.params_to_text([(k, v) if k != name else (k, (x + ' ' + u).strip()) for k, v in base]) for name, x, u in entries]
    res = runner.run_many(ctx, texts)
    rows = {}
    terms, descs = [], []
    for (name, x, u), r, text in zip(entries, res, texts):
        comp, attr, post, label, _ = HEUR[name]
        ent = f'{name}, {(x + " " + u).strip()}'
        if not r['ok'] or not r['snap']:
            ctx.violate('property', f'heuristic:raises:{name}:{u or "no unit"}', f'the run with "{ent}" fails: {str(r["error"])[:200]}',
                        inp={'part': 'heuristic-run', 'entry': ent, 'input_file': text})
            continue
        cls = r['snap'][comp]['__class__']
        row = rows.setdefault((cls, name), next((p for p in d['params'] if p['name'] == name and p['cls'] == cls), None) or
                              next(p for p in d['params'] if p['name'] == name))
        rec = r['snap'][comp][attr]
        p = row['param']
        st0 = m.state_term(F(float(p.value)), row['cur'], bool(p.Provided))
        model = (f'(match read_param gen_tables {m.spec_term(row)} {st0} {m.q(F(float(x)))} {"(Some " + m.cs(u) + ")" if u else "None"} with '
                 f'ROk st => ROk ({post} st{")" * post.count("(")}) | RErr c => RErr c end)')
        cur = ('E', rec['cur']) if rec['cur'] is not None else ('N', '')
        obs = {'status': 'ok', 'value': rec['value'], 'cur': cur, 'provided': rec['provided']}
        terms.append(f'agree_state {m.q(m.TOL)} 0 {model} {m.obs_term(obs)}')
        descs.append((ent, name, u, obs))
        # the echo: the report line must denote what was written (impedance: the line prints value / 1000)
        ml = [l for l in (r['report'] or '').splitlines() if re.match(r'\s*' + label + r'\s*:', l)]
        for l in ml[:1]:
            mm = m.LINE.match(l)
            shown_ok = mm and m.same_quantity(d, x, u or row['pref'], mm['num'], (mm['unit'] or '').strip())
            small_as_metres = name.endswith('Diameter') and m.to_unit(d, F(x), u or row['pref'], row['pref']) <= 2
            if not shown_ok and not small_as_metres:
                ctx.violate('property', f'heuristic:echo:{name}:{u or "no unit"}', f'"{ent}" is echoed as "{l.strip()}"',
                            inp={'part': 'heuristic-run', 'entry': ent, 'input_file': text},
                            expected=f'{x} {u or row["pref"]}', observed=l.strip())
    bad = fw.kernel_bools(ctx, 'heuristic-corr', m.REQ, terms, open_scope='Q_scope')
    ctx.count('heuristics-on-runs', evaluations=len(terms), nontrivial_keys=[(n, u) for _, n, u, _ in descs])
    for i in bad[:6]:
        ent, name, u, obs = descs[i]
        ctx.violate('corr', f'corr:heuristic:{name}:{u or "no unit"}', f'after the run with "{ent}" the parameter holds {m.show_obs(obs)}; the Coq '
                    f'model of ReadParameter + {HEUR[name][2]} says otherwise', inp={'part': 'heuristic', 'entry': ent}, observed=m.show_obs(obs))


# ---------------------------------------------------------------------------------------------------------------
# absolute echo check on a multi-segment base: EVERY line of EVERY block that echoes a segment thickness, a segment gradient
# or the maximum temperature must denote what the input file says (run pairs cannot see an echo that is wrong in both runs)
# ---------------------------------------------------------------------------------------------------------------

def echo_expectations(entries):
    """input entries {name: 'x u'} -> [(label regex, entry name)]"""
    out = [(r'Maximum reservoir temperature', 'Maximum Temperature')]
    for n in entries:
        mt = re.match(r'(Thickness|Gradient) (\d+)$', n)
        if mt:
            out.append((rf'Segment {mt.group(2)}\s+{"Thickness" if mt.group(1) == "Thickness" else "Geothermal gradient"}', n))
    return out


def echo_line_faults(m, d, report, entries, prefs):
    """-> [(entry name, unit written, label, line)] for echo lines that do not denote the entry"""
    bad = []
    for label, name in echo_expectations(entries):
        x, _, u = entries[name].partition(' ')
        for l in report.splitlines():
            if re.match(r'\s*' + label + r'\s*:', l):
                mm = m.LINE.match(l)
                if not (mm and m.same_quantity(d, x, u or prefs[name], mm['num'], (mm['unit'] or '').strip())):
                    bad.append((name, u or 'no unit', re.sub(r'\s+', ' ', l.split(':')[0].strip()), l.strip()))
    return bad


def check_echo_lines(m, ctx, d):
    from . import configs
    rnd = ctx.rng
    dec = lambda lo, hi, k=2: format(rnd.randint(int(lo * 10 ** k), int(hi * 10 ** k)) / 10 ** k, 'g')
    base = dict(configs.synthetic(rnd, enduse=1, plant=2, resmodel=4, econ=1, nseg=3, addons=False, overpressure=False))
    base.update({'Number of Segments': '3', 'Gradient 1': dec(40, 60, 1), 'Gradient 2': dec(30, 39, 1), 'Gradient 3': dec(20, 29, 1),
                 'Thickness 1': dec(1.1, 1.4), 'Thickness 2': dec(0.6, 0.9), 'Reservoir Depth': '3.5', 'Maximum Temperature': '400'})
    prefs = {r['name']: r['pref'] for r in d['params']}
    variants = [dict(base)]
    for name in ('Thickness 1', 'Thickness 2'):
        for u in ('kilometer', 'meter', 'ft', 'mile', 'centimeter', 'in'):
            v = dict(base)
            v[name] = f"{m.sig7(m.to_unit(d, F(base[name]), 'kilometer', u))} {u}"
            variants.append(v)
    variants.append({**base, 'Maximum Temperature': '400 degC'})
    variants.append({**base, 'Gradient 2': base['Gradient 2'] + ' degC/km'})
    if ctx.quick:
        variants = variants[:1] + rnd.sample(variants[1:13], 6) + variants[13:]
    res = runner.run_many(ctx, [runner.params_to_text(list(v.items())) for v in variants])
    seen, lines = set(), 0
    for v, r in zip(variants, res):
        text = runner.params_to_text(list(v.items()))
        if not r['ok'] or not r['report']:
            ctx.note(f'echo-line base variant did not run: {str(r["error"])[:120]}')
            continue
        entries = {k: x for k, x in v.items() if k == 'Maximum Temperature' or re.match(r'(Thickness|Gradient) \d+$', k)}
        lines += sum(1 for lab, _ in echo_expectations(entries) for l in r['report'].splitlines() if re.match(r'\s*' + lab + r'\s*:', l))
        for name, u, label, line in echo_line_faults(m, d, r['report'], entries, prefs):
            key = f'echo-line:{name}:{u}:{label}'
            if key not in seen:
                seen.add(key)
                ctx.violate('property', key, f'the input says "{name}, {entries[name]}" and the report echoes "{line}"',
                            inp={'part': 'echo-run', 'entry': f'{name}, {entries[name]}', 'input_file': text, 'entries': entries},
                            expected=f'{entries[name]}', observed=line)
    ctx.count('echo-lines-multi-segment', evaluations=lines, nontrivial_keys=[tuple(sorted(v.items()))[:0] or i for i, v in enumerate(variants)], runs=len(variants))


# ---------------------------------------------------------------------------------------------------------------
# HIP-RA-X whole runs: inputs re-expressed, output units requested
# ---------------------------------------------------------------------------------------------------------------

def _hip_job(args):
    text, scratch, tag = args
    import logging
    logging.disable(logging.CRITICAL)
    from hip_ra_x import hip_ra_x as h
    i, o = os.path.join(scratch, f'hip_{tag}.txt'), os.path.join(scratch, f'hip_{tag}.out')
    open(i, 'w').write(text)
    argv, out, cwd = sys.argv, sys.stdout, os.getcwd()
    sys.argv, sys.stdout = ['', i, o], io.StringIO()
    err = None
    try:
        h.main(enable_hip_ra_logging_config=False)
    except BaseException as e:  # noqa
        err = f'{type(e).__name__}: {e}'
    finally:
        sys.argv, sys.stdout = argv, out
        os.chdir(cwd)
    rep = open(o, encoding='utf-8', errors='replace').read() if os.path.exists(o) else None
    for f in (i, o):
        if os.path.exists(f):
            os.remove(f)
    return {'report': rep, 'error': err if err else (None if rep else 'no report written (errors are only logged)')}


def hip_run_many(ctx, texts):
    jobs = [(t, str(ctx.scratch), str(i)) for i, t in enumerate(texts)]
    with ProcessPoolExecutor(max_workers=min(16, max(1, len(jobs)))) as ex:
        return list(ex.map(_hip_job, jobs))


def check_hip_runs(m, ctx, d):
    rnd = ctx.rng
    rows = [r for r in d['params'] if r['cls'] == 'HIP_RA_X']
    outs = [o for o in d['outs'] if o['cls'] == 'HIP_RA_X']
    # the shipped example (every entry in its default unit), numbers moved by up to 10 % with ctx.rng
    given = {}
    for l in (fw.REPO / 'tests' / 'hip_ra_x_tests' / 'examples' / 'HIP-RA-X_example1.txt').read_text().splitlines():
        parts = [x.strip() for x in l.split(',')]
        if len(parts) >= 2 and not l.startswith(('#', '--', '*')):
            given[parts[0]] = parts[1]
    base, rows = [], [r for r in rows if r['name'] in given]
    for r in rows:
        p, v = r['param'], F(given[r['name']])
        w = v * F(rnd.randint(90, 110), 100)
        base.append((r['name'], m.sig7(w) if r['kind'] == 'float' and float(p.Min) < w < float(p.Max) else given[r['name']]))
    base += [(k, v) for k, v in given.items() if k not in dict(base)]
    btext = runner.params_to_text(base)
    variants = []
    for r in rows:
        val = F(dict(base)[r['name']])
        for u in r['units']:
            if u in ('', r['pref']) or m.to_unit(d, 1, r['pref'], u) is None or val == 0:
                continue
            x = format(float(m.to_unit(d, val + (F(1, 2) if r['kind'] == 'int' else 0), r['pref'], u)), '.10g')
            variants.append({'row': r, 'u': u, 'text': f'{x} {u}', 'lines': [(n, v) if n != r['name'] else (n, f'{x} {u}') for n, v in base]})
    reqs = [{'out': o, 'u': u, 'lines': base + [(f'Units:{o["name"]}', u)]} for o in outs for u in o['units']
            if u not in ('', o['cur'][1]) and m.to_unit(d, 1, o['cur'][1], u) is not None]
    res = hip_run_many(ctx, [btext] + [runner.params_to_text(v['lines']) for v in variants] + [runner.params_to_text(x['lines']) for x in reqs])
    b, vres, rres = res[0], res[1:1 + len(variants)], res[1 + len(variants):]
    if not b['report']:
        ctx.note('HIP-RA-X base configuration did not run: ' + str(b['error']))
        return
    seen = set()

    def file(key, what, inp, expected=None, observed=None):
        if key not in seen:
            seen.add(key)
            ctx.violate('property', key, what, inp=inp, expected=expected, observed=observed)

    for v, r in zip(variants, vres):
        k = m.run_klass(v)
        inp = {'part': 'hip-run', 'entry': f'{v["row"]["name"]}, {v["text"]}', 'input_file': runner.params_to_text(v['lines']), 'reference_file': btext}
        if not r['report']:
            file(f'hip-run:raises:{k}', f'HIP-RA-X with "{v["row"]["name"]}, {v["text"]}" fails: {str(r["error"])[:200]}', inp, observed=str(r['error'])[:300])
            continue
        bad, _ = m.report_diffs(d, b['report'], r['report'])
        for label, x, y, _k in bad[:3]:
            kind = 'echo' if label.strip() == v['row']['name'] else 'results'
            file(f'hip-run:{kind}:{k}' + (f':{label}' if kind == 'results' else ''), f'HIP-RA-X with "{v["row"]["name"]}, {v["text"]}" reports "{y}" where the '
                 f'equivalent value in {v["row"]["pref"]!r} gives "{x}"', inp, x, y)
    changed = 0
    for x, r in zip(reqs, rres):
        o = x['out']
        k = f'{o["utype"]}:{o["cur"][1] or "dimensionless"}:{x["u"]}'
        inp = {'part': 'hip-run', 'entry': f'Units:{o["name"]}, {x["u"]}', 'input_file': runner.params_to_text(x['lines']), 'reference_file': btext}
        if not r['report']:
            file(f'hip-output:no-report:{k}', f'HIP-RA-X with "Units:{o["name"]}, {x["u"]}" writes no report: {str(r["error"])[:160]}', inp, observed=str(r['error'])[:300])
            continue
        bl, vl = [l for l in b['report'].splitlines() if not m.MASK.search(l)], [l for l in r['report'].splitlines() if not m.MASK.search(l)]
        for xl, yl in zip(bl, vl):
            if xl == yl:
                continue
            changed += 1
            mx, my = m.LINE.match(xl), m.LINE.match(yl)
            if mx and my and m.same_quantity(d, mx['num'], mx['unit'], my['num'], my['unit']):
                continue
            relabel = mx and my and mx['num'] == my['num'] and (my['unit'] or '').strip() == x['u']
            file(f'hip-output:{"relabel-only" if relabel else "line"}:{k}', f'HIP-RA-X with "Units:{o["name"]}, {x["u"]}" reports "{yl.strip()}" where it '
                 f'reported "{xl.strip()}"' + (': the label changes, the number is not converted' if relabel else ''), inp, xl.strip(), yl.strip())
    ctx.count('hip-ra-x-runs', evaluations=1 + len(variants) + len(reqs), nontrivial_keys=[(v['row']['name'], v['u']) for v in variants] +
              [(x['out']['name'], x['u']) for x in reqs], input_variants=len(variants), output_requests=len(reqs), requests_changing_a_line=changed)


# ---------------------------------------------------------------------------------------------------------------
# coverage of theorem C06_catalogue: which (parameter, catalogue unit) pairs satisfy pair_good, which fall under a finding
# ---------------------------------------------------------------------------------------------------------------

def catalogue_coverage(m, ctx, d, cases):
    findings = [f for f in fw.load_findings() if f.get('property') == 'C06']
    pairs = sorted({(r['pref'], u) for r in d['params'] if not r['currency'] and r['cur'] == ('E', r['pref']) for u in r['units'] if u != ''})
    good = set(pairs)
    for i in fw.kernel_bools(ctx, 'pair-good', m.REQ + ['Proofs.UnitReaderProofs'], [f'pair_good gen_tables {m.cs(p)} {m.cs(u)}' for p, u in pairs],
                             open_scope='Q_scope'):
        good.discard(pairs[i])
    verdict = {}
    for c in cases:
        if c['u'] is not None and c['catalogue']:
            verdict.setdefault((c['row']['name'], c['row']['pref'], c['row']['cur'], c['u']), []).append(c)
    table = {}
    for r in d['params']:
        for u in r['units']:
            if u == '' or (r['name'], u, r['utype'], r['pref'], r['cur']) in table:
                continue
            cs_ = verdict.get((r['name'], r['pref'], r['cur'], u), [])
            keys = {f'reader:{m.VERDICT[c["pv"][0]]}' + (f'-{m.ERRNAME.get(c["obs"].get("code"), "other")}' if c['pv'][0] == 1 else '') + ':' + m.klass(c)
                    for c in cs_ if c.get('pv') and c['pv'][0] not in (None, 0, 9)}
            ok_pair = not r['currency'] and r['cur'] == ('E', r['pref']) and (r['pref'], u) in good
            if ok_pair:
                status = 'pair_good (covered by theorem C06_catalogue)'
                for c in cs_:       # the theorem's hypothesis holds: the implementation must read every judged value correctly
                    if c.get('judged') and c['pv'][0] not in (0, 9):
                        ctx.violate('corr', f'corr:pair-good-but-fails:{m.klass(c)}', f'pair_good holds for ({r["pref"]!r}, {u!r}) but the implementation '
                                    f'misreads "{r["name"]}, {c["text"]}"', inp=m.inp_of(c, 'reader'), observed=m.show_obs(c['obs']))
            elif keys:
                ids = sorted({(fw.match_finding(findings, 'C06', k) or {'id': 'UNLISTED'})['id'] for k in keys})
                status = ' + '.join(i.split('-')[1] if i != 'UNLISTED' else i for i in ids)
            elif u == r['pref']:
                status = 'preferred unit itself'
            elif m.to_unit(d, 1, r['pref'], u) is None:
                status = 'not convertible (outside the property)'
            else:
                status = 'reads correctly, outside the theorem hypothesis' if cs_ and all(c['pv'][0] in (0, None) for c in cs_) else 'not judged'
            table[(r['name'], u, r['utype'], r['pref'], r['cur'])] = status
    per = {}
    for (name, u, ut, _p, _c), st in table.items():
        per.setdefault(ut, {}).setdefault(st, 0)
        per[ut][st] += 1
    total = {}
    for ut, dct in per.items():
        for st, n in dct.items():
            total[st] = total.get(st, 0) + n
    ctx.count('catalogue-coverage', evaluations=len(pairs), nontrivial_keys=sorted(good), pairs_parameter_x_unit=total)
    ctx.distribution.setdefault('catalogue-coverage', {})['per_unit_class'] = {ut: dict(sorted(v.items())) for ut, v in sorted(per.items())}
    ctx.note('C06_catalogue coverage over (parameter, catalogue unit) pairs: ' + '; '.join(f'{k}: {v}' for k, v in sorted(total.items(), key=lambda kv: -kv[1])))


# ---------------------------------------------------------------------------------------------------------------
# profile tables of the report under a "Units:<output>, <unit>" request: a changed column must be the old column times
# the conversion factor, under a header that shows the requested unit
# ---------------------------------------------------------------------------------------------------------------

PAREN = re.compile(r'\(([^()]*)\)')


def is_unit_header(line):
    rest = PAREN.sub('', line).replace('|', '').replace('Start', '').strip()
    return rest == '' and len(PAREN.findall(line)) >= 2


def is_data_row(m, line):
    return bool(line.strip()) and re.sub(m.NUM, '', line).replace('|', '').strip() == '' and len(re.findall(m.NUM, line)) >= 2


def columns(m, header, row):
    """-> for every number of the data row (span order) the header token (index into PAREN.finditer(header)) above it, or None.
    Sections between '|' are matched separately; inside a section by order when the counts fit, else by horizontal position."""
    def cut(s):
        out, pos = [], 0
        for part in s.split('|'):
            out.append((pos, pos + len(part)))
            pos += len(part) + 1
        return out
    hs = [(i, mt.start(), mt.end()) for i, mt in enumerate(PAREN.finditer(header))]
    ns = [(mt.start(), mt.end()) for mt in re.finditer(m.NUM, row)]
    secs_h, secs_r = cut(header), cut(row)
    if len(secs_h) != len(secs_r):
        secs_h, secs_r = [(0, len(header))], [(0, len(row))]
    out = [None] * len(ns)
    for k, ((h0, h1), (r0, r1)) in enumerate(zip(secs_h, secs_r)):
        H = [h for h in hs if h0 <= h[1] < h1]
        N = [j for j, n in enumerate(ns) if r0 <= n[0] < r1]
        if k == 0 and len(N) == len(H) + 1:
            N = N[1:]                            # the leading year / index column
        if len(N) == len(H):
            for j, h in zip(N, H):
                out[j] = h[0]
        else:
            free = list(H)
            for j in N:
                c = (ns[j][0] + ns[j][1]) / 2 - r0 + h0
                best = min(free, key=lambda h: abs((h[1] + h[2]) / 2 - c), default=None)
                if best is not None and abs((best[1] + best[2]) / 2 - c) <= 9:
                    out[j] = best[0]
                    free.remove(best)
    return out


def table_diffs(m, d, base, var, requested, out_cur):
    """-> [(kind, where, base text, variant text)] for table lines of the variant report that are not the base table converted"""
    bl = [l for l in base.splitlines() if not m.MASK.search(l)]
    vl = [l for l in var.splitlines() if not m.MASK.search(l)]
    if len(bl) != len(vl):
        return [], 0
    norm = lambda t: t.replace(' ', '')
    bad, changed, hdr, title, relabelled = [], 0, None, '', set()
    for i, (x, y) in enumerate(zip(bl, vl)):
        if '*' in x and re.search(r'[A-Z]{4}', x):
            title = x.strip('* ').strip()
        if is_unit_header(x) and is_unit_header(y):
            hdr, relabelled = i, set()
            if x != y:
                changed += 1
                for k, (a, b) in enumerate(zip(PAREN.findall(x), PAREN.findall(y))):
                    if a != b:
                        relabelled.add(k)
                        if norm(b) != norm(requested):
                            bad.append(('table-header', title, x.strip(), y.strip()))
            continue
        if hdr is not None and x == y and relabelled and is_data_row(m, x):
            cols = columns(m, bl[hdr], x)          # a header that changed over a column that did not
            nums = re.findall(m.NUM, x)
            for j, h in enumerate(cols):
                # (numbers that print alike before and after the conversion - "0.01" USD/lb and "0.01" USD/kg - prove nothing)
                if h in relabelled and F(nums[j].replace(',', '')) != 0 and \
                        not m.same_quantity(d, nums[j], norm(PAREN.findall(bl[hdr])[h]), nums[j], norm(PAREN.findall(vl[hdr])[h])):
                    bad.append(('header-only', f'{title}: column ({PAREN.findall(vl[hdr])[h]})', x.strip(), vl[hdr].strip()))
                    relabelled = set()
                    break
            continue
        if x == y or not (is_data_row(m, x) and is_data_row(m, y)) or hdr is None:
            continue
        changed += 1
        nx, ny = re.findall(m.NUM, x), re.findall(m.NUM, y)
        if len(nx) != len(ny):
            bad.append(('table', title, x.strip(), y.strip()))
            continue
        cb, cv = columns(m, bl[hdr], x), columns(m, vl[hdr], y)
        ub_all, uv_all = PAREN.findall(bl[hdr]), PAREN.findall(vl[hdr])
        for j, (a, b) in enumerate(zip(nx, ny)):
            if a == b:
                continue
            ub = norm(ub_all[cb[j]]) if cb[j] is not None else None
            uv = norm(uv_all[cv[j]]) if cv[j] is not None else None
            if ub is not None and uv is not None and ub != uv and m.same_quantity(d, a, ub, b, uv):
                continue                                         # converted column under a converted header
            if ub == uv and m.same_quantity(d, a, out_cur, b, requested):
                bad.append(('stale-header', f'{title}: column ({ub_all[cb[j]] if cb[j] is not None else "no unit"})', x.strip(), y.strip()))
            else:
                bad.append(('table', f'{title}: column ({ub_all[cb[j]] if cb[j] is not None else "no unit"})', x.strip(), y.strip()))
            break
    return bad, changed


# ---------------------------------------------------------------------------------------------------------------
# replays of the parts above
# ---------------------------------------------------------------------------------------------------------------

def replay_more(m, ctx, d, inp):
    part = inp.get('part')
    if part == 'hip-run':
        b, r = hip_run_many(ctx, [inp['reference_file'], inp['input_file']])
        if not r['report']:
            print('HIP-RA-X writes no report:', r['error']); print('property VIOLATED on this input'); return 1
        bl, vl = [l for l in b['report'].splitlines() if not m.MASK.search(l)], [l for l in r['report'].splitlines() if not m.MASK.search(l)]
        bad = 0
        for x, y in zip(bl, vl):
            mx, my = m.LINE.match(x), m.LINE.match(y)
            if x != y and not (mx and my and m.same_quantity(d, mx['num'], mx['unit'], my['num'], my['unit'])):
                print('  reference:', x.strip(), '| this input:', y.strip())
                bad += 1
        print('property', 'VIOLATED' if bad else 'holds', 'on this input')
        return 1 if bad else 0
    if part == 'heuristic-run':
        r = runner.run_many(ctx, [inp['input_file']])[0]
        name, _, txt = inp['entry'].partition(', ')
        x, _, u = txt.partition(' ')
        if not r['ok']:
            print('run fails:', r['error']); print('property VIOLATED on this input'); return 1
        row = next(p for p in d['params'] if p['name'] == name)
        ml = [l for l in r['report'].splitlines() if re.match(r'\s*' + HEUR[name][3] + r'\s*:', l)]
        mm = m.LINE.match(ml[0]) if ml else None
        ok = bool(mm) and m.same_quantity(d, x, u or row['pref'], mm['num'], (mm['unit'] or '').strip())
        print('entry:', inp['entry'], '| echoed:', ml[0].strip() if ml else None)
        print('property', 'holds' if ok else 'VIOLATED', 'on this input')
        return 0 if ok else 1
    if part == 'echo-run':
        r = runner.run_many(ctx, [inp['input_file']])[0]
        if not r['ok']:
            print('run fails:', r['error']); print('property VIOLATED on this input'); return 1
        prefs = {p['name']: p['pref'] for p in d['params']}
        bad = echo_line_faults(m, d, r['report'], inp['entries'], prefs)
        for b in bad:
            print('  input:', b[0] + ',', inp['entries'][b[0]], '| echoed:', b[3])
        print('property', 'VIOLATED' if bad else 'holds', 'on this input')
        return 1 if bad else 0
    print('no replay for part', part, '(correspondence entries are re-evaluated by ./check C06 --tier quick)')
    return 1
