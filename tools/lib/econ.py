"""Shared helpers of the economics group (C01, C03, C04, C11, C18): pull the quantities a Coq model needs out of
a hook snapshot and write them as Coq literals."""
from fractions import Fraction

from . import qconv
from .snapshot import S

COGEN = (31, 32, 41, 42, 51, 52)


def q15(x):
    return qconv.q(qconv.sig15(x))


def qx(x):
    return qconv.q(qconv.F(x))


def qlist15(xs):
    return '[' + '; '.join(q15(x) for x in xs) + ']'


def qlistx(xs):
    return '[' + '; '.join(qx(x) for x in xs) + ']'


def finite(*vals):
    import math
    for v in vals:
        for x in (v if isinstance(v, (list, tuple)) else [v]):
            if x is None or isinstance(x, str) or math.isnan(x) or math.isinf(x):
                return False
    return True


class Run:
    """Convenience view of one whole run (snapshot taken between Calculate() and PrintOutputs())."""

    def __init__(self, snap):
        self.s = S(snap)
        self.snap = snap
        s = self.s
        self.enduse = s.v('surfaceplant', 'enduse_option')['int']
        self.plant = s.v('surfaceplant', 'plant_type')['int']
        self.econ = s.v('economics', 'econmodel')['int']
        self.life = int(s.v('surfaceplant', 'plant_lifetime'))
        self.cy = int(s.v('surfaceplant', 'construction_years'))
        self.addons = bool(s.v('economics', 'DoAddOnCalculations'))
        self.sdac = bool(s.v('economics', 'DoSDACGTCalculations'))
        self.cls = snap['economics'].get('__class__')

    @property
    def kind(self):
        if self.enduse == 1:
            return 'KElec'
        if self.enduse == 2:
            return 'KCool' if self.plant == 5 else 'KHeat'
        return 'KCogen'

    def e(self, name, default=None):
        return self.s.v('economics', name) if default is None else self.s.v('economics', name, default)

    def sp(self, name, default=None):
        return self.s.v('surfaceplant', name) if default is None else self.s.v('surfaceplant', name, default)

    def series(self, comp, name, n=None):
        v = self.s.v(comp, name, [])
        if not isinstance(v, list):
            v = [v]
        return v

    def signature(self):
        return (self.econ, self.enduse, self.plant, self.life, self.cy, self.addons)
