"""C09: render the frozen report specification on a snapshot of the Model.

The specification (spec/report_spec.json) is a tree of the same shape the generator tools/gen/c09_report.py
extracts from the writer: which text, which quantity under which format, which unit, under which condition.
Rendering evaluates the specification's expressions on a proxy of the Model rebuilt from the snapshot and yields
line records made of template segments and values; turning values into text is done by the Coq model
(Model/Fmt.v, Model/Report.v), never by Python's formatter."""
import ast
import collections
import json
import re

import numpy as np

from . import c09fmt, framework as fw, qconv

SPEC_PATH = fw.VERIF / 'spec' / 'report_spec.json'
UNIT_RE = re.compile(r'^(.*)\.(CurrentUnits|PreferredUnits)\.value$')


def load_spec():
    spec = json.loads(SPEC_PATH.read_text())
    from gen import c09_report as gen
    LITS.clear()
    LITS.update(gen.lit_chunks(spec))
    return spec


# ---------------------------------------------------------------------------------------------------------
# Model proxy built from a snapshot
# ---------------------------------------------------------------------------------------------------------
class U:
    def __init__(self, s):
        self.value = s


class P:
    """stand-in for a Parameter / OutputParameter at print time"""

    def __init__(self, rec, enums):
        self.rec = rec
        self.value = conv(rec['value'], enums)
        self.CurrentUnits = U(rec.get('cur'))
        self.PreferredUnits = U(rec.get('pref'))
        self.Name = rec.get('name')
        self.display_name = rec.get('display_name', rec.get('name'))
        self.Provided = rec.get('provided')
        self.Valid = rec.get('valid')


def conv(v, enums):
    if isinstance(v, dict) and '__enum__' in v:
        return getattr(enums, v['__enum__'])[v['name']]
    if isinstance(v, list) and v and all(isinstance(x, (int, float)) and not isinstance(x, bool) for x in v):
        return np.array(v, dtype=float) if any(isinstance(x, float) for x in v) else np.array(v)
    if isinstance(v, list):
        return [conv(x, enums) for x in v]
    return v


class Comp:
    def __init__(self, d, enums):
        for k, rec in d.items():
            if k.startswith('__'):
                continue
            setattr(self, k, P(rec, enums))
        for k, v in d.get('__plain__', {}).items():
            if not hasattr(self, k):
                setattr(self, k, conv(v, enums))
        if '__outdict__' in d:
            byname = {}
            for k, rec in d.items():
                if not k.startswith('__') and rec.get('k') == 'out':
                    byname[rec['name']] = getattr(self, k)
            od = {}
            for name, rec in d['__outdict__'].items():
                a = byname.get(name)
                same = a is not None and a.rec['value'] == rec['value'] and a.rec.get('cur') == rec.get('cur')
                od[name] = a if same else P(rec, enums)
            self.OutputParameterDict = od


class ModelProxy:
    def __init__(self, snap, enums):
        for c in ('reserv', 'wellbores', 'surfaceplant', 'economics', 'addeconomics', 'sdacgteconomics'):
            if c in snap:
                setattr(self, c, Comp(snap[c], enums))


class Volatile(Exception):
    pass


# ---------------------------------------------------------------------------------------------------------
# printed expression -> expression of the Coq float model (Model/Float.v): Coq computes the figure from the snapshot leaves
# ---------------------------------------------------------------------------------------------------------
class Fallback(Exception):
    """the expression is outside what the translator / the float model covers: the harness value is used instead"""


REDUCTIONS = {'np.average': 'SAvg', 'np.mean': 'SAvg', 'np.sum': 'SSum', 'sum': 'SPySum', 'np.max': 'SMax', 'max': 'SMax',
              'np.min': 'SMin', 'min': 'SMin'}
BINOPS = {ast.Add: 'SAdd', ast.Sub: 'SSub', ast.Mult: 'SMul', ast.Div: 'SDiv'}


class Translator:
    def __init__(self, renderer, loopvar=None):
        self.R, self.var = renderer, loopvar

    def uses_var(self, node):
        return self.var is not None and any(isinstance(x, ast.Name) and x.id == self.var for x in ast.walk(node))

    def val(self, node):
        if self.uses_var(node):
            raise Fallback('loop variable outside an index')
        try:
            return eval(compile(ast.fix_missing_locations(ast.Expression(body=node)), '<leaf>', 'eval'), self.R.ns)
        except Exception as e:
            raise Fallback(repr(e))

    def is_array(self, node):
        if self.uses_var(node):
            return False
        try:
            return isinstance(self.val(node), np.ndarray)
        except Fallback:
            return False

    def leaf(self, v):
        if isinstance(v, (bool, np.bool_)) or not isinstance(v, (int, float, np.integer, np.floating)):
            raise Fallback(f'not a number: {type(v).__name__}')
        if isinstance(v, (int, np.integer)) and abs(int(v)) >= 2 ** 53:
            raise Fallback('integer beyond 2^53')
        return f'(SLeaf {c09fmt.fl(v)})'

    def S(self, node):
        """scalar expression -> sexpr term"""
        if isinstance(node, ast.Constant):
            return self.leaf(node.value)
        if isinstance(node, ast.BinOp) and type(node.op) in BINOPS:
            if self.is_array(node.left) or self.is_array(node.right):
                raise Fallback('array-valued operand in a scalar position')
            return f'({BINOPS[type(node.op)]} {self.S(node.left)} {self.S(node.right)})'
        if isinstance(node, ast.UnaryOp) and isinstance(node.op, ast.USub):
            return f'(SNeg {self.S(node.operand)})'
        if isinstance(node, ast.Call) and len(node.args) == 1 and not node.keywords:
            fn = ast.unparse(node.func)
            if fn in REDUCTIONS:
                return f'({REDUCTIONS[fn]} {self.A(node.args[0])})'
            if fn == 'float':
                return self.S(node.args[0])
        if isinstance(node, ast.Subscript) and (self.is_array(node.value) or self.uses_var(node.slice)):
            if self.uses_var(node.slice):
                return f'(SRow {self.A(node.value)})'
            i = self.val(node.slice)
            if not isinstance(i, (int, np.integer)):
                raise Fallback('non-integer index')
            n = len(self.val(node.value))
            i = int(i) + n if i < 0 else int(i)
            return f'(SIdx {self.A(node.value)} {i})'
        if isinstance(node, ast.Name) and node.id in self.R.set_exprs:
            return self.S(ast.parse(self.R.set_exprs[node.id], mode='eval').body)
        return self.leaf(self.val(node))

    def A(self, node):
        """array expression -> aexpr term"""
        if isinstance(node, ast.BinOp) and isinstance(node.op, (ast.Mult, ast.Div)):
            la, ra = self.is_array(node.left), self.is_array(node.right)
            if la and not ra:
                return f'({"AMulS" if isinstance(node.op, ast.Mult) else "ADivS"} {self.A(node.left)} {self.S(node.right)})'
            if ra and not la and isinstance(node.op, ast.Mult):
                return f'(AMulS {self.A(node.right)} {self.S(node.left)})'
        v = self.val(node)
        if not isinstance(v, np.ndarray) or v.ndim != 1 or v.dtype != np.float64:
            raise Fallback('not a one-dimensional float64 array')
        if len(v) > 40000:
            raise Fallback('series too long to hand to Coq as a literal')
        return f'(ALeaf {self.R.series_name(v)})'

    def figure(self, src):
        """Coq term for a printed scalar expression, or None when it is a plain value / outside the model"""
        try:
            term = self.S(ast.parse(src, mode='eval').body)
        except (Fallback, SyntaxError):
            self.R.translation['fallback'] += 1
            return None
        if term.startswith('(SLeaf '):
            return None
        self.R.translation['computed_by_coq'] += 1
        return term


# ---------------------------------------------------------------------------------------------------------
# Renderer
# ---------------------------------------------------------------------------------------------------------
class SpecError(Exception):
    """the frozen specification cannot be evaluated on this snapshot (an expression raised)"""


class Renderer:
    def __init__(self, spec, snap, tag='r'):
        self.tag = re.sub(r'[^A-Za-z0-9]', '', str(tag))
        import geophires_x
        from geophires_x import OptionList
        self.spec = spec
        self.sutra = snap.get('outputs', {}).get('__class__') == 'SUTRAOutputs'   # SUTRA runs use their own writer
        self.model = ModelProxy(snap, OptionList)
        ns = {k: getattr(OptionList, k) for k in dir(OptionList) if not k.startswith('_')}
        import pandas as pd
        ns.update({'model': self.model, 'np': np, 'pd': pd, 'geophires_x': geophires_x, 'sum': sum, 'round': round, 'str': str,
                   'len': len, 'range': range, 'max': max, 'min': min, 'abs': abs, 'float': float, 'int': int})
        ns.update(spec.get('consts', {}))
        helpers = type('Outputs', (), {})
        for k, v in spec.get('helpers', {}).items():
            if isinstance(v, dict) and 'def' in v:
                loc = {}
                exec(v['def'], dict(ns), loc)
                setattr(helpers, k, staticmethod(loc[k]))
            else:
                setattr(helpers, k, v)
        ns['Outputs'] = helpers
        self.ns = ns
        self.templates = {}     # local name -> list of items (f-strings assigned to a local)
        self.lines = []         # finished line records
        self.cur = []           # items of the line being built
        self.executed = set()   # ids of write nodes executed
        self.executed_stmts = set()
        self.series = {}        # content of a snapshot series -> its name in the Coq term of this run
        self.set_exprs = {}     # local name -> the expression it was assigned (inlined when Coq computes a figure)
        self.translation = collections.Counter()
        self.conv_pass = False

    def series_name(self, arr):
        key = arr.tobytes()
        if key not in self.series:
            xs = [c09fmt.fl(x) for x in arr.tolist()]     # long literals in pieces: a 10^4-element list notation overflows Coq's stack
            lit = ' ++ '.join('[' + '; '.join(xs[i:i + 500]) + ']' for i in range(0, len(xs), 500)) or '[]'
            self.series[key] = (f'ser_{self.tag}_{len(self.series)}', f'({lit})%list')
        return self.series[key][0]

    def defs(self):
        """top-level definitions of every series the terms of this run refer to"""
        return ''.join(f'Definition {n} : list fl := {lit}.\n' for n, lit in self.series.values())

    def ev(self, src):
        if 'datetime' in src or 'time.time' in src or 'model.tic' in src:
            raise Volatile()
        try:
            return eval(src, self.ns)
        except Volatile:
            raise
        except Exception as e:
            raise SpecError(f'{src[:80]}: {e!r}')

    # ---- parts -> items ----
    def item_of(self, part, nid):
        if part[0] == 'lit':
            return [{'k': 'lit', 's': part[1]}]
        if part[0] == 'fld':
            kind, w, p = c09fmt.parse_spec(part[1])
            try:
                v = self.ev(part[2])
            except Volatile:
                return [{'k': 'vol'}]
            if isinstance(v, (bool, np.bool_)) or not isinstance(v, (int, float, np.integer, np.floating)):
                raise SpecError(f'{part[2][:60]} is not a number: {v!r}')
            return [{'k': 'num', 'kind': kind, 'w': w, 'p': p, 'v': v, 'src': part[2], 'nid': nid,
                     'expr': Translator(self).figure(part[2])}]
        src = part[1]
        if src in self.templates:
            return [dict(x) for x in self.templates[src]]
        m = re.match(r'^round\((.*), (\d+)\)$', src)
        try:
            if m:
                v = self.ev(m.group(1))
                if isinstance(v, (float, np.floating)):
                    return [{'k': 'round', 'v': float(v), 'n': int(m.group(2)), 'src': src, 'nid': nid}]
            v = self.ev(src)
        except Volatile:
            return [{'k': 'vol', 'nl': '\\n' in src}]   # strftime('...\\n') carries the line end
        if isinstance(v, (bool, np.bool_)):
            return [{'k': 'txt', 's': str(v), 'src': src, 'nid': nid}]
        if isinstance(v, (int, np.integer)):
            return [{'k': 'int', 'v': int(v), 'src': src, 'nid': nid}]
        if isinstance(v, (float, np.floating)):
            return [{'k': 'repr', 'v': float(v), 'src': src, 'nid': nid}]
        return [{'k': 'txt', 's': str(v), 'src': src, 'nid': nid}]

    def items_of(self, parts, nid):
        out = []
        for p in parts:
            out += self.item_of(p, nid)
        return out

    def emit(self, items):
        for it in items:
            if it['k'] == 'lit' and '\n' in it['s']:
                chunks = it['s'].split('\n')
                for j, ch in enumerate(chunks):
                    if ch:
                        self.cur.append({'k': 'lit', 's': ch})
                    if j < len(chunks) - 1:
                        self.lines.append({'t': 'line', 'items': self.cur})
                        self.cur = []
            else:
                self.cur.append(it)
                if it['k'] == 'vol' and it.get('nl'):
                    self.lines.append({'t': 'line', 'items': self.cur})
                    self.cur = []

    # ---- statements ----
    def run(self):
        self.block(self.spec['sutra']['body'] if self.sutra and 'sutra' in self.spec else self.spec['body'])
        # print_outputs_rich appends the add-on and S-DAC-GT sections to the same file
        if 'addons' in self.spec and self.model.economics.DoAddOnCalculations.value:
            self.block(self.spec['addons']['body'])
        if 'sdac' in self.spec and self.model.economics.DoSDACGTCalculations.value:
            self.block(self.spec['sdac']['body'])
        if self.cur:
            self.lines.append({'t': 'line', 'items': self.cur})
            self.cur = []
        return self.lines

    def block(self, nodes):
        for n in nodes:
            t = n['t']
            if t == 'w':
                self.executed.add(n['id'])
                self.emit(self.items_of(n['parts'], n['id']))
            elif t == 'if':
                self.block(n['body'] if self.ev(n['cond']) else n['orelse'])
            elif t == 'set':
                self.executed_stmts.add(json.dumps({k: v for k, v in n.items() if k != 'id'}, sort_keys=True))
                if 'parts' in n:
                    use = n['parts'] if ('cond' not in n or self.ev(n['cond'])) else n['else_parts']
                    self.templates[n['name']] = self.items_of(use, n.get('id', 0))
                else:
                    self.templates.pop(n['name'], None)
                    self.ns[n['name']] = self.ev(n['expr'])
                    self.set_exprs[n['name']] = n['expr']
            elif t == 'def':
                self.executed_stmts.add(json.dumps({k: v for k, v in n.items() if k != 'id'}, sort_keys=True))
                exec(n['src'], self.ns)
            elif t == 'call':
                self.conv_pass = True
            elif t == 'for':
                self.loop(n)
            else:
                raise SpecError(f'unknown node {t}')

    def loop(self, n):
        rng = self.ev(n['iter'])
        tab = self.table(n, rng) if isinstance(rng, range) and rng.start == 0 and rng.step == 1 and not self.cur else None
        if tab is not None:
            self.lines.append(tab)
            if len(rng):
                self.ns[n['var']] = rng[-1]
            return
        for x in rng:
            self.ns[n['var']] = x
            self.block(n['body'])

    def table(self, n, rng):
        """A `for i in range(0, N)` whose body prints exactly one line per pass -> a table record
        {n, off, k, segs, cols}: row i is labelled i+off and its cells read cols[c][i*k]."""
        var = n['var']
        body = list(n['body'])
        while body and body[-1]['t'] == 'set' and body[-1]['name'] == var:
            body.pop()          # `i = i + 1` at the end of a `for i in range(..)` body has no effect
        prelude = [x for x in body if x['t'] in ('if', 'set')]
        ws = [x for x in body if x['t'] == 'w']
        if len(prelude) + len(ws) != len(body) or not ws or body[len(prelude):] != ws:
            return None
        if any(y['t'] == 'w' for x in prelude for y in x.get('body', []) + x.get('orelse', [])):
            return None
        parts = []
        for w in ws:
            for p in w['parts']:
                if p[0] == 'lit' and parts and parts[-1][0] == 'lit':
                    parts[-1] = ['lit', parts[-1][1] + p[1]]
                else:
                    parts.append(list(p))
        text = ''.join(p[1] for p in parts if p[0] == 'lit')
        if text.count('\n') != 1 or parts[-1][0] != 'lit' or not parts[-1][1].endswith('\n') or any(p[0] == 'str' for p in parts):
            return None
        parts[-1][1] = parts[-1][1][:-1]
        flds = [p for p in parts if p[0] == 'fld']
        if not flds:
            return None
        for w in ws:
            self.executed.add(w['id'])
        count = len(rng)
        # year label
        lab = ast.parse(flds[0][2], mode='eval')
        if any(isinstance(x, ast.Subscript) for x in ast.walk(lab)):
            raise SpecError('table row does not start with its year label')
        off = self.ev_with(flds[0][2], {var: 0})
        if self.ev_with(flds[0][2], {var: 1}) != off + 1 or off < 0:
            raise SpecError('year label is not i + constant')
        stride = None
        cols = []
        srcs = []
        for f in flds[1:]:
            tree = ast.parse(f[2], mode='eval')
            subs = [x for x in ast.walk(tree) if isinstance(x, ast.Subscript)
                    and any(isinstance(y, ast.Name) and y.id == var for y in ast.walk(x.slice))]
            if subs:
                sl = {ast.unparse(x.slice) for x in subs}
                if len(sl) != 1:
                    raise SpecError(f'mixed indices in one cell: {sl}')
                s = sl.pop()
                s0, s1, s2 = (self.ev_with(s, {var: j}) for j in (0, 1, 2))
                if s0 != 0 or s2 != 2 * s1 or s1 < 1:
                    raise SpecError(f'index {s} is not i*k')
                if stride not in (None, s1):
                    raise SpecError('different strides in one row')
                stride = s1
                length = min(len(self.ev(ast.unparse(x.value))) for x in subs)
                for x in subs:
                    x.slice = ast.Name(id='__j', ctx=ast.Load())
                if any(isinstance(y, ast.Name) and y.id == var for y in ast.walk(tree)):
                    raise SpecError('loop variable outside the index')
                code = compile(ast.fix_missing_locations(tree), '<cell>', 'eval')
                col = []
                for j in range(length):
                    self.ns['__j'] = j
                    col.append(eval(code, self.ns))
                cols.append(col)
            else:
                cols.append(None)   # per-row value: evaluated after the stride is known
            srcs.append(f[2])
        stride = stride or 1
        for c, f in enumerate(flds[1:]):
            if cols[c] is None:
                if stride != 1:
                    raise SpecError('per-row cell in a strided table')
                col = []
                for j in range(count):
                    self.ns[var] = j
                    self.block(prelude)
                    col.append(self.ev(f[2]))
                cols[c] = col
        segs = [('lit', p[1]) if p[0] == 'lit' else ('fld',) + c09fmt.parse_spec(p[1]) for p in parts]
        # every cell as an expression of the float model over the snapshot series (SRow = the series at the row's index)
        ecols = []
        for c, f in enumerate(flds[1:]):
            term = None
            if any(isinstance(x, ast.Subscript) and any(isinstance(y, ast.Name) and y.id == var for y in ast.walk(x.slice))
                   for x in ast.walk(ast.parse(f[2], mode='eval'))):
                try:
                    term = Translator(self, var).S(ast.parse(f[2], mode='eval').body)
                    self.translation['table_columns_computed_by_coq'] += 1
                except (Fallback, SyntaxError):
                    self.translation['table_columns_fallback'] += 1
            ecols.append(term)
        return {'t': 'table', 'n': count, 'off': off, 'k': stride, 'segs': segs, 'cols': cols, 'srcs': srcs, 'ecols': ecols,
                'nids': [w['id'] for w in ws], 'var': var}

    def ev_with(self, src, binds):
        old = {k: self.ns.get(k) for k in binds}
        self.ns.update(binds)
        try:
            return self.ev(src)
        finally:
            self.ns.update(old)

    # ---- which parameter a figure comes from (for the unit clause) ----
    def roots(self, src):
        out = []
        try:
            tree = ast.parse(src, mode='eval')
        except SyntaxError:
            return out
        for x in ast.walk(tree):
            if isinstance(x, ast.Attribute) and x.attr == 'value':
                try:
                    o = eval(ast.unparse(x.value), self.ns)
                except Exception:
                    continue
                if isinstance(o, P) and not any(o is r for r in out):
                    out.append(o)
        return out


def scaled_by_100(src):
    """the printed expression is <something>.value * 100 (or 100.0) at its top level"""
    try:
        t = ast.parse(src, mode='eval').body
    except SyntaxError:
        return False
    return isinstance(t, ast.BinOp) and isinstance(t.op, ast.Mult) and any(
        isinstance(s, ast.Constant) and s.value in (100, 100.0) for s in (t.left, t.right))


# ---------------------------------------------------------------------------------------------------------
# Coq terms
# ---------------------------------------------------------------------------------------------------------
LITS = {}     # filled by load_spec(): literal chunk -> constant name


def seg_term(s):
    if s[0] == 'lit' and s[1] in LITS:
        return f'Lit {LITS[s[1]]}'
    if s[0] == 'lit':
        return f'Lit {qconv.coq_bytes(s[1])}'
    return f'Fld K{s[1]} {s[2]} {s[3]}'


def line_parts(items, plain=False):
    """(segs, vals) Coq lists for a line record; consecutive literal/text items are merged into one Lit.
    plain: every figure as the value the harness computed (second pass), else derived figures as NumE expressions"""
    segs, vals = [], []
    buf = ''
    for it in items:
        if it['k'] == 'lit' and it['s'] in LITS:      # a literal of the specification: compiled constant of Gen/ReportLits.v
            if buf:
                segs.append(f'Lit {qconv.coq_bytes(buf)}')
                buf = ''
            segs.append(f'Lit {LITS[it["s"]]}')
            continue
        if it['k'] in ('lit', 'txt'):
            buf += it['s']
            continue
        if buf:
            segs.append(f'Lit {qconv.coq_bytes(buf)}')
            buf = ''
        if it['k'] == 'num':
            segs.append(f'Fld K{it["kind"]} {it["w"]} {it["p"]}')
            vals.append(f'NumE {it["expr"]}' if it.get('expr') and not plain else f'Num {c09fmt.fval(it["v"])}')
        elif it['k'] == 'int':
            segs.append('Str')
            vals.append(f'IntV {qconv.zlit(it["v"])}')
        elif it['k'] == 'repr':
            segs.append('Str')
            vals.append(f'ReprV {c09fmt.fval(it["v"])}')
        elif it['k'] == 'round':
            segs.append('Str')
            vals.append(f'RoundV {c09fmt.fval(it["v"])} {it["n"]}')
        else:
            raise ValueError(it['k'])
    if buf:
        segs.append(f'Lit {qconv.coq_bytes(buf)}')
    return f'[{"; ".join(segs)}]', f'[{"; ".join(vals)}]'


def line_term(items, actual, plain=False):
    segs, vals = line_parts(items, plain)
    return f'chk_line {segs} {vals} {qconv.coq_bytes(actual)}'


def line_defined_term(items):
    return 'line_defined %s %s' % line_parts(items)


def table_cols(tab, plain=False):
    """columns of a table record as sexpr terms: the translated expression, or the harness-computed series (entries no row
    reads are FBad: irrelevant to the expected text, and reading one makes the model fail)"""
    n, k = tab['n'], tab['k']
    out = []
    for col, e in zip(tab['cols'], tab.get('ecols') or [None] * len(tab['cols'])):
        if e is not None and not plain:
            out.append(e)
        else:
            out.append('plain_col [' + '; '.join(c09fmt.fl(x) if j % k == 0 and j // k < n else 'FBad' for j, x in enumerate(col)) + ']')
    return ';\n   '.join(out)


def table_term(tab, actual_rows, plain=False):
    segs = '; '.join(seg_term(s) for s in tab['segs'])
    rows = '; '.join(f'({qconv.coq_bytes(r)})%string' for r in actual_rows)
    if plain:   # the table over plain values (nan / inf / -0.0 included), every cell as the harness computed it
        n, k = tab['n'], tab['k']
        cols = ';\n   '.join('[' + '; '.join(c09fmt.fval(x) if j % k == 0 and j // k < n else 'NaN' for j, x in enumerate(col)) + ']'
                              for col in tab['cols'])
        return f'chk_table {n} {tab["off"]} {k} [{segs}]\n  [{cols}]\n  [{rows}]'
    return f'chk_etable {tab["n"]} {tab["off"]} {tab["k"]} [{segs}]\n  [{table_cols(tab, plain)}]\n  [{rows}]'


def table_defined_term(tab):
    segs = '; '.join(seg_term(s) for s in tab['segs'])
    return f'etable_defined {tab["n"]} {tab["off"]} {tab["k"]} [{segs}]\n  [{table_cols(tab)}]'


def python_text(items):
    """Python's own rendering of a line record (diagnostics only, never the oracle)."""
    out = ''
    for it in items:
        if it['k'] in ('lit', 'txt'):
            out += it['s']
        elif it['k'] == 'num':
            out += c09fmt.python(it['kind'], it['w'], it['p'], it['v'])
        elif it['k'] == 'int':
            out += str(it['v'])
        elif it['k'] == 'repr':
            out += repr(it['v'])
        elif it['k'] == 'round':
            out += repr(round(it['v'], it['n']))
        elif it['k'] == 'vol':
            out += '<volatile>'
    return out


def python_rows(tab):
    rows = []
    for i in range(tab['n']):
        vals = [i + tab['off']] + [col[i * tab['k']] if i * tab['k'] < len(col) else float('nan') for col in tab['cols']]
        out, vi = '', 0
        for s in tab['segs']:
            if s[0] == 'lit':
                out += s[1]
            else:
                out += c09fmt.python(s[1], s[2], s[3], vals[vi])
                vi += 1
        rows.append(out)
    return rows
