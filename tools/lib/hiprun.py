"""Run HIP-RA-X (src/hip_ra_x/hip_ra_x.py) in-process: read_parameters -> Calculate -> PrintOutputs, recording the
parameter values Calculate started from, the water-property (CoolProp) values it used, its outputs and its report.
Owned by C17.  Nothing under /repo is modified: the oracle functions are wrapped in this process only."""
import contextlib
import io
import logging
import os
import sys
import uuid
from concurrent.futures import ProcessPoolExecutor
from pathlib import Path

# input parameters of HIP_RA_X.Calculate, in the order of the flat model interface (coq/Model/HipRa.v run_hip)
IN_ATTRS = ['reservoir_temperature', 'rejection_temperature', 'reservoir_porosity', 'reservoir_area',
            'reservoir_thickness', 'reservoir_life_cycle', 'rock_heat_capacity', 'fluid_heat_capacity',
            'fluid_density', 'rock_density', 'recoverable_fluid_factor', 'recoverable_rock_heat',
            'reservoir_depth', 'reservoir_pressure']
# outputs, in the order of hip_vals (coq/Model/HipRa.v); the first group are input parameters Calculate overwrites
OUT_ATTRS = ['reservoir_volume', 'volume_rock', 'volume_recoverable_fluid', 'reservoir_depth', 'reservoir_pressure',
             'fluid_density', 'fluid_heat_capacity', 'mass_rock', 'mass_recoverable_fluid', 'reservoir_mass',
             'enthalpy_rock', 'enthalpy_fluid', 'reservoir_enthalpy', 'stored_heat_rock', 'stored_heat_fluid',
             'reservoir_stored_heat', 'reservoir_available_heat', 'reservoir_producible_heat',
             'reservoir_recovery_factor', 'reservoir_producible_electricity', 'producible_electricity_per_unit_area',
             'electricity_per_unit_volume_reservoir', 'producible_heat_per_unit_area', 'heat_per_unit_volume_reservoir',
             'electricity_per_unit_area_fluid']
ORACLES = ['density_water_kg_per_m3', 'heat_capacity_water_J_per_kg_per_K', 'enthalpy_water_kJ_per_kg',
           'entropy_water_kJ_per_kg_per_K']

_STATE = {'wrapped': False, 'calls': None, 'orig': {}}


def module():
    from hip_ra_x import hip_ra_x as H
    return H


def _wrap_oracles():
    """Record (name, T degC, P MPa) -> value for every water-property call made by hip_ra_x.Calculate."""
    if _STATE['wrapped']:
        return
    H = module()
    for name in ORACLES:
        orig = getattr(H, name)
        _STATE['orig'][name] = orig

        def rec(T, pressure=None, _orig=orig, _name=name):
            p = None if pressure is None else float(pressure.to('MPa').magnitude)
            try:
                v = _orig(T, pressure=pressure)
            except Exception as e:
                if _STATE['calls'] is not None:
                    _STATE['calls'].append((_name, float(T), p, None, type(e).__name__))
                raise
            if _STATE['calls'] is not None:
                _STATE['calls'].append((_name, float(T), p, float(v), None))
            return v

        setattr(H, name, rec)
    _STATE['wrapped'] = True


def oracle_direct(name, T, p_mpa):
    """The water property itself at (T, P) (pure function of its arguments)."""
    H = module()
    fn = _STATE['orig'].get(name) or getattr(H, name)
    return float(fn(float(T), pressure=H.HIP_RA_X._ureg.Quantity(float(p_mpa), 'MPa')))


def cause_name(e):
    c = e.__cause__ or e.__context__
    return type(c).__name__ if c is not None else type(e).__name__


def run_case(text, scratch, want_report=True):
    """-> dict: read_error | pre (values after read_parameters), provided, mins, outs, calc_error (cause type name),
    calls, report (name -> printed token) ; floats are returned as float.hex strings (exact)."""
    logging.disable(logging.CRITICAL)
    _wrap_oracles()
    H = module()
    rid = uuid.uuid4().hex[:12]
    inp, out = Path(scratch, f'hip_in_{rid}.txt'), Path(scratch, f'hip_out_{rid}.out')
    inp.write_text(text)
    stash_argv, stash_cwd = sys.argv, os.getcwd()
    sys.argv = ['', str(inp), str(out)]
    res = {'read_error': None, 'calc_error': None, 'print_error': None, 'calls': [], 'report': None}
    sink = io.StringIO()
    try:
        with contextlib.redirect_stdout(sink), contextlib.redirect_stderr(sink):
            m = H.HIP_RA_X(enable_hip_ra_logging_config=False)
            try:
                m.read_parameters()
            except BaseException as e:  # noqa  (SystemExit included)
                res['read_error'] = f'{type(e).__name__}: {str(e)[:200]}'
                return res
            hx = lambda v: float(v).hex()
            res['pre'] = [hx(getattr(m, a).value) for a in IN_ATTRS]
            res['provided'] = {a: bool(getattr(m, a).Provided) for a in ('reservoir_depth', 'reservoir_pressure')}
            res['current_units'] = {a: str(getattr(getattr(m, a).CurrentUnits, 'value', getattr(m, a).CurrentUnits))
                                    for a in IN_ATTRS}
            res['mins'] = [hx(m.fluid_density.Min), hx(m.fluid_heat_capacity.Min)]
            res['names'] = {a: getattr(m, a).Name for a in OUT_ATTRS}
            _STATE['calls'] = []
            try:
                m.Calculate()
            except Exception as e:
                res['calc_error'] = cause_name(e)
                res['calc_error_msg'] = str(e)[:200]
            finally:
                res['calls'] = _STATE['calls']
                _STATE['calls'] = None
            outs = []
            for a in OUT_ATTRS:
                v = float(getattr(m, a).value)
                outs.append(hx(v) if v == v and abs(v) != float('inf') else repr(v))
            res['outs'] = outs
            res['post_in'] = [hx(getattr(m, a).value) for a in IN_ATTRS]     # what the inputs section will print
            if want_report:                                                  # main() prints whether or not Calculate raised
                try:
                    m.PrintOutputs()
                    res['report'] = out.read_text(encoding='UTF-8')
                    from hip_ra import HipRaResult                           # the parser HipRaXClient returns
                    try:
                        res['client'] = [(k, hx(v['value']), v['unit']) for k, v in HipRaResult(str(out)).result.items()]
                    except Exception as e:
                        res['client_error'] = f'{type(e).__name__}: {str(e)[:200]}'
                    res['post_print'] = {a: (hx(getattr(m, a).value), str(getattr(getattr(m, a).CurrentUnits, 'value', '')))
                                         for a in OUT_ATTRS[:3] + OUT_ATTRS[7:]}
                except Exception as e:
                    res['print_error'] = f'{type(e).__name__}: {str(e)[:200]}'
        return res
    finally:
        sys.argv = stash_argv
        os.chdir(stash_cwd)
        for p in (inp, out):
            with contextlib.suppress(OSError):
                p.unlink()


LEGACY_OUT = ['ReservoirTemperature', 'V', 'qR', 'mWH', 'e', 'qWH', 'Rg', 'WA', 'WE', 'We']


def run_legacy(text, scratch):
    """The legacy program src/hip_ra/HIP_RA.py on one input: read_parameters -> Calculate -> PrintOutputs."""
    logging.disable(logging.CRITICAL)
    from hip_ra import HIP_RA as L
    rid = uuid.uuid4().hex[:12]
    inp, out = Path(scratch, f'hipl_in_{rid}.txt'), Path(scratch, f'hipl_out_{rid}.out')
    inp.write_text(text)
    stash_argv, stash_cwd = sys.argv, os.getcwd()
    sys.argv = ['', str(inp), str(out)]
    res = {'error': None}
    hx = lambda v: float(v).hex()
    try:
        with contextlib.redirect_stdout(io.StringIO()), contextlib.redirect_stderr(io.StringIO()):
            m = L.HIP_RA(enable_hip_ra_logging_config=False)
            m.read_parameters()
            m.Calculate()
            T = m.ReservoirTemperature.value
            res['inputs'] = [hx(x) for x in (T, m.RejectionTemperature.value, m.FormationPorosity.value, m.ReservoirArea.value,
                                             m.ReservoirThickness.value, m.ReservoirHeatCapacity.value, m.DensityOfWater.value,
                                             L._EnthalpyH20_func(T), m.RejectionEnthalpy.value, L._EntropyH20_func(T),
                                             m.RejectionEntropy.value)]
            res['TrejK'] = hx(m.RejectionTemperatureK.value)
            res['outs'] = [hx(getattr(m, a).value) for a in LEGACY_OUT]
            res['names'] = [(getattr(m, a).Name, str(getattr(getattr(m, a).CurrentUnits, 'value', ''))) for a in LEGACY_OUT]
            res['helpers'] = {'util_eff': hx(L._UtilEff_func(T)), 'recoverable': hx(L._RecoverableHeat(-1, T))}
            m.PrintOutputs()
            res['report'] = out.read_text(encoding='UTF-8')
    except BaseException as e:  # noqa
        res['error'] = f'{type(e).__name__}: {str(e)[:200]}'
    finally:
        sys.argv = stash_argv
        os.chdir(stash_cwd)
        for p in (inp, out):
            with contextlib.suppress(OSError):
                p.unlink()
    return res


def _job(a):
    return run_case(*a)


def run_many(ctx, texts, want_report=True, workers=16):
    if not texts:
        return []
    jobs = [(t, str(ctx.scratch), want_report) for t in texts]
    if len(jobs) < 8:
        return [_job(j) for j in jobs]
    with ProcessPoolExecutor(max_workers=min(workers, len(jobs))) as ex:
        return list(ex.map(_job, jobs, chunksize=max(1, len(jobs) // (workers * 4))))


def sections(text):
    """-> (lines of SUMMARY OF INPUTS, lines of SUMMARY OF RESULTS) of a HIP report, without their headers."""
    ins, outs, cur = [], [], None
    for line in text.split('\n'):
        if 'SUMMARY OF INPUTS' in line:
            cur = ins
        elif 'SUMMARY OF RESULTS' in line:
            cur = outs
        elif cur is not None and line != '':
            cur.append(line)
        elif cur is ins and line == '':
            cur = None
    return ins, outs


def parse_report(text):
    """'SUMMARY OF RESULTS' section of the HIP report -> {label: (float, unit)}."""
    out, on = {}, False
    for line in text.splitlines():
        if 'SUMMARY OF RESULTS' in line:
            on = True
            continue
        if not on or ':' not in line:
            continue
        k, _, v = line.strip().rpartition(':')
        toks = v.split()
        if toks:
            out[k.strip()] = (toks[0], ' '.join(toks[1:]))
    return out
