"""Exact calls for C20, executed in a child process of the check:
 * stub_main_cases: the CURRENT text of geophires_x/__main__.py is executed with GEOPHIRESv3.main replaced by a recorder,
   so its argument normalisation / exit status logic runs on hundreds of (cwd, argv) cases without a simulation;
 * json_expr_cases: the statements under `if len(sys.argv) > 2:` of the CURRENT GEOPHIRESv3.main that derive
   json_outputfile are compiled from the source and evaluated on arbitrary output arguments."""
import ast
import os
import runpy
import sys
import types
from pathlib import Path


def stub_main_cases(src, cases):
    """cases: [(cwd, [args...], fail)], fail 0 = main returns, 1 = raises, 2 = bare sys.exit()
    -> [(argv_seen_by_main as list[str] | None, exit_code, cwd_seen_by_main)]"""
    import geophires_x  # the package; GEOPHIRESv3 is replaced before __main__ imports it
    out = []
    seen = {}

    def fake_main(*a, **k):
        seen['argv'] = [str(x) for x in sys.argv]
        seen['cwd'] = os.getcwd()
        if seen['fail'] == 2:
            sys.exit()          # what UPPReservoir, MPFReservoir, ... do: "will abort simulation"
        if seen['fail']:
            raise RuntimeError('simulated failure of the simulation')

    fake = types.ModuleType('geophires_x.GEOPHIRESv3')
    fake.main = fake_main
    sys.modules['geophires_x.GEOPHIRESv3'] = fake
    geophires_x.GEOPHIRESv3 = fake
    home, argv0 = os.getcwd(), sys.argv
    try:
        for cwd, args, fail in cases:
            seen.clear()
            seen['fail'] = fail
            os.chdir(cwd)
            sys.argv = ['geophires_x'] + list(args)
            try:
                runpy.run_module('geophires_x.__main__', run_name='__main__')
                code = 0
            except SystemExit as e:
                code = e.code if isinstance(e.code, int) else (0 if e.code is None else 1)
            except BaseException:   # an uncaught exception ends the interpreter with status 1
                code = 1
            out.append((seen.get('argv'), code, seen.get('cwd')))
    finally:
        os.chdir(home)
        sys.argv = argv0
    return out


def json_expr(src):
    """-> function(output_arg) evaluating the json_outputfile derivation of the current GEOPHIRESv3.main"""
    tree = ast.parse(Path(src, 'geophires_x', 'GEOPHIRESv3.py').read_text(encoding='UTF-8'))
    main = next(n for n in tree.body if isinstance(n, ast.FunctionDef) and n.name == 'main')
    block = None
    for n in ast.walk(main):
        if isinstance(n, ast.If) and 'sys.argv' in ast.unparse(n.test) and any(
                isinstance(t, ast.Name) and t.id == 'json_outputfile' for s in n.body if isinstance(s, ast.Assign) for t in s.targets):
            block = n
    if block is None:
        raise RuntimeError('GEOPHIRESv3.main: the block deriving json_outputfile from sys.argv[2] was not found')
    code = compile(ast.Module(body=block.body, type_ignores=[]), 'GEOPHIRESv3.main:json_outputfile', 'exec')

    def f(output_arg):
        ns = {'sys': types.SimpleNamespace(argv=['', 'in.txt', output_arg]), 'Path': Path, 'os': os}
        try:
            exec(code, ns)
        except ValueError:
            return None
        return str(ns['json_outputfile'])
    return f


def json_expr_cases(src, args):
    f = json_expr(src)
    return [f(a) for a in args]


def client_json_cases(src, args):
    """GeophiresXResult.json_output_file_path of the current source on arbitrary output paths (no file is read)"""
    from geophires_x_client.geophires_x_result import GeophiresXResult
    out = []
    for a in args:
        r = GeophiresXResult.__new__(GeophiresXResult)
        r.output_file_path = a
        try:
            out.append(str(r.json_output_file_path))
        except ValueError:
            out.append(None)
    return out
