"""tools/integrate.py Cxx [...]: merge staged findings, run the quick check for seeds 0 and 1, claim on success."""
import json, subprocess, sys, os, time
from pathlib import Path
HERE = Path(__file__).resolve().parents[1]
for pid in sys.argv[1:]:
    kf = HERE / 'known_findings.json'
    d = json.loads(kf.read_text())
    st = HERE / 'known_findings.d' / f'{pid}.json'
    if st.exists():
        new = json.loads(st.read_text()).get('findings', [])
        ids = {f['id'] for f in d['findings']}
        d['findings'] += [f for f in new if f['id'] not in ids]
        kf.write_text(json.dumps(d, indent=1) + '\n')
        st.unlink()
    ok = True
    for seed in (0, 1):
        t = time.time()
        r = subprocess.run([str(HERE / 'check'), pid, '--tier', 'quick'], capture_output=True, text=True, cwd=HERE,
                           env=dict(os.environ, VERIF_SEED=str(seed)))
        lines = [l for l in r.stdout.splitlines() if l.startswith(('VIOLATION', 'KNOWN-FINDING'))]
        print(pid, 'seed', seed, 'rc', r.returncode, f'{time.time() - t:.0f}s', *[l[:160] for l in lines], sep='\n   ')
        ok &= r.returncode == 0
    if ok:
        c = HERE / 'tools' / 'claimed.json'
        l = sorted(set(json.loads(c.read_text())) | {pid})
        c.write_text(json.dumps(l) + '\n')
subprocess.run(['/venv/bin/python', str(HERE / 'tools' / 'mkmanifest.py')], cwd=HERE)
