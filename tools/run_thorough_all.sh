#!/bin/bash
# run every claimed property's thorough tier once (used with `vp run`); prints one line per property
cd "$(dirname "$0")/.."
./setup.sh > /dev/null 2>&1 || { echo SETUP FAILED; exit 1; }
for p in $(python3 -c "import json;print(' '.join(json.load(open('tools/claimed.json'))))"); do
  t0=$(date +%s)
  VERIF_EVIDENCE_DIR=$PWD/evidence_thorough ./check $p --tier thorough > thorough_$p.out 2>&1
  rc=$?
  echo "$p thorough rc=$rc $(( $(date +%s) - t0 ))s $(grep -c '^VIOLATION' thorough_$p.out) violations $(grep -c '^KNOWN-FINDING' thorough_$p.out) known"
  grep '^VIOLATION' -A1 thorough_$p.out | head -6
done
echo ALL DONE
