"""Regenerate every Gen/*.v from the current /repo tree and build the whole Coq development."""
import importlib
import pkgutil
import sys

from lib import framework as fw
import props


INTEGRATED = set(__import__('json').loads((fw.VERIF / 'tools' / 'claimed.json').read_text()))


def main():
    ctx = fw.Ctx('setup', 'quick', 0)
    gens = []
    targets = []
    for m in pkgutil.iter_modules(props.__path__):
        mod = importlib.import_module(f'props.{m.name}')
        if not mod.META.get('claimed', True) or m.name not in INTEGRATED:
            continue   # work in progress: not built by setup, not in the manifest
        targets.append(mod.META['props'][:-2] + '.vo')
        for g in getattr(mod, 'GENERATORS', ()):
            if g not in gens:
                gens.append(g)
    with fw.coq_lock():
        for g in gens:
            g(ctx)
        rc, log = fw.make(sorted(set(targets)), timeout=3000)
    print(log[-3000:])
    if rc != 0:
        sys.exit(rc)
    if (fw.COQ / 'Extract' / 'build.sh').exists():
        import subprocess
        sys.exit(subprocess.run(['bash', str(fw.COQ / 'Extract' / 'build.sh')]).returncode)


if __name__ == '__main__':
    main()
