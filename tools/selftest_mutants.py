"""Self-validation (DESIGN section 8; not a registered check): apply hand-written mutants one at a time to a scratch git
worktree of /repo under /var/tmp, run the property's quick check against it (VERIF_REPO), record which fired.
usage: tools/selftest_mutants.py [Cxx ...]      (mutant list: tools/mutants.json; patches: seeded/<id>/patch.diff)"""
import json
import os
import subprocess
import sys
from pathlib import Path

HERE = Path(__file__).resolve().parents[1]
WT = Path('/var/tmp/verif_mutant_wt')


def sh(*a, **k):
    return subprocess.run(a, capture_output=True, text=True, **k)


def main():
    want = set(sys.argv[1:])
    muts = json.loads((HERE / 'tools' / 'mutants.json').read_text())
    for d in sorted((HERE / 'seeded').glob('*/meta.json')):
        m = json.loads(d.read_text())
        muts.append({'id': d.parent.name, 'props': m.get('checks', [m['property']]), 'patch': str(d.parent / 'patch.diff')})
    sh('git', '-C', '/repo', 'worktree', 'remove', '--force', str(WT))
    r = sh('git', '-C', '/repo', 'worktree', 'add', '--detach', str(WT), 'HEAD')
    assert r.returncode == 0, r.stderr
    results = []
    try:
        for m in muts:
            props = m['props']
            if want and not (want & set(props)) and m['id'] not in want:
                continue
            sh('git', '-C', str(WT), 'checkout', '--', '.')
            if 'patch' in m:
                r = sh('git', '-C', str(WT), 'apply', m['patch'])
                if r.returncode != 0:
                    print(m['id'], 'PATCH DOES NOT APPLY', r.stderr[:200])
                    continue
            else:
                f = WT / m['file']
                s = f.read_text()
                if s.count(m['old']) < 1:
                    print(m['id'], 'OLD TEXT NOT FOUND')
                    continue
                f.write_text(s.replace(m['old'], m['new'], 1))
            for pid in props:
                if want and pid not in want and m['id'] not in want:
                    continue
                env = dict(os.environ, VERIF_REPO=str(WT), VERIF_EVIDENCE_DIR='/var/tmp/verif_mutant_evidence')
                r = sh(str(HERE / 'check'), pid, '--tier', 'quick', env=env, cwd=HERE)
                lines = [l for l in r.stdout.splitlines() if l.startswith('VIOLATION')]
                verdict = 'CAUGHT' if r.returncode == 1 and lines else ('MISSED' if r.returncode == 0 else f'ERROR rc={r.returncode}')
                nf = sum('no-failing-input-found' in l for l in lines)
                print(f'{m["id"]:40s} {pid} {verdict} violations={len(lines)} without-input={nf}', flush=True)
                results.append({'mutant': m['id'], 'property': pid, 'verdict': verdict, 'violations': len(lines), 'no_input': nf,
                                'first': (r.stdout.splitlines() or [''])[0:3]})
    finally:
        sh('git', '-C', '/repo', 'worktree', 'remove', '--force', str(WT))
        sh('rm', '-rf', '/var/tmp/verif_mutant_evidence')
    out = HERE / 'tools' / 'mutants_last_run.json'
    out.write_text(json.dumps(results, indent=1))


if __name__ == '__main__':
    main()
