"""coq/Gen/WellCost.v: the drilling-cost correlation table of OptionList.WellDrillingCostCorrelation, regenerated from
the current source (exact rational value of every float coefficient)."""
from lib import framework as fw, qconv


def table():
    import geophires_x.Model  # noqa: F401
    from geophires_x.OptionList import WellDrillingCostCorrelation as W
    rows = []
    for m in W:
        rows.append((int(m.int_value), m.name, qconv.F(m._c2), qconv.F(m._c1), qconv.F(m._c0), m is W.SIMPLE))
    return rows


def generate(ctx=None):
    rows = table()
    if len(rows) < 2:
        raise RuntimeError('no drilling cost correlations found')
    body = ';\n  '.join(f'({qconv.zlit(i)}, {qconv.blit(simple)}, ({qconv.q(c2)}, {qconv.q(c1)}, {qconv.q(c0)}))  (* {name} *)'
                        for i, name, c2, c1, c0, simple in rows)
    text = ('(* GENERATED from /repo/src/geophires_x/OptionList.py (WellDrillingCostCorrelation) - do not edit *)\n'
            'From Coq Require Import QArith ZArith List Bool.\nImport ListNotations.\nOpen Scope Q_scope.\n'
            '(* (int value, is the SIMPLE per-metre member, (c2, c1, c0)) : cost_MUSD(d) = (c2 d^2 + c1 d + c0) * 1e-6 *)\n'
            f'Definition well_cost_table : list (Z * bool * (Q * Q * Q)) := [\n  {body}].\n')
    fw.write_if_changed(fw.COQ / 'Gen' / 'WellCost.v', text)
    return rows
