"""Gen/SchemaTables.v: the request/result schemas as GENERATED now by geophires_x_schema_generator, the three JSON
files COMMITTED in the repository, the result fields the client extracts, and which classes belong to which program.

Reusable API:  load() -> dict with the Python-side tables (same order as the Coq lists);  gen_schematables(ctx).
"""
import hashlib
import json
import logging
import math
from fractions import Fraction

from gen import paramtable
from lib import framework as fw, qconv

SCHEMA_DIR = 'src/geophires_x_schema_generator'
FILES = {'request': 'geophires-request.json', 'result': 'geophires-result.json', 'hip_request': 'hip-ra-x-request.json'}


def digest(obj):
    return hashlib.sha256(json.dumps(obj, sort_keys=True, default=str).encode()).hexdigest()[:16]


def numv(x):
    """JSON value -> exact rational (numeric strings such as "1.0" are what _fix_floating_point_error emits)."""
    if isinstance(x, bool) or x is None:
        return None
    if isinstance(x, str):
        try:
            x = float(x)
        except ValueError:
            return None
    if isinstance(x, (int, float)):
        return Fraction(x) if math.isfinite(x) else None
    return None


def entry(name, s):
    if not isinstance(s, dict):
        raise ValueError(f'schema property {name!r} is not an object')
    enum = s.get('enum_values') or []
    return {'name': name, 'type': str(s.get('type')), 'units': s.get('units') if isinstance(s.get('units'), str) else '',
            'category': s.get('category') if isinstance(s.get('category'), str) else '',
            'default': numv(s.get('default')), 'deftxt': paramtable.canon(s.get('default')) if not isinstance(s.get('default'), dict) else 'object',
            'min': numv(s.get('minimum')), 'max': numv(s.get('maximum')), 'enum': [int(e['int_value']) for e in enum if 'int_value' in e],
            'digest': digest(s), 'raw': s}


def request_tables(schema):
    props = schema.get('properties', {})
    meta = {k: v for k, v in schema.items() if k not in ('properties', 'required')}
    return [entry(n, s) for n, s in props.items()], list(schema.get('required', [])), digest(meta)


def result_tables(schema):
    out = []
    for cat, c in schema.get('properties', {}).items():
        for f, s in c.get('properties', {}).items():
            out.append({'category': cat, 'field': f, 'digest': digest(s)})
    meta = {k: v for k, v in schema.items() if k != 'properties'}
    return out, digest(meta)


def rst_entries(rst):
    """rows of the input-parameter list-tables of a generated parameter reference (.rst), as schema-like entries:
    Name, Preferred Units, Default Value Type, Default Value, Min, Max exactly as rendered."""
    import ast
    inputs = rst.split('\nOutputs\n####')[0]
    out = []
    for chunk in inputs.split('\n       * - ')[1:]:
        f = chunk.split('\n         - ')
        if len(f) != 7:
            raise ValueError(f'unrecognised rst row: {chunk[:80]!r}')
        name, _, units, typ, default, lo, hi = (x.strip('\n') if i < 6 else x.split('\n')[0] for i, x in enumerate(f))
        if name == 'Name':
            continue
        if typ == 'boolean':
            deftxt = {'True': 'true', 'False': 'false'}.get(default, 's:' + default)
        elif typ == 'array':
            try:
                deftxt = paramtable.canon(ast.literal_eval(default))
            except (ValueError, SyntaxError):
                deftxt = 's:' + default
        else:
            deftxt = 'null' if default == 'None' else 's:' + default     # str(None) is how a missing default is rendered
        out.append({'name': name, 'type': typ, 'units': '' if units == 'None' else units, 'category': '', 'default': numv(default) if typ in ('number', 'integer') else None,
                    'deftxt': deftxt, 'min': numv(lo), 'max': numv(hi), 'enum': [], 'digest': digest(f[2:]),
                    'raw': {'Preferred Units': units, 'Default Value Type': typ, 'Default Value': default, 'Min': lo, 'Max': hi}})
    return out


_CACHE = {}


def load():
    if 'd' in _CACHE:
        return _CACHE['d']
    logging.disable(logging.CRITICAL)
    import geophires_x.Model  # noqa: F401
    from geophires_x_schema_generator import GeophiresXSchemaGenerator, HipRaXSchemaGenerator
    from geophires_x_client import GeophiresXResult
    d = {}
    req, res = GeophiresXSchemaGenerator().generate_json_schema()
    hreq, hres = HipRaXSchemaGenerator().generate_json_schema()
    if hres is not None:
        raise ValueError('HIP-RA-X now generates a result schema: not modelled')
    req, res, hreq = (json.loads(json.dumps(x)) for x in (req, res, hreq))   # what main.py writes, as JSON values
    com = {k: json.loads((fw.REPO / SCHEMA_DIR / f).read_text()) for k, f in FILES.items()}
    d['gen_request'], d['gen_required'], d['gen_request_meta'] = request_tables(req)
    d['com_request'], d['com_required'], d['com_request_meta'] = request_tables(com['request'])
    d['gen_hip'], d['gen_hip_required'], d['gen_hip_meta'] = request_tables(hreq)
    d['com_hip'], d['com_hip_required'], d['com_hip_meta'] = request_tables(com['hip_request'])
    d['gen_rst'] = rst_entries(GeophiresXSchemaGenerator().generate_parameters_reference_rst())
    d['gen_hip_rst'] = rst_entries(HipRaXSchemaGenerator().generate_parameters_reference_rst())
    d['gen_result'], d['gen_result_meta'] = result_tables(res)
    d['com_result'], d['com_result_meta'] = result_tables(com['result'])
    # noinspection PyProtectedMember
    d['client_fields'] = [(cat, f if isinstance(f, str) else f.field_name)
                          for cat, fs in GeophiresXResult._RESULT_FIELDS_BY_CATEGORY.items() for f in fs]
    cls = paramtable.module_classes()
    d['geo_classes'] = [c.__name__ for p, c in cls if p == 'geophires_x']
    d['hip_classes'] = [c.__name__ for p, c in cls if p == 'hip_ra_x']
    _CACHE['d'] = d
    return d


cs = paramtable.cs


def oq(x):
    return 'None' if x is None else f'(Some {qconv.q(x)})'


def coq_entry(e):
    enum = '[' + '; '.join(qconv.zlit(n) for n in e['enum']) + ']'
    return (f'mkS {cs(e["name"])} {cs(e["type"])} {cs(e["units"])} {cs(e["category"])} {oq(e["default"])} {cs(e["deftxt"])} '
            f'{oq(e["min"])} {oq(e["max"])} {enum} {cs(e["digest"])}')


def coq_list(name, ty, items):
    return f'Definition {name} : list ({ty}) := [\n ' + ';\n '.join(items) + '\n].\n\n' if items else f'Definition {name} : list ({ty}) := [].\n\n'


def gen_schematables(ctx):
    d = load()
    t = ('(* GENERATED by tools/gen/schematables.py from the schema generator and the committed JSON files; do not edit *)\n'
         'From Coq Require Import QArith ZArith List String.\nFrom Verif Require Import Base.ParamRec Model.Schema.\n'
         'Import ListNotations.\nOpen Scope string_scope.\nOpen Scope Q_scope.\n\n')
    for k in ('gen_request', 'com_request', 'gen_hip', 'com_hip', 'gen_rst', 'gen_hip_rst'):
        t += coq_list(k, 'sentry', [coq_entry(e) for e in d[k]])
    for k in ('gen_required', 'com_required', 'gen_hip_required', 'com_hip_required', 'geo_classes', 'hip_classes'):
        t += coq_list(k, 'string', [cs(x) for x in d[k]])
    for k in ('gen_result', 'com_result'):
        t += coq_list(k, 'rfield', [f'({cs(e["category"])}, {cs(e["field"])}, {cs(e["digest"])})' for e in d[k]])
    t += coq_list('client_fields', 'string * string', [f'({cs(c)}, {cs(f)})' for c, f in d['client_fields']])
    t += coq_list('gen_meta', 'string', [cs(d[k]) for k in ('gen_request_meta', 'gen_hip_meta', 'gen_result_meta')])
    t += coq_list('com_meta', 'string', [cs(d[k]) for k in ('com_request_meta', 'com_hip_meta', 'com_result_meta')])
    fw.write_if_changed(fw.COQ / 'Gen' / 'SchemaTables.v', t)
    return len(d['gen_request'])
