"""Generator for coq/Gen/InputParamUses.v (C12): every syntactic use of `<x>.InputParameters` in the simulator
packages, classified by an `ast` walk of the CURRENT source.  Fail-closed: a construct that is not recognised is
classified `UUnknown`, an iteration whose body is not recognised is `UIterOrdered`; both make C12_lookup_only fail
unless the site is the documented add-on block."""
import ast
from pathlib import Path

from lib import framework as fw, qconv

PACKAGES = ['geophires_x', 'hip_ra_x']
KINDS = ['UMember', 'ULookup', 'USize', 'UCreate', 'UPopulate', 'UIterExists', 'UIterKeyedStore', 'UIterOrdered',
         'UStore', 'UDelete', 'UUnknown']


def _parents(tree):
    par = {}
    for n in ast.walk(tree):
        for c in ast.iter_child_nodes(n):
            par[c] = n
    return par


def _enclosing(par, node):
    names = []
    n = node
    while n in par:
        n = par[n]
        if isinstance(n, (ast.FunctionDef, ast.AsyncFunctionDef, ast.ClassDef)):
            names.append(n.name)
    return '.'.join(reversed(names)) or '<module>'


def _uses_name(node, name):
    return any(isinstance(x, ast.Name) and x.id == name for x in ast.walk(node))


def _keyed_slot(target, key):
    if isinstance(target, ast.Attribute):
        target = target.value
    return isinstance(target, ast.Subscript) and _uses_name(target.slice, key)


def _classify_iteration(loop):
    """for <key> in X.InputParameters[.keys()]: body  ->  UIterExists | UIterKeyedStore | UIterOrdered"""
    if not isinstance(loop.target, ast.Name) or loop.orelse:
        return 'UIterOrdered'
    key = loop.target.id

    def prefix_test(st):   # `if key.startswith(<constant>): ...` without else
        return (isinstance(st, ast.If) and not st.orelse and isinstance(st.test, ast.Call)
                and isinstance(st.test.func, ast.Attribute) and st.test.func.attr == 'startswith'
                and isinstance(st.test.func.value, ast.Name) and st.test.func.value.id == key
                and len(st.test.args) == 1 and isinstance(st.test.args[0], ast.Constant))

    exits = [n for st in loop.body for n in ast.walk(st) if isinstance(n, (ast.Break, ast.Continue, ast.Return, ast.Raise))]
    # "is there a key with prefix p": ONE predicate, flag = constant, break.  Two such scans sharing a loop stop at
    # whichever kind comes first in the file and are order-sensitive, as is any early exit next to other work.
    if len(loop.body) == 1 and prefix_test(loop.body[0]):
        body = loop.body[0].body
        if (len(body) == 2 and isinstance(body[1], ast.Break) and isinstance(body[0], ast.Assign)
                and isinstance(body[0].value, ast.Constant) and not _uses_name(body[0], key) and len(exits) == 1):
            return 'UIterExists'
    # "one keyed slot per key": every statement is a prefix test whose body only stores into slots selected by the key,
    # and the loop has no early exit at all
    if not exits and loop.body and all(
            prefix_test(st) and st.body and all(isinstance(b, ast.Assign) and len(b.targets) == 1 and _keyed_slot(b.targets[0], key)
                                                for b in st.body) for st in loop.body):
        return 'UIterKeyedStore'
    return 'UIterOrdered'


def classify(par, node):
    p = par.get(node)
    if isinstance(p, ast.Compare) and node in p.comparators and all(isinstance(o, (ast.In, ast.NotIn)) for o in p.ops):
        return 'UMember'
    if isinstance(p, ast.Subscript) and p.value is node:
        return {ast.Load: 'ULookup', ast.Store: 'UStore', ast.Del: 'UDelete'}.get(type(p.ctx), 'UUnknown')
    if isinstance(p, ast.Call) and node in p.args:
        if isinstance(p.func, ast.Name) and p.func.id == 'len':
            return 'USize'
        if isinstance(p.func, ast.Name) and p.func.id == 'read_input_file':
            return 'UPopulate'
        return 'UUnknown'
    if isinstance(p, (ast.Assign, ast.AnnAssign)):
        targets = p.targets if isinstance(p, ast.Assign) else [p.target]
        if node in targets and isinstance(p.value, ast.Dict) and not p.value.keys:
            return 'UCreate'
        return 'UUnknown'
    it = node
    if isinstance(p, ast.Attribute) and p.attr == 'keys' and isinstance(par.get(p), ast.Call):
        it = par[p]
        p = par.get(it)
    if isinstance(p, ast.For) and p.iter is it:
        return _classify_iteration(p)
    return 'UUnknown'


def scan(src_root):
    rows = []
    for pkg in PACKAGES:
        for f in sorted(Path(src_root, pkg).rglob('*.py')):
            tree = ast.parse(f.read_text(encoding='UTF-8'))
            par = _parents(tree)
            for n in ast.walk(tree):
                if isinstance(n, ast.Attribute) and n.attr == 'InputParameters':
                    rows.append((f'{pkg}/{f.relative_to(Path(src_root, pkg))}', _enclosing(par, n), classify(par, n), n.lineno))
    rows.sort()
    return rows


def gen(ctx):
    rows = scan(fw.SRC)
    if not rows:
        raise RuntimeError('no use of InputParameters found under ' + str(fw.SRC))
    # identical (file, function, kind) sites are merged: moving code inside a function changes nothing
    merged = sorted({(f, fn, k) for f, fn, k, _ in rows})
    out = ['(* GENERATED by tools/gen/input_param_uses.py from the current source - do not edit *)',
           'From Coq Require Import String List.', 'Import ListNotations.', 'Open Scope string_scope.',
           'Inductive use_kind := ' + ' | '.join(KINDS) + '.',
           'Definition uses : list (string * string * use_kind) := [']
    out.append(';\n'.join(f'  ({qconv.coq_string(f)}, {qconv.coq_string(fn)}, {k})' for f, fn, k in merged))
    out.append('].')
    fw.write_if_changed(fw.COQ / 'Gen' / 'InputParamUses.v', '\n'.join(out) + '\n')
    return rows
