"""Generators for C10: coq/Gen/C10Fields.v (what the client looks for, from the live class) and
coq/Gen/C10Labels.v (what the report writers can print, from an ast walk of the writer sources with the
name expressions evaluated on a live model).  Fail-closed: an unrecognised construct raises."""
import ast
import logging
import os
import tempfile
from pathlib import Path

from lib import framework as fw, qconv

WRITERS = ['Outputs.py', 'OutputsAddOns.py', 'OutputsS_DAC_GT.py', 'SUTRAOutputs.py', 'AGSOutputs.py']
CS = qconv.coq_bytes


def _strlist(xs):
    return '[' + '; '.join(CS(x) for x in xs) + ']'


# --------------------------------------------------------------------------------------------- client tables

def client_tables():
    """fields [(category, name, kind, indent)], hard-coded headers by profile (read through the client itself)"""
    logging.disable(logging.CRITICAL)
    from geophires_x_client.geophires_x_result import GeophiresXResult, _EqualSignDelimitedField, _StringValueField
    fields = []
    for cat, fl in GeophiresXResult._RESULT_FIELDS_BY_CATEGORY.items():
        for f in fl:
            kind = 2 if isinstance(f, _EqualSignDelimitedField) else 1 if isinstance(f, _StringValueField) else 0
            name = f if kind == 0 else f.field_name
            fields.append((cat, name, kind, 1 if cat == 'Simulation Metadata' else 4))
    # the hard-coded headers are literals inside methods: read them by parsing a minimal report
    rev = GeophiresXResult._REVENUE_AND_CASHFLOW_PROFILE_HEADERS
    row = lambda n: ' '.join(['1'] * n)

    def block(name, n):
        return f'*  {name}  *\n***\nh1\nh2\nh3\n' + f'{row(n)}\n' * 4 + '\n\n'

    with tempfile.TemporaryDirectory() as d:
        p = Path(d, 'r.out')
        p.write_text(block('EXTENDED ECONOMIC PROFILE', 3) + block('REVENUE & CASHFLOW PROFILE', len(rev))
                     + block('S-DAC-GT PROFILE', 3))
        r1 = GeophiresXResult(str(p)).result
        p.write_text(block('CCUS PROFILE', 3))
        r2 = GeophiresXResult(str(p)).result
    heads = {
        'revenue': list(rev),
        # a client that no longer finds these tables yields no titles here; the check then reports the lost tables
        'extended': r1.get('EXTENDED ECONOMIC PROFILE', [[]])[0],
        'sdacgt': r1.get('S-DAC-GT PROFILE', [[]])[0],
        'carbon': r1.get(GeophiresXResult.CARBON_REVENUE_PROFILE_NAME, [[]])[0],
        'ccus_legacy': r2.get(GeophiresXResult.CCUS_PROFILE_LEGACY_NAME, [[]])[0],
    }
    names = {'carbon_name': GeophiresXResult.CARBON_REVENUE_PROFILE_NAME, 'ccus_legacy_name': GeophiresXResult.CCUS_PROFILE_LEGACY_NAME,
             'carbon_price_field': GeophiresXResult._CARBON_PRICE_FIELD_NAME}
    return fields, heads, names


def gen_fields(ctx):
    fields, heads, names = client_tables()
    out = ['(* generated from geophires_x_client.geophires_x_result.GeophiresXResult - do not edit *)',
           'From Coq Require Import String List.', 'From Verif Require Import Model.ResultParser.', 'Import ListNotations.',
           'Open Scope string_scope.', '', 'Definition fields : list fieldspec := [']
    out.append(';\n'.join(f'  FS {CS(c)} {CS(n)} {k} {i}' for c, n, k, i in fields) + '].')
    for k, v in heads.items():
        out.append(f'Definition {k}_headers : list string := {_strlist(v)}.')
    for k, v in names.items():
        out.append(f'Definition {k} : string := {CS(v)}.')
    fw.write_if_changed(fw.COQ / 'Gen' / 'C10Fields.v', '\n'.join(out) + '\n')


# --------------------------------------------------------------------------------------------- writer labels

_LIVE = {}


def live_model():
    """one real run with add-ons and S-DAC-GT so that every writer's name expressions can be evaluated"""
    if 'model' in _LIVE:
        return _LIVE['model']
    from geophires_x import GEOPHIRESv3, _verif_hook  # noqa: F401
    import sys
    text = ('Reservoir Model, 4\nReservoir Depth, 3\nGradient 1, 50\nEnd-Use Option, 1\nPower Plant Type, 1\nPlant Lifetime, 3\n'
            'Print Output to Console, 0\nDo AddOn Calculations, True\nAddOn Nickname 1, a\nAddOn CAPEX 1, 1\nAddOn OPEX 1, 0.1\n'
            'AddOn Electricity Gained 1, 1000\nAddOn Heat Gained 1, 0\nAddOn Profit Gained 1, 0.1\nDo S-DAC-GT Calculations, True\n')
    d = tempfile.mkdtemp(dir=os.environ.get('TMPDIR', '/var/tmp'))
    inp, out = Path(d, 'in.txt'), Path(d, 'out.out')
    inp.write_text(text)
    stash = (os.getcwd(), sys.argv, os.environ.get('GEOPHIRES_X_VERIF_OBSERVER'), sys.stdout)
    os.environ['GEOPHIRES_X_VERIF'] = '1'
    os.environ['GEOPHIRES_X_VERIF_OBSERVER'] = 'gen.c10_tables:_observe'
    sys.argv = ['', str(inp), str(out)]
    logging.disable(logging.CRITICAL)
    try:
        import io
        sys.stdout = io.StringIO()
        GEOPHIRESv3.main(enable_geophires_logging_config=False)
    finally:
        sys.stdout = stash[3]
        os.chdir(stash[0])
        sys.argv = stash[1]
        if stash[2] is None:
            os.environ.pop('GEOPHIRES_X_VERIF_OBSERVER', None)
        else:
            os.environ['GEOPHIRES_X_VERIF_OBSERVER'] = stash[2]
    if 'model' not in _LIVE:
        raise RuntimeError('the verification hook did not hand over a model')
    return _LIVE['model']


def _observe(model):
    _LIVE['model'] = model


NUM = object()
LABEL_RE = __import__('re').compile(r'^ +\S.*:( |$)')


def _parts(node):
    """flatten the argument of f.write into constants (str), NUM (a formatted figure) and expressions (ast)"""
    if isinstance(node, ast.Constant) and isinstance(node.value, str):
        return [node.value]
    if isinstance(node, ast.JoinedStr):
        out = []
        for v in node.values:
            if isinstance(v, ast.Constant):
                out.append(v.value)
            elif isinstance(v, ast.FormattedValue):
                spec = ''.join(x.value for x in v.format_spec.values if isinstance(x, ast.Constant)) if v.format_spec else ''
                out.append(v.value if spec in ('', 's') else NUM)
            else:
                raise ValueError('unexpected f-string part ' + ast.dump(v))
        return out
    if isinstance(node, ast.BinOp) and isinstance(node.op, ast.Add):
        return _parts(node.left) + _parts(node.right)
    if isinstance(node, ast.Call) and isinstance(node.func, ast.Attribute) and node.func.attr == 'format' \
            and isinstance(node.func.value, ast.Constant):
        return [NUM]
    if isinstance(node, (ast.Name, ast.Attribute, ast.Call, ast.Subscript)):
        return [node]
    raise ValueError('unrecognised f.write argument: ' + ast.dump(node)[:200])


def writer_lines(src_dir=None):
    """-> (labels {(indent, label, kind)}, others {literal text}) over every f.write of the writer modules"""
    import numpy as np
    model = live_model()          # imports geophires_x.Model first (circular imports)
    import geophires_x
    from geophires_x.Outputs import Outputs
    labels, others = set(), set()
    src_dir = Path(src_dir or fw.SRC / 'geophires_x')
    for fn in WRITERS:
        tree = ast.parse((src_dir / fn).read_text())
        for func in [n for n in ast.walk(tree) if isinstance(n, ast.FunctionDef)]:
            ns = {'model': model, 'Outputs': Outputs, 'NL': '\n', 'np': np, 'geophires_x': geophires_x, 'str': str, 'round': round}
            assigns = sorted([n for n in ast.walk(func) if isinstance(n, (ast.Assign, ast.AnnAssign))], key=lambda n: n.lineno)
            for n in assigns:
                tgt = n.target if isinstance(n, ast.AnnAssign) else n.targets[0] if len(n.targets) == 1 else None
                if isinstance(tgt, ast.Name) and n.value is not None:
                    try:
                        ns[tgt.id] = eval(compile(ast.Expression(n.value), fn, 'eval'), ns)
                    except Exception:
                        pass              # not a name/label helper (needs run-time state): left undefined
            loopvars = {n.target.id for n in ast.walk(func) if isinstance(n, ast.For) and isinstance(n.target, ast.Name)}
            for call in [n for n in ast.walk(func) if isinstance(n, ast.Call) and isinstance(n.func, ast.Attribute)
                         and n.func.attr == 'write' and isinstance(n.func.value, ast.Name) and n.func.value.id == 'f']:
                if len(call.args) != 1:
                    raise ValueError(f'{fn}:{call.lineno}: f.write with {len(call.args)} arguments')
                parts = _parts(call.args[0])
                used = {x.id for p in parts if isinstance(p, ast.AST) for x in ast.walk(p) if isinstance(x, ast.Name)} & loopvars
                for k in (range(1, 5) if used else [None]):
                    env = dict(ns, **{v: k for v in used})
                    text, literal = '', True
                    for p in parts:
                        if p is NUM:
                            literal = False
                            break
                        if isinstance(p, str):
                            text += p
                            continue
                        literal = False
                        if text.rstrip().endswith((':', '=')):
                            break                     # the label is complete: what follows is the value
                        try:
                            text += str(eval(compile(ast.Expression(p), fn, 'eval'), env))
                        except Exception as e:
                            last = text.split('\n')[-1]
                            if last and not last.startswith(' '):
                                break                 # not a label line (labels are indented): a table heading
                            raise ValueError(f'{fn}:{call.lineno}: cannot evaluate label expression '
                                             f'{ast.unparse(p)}: {e!r}') from e
                    pieces = text.split('\n')
                    for j, line in enumerate(pieces):
                        cut = (not literal) and j == len(pieces) - 1      # the text stops where the value starts
                        body = line.rstrip()
                        if cut and body.endswith(':') or not cut and LABEL_RE.match(line):
                            labels.add(_label(line, ':'))
                        elif cut and body.endswith('=') or not cut and ' = ' in line:
                            labels.add(_label(line, '='))
                        elif line.strip():
                            others.add(line)
    return labels, others


def _label(line, sep):
    """(indent, label, kind): the line starts with indent blanks + label + ': ' (kind 0) or + ' = ' (kind 1)"""
    indent = len(line) - len(line.lstrip(' '))
    body = line[indent:]
    if sep == ':':
        # the label ends at the last colon that is followed by a blank or the end of the text
        cut = max(i for i, ch in enumerate(body) if ch == ':' and (i + 1 == len(body) or body[i + 1] == ' '))
        return indent, body[:cut], 0
    cut = body.index(' = ') if ' = ' in body else body.rstrip().rindex(' =')
    return indent, body[:cut], 1


def gen_labels(ctx):
    labels, others = writer_lines()
    if len(labels) < 150:
        raise ValueError(f'only {len(labels)} writer labels recognised')
    out = ['(* generated from the f.write calls of ' + ', '.join(WRITERS) + ' - do not edit *)',
           'From Coq Require Import String List.', 'Import ListNotations.', 'Open Scope string_scope.', '',
           '(* (indentation, label, kind): the writer prints indentation blanks, the label, then ": " (0) or " = " (1) *)',
           'Definition writer_labels : list (nat * string * nat) := [']
    out.append(';\n'.join(f'  ({i}, {CS(l)}, {k})' for i, l, k in sorted(labels)) + '].')
    out.append('(* literal text of the other lines (banners, table headings, notes) *)')
    out.append('Definition writer_other_lines : list string := [')
    out.append(';\n'.join('  ' + CS(o) for o in sorted(others)) + '].')
    fw.write_if_changed(fw.COQ / 'Gen' / 'C10Labels.v', '\n'.join(out) + '\n')
