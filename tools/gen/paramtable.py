"""Gen/ParamTable.v: every input Parameter of every module class of geophires_x and hip_ra_x, dumped from live objects.

The classes are DISCOVERED by scanning the packages (every class defined in a module of the package that has a
`read_parameters` method), not taken from the schema generator's list.  Fail-closed: a class that cannot be
instantiated, or a declaration the encoder does not understand, raises (-> reported as a broken tie).

Reusable API (in-process, PYTHONPATH must contain <repo>/src):
    sources()  -> [(class_name, instance)]  fresh instances built on one dummy Model
    rows()     -> [dict]  one per (class, parameter): cls name kind default value min max runs units pref utype
                  required jtype deftxt   (numbers are exact fractions.Fraction, None when not a number)
    coq_row(r) -> Coq term of type Base.ParamRec.param
    gen_paramtable(ctx)  writes coq/Gen/ParamTable.v  (Definition param_table : list param)
"""
import enum
import importlib
import inspect
import logging
import math
import os
import pkgutil
import re
import sys
from fractions import Fraction

from lib import framework as fw, qconv

PACKAGES = ('geophires_x', 'hip_ra_x')
SKIP_CLASSES = {'Model'}          # the container: owns no ParameterDict of its own
KINDS = {'floatParameter': 'KFloat', 'intParameter': 'KInt', 'boolParameter': 'KBool', 'strParameter': 'KStr',
         'listParameter': 'KList'}


def dummy_model():
    import geophires_x.Model as M  # noqa: F401  (Model first: circular import)
    stash_cwd, stash_argv = os.getcwd(), sys.argv
    sys.argv = ['']
    try:
        return M.Model(enable_geophires_logging_config=False)
    finally:
        sys.argv = stash_argv
        os.chdir(stash_cwd)


def module_classes():
    """[(package, class)] in deterministic order."""
    import geophires_x.Model  # noqa: F401
    out = []
    for pkgname in PACKAGES:
        pkg = importlib.import_module(pkgname)
        for mi in sorted(pkgutil.iter_modules(pkg.__path__), key=lambda m: m.name):
            if mi.name.startswith('__'):
                continue
            mod = importlib.import_module(f'{pkgname}.{mi.name}')
            for n, c in sorted(inspect.getmembers(mod, inspect.isclass)):
                if c.__module__ == mod.__name__ and hasattr(c, 'read_parameters') and n not in SKIP_CLASSES:
                    out.append((pkgname, c))
    return out


def instantiate(pkgname, cls, model):
    if pkgname == 'hip_ra_x':
        return cls(enable_hip_ra_logging_config=False)
    return cls(model)


def sources(model=None):
    logging.disable(logging.CRITICAL)
    model = model or dummy_model()
    out = []
    for pkgname, c in module_classes():
        o = instantiate(pkgname, c, model)
        if not isinstance(getattr(o, 'ParameterDict', None), dict):
            raise RuntimeError(f'{c.__name__} has read_parameters but no ParameterDict')
        out.append((c.__name__, o))
    return out


def num(x, probes=(0, 1, 2, -1)):
    """Exact rational a Python number compares equal to, None when `number == x` can never hold."""
    if isinstance(x, (bool, int)):
        return Fraction(int(x))
    if isinstance(x, float) or type(x).__module__ == 'numpy':
        x = float(x)
        if not math.isfinite(x):
            raise ValueError(f'non-finite declaration {x!r}')
        return Fraction(x)
    if x is None or isinstance(x, (str, list, tuple, enum.Enum)):
        if any(p == x for p in probes):
            raise ValueError(f'{x!r} compares equal to a number')
        return None
    raise ValueError(f'unrecognised declared value {x!r} ({type(x).__name__})')


def canon(x):
    """Canonical text of a default value (independent of the schema generator's serialiser)."""
    if isinstance(x, bool):
        return 'true' if x else 'false'
    if x is None:
        return 'null'
    if isinstance(x, enum.Enum) and not isinstance(x, int):
        return 'e:' + str(x.value)
    if isinstance(x, str):
        return 's:' + x
    if isinstance(x, (list, tuple)):
        return '[' + ','.join(canon(y) for y in x) + ']'
    f = num(x)
    return f'{f.numerator}/{f.denominator}'


def unit_text(u):
    if isinstance(u, enum.Enum):
        u = u.value
    return u if isinstance(u, str) else ''


def runs_of(ar):
    if not all(isinstance(v, int) and not isinstance(v, bool) for v in ar):
        raise ValueError(f'AllowableRange with non-integer members: {ar[:5]!r}')
    runs = []
    for v in sorted(set(ar)):
        if runs and runs[-1][1] == v - 1:
            runs[-1][1] = v
        else:
            runs.append([v, v])
    return [tuple(r) for r in runs]


def row(cls_name, p):
    kind = KINDS.get(type(p).__name__)
    if kind is None:
        raise ValueError(f'{cls_name}.{p.Name}: unknown parameter class {type(p).__name__}')
    r = {'cls': cls_name, 'name': p.Name, 'kind': kind, 'default': None, 'value': None, 'min': Fraction(0), 'max': Fraction(0),
         'runs': [], 'units': unit_text(p.CurrentUnits), 'pref': unit_text(p.PreferredUnits),
         'utype': getattr(p.UnitType, 'name', str(p.UnitType)), 'required': bool(p.Required),
         'jtype': str(p.json_parameter_type), 'deftxt': canon(p.DefaultValue)}
    if kind in ('KFloat', 'KInt'):
        r['default'], r['value'] = num(p.DefaultValue), num(p.value)
    if kind in ('KFloat', 'KList'):
        r['min'], r['max'] = Fraction(float(p.Min)) if math.isfinite(float(p.Min)) else None, \
            Fraction(float(p.Max)) if math.isfinite(float(p.Max)) else None
        if kind == 'KFloat' and (r['min'] is None or r['max'] is None):
            raise ValueError(f'{cls_name}.{p.Name}: non-finite Min/Max')
        if kind == 'KList':   # listParameter defaults are +-1.8e308 = inf: outside C07, kept as 0
            r['min'], r['max'] = r['min'] or Fraction(0), r['max'] or Fraction(0)
    if kind == 'KInt':
        r['runs'] = runs_of(list(p.AllowableRange))
    return r


_CACHE = {}


def rows():
    if 'rows' not in _CACHE:
        out = []
        for cls_name, o in sources():
            for key, p in o.ParameterDict.items():
                if key != p.Name:      # the read loops look a parameter up by its Name: an input written under `key` is never read
                    _CACHE.setdefault('key_mismatch', []).append((cls_name, key, p.Name))
                    if any(r['cls'] == cls_name and r['name'] == p.Name for r in out):
                        continue
                out.append(row(cls_name, p))
        _CACHE['rows'] = out
    return _CACHE['rows']


def cs(s):
    return qconv.coq_bytes(s.encode('utf-8'))


def oq(x):
    return 'None' if x is None else f'(Some {qconv.q(x)})'


def coq_row(r):
    runs = '[' + '; '.join(f'({qconv.zlit(a)}, {qconv.zlit(b)})' for a, b in r['runs']) + ']'
    return (f'mkParam {cs(r["cls"])} {cs(r["name"])} {r["kind"]} {oq(r["default"])} {oq(r["value"])} {qconv.q(r["min"])} '
            f'{qconv.q(r["max"])} {runs} {cs(r["units"])} {cs(r["pref"])} {cs(r["utype"])} {qconv.blit(r["required"])} '
            f'{cs(r["jtype"])} {cs(r["deftxt"])}')


def key_mismatches():
    rows()
    return list(_CACHE.get('key_mismatch', []))


def index():
    """(cls, name) -> position in param_table"""
    return {(r['cls'], r['name']): i for i, r in enumerate(rows())}


def gen_paramtable(ctx):
    rs = rows()
    if len(rs) < 100:
        raise RuntimeError(f'only {len(rs)} parameters discovered')
    text = ('(* GENERATED by tools/gen/paramtable.py from the live module classes of the tree under test; do not edit *)\n'
            'From Coq Require Import QArith ZArith List String.\nFrom Verif Require Import Base.ParamRec.\n'
            'Import ListNotations.\nOpen Scope string_scope.\nOpen Scope Q_scope.\n\n'
            'Definition param_table : list param := [\n ' + ';\n '.join(coq_row(r) for r in rs) + '\n].\n')
    fw.write_if_changed(fw.COQ / 'Gen' / 'ParamTable.v', text)
    return len(rs)


def build_gen(ctx, targets=('Gen/ParamTable.vo',)):
    """Compile regenerated Gen files (the Props files do not import them, so they are outside their make cone)."""
    with fw.coq_lock():
        rc, log = fw.make(list(targets))
    if rc != 0:
        ctx.violate('proof', 'gen-build:' + ','.join(targets), 'regenerated table no longer compiles: ' + log[-600:])
        raise RuntimeError('Gen build failed')


# ---------------------------------------------------------------------------------------------------------
# option parameters (intParameter with a ValuesEnum): Gen/OptionTable.v
# ---------------------------------------------------------------------------------------------------------
STRICT_CALLS = ('from_input_string', 'get_reservoir_model_from_input_string')


def _conversions(cls):
    """{parameter name: ('strict',) | ('else', MEMBER_NAME)}: what the special case of a read_parameters of the class (or a
    base) does with the TEXT of the value inside `if <x>.Name == "<name>":` - <Enum>.from_input_string(...sValue), or an
    if / elif chain on `...sValue == '<k>'` whose final else assigns one fixed member.  Found by an ast walk."""
    import ast
    out = {}
    for k in reversed(cls.__mro__):
        fn = vars(k).get('read_parameters')
        if fn is None or not hasattr(fn, '__code__'):
            continue
        mod = ast.parse(open(inspect.getsourcefile(fn)).read())
        fdef = next((f for c in ast.walk(mod) if isinstance(c, ast.ClassDef) and c.name == k.__name__
                     for f in c.body if isinstance(f, ast.FunctionDef) and f.name == 'read_parameters'), None)
        if fdef is None:
            raise ValueError(f'cannot find {k.__name__}.read_parameters in its source')
        for node in ast.walk(fdef):
            if not isinstance(node, ast.If):
                continue
            names = [c.comparators[0].value for c in ast.walk(node.test) if isinstance(c, ast.Compare) and isinstance(c.left, ast.Attribute)
                     and c.left.attr == 'Name' and len(c.comparators) == 1 and isinstance(c.ops[0], ast.Eq)
                     and isinstance(c.comparators[0], ast.Constant) and isinstance(c.comparators[0].value, str)]
            if not names:
                continue
            calls = [c for st in node.body for c in ast.walk(st) if isinstance(c, ast.Call) and isinstance(c.func, ast.Attribute)
                     and c.func.attr in STRICT_CALLS and any(isinstance(a, ast.Attribute) and a.attr == 'sValue' for a in c.args)]
            conv = ('strict',) if calls else None
            chain = next((st for st in node.body if isinstance(st, ast.If) and isinstance(st.test, ast.Compare)
                          and isinstance(st.test.left, ast.Attribute) and st.test.left.attr == 'sValue'), None)
            if conv is None and chain is not None:
                while len(chain.orelse) == 1 and isinstance(chain.orelse[0], ast.If):
                    chain = chain.orelse[0]
                tail = [a.value for st in chain.orelse for a in ast.walk(st) if isinstance(a, ast.Assign) and isinstance(a.value, ast.Attribute)
                        and isinstance(a.value.value, ast.Name)]
                if tail:
                    conv = ('else', tail[0].attr)
            if conv:
                out.update({n: conv for n in names})
    return out


def option_rows():
    if 'opts' not in _CACHE:
        idx, out = index(), []
        classes = {c.__name__: c for _, c in module_classes()}
        for cls_name, o in sources():
            conv = _conversions(classes[cls_name])
            for name, p in o.ParameterDict.items():
                if type(p).__name__ == 'intParameter' and p.ValuesEnum is not None:
                    c = conv.get(name, ())
                    label = ' '.join(re.findall(r'Unknown (.*?) input value', inspect.getsource(p.ValuesEnum)))
                    out.append({'i': idx[(cls_name, name)], 'cls': cls_name, 'name': name, 'strict': c[:1] == ('strict',), 'named': name in label,
                                'else_to': int(getattr(p.ValuesEnum, c[1]).int_value) if c[:1] == ('else',) else None,
                                'members': [int(m.int_value) for m in p.ValuesEnum], 'enum': p.ValuesEnum.__name__})
        _CACHE['opts'] = out
    return _CACHE['opts']


def gen_optiontable(ctx):
    rs = option_rows()
    items = [f'({r["i"]}%nat, {qconv.blit(r["strict"])}, {qconv.blit(r["named"])}, ' + ('None' if r['else_to'] is None else f'Some {qconv.zlit(r["else_to"])}')
             + ', [' + '; '.join(qconv.zlit(n) for n in r['members']) + '])' for r in rs]
    text = ('(* GENERATED by tools/gen/paramtable.py: option parameters (row of param_table, text conversion strict?, enum members) *)\n'
            'From Coq Require Import ZArith List.\nFrom Verif Require Import Model.TokenReader.\nImport ListNotations.\n\n'
            'Definition option_table : list orow := [\n ' + ';\n '.join(items) + '\n].\n')
    fw.write_if_changed(fw.COQ / 'Gen' / 'OptionTable.v', text)
    return len(rs)
