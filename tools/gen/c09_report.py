"""C09 generator: what the report writer prints NOW, extracted from the source with `ast`.

extract() turns the body of Outputs.PrintOutputs (and, under 'addons' / 'sdac', of the two writers that append to the
same file) into a tree of nodes; `x = model.a.b` shortcuts are inlined, so renaming a local changes nothing
  {'t': 'w',   'id': n, 'line': lineno, 'parts': [part, ...]}            one f.write(...)
  {'t': 'if',  'cond': src, 'body': [...], 'orelse': [...]}
  {'t': 'for', 'var': name, 'iter': src, 'body': [...]}
  {'t': 'set', 'name': name, 'expr': src}                                local assignment (or 'parts' [+ 'cond', 'else_parts']
                                                                         when it builds a piece of line text)
  {'t': 'def', 'name': name, 'src': src}                                 nested helper (the `o()` lookup)
  {'t': 'call', 'src': src}                                              the unit-conversion pass
part = ['lit', text] | ['fld', format_spec, expr_src] | ['str', expr_src]
Fail-closed: any construct outside this grammar raises, which the framework reports as a broken tie.
g(ctx) writes coq/Gen/ReportLabels.v (the templates of every line) for the theorems that quantify over them."""
import ast
import json
import re
import string

from lib import framework as fw, qconv, c09fmt

WRITER = ('src/geophires_x/Outputs.py', 'Outputs', 'PrintOutputs')
# writers whose text is appended to the same report when add-ons / S-DAC-GT are enabled (called from print_outputs_rich)
EXTRA_WRITERS = {'addons': ('src/geophires_x/OutputsAddOns.py', 'OutputsAddOns', 'PrintOutputs'),
                 'sdac': ('src/geophires_x/OutputsS_DAC_GT.py', 'OutputsS_DAC_GT', 'PrintOutputs')}
# the writer used INSTEAD of Outputs.PrintOutputs for SUTRA reservoir runs (Model.outputs is then a SUTRAOutputs)
ALT_WRITERS = {'sutra': ('src/geophires_x/SUTRAOutputs.py', 'SUTRAOutputs', 'PrintOutputs')}
ID_BASE = {'main': 0, 'addons': 10000, 'sdac': 20000, 'sutra': 30000}
IGNORED_CALL_PREFIXES = ('model.logger.', 'print_outputs_rich(', 'print(')
IGNORED_SET_RE = r'^pd\.|\.reset_index\(\)$'
IGNORED_CALL_RE = r'^[A-Za-z_]\w*\.append\('     # rows collected for the rich/HTML output (not claimed)


class Unsupported(Exception):
    pass


def _src(node):
    return ast.unparse(node)


class Extractor:
    def __init__(self, tree, cls, fn, id_base=0):
        self.consts = {}
        for n in tree.body:  # module-level string constants (NL)
            if isinstance(n, ast.Assign) and len(n.targets) == 1 and isinstance(n.targets[0], ast.Name) \
                    and isinstance(n.value, ast.Constant) and isinstance(n.value.value, str):
                self.consts[n.targets[0].id] = n.value.value
        self.cls = next(n for n in tree.body if isinstance(n, ast.ClassDef) and n.name == cls)
        self.fn = next(n for n in self.cls.body if isinstance(n, ast.FunctionDef) and n.name == fn)
        self.helpers = {}
        for n in self.cls.body:
            if isinstance(n, ast.Assign) and isinstance(n.value, ast.Constant):
                self.helpers[n.targets[0].id] = n.value.value
            if isinstance(n, ast.FunctionDef) and any(isinstance(d, ast.Name) and d.id == 'staticmethod' for d in n.decorator_list):
                m = ast.FunctionDef(name=n.name, args=n.args, body=n.body, decorator_list=[], returns=None, lineno=0, col_offset=0)
                self.helpers[n.name] = {'def': ast.unparse(ast.fix_missing_locations(m))}
        self.nid = id_base
        self.fvar = None
        self.aliases = self.inline_aliases()

    def inline_aliases(self):
        """`econ = model.economics`-style locals (assigned once, pure attribute chain rooted at `model`) are substituted
        into every expression, so the extracted tree does not depend on how the writer names its shortcuts"""
        import collections
        import copy
        counts = collections.Counter()
        for n in ast.walk(self.fn):
            if isinstance(n, ast.Name) and isinstance(n.ctx, ast.Store):
                counts[n.id] += 1
            elif isinstance(n, ast.arg):
                counts[n.arg] += 1

        def chain(v):
            while isinstance(v, ast.Attribute):
                v = v.value
            return isinstance(v, ast.Name) and v.id == 'model'

        aliases = {}

        class Sub(ast.NodeTransformer):
            def visit_Name(self, node):
                if isinstance(node.ctx, ast.Load) and node.id in aliases:
                    return copy.deepcopy(aliases[node.id])
                return node

        for n in ast.walk(self.fn):
            tgt, val = (n.targets[0], n.value) if isinstance(n, ast.Assign) and len(n.targets) == 1 else \
                (n.target, n.value) if isinstance(n, ast.AnnAssign) else (None, None)
            if isinstance(tgt, ast.Name) and val is not None and counts[tgt.id] == 1:
                val = Sub().visit(copy.deepcopy(val))
                if chain(val) and isinstance(val, ast.Attribute):
                    aliases[tgt.id] = val
        self.fn = ast.fix_missing_locations(Sub().visit(self.fn))
        return aliases

    # ---- one f.write argument -> parts ----
    def parts(self, node):
        if isinstance(node, ast.BinOp) and isinstance(node.op, ast.Add):
            return self.parts(node.left) + self.parts(node.right)
        if isinstance(node, ast.Constant) and isinstance(node.value, str):
            return [['lit', node.value]]
        if isinstance(node, ast.Name) and node.id in self.consts:
            return [['lit', self.consts[node.id]]]
        if isinstance(node, ast.JoinedStr):
            out = []
            for v in node.values:
                if isinstance(v, ast.Constant):
                    out.append(['lit', v.value])
                elif isinstance(v, ast.FormattedValue):
                    if v.conversion != -1:
                        raise Unsupported(f'conversion in f-string at line {node.lineno}')
                    spec = ''
                    if v.format_spec is not None:
                        if not all(isinstance(x, ast.Constant) for x in v.format_spec.values):
                            raise Unsupported(f'computed format spec at line {node.lineno}')
                        spec = ''.join(x.value for x in v.format_spec.values)
                    out += self.value_part(v.value, spec, node.lineno)
                else:
                    raise Unsupported(f'f-string piece at line {node.lineno}')
            return out
        if isinstance(node, ast.Call) and isinstance(node.func, ast.Attribute) and node.func.attr == 'format' \
                and isinstance(node.func.value, ast.Constant) and isinstance(node.func.value.value, str) and not node.keywords:
            out = []
            auto = 0
            for lit, field, spec, conv in string.Formatter().parse(node.func.value.value):
                if lit:
                    out.append(['lit', lit])
                if field is None:
                    continue
                if conv:
                    raise Unsupported(f'conversion in str.format at line {node.lineno}')
                if field == '':
                    field, auto = str(auto), auto + 1
                if not field.isdigit() or int(field) >= len(node.args):
                    raise Unsupported(f'str.format field {field!r} at line {node.lineno}')
                out += self.value_part(node.args[int(field)], spec or '', node.lineno)
            return out
        return self.value_part(node, '', getattr(node, 'lineno', 0))

    def value_part(self, expr, spec, lineno):
        if isinstance(expr, ast.Name) and expr.id in self.consts and spec == '':
            return [['lit', self.consts[expr.id]]]
        if isinstance(expr, ast.Call) and isinstance(expr.func, ast.Name) and expr.func.id == 'str' and len(expr.args) == 1 \
                and spec in ('', 's'):
            return [['str', _src(expr.args[0])]]
        if spec in ('', 's'):
            return [['str', _src(expr)]]
        if c09fmt.parse_spec(spec) is None:
            raise Unsupported(f'format spec {spec!r} at line {lineno} is outside the formatting model')
        return [['fld', spec, _src(expr)]]

    # ---- statements ----
    def block(self, stmts):
        out = []
        for s in stmts:
            out += self.stmt(s)
        return out

    def stmt(self, s):
        if isinstance(s, ast.Expr) and isinstance(s.value, ast.Constant):
            return []  # docstring
        if isinstance(s, ast.Expr) and isinstance(s.value, ast.Call):
            c = s.value
            if isinstance(c.func, ast.Attribute) and c.func.attr == 'write' and isinstance(c.func.value, ast.Name) \
                    and c.func.value.id == self.fvar and len(c.args) == 1:
                parts = []
                for p in self.parts(c.args[0]):   # merge adjacent literals
                    if p[0] == 'lit' and parts and parts[-1][0] == 'lit':
                        parts[-1][1] += p[1]
                    else:
                        parts.append(p)
                self.nid += 1
                return [{'t': 'w', 'id': self.nid, 'line': s.lineno, 'parts': parts}]
            src = _src(c)
            if src.startswith('self._convert_units('):
                return [{'t': 'call', 'src': src}]
            if src.startswith(IGNORED_CALL_PREFIXES) or re.match(IGNORED_CALL_RE, src):
                return []
            raise Unsupported(f'call statement at line {s.lineno}: {src[:60]}')
        if isinstance(s, ast.If):
            return [{'t': 'if', 'cond': _src(s.test), 'body': self.block(s.body), 'orelse': self.block(s.orelse)}]
        if isinstance(s, ast.For):
            if not isinstance(s.target, ast.Name) or s.orelse:
                raise Unsupported(f'for loop at line {s.lineno}')
            return [{'t': 'for', 'var': s.target.id, 'iter': _src(s.iter), 'body': self.block(s.body)}]
        if isinstance(s, (ast.Assign, ast.AnnAssign)) and isinstance(getattr(s, 'target', None) or s.targets[0], ast.Name) \
                and (getattr(s, 'target', None) or s.targets[0]).id in self.aliases:
            return []   # inlined shortcut
        if isinstance(s, ast.Assign) and len(s.targets) == 1 and isinstance(s.targets[0], ast.Name):
            v = s.value
            strish = lambda x: isinstance(x, ast.JoinedStr) or (isinstance(x, ast.Constant) and isinstance(x.value, str))
            if re.search(IGNORED_SET_RE, _src(v)):
                return []   # pandas frames for the rich/HTML output (not claimed)
            if isinstance(v, ast.JoinedStr):      # a piece of line text built ahead of the write
                self.nid += 1
                return [{'t': 'set', 'name': s.targets[0].id, 'id': self.nid, 'parts': self.parts(v)}]
            if isinstance(v, ast.IfExp) and strish(v.body) and strish(v.orelse):
                self.nid += 1
                return [{'t': 'set', 'name': s.targets[0].id, 'id': self.nid, 'cond': _src(v.test), 'parts': self.parts(v.body),
                         'else_parts': self.parts(v.orelse)}]
            return [{'t': 'set', 'name': s.targets[0].id, 'expr': _src(v)}]
        if isinstance(s, ast.Assign) and len(s.targets) == 1 and isinstance(s.targets[0], ast.Subscript):
            return []   # data-frame columns for the rich/HTML output (not claimed)
        if isinstance(s, ast.Return):
            return []
        if isinstance(s, ast.AnnAssign) and isinstance(s.target, ast.Name) and s.value is not None:
            return [{'t': 'set', 'name': s.target.id, 'expr': _src(s.value)}]
        if isinstance(s, ast.FunctionDef):
            m = ast.FunctionDef(name=s.name, args=s.args, body=s.body, decorator_list=[], returns=None, lineno=0, col_offset=0)
            for a in m.args.args:
                a.annotation = None
            return [{'t': 'def', 'name': s.name, 'src': ast.unparse(ast.fix_missing_locations(m))}]
        if isinstance(s, ast.Try):
            return self.block(s.body)   # the handler only re-raises as RuntimeError
        if isinstance(s, ast.With) and len(s.items) == 1 and isinstance(s.items[0].optional_vars, ast.Name) \
                and _src(s.items[0].context_expr).startswith('open(self.output_file'):
            self.fvar = s.items[0].optional_vars.id
            return self.block(s.body)
        raise Unsupported(f'statement {type(s).__name__} at line {s.lineno}')

    def run(self):
        return {'helpers': self.helpers, 'consts': self.consts, 'body': self.block(self.fn.body)}


def extract_one(writer, id_base=0, repo=None):
    path = (repo or fw.REPO) / writer[0]
    return Extractor(ast.parse(path.read_text()), writer[1], writer[2], id_base).run()


def extract(repo=None):
    """the main writer's tree, with the trees of the appended writers under 'addons' / 'sdac'"""
    tree = extract_one(WRITER, ID_BASE['main'], repo)
    for k, w in {**EXTRA_WRITERS, **ALT_WRITERS}.items():
        tree[k] = extract_one(w, ID_BASE[k], repo)
    return tree


def parts_of(tree):
    """[(writer key, sub-tree)]"""
    return [('main', tree)] + [(k, tree[k]) for k in {**EXTRA_WRITERS, **ALT_WRITERS} if k in tree]


def writes(tree):
    """All write nodes with their guard/loop context: [(ctx_tuple, node)]."""
    out = []

    def walk(nodes, ctx):
        for n in nodes:
            if n['t'] == 'w':
                out.append((ctx, n))
            elif n['t'] == 'if':
                walk(n['body'], ctx + (('if', n['cond']),))
                walk(n['orelse'], ctx + (('else', n['cond']),))
            elif n['t'] == 'for':
                walk(n['body'], ctx + (('for', n['var'], n['iter']),))
    for _, sub in parts_of(tree):
        walk(sub['body'], ())
    return out


def label_of(node):
    """Normalised label of a write node: its literal text before the first interpolation / colon."""
    text = ''
    for p in node['parts']:
        if p[0] == 'lit':
            text += p[1]
        elif p[0] == 'str' and (p[1].endswith('display_name') or p[1].endswith('.Name') or '_field_label' in p[1]
                                or p[1].endswith('_label')):
            text += '{' + p[1].replace('model.', '') + '}'
        else:
            break
    text = ' '.join(text.split())
    return text.split(':')[0][:70] if text else f'line{node["line"]}'


def lit_chunks(spec):
    """{literal text chunk of the specification (split at line ends): its name in coq/Gen/ReportLits.v}"""
    chunks = set()

    def walk(nodes):
        for n in nodes:
            for key in ('parts', 'else_parts'):
                for p in n.get(key, []):
                    if p[0] == 'lit':
                        chunks.update(c for c in p[1].split('\n') if len(c) >= 4)
            for key in ('body', 'orelse'):
                walk(n.get(key, []))
    for _, sub in parts_of(spec):
        walk(sub['body'])
    return {c: f'lit_{i}' for i, c in enumerate(sorted(chunks))}


def seg_coq(parts):
    items = []
    for p in parts:
        if p[0] == 'lit':
            items.append(f'Lit {qconv.coq_bytes(p[1])}')
        elif p[0] == 'fld':
            k, w, pr = c09fmt.parse_spec(p[1])
            items.append(f'Fld K{k} {w} {pr}')
        else:
            items.append('Str')
    return '[' + '; '.join(items) + ']'


def g(ctx):
    tree = extract()
    ws = writes(tree)
    lines = ['(* GENERATED by tools/gen/c09_report.py from ' + WRITER[0] + ' - do not edit *)',
             'From Coq Require Import String Ascii List.', 'From Verif Require Import Model.Report.', 'Import ListNotations.',
             'Open Scope string_scope.', '',
             '(* (source line, in a per-year loop?, template) of every f.write of Outputs / OutputsAddOns / OutputsS_DAC_GT / SUTRAOutputs .PrintOutputs *)',
             'Definition report_templates : list (nat * bool * list seg) := [']
    rows = []
    for c, n in ws:
        in_loop = any(x[0] == 'for' and x[2].startswith('range(0,') for x in c)   # the per-year loops
        rows.append(f' ({n["line"]}%nat, {qconv.blit(in_loop)}, {seg_coq(n["parts"])})')
    lines.append(';\n'.join(rows) + '].')
    fw.write_if_changed(fw.COQ / 'Gen' / 'ReportLabels.v', '\n'.join(lines) + '\n')
    # the literal text of the FROZEN specification as compiled constants: the correspondence shards refer to them by name
    # (string literals are slow to read, and every run repeats the same labels)
    from lib import c09report
    lits = lit_chunks(c09report.load_spec())
    text = ['(* GENERATED by tools/gen/c09_report.py from spec/report_spec.json - do not edit *)', 'From Coq Require Import String Ascii.',
            'Open Scope string_scope.'] + [f'Definition {name} : string := {qconv.coq_bytes(c)}.' for c, name in lits.items()]
    fw.write_if_changed(fw.COQ / 'Gen' / 'ReportLits.v', '\n'.join(text) + '\n')
    return tree


if __name__ == '__main__':
    print(json.dumps(extract(), indent=1))
