"""Generator for coq/Gen/C08StateTable.v: process-level mutable state of the geophires_x package beyond lru_cache,
found by walking the ast of the CURRENT source:
  * containers bound at module level or in a class body (created once at import, shared by every run of the process),
    mutable default arguments, module names re-bound through `global`;  for each: is it ever mutated by the source,
    and if so is it a keyed get-or-create memo / an initialise-once singleton;
  * the DefaultValue= / value= expression of every Parameter construction that is not a plain constant: a fresh
    object per instantiation (literal or call inside a function), a scalar (enum member), an attribute of self, a
    local variable - or an object shared between runs (a module/class-level container, or a construction executed at
    import time).  A shared default aliases the parameter's value (listParameter keeps the object), so one run's input
    becomes the next run's default.
  * settings of the interpreter / of imported libraries written by the package (`mp.dps = ...`, `np.seterr(...)`,
    `warnings.filterwarnings`, `os.environ[...] = `, `os.chdir`, `random.seed`, `sys.argv = ` ...): process-level state
    too; harmless only when every run sets it, to an input-independent value, in its entry point (GEOPHIRESv3.main);
  * every loop / comprehension whose iterable is a dict view (insertion-ordered) or a set expression (set literal,
    set()/frozenset(), `a.keys() & b.keys()`, .intersection() ...): the order of a set of strings depends on the hash seed.
Fail-closed: what is not recognised becomes DOther, which the Coq theorem rejects."""
import ast
import enum
import importlib

from lib import framework as fw, qconv

PKG = 'geophires_x'
CONTAINER_CALLS = {'list', 'dict', 'set', 'defaultdict', 'OrderedDict', 'deque', 'bytearray', 'Counter'}
MUTATORS = {'append', 'extend', 'update', 'add', 'pop', 'clear', 'insert', 'remove', 'setdefault', 'popitem', 'discard',
            'sort', 'reverse'}


def container(e):
    if isinstance(e, (ast.List, ast.Dict, ast.Set, ast.ListComp, ast.DictComp, ast.SetComp)):
        return True
    if isinstance(e, ast.Call):
        f = e.func
        return (f.attr if isinstance(f, ast.Attribute) else getattr(f, 'id', None)) in CONTAINER_CALLS
    return False


def last_name(e):
    """x -> 'x'; a.b.x -> 'x'"""
    return e.attr if isinstance(e, ast.Attribute) else getattr(e, 'id', None)


def root_name(e):
    while isinstance(e, (ast.Attribute, ast.Subscript, ast.Call)):
        e = e.value if not isinstance(e, ast.Call) else e.func
    return getattr(e, 'id', None)


def mutation_facts(trees, name):
    """(mutated?, keyed memo / initialise-once?) for a module/class-level name, over the whole package."""
    mutated, other, guarded = False, False, False
    for tree in trees:
        for fn in ast.walk(tree):
            if not isinstance(fn, (ast.FunctionDef, ast.AsyncFunctionDef)):
                continue
            writes = []
            for n in ast.walk(fn):
                if isinstance(n, (ast.Assign, ast.AugAssign, ast.Delete)):
                    for t in (n.targets if not isinstance(n, ast.AugAssign) else [n.target]):
                        if isinstance(t, ast.Subscript) and last_name(t.value) == name:
                            writes.append('item' if isinstance(n, ast.Assign) else 'other')
                        elif isinstance(t, ast.Name) and t.id == name and any(
                                isinstance(g, ast.Global) and name in g.names for g in ast.walk(fn)):
                            writes.append('rebind')
                elif isinstance(n, ast.Call) and isinstance(n.func, ast.Attribute) and n.func.attr in MUTATORS \
                        and last_name(n.func.value) == name:
                    writes.append('other')
            if writes:
                mutated = True
                other = other or 'other' in writes
                tests = [t for t in ast.walk(fn) if isinstance(t, ast.Compare)]
                guarded = guarded or any(
                    (isinstance(t.ops[0], (ast.In, ast.NotIn)) and last_name(t.comparators[0]) == name) or
                    (isinstance(t.ops[0], (ast.Is, ast.IsNot)) and last_name(t.left) == name) for t in tests)
    return mutated, mutated and guarded and not other


def classify_default(expr, module, holder_fn, at_import):
    """kind of a DefaultValue / value expression"""
    if at_import:
        return 'DShared'          # evaluated once, when the module is imported
    if isinstance(expr, ast.Constant) or (isinstance(expr, ast.UnaryOp) and isinstance(expr.operand, ast.Constant)):
        return None               # plain constant: not listed
    if isinstance(expr, (ast.List, ast.Tuple, ast.Dict, ast.Set, ast.BinOp, ast.Call, ast.ListComp, ast.JoinedStr, ast.IfExp,
                         ast.Compare, ast.BoolOp)):
        names = [n for n in ast.walk(expr) if isinstance(n, (ast.Name, ast.Attribute)) and not isinstance(getattr(n, 'ctx', None), ast.Store)]
        shared = [n for n in names if isinstance(n, ast.Name) and is_shared_object(getattr(module, n.id, None))]
        return 'DShared' if shared and isinstance(expr, (ast.List, ast.Tuple, ast.IfExp, ast.BoolOp)) else 'DFresh'
    if isinstance(expr, (ast.Name, ast.Attribute, ast.Subscript)):
        root = root_name(expr)
        if root == 'self':
            return 'DSelfAttr'
        locals_ = {a.arg for a in holder_fn.args.args} | {t.id for n in ast.walk(holder_fn) if isinstance(n, ast.Assign)
                                                            for t in n.targets if isinstance(t, ast.Name)}
        if root in locals_:
            return 'DLocal'
        obj = getattr(module, root, None)
        if isinstance(obj, enum.EnumMeta):
            return 'DScalar'
        if isinstance(expr, ast.Name) and isinstance(obj, (int, float, str, bool, type(None), tuple, frozenset)):
            return 'DScalar'
        if is_shared_object(obj) or isinstance(expr, ast.Attribute):
            try:
                val = eval(compile(ast.Expression(expr), '<default>', 'eval'), vars(module))   # noqa: S307 (source under test)
            except Exception:
                return 'DOther'
            return 'DShared' if is_shared_object(val) else 'DScalar'
    return 'DOther'


def is_shared_object(obj):
    import numpy as np
    return isinstance(obj, (list, dict, set, bytearray, np.ndarray))


SETTERS = {'np.seterr', 'np.seterrcall', 'np.random.seed', 'numpy.seterr', 'numpy.random.seed', 'random.seed',
           'warnings.filterwarnings', 'warnings.simplefilter', 'os.chdir', 'os.putenv', 'locale.setlocale', 'logging.disable',
           'decimal.setcontext', 'jsons.suppress_warnings', 'sys.setrecursionlimit', 'matplotlib.use', 'plt.switch_backend',
           'pd.set_option', 'np.set_printoptions', 'mp.prec', 'mpmath.mp.prec'}
ENTRY_POINTS = {('GEOPHIRESv3', 'main')}
SET_METHODS = {'intersection', 'union', 'difference', 'symmetric_difference'}


def imported_names(tree, stem=None):
    out = set()
    for n in tree.body:
        if isinstance(n, ast.Import):
            out |= {(a.asname or a.name).split('.')[0] for a in n.names}
        elif isinstance(n, ast.ImportFrom):
            for a in n.names:
                if a.name == '*' and stem is not None and n.level == 0:   # star import: what the module exports
                    src = importlib.import_module(n.module)
                    out |= set(getattr(src, '__all__', [k for k in vars(src) if not k.startswith('_')]))
                elif a.name != '*':
                    out.add(a.asname or a.name)
    return out


def input_independent(nodes):
    return not any(isinstance(n, ast.Name) and n.id in ('self', 'model') for e in nodes for n in ast.walk(e))


def module_of(stem):
    return importlib.import_module(f'{PKG}.{stem}')


def unknown_to_its_owner(module, target, trees):
    """the assigned attribute does not exist on the imported object (so the library does not know it) and the package
    never reads it"""
    try:
        owner = eval(compile(ast.Expression(target.value), '<owner>', 'eval'), vars(module))   # noqa: S307 (source under test)
    except Exception:
        return False
    text = ast.unparse(target)
    read = any(isinstance(n, ast.Attribute) and isinstance(n.ctx, ast.Load) and ast.unparse(n) == text
               for tree in trees for n in ast.walk(tree))
    return not hasattr(owner, target.attr) and not read


def settings_of(stem, tree, trees=()):
    """writes to process-level settings: (description, harmless?)"""
    imported = imported_names(tree, stem)
    out = []
    for fn in [n for n in ast.walk(tree) if isinstance(n, (ast.FunctionDef, ast.AsyncFunctionDef))]:
        entry = (stem, fn.name) in ENTRY_POINTS
        for n in ast.walk(fn):
            if isinstance(n, (ast.Assign, ast.AugAssign)):
                for t in (n.targets if isinstance(n, ast.Assign) else [n.target]):
                    root = root_name(t)
                    if isinstance(t, (ast.Attribute, ast.Subscript)) and root in imported:
                        ok = entry and input_independent([n.value])
                        if not ok and isinstance(t, ast.Attribute) and unknown_to_its_owner(module_of(stem), t, trees):
                            ok = True   # a NEW attribute hung on an imported object that nothing ever reads: no channel
                        out.append((f'{fn.name}: {ast.unparse(t)[:50]} = ...', ok))
            elif isinstance(n, ast.Call) and ast.unparse(n.func) in SETTERS:
                out.append((f'{fn.name}: {ast.unparse(n)[:60]}', entry and input_independent(n.args + [k.value for k in n.keywords])))
    return out


def set_like(e):
    """'set' | 'view' | None for an iterable expression"""
    if isinstance(e, (ast.Set, ast.SetComp)):
        return 'set'
    if isinstance(e, ast.Call):
        name = last_name(e.func)
        if isinstance(e.func, ast.Name) and name in ('set', 'frozenset'):
            return 'set'
        if isinstance(e.func, ast.Attribute) and name in SET_METHODS:
            return 'set'
        if isinstance(e.func, ast.Attribute) and name in ('keys', 'items', 'values') and not e.args:
            return 'view'
        if isinstance(e.func, ast.Name) and name in ('sorted', 'list', 'tuple', 'enumerate', 'reversed') and e.args:
            inner = set_like(e.args[0])
            return None if name == 'sorted' else inner
    if isinstance(e, ast.BinOp) and isinstance(e.op, (ast.BitAnd, ast.BitOr, ast.BitXor, ast.Sub)) \
            and (set_like(e.left) or set_like(e.right)):
        return 'set'
    return None


def iterations_of(tree):
    out = []
    for fn in [n for n in ast.walk(tree) if isinstance(n, (ast.FunctionDef, ast.AsyncFunctionDef))]:
        for n in ast.walk(fn):
            iters = [n.iter] if isinstance(n, (ast.For, ast.AsyncFor)) else \
                [g.iter for g in n.generators] if isinstance(n, (ast.ListComp, ast.SetComp, ast.DictComp, ast.GeneratorExp)) else []
            for it in iters:
                k = set_like(it)
                if k:
                    out.append((fn.name, ast.unparse(it)[:70], 'ISet' if k == 'set' else 'IDictView'))
    return out


def scan():
    importlib.import_module(f'{PKG}.Model')   # circular import: Model first
    files = sorted((fw.SRC / PKG).glob('*.py'))
    trees = {p: ast.parse(p.read_text(encoding='UTF-8')) for p in files}
    state, defaults, n_const, iters = [], [], 0, []
    for path, tree in trees.items():
        if path.stem == '__main__':
            continue            # a script: its module level is the body of one command-line run
        mod = f'{PKG}.{path.stem}'
        for what, ok in settings_of(path.stem, tree, list(trees.values())):
            state.append((f'{mod}:{what}', 'SProcessSetting', True, ok))
        iters += [(f'{mod}:{fn}', expr, kind) for fn, expr, kind in iterations_of(tree)]
        # containers created at import
        for holder, body in [(None, tree.body)] + [(n, n.body) for n in tree.body if isinstance(n, ast.ClassDef)]:
            for node in body:
                if isinstance(node, (ast.Assign, ast.AnnAssign)) and getattr(node, 'value', None) is not None and container(node.value):
                    for t in (node.targets if isinstance(node, ast.Assign) else [node.target]):
                        if isinstance(t, ast.Name):
                            mut, memo = mutation_facts(trees.values(), t.id)
                            state.append((f'{mod}:{holder.name + "." if holder else ""}{t.id}',
                                          'SClassContainer' if holder else 'SModuleContainer', mut, memo))
        for fn in ast.walk(tree):
            if isinstance(fn, (ast.FunctionDef, ast.AsyncFunctionDef)):
                if any(container(d) for d in fn.args.defaults + [x for x in fn.args.kw_defaults if x is not None]):
                    state.append((f'{mod}:{fn.name}(default argument)', 'SDefaultArg', True, False))
                for g in ast.walk(fn):
                    if isinstance(g, ast.Global):
                        for name in g.names:
                            mut, memo = mutation_facts(trees.values(), name)
                            entry = (f'{mod}:{name}', 'SGlobalRebind', mut, memo)
                            if entry not in state:
                                state.append(entry)
        # parameter defaults
        module = None

        def visit(node, fn, at_import):
            nonlocal module, n_const
            for child in ast.iter_child_nodes(node):
                if isinstance(child, (ast.FunctionDef, ast.AsyncFunctionDef, ast.Lambda)):
                    visit(child, child if not isinstance(child, ast.Lambda) else fn, False)
                    continue
                if isinstance(child, ast.Call) and (last_name(child.func) or '').endswith('Parameter'):
                    for kw in child.keywords:
                        if kw.arg in ('DefaultValue', 'value'):
                            if module is None:
                                module = importlib.import_module(mod)
                            kind = classify_default(kw.value, module, fn, at_import)
                            if kind is None:
                                n_const += 1
                            else:
                                name = next((ast.unparse(a) for a in child.args[:1]), '?')
                                defaults.append((f'{mod}:{name}:{kw.arg}', ast.unparse(kw.value)[:70], kind))
                visit(child, fn, at_import)
        visit(tree, None, True)
    return state, defaults, n_const, sorted(set(iters))


def gen_state_table(ctx):
    state, defaults, n_const, iters = scan()
    if not defaults or not iters:
        raise ValueError('no Parameter construction found: the scan no longer recognises the source')
    srows = [f'  mkSE {qconv.coq_string(n)} {k} {qconv.blit(m)} {qconv.blit(memo)}' for n, k, m, memo in state]
    drows = [f'  mkPD {qconv.coq_string(w)} {qconv.coq_string(e)} {k}' for w, e, k in defaults]
    text = ('(* GENERATED by tools/gen/c08_state.py from the current source tree - do not edit *)\n'
            'From Coq Require Import List NArith String.\nFrom Verif Require Import Model.Memo.\n'
            'Import ListNotations.\nOpen Scope string_scope.\n'
            'Definition c08_state_table : list state_entry := [\n' + ';\n'.join(srows) + '\n].\n'
            f'(* {n_const} further DefaultValue= / value= arguments are plain constants *)\n'
            f'Definition c08_constant_defaults : N := {n_const}%N.\n'
            'Definition c08_param_defaults : list param_default := [\n' + ';\n'.join(drows) + '\n].\n'
            'Definition c08_iterations : list iteration := [\n' +
            ';\n'.join(f'  mkIT {qconv.coq_string(w)} {qconv.coq_string(e)} {k}' for w, e, k in iters) + '\n].\n')
    fw.write_if_changed(fw.COQ / 'Gen' / 'C08StateTable.v', text)
    return state, defaults
