#!/bin/bash
# tools/run_thorough.sh Cxx ... : run the thorough tier of the named properties once (used with `vp run`)
cd "$(dirname "$0")/.."
./setup.sh > setup.out 2>&1 || { echo SETUP FAILED; tail -5 setup.out; exit 1; }
for p in "$@"; do
  t0=$(date +%s)
  VERIF_EVIDENCE_DIR=$PWD/evidence_thorough ./check $p --tier thorough > thorough_$p.out 2>&1
  rc=$?
  echo "$p thorough rc=$rc $(( $(date +%s) - t0 ))s $(grep -c '^VIOLATION' thorough_$p.out) violations $(grep -c '^KNOWN-FINDING' thorough_$p.out) known"
  grep '^VIOLATION' -A1 thorough_$p.out | cut -c1-400 | head -6
done
echo ALL DONE
