"""Record the AST fingerprints of the modelled functions of every property module (tools/fingerprints.json).
Run after a model has been (re)validated against the current source."""
import importlib, json, pkgutil, sys
from pathlib import Path
HERE = Path(__file__).resolve().parents[1]
sys.path.insert(0, str(HERE / 'tools'))
from lib import framework as fw
import props
out = {}
for m in pkgutil.iter_modules(props.__path__):
    mod = importlib.import_module(f'props.{m.name}')
    d = {}
    for path, qual in mod.META.get('fingerprint', []):
        d[f'{path}:{qual}'] = fw.ast_fingerprint(fw.REPO / path, qual)
    out[m.name] = d
(HERE / 'tools' / 'fingerprints.json').write_text(json.dumps(out, indent=1, sort_keys=True) + '\n')
print({k: len(v) for k, v in out.items()})
