"""Regenerate MANIFEST.json from the per-property META blocks (tools/props/Cxx.py).  Run by hand after editing."""
import importlib
import json
import sys
from pathlib import Path

HERE = Path(__file__).resolve().parents[1]
sys.path.insert(0, str(HERE / 'tools'))

HOOK_COMMITS = json.loads((HERE / 'tools' / 'hook_commits.json').read_text()) if (HERE / 'tools' / 'hook_commits.json').exists() else []

props = [json.loads(l) for l in open(HERE / 'properties.jsonl')]
INTEGRATED = set(json.loads((HERE / 'tools' / 'claimed.json').read_text()))   # properties reviewed and integrated
checks, na = [], []
for p in props:
    pid = p['id']
    try:
        mod = importlib.import_module(f'props.{pid}')
        meta = mod.META
    except ModuleNotFoundError:
        meta = None
    if meta is None or not meta.get('claimed', True) or pid not in INTEGRATED:
        reason = (meta or {}).get('na_reason', 'check not built yet (work in progress; planned in DESIGN.md section 6 %s)' % pid)
        na.append({'property_id': pid, 'reason': reason})
        continue
    checks.append({
        'property_id': pid,
        'quick_cmd': f'./check {pid} --tier quick',
        'thorough_cmd': f'./check {pid} --tier thorough',
        'evidence_file': f'evidence/{pid}.json',
        'replay_cmd_template': f'./check {pid} --replay {{path}}',
        'engine': 'coq-proof+correspondence',
        'level_claimed': {'category': 'proof', 'text': meta['level_text'], 'design_ref': f'DESIGN.md section 6 {pid}'},
        'level_note': meta['level_note'],
        'technique': meta.get('technique', 'Coq proof about an executable Gallina model + kernel-evaluated correspondence with the implementation'),
    })
man = {
    'version': 1,
    'setup_cmd': './setup.sh',
    'hooks': {
        'guard': 'GEOPHIRES_X_VERIF',
        'enable': 'environment variable GEOPHIRES_X_VERIF=1 (exported by ./check) plus GEOPHIRES_X_VERIF_OBSERVER=module:function naming the observer',
        'baseline_off_cmd': 'cd /repo && env -u GEOPHIRES_X_VERIF -u GEOPHIRES_X_VERIF_OBSERVER /venv/bin/python -m pytest -ra -q -p no:cacheprovider --timeout=900 --continue-on-collection-errors',
        'source_commits': HOOK_COMMITS,
        'add_only': True,
    },
    'engines': [{
        'name': 'coq-proof+correspondence', 'path': 'check', 'serves_properties': [c['property_id'] for c in checks],
        'kind_free_text': 'Coq 8.16.1 theorems about hand-written executable Gallina models (coq/Model), tied to /repo on every run '
                          'by correspondence cases evaluated with vm_compute inside Coq and by tables regenerated from the source (coq/Gen)'}],
    'checks': checks,
    'notes': 'Every check: regenerate coq/Gen from /repo, build the proof cone of coq/Props/Cxx.v, parse Print Assumptions, audit sources, '
             'run the correspondence, search for a failing input when something breaks. See DESIGN.md.',
    'not_applicable': na,
}
(HERE / 'MANIFEST.json').write_text(json.dumps(man, indent=1) + '\n')
print('claimed', [c['property_id'] for c in checks])
