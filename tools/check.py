"""./check Cxx --tier quick|thorough  |  ./check Cxx --replay FILE"""
import argparse
import importlib
import json
import os
import sys
import traceback

from lib import framework as fw


def main():
    ap = argparse.ArgumentParser()
    ap.add_argument('pid')
    ap.add_argument('--tier', default=os.environ.get('VERIF_TIER', 'quick'), choices=['quick', 'thorough'])
    ap.add_argument('--replay')
    ap.add_argument('--seed', type=int, default=int(os.environ.get('VERIF_SEED', '0') or 0))
    a = ap.parse_args()
    mod = importlib.import_module(f'props.{a.pid}')
    if a.replay:
        data = json.load(open(a.replay))
        ctx = fw.Ctx(a.pid, a.tier, a.seed)
        rc = mod.replay(ctx, data)
        sys.exit(rc)
    ctx = fw.Ctx(a.pid, a.tier, a.seed)
    meta = mod.META
    try:
        for path, qual in meta.get('fingerprint', []):
            ctx.fingerprints[f'{path}:{qual}'] = fw.ast_fingerprint(fw.REPO / path, qual)
    except Exception as e:  # unreadable source: the tie itself is broken
        ctx.violate('proof', 'fingerprint', f'cannot read modelled source: {e!r}')
    ref_file = fw.VERIF / 'tools' / 'fingerprints.json'
    ref = json.loads(ref_file.read_text()).get(a.pid, {}) if ref_file.exists() else {}
    changed = sorted(k for k, v in ctx.fingerprints.items() if k in ref and ref[k] != v)
    if changed:   # never a violation by itself: the modelled code changed, so the correspondence samples more
        ctx.boost = True
        ctx.note('modelled source changed since the model was written: ' + ', '.join(changed) + ' - correspondence volume x4')
    ok = fw.build_props(ctx, meta['props'], getattr(mod, 'GENERATORS', ()))
    try:
        mod.correspondence(ctx, proofs_ok=ok)
    except Exception as e:
        tb = traceback.format_exc()
        ctx.violate('corr', f'harness:{type(e).__name__}',
                    f'correspondence harness could not run on the current tree: {e!r}\n{tb[-1500:]}')
    findings = fw.load_findings()
    unknown = [v for v in ctx.violations if fw.match_finding(findings, a.pid, v.key) is None]
    if unknown and not any(v.kind == 'property' for v in unknown) and hasattr(mod, 'search'):
        try:
            mod.search(ctx)
        except Exception as e:
            ctx.note(f'search failed: {e!r}')
    fw.finish(ctx, meta)


if __name__ == '__main__':
    main()
