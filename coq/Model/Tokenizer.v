(* Model/Tokenizer.v - executable model of GeoPHIRESUtils.read_input_file (C12):
   text-mode decoding of line endings, readlines, str.strip, comment prefixes, str.split(','),
   the ParameterEntry fields, and Python's dict (insertion ordered, assignment to an existing key
   replaces the value in place).  Plus the client's "append the override parameters after the base
   file" (geophires_x_client.GeophiresInputParameters).  Characters are code points 0..255.
   No proofs here. *)
From Coq Require Import String Ascii List Bool Arith.
Import ListNotations.
Open Scope string_scope.

Definition LF : ascii := "010"%char.
Definition CR : ascii := "013"%char.
Definition COMMA : ascii := ","%char.

(* str.isspace() for code points < 256: 9-13, 28-31, 32, 0x85, 0xa0 *)
Definition is_ws (c : ascii) : bool :=
  let n := nat_of_ascii c in
  Nat.eqb n 32 || (Nat.leb 9 n && Nat.leb n 13) || (Nat.leb 28 n && Nat.leb n 31)
  || Nat.eqb n 133 || Nat.eqb n 160.

Definition is_empty (s : string) : bool := match s with EmptyString => true | _ => false end.

Fixpoint lstrip (s : string) : string :=
  match s with
  | String c r => if is_ws c then lstrip r else s
  | EmptyString => EmptyString
  end.

Fixpoint rstrip (s : string) : string :=
  match s with
  | EmptyString => EmptyString
  | String c r => let r' := rstrip r in
                  if is_ws c && is_empty r' then EmptyString else String c r'
  end.

Definition strip (s : string) : string := rstrip (lstrip s).

(* str.split(sep): never returns the empty list *)
Fixpoint split_on (sep : ascii) (s : string) : list string :=
  match s with
  | EmptyString => [EmptyString]
  | String c r =>
      if Ascii.eqb c sep then EmptyString :: split_on sep r
      else match split_on sep r with
           | h :: t => String c h :: t
           | [] => [String c EmptyString]
           end
  end.

(* ''.join(list) *)
Fixpoint cat (ls : list string) : string :=
  match ls with [] => EmptyString | x :: r => x ++ cat r end.

Definition is_comment (line : string) : bool :=
  String.prefix "#" line || String.prefix "--" line || String.prefix "*" line.

(* ParameterEntry(Name, sValue, Comment, raw_entry) *)
Record entry := { e_name : string; e_sval : string; e_comment : string; e_raw : string }.

Definition comment_of (rest : list string) : string :=
  match rest with
  | [] => ""
  | [c] => strip c
  | _ => cat rest
  end.

Definition fields (line : string) : option entry :=
  match split_on COMMA line with
  | d :: v :: rest => Some {| e_name := strip d; e_sval := strip v; e_comment := comment_of rest; e_raw := line |}
  | _ => None
  end.

Definition parse_line (raw : string) : option entry :=
  let line := strip raw in
  if is_comment line then None else fields line.

Definition parse_lines (ls : list string) : list entry :=
  flat_map (fun l => match parse_line l with Some e => [e] | None => [] end) ls.

(* Python dict *)
Definition dict := list (string * entry).

Fixpoint dict_set (k : string) (e : entry) (d : dict) : dict :=
  match d with
  | [] => [(k, e)]
  | (k', e') :: r => if String.eqb k k' then (k', e) :: r else (k', e') :: dict_set k e r
  end.

Fixpoint dict_get (k : string) (d : dict) : option entry :=
  match d with
  | [] => None
  | (k', e) :: r => if String.eqb k k' then Some e else dict_get k r
  end.

Definition keys (d : dict) : list string := map fst d.

Definition build_from (d : dict) (es : list entry) : dict :=
  fold_left (fun d e => dict_set (e_name e) e d) es d.

Definition read_lines (ls : list string) : dict := build_from [] (parse_lines ls).

(* open(..., encoding='UTF-8') in text mode translates \r\n and lone \r to \n
   ([after_cr] is the decoder's pending-CR flag) *)
Fixpoint univ (after_cr : bool) (s : string) : string :=
  match s with
  | EmptyString => EmptyString
  | String c r =>
      if Ascii.eqb c LF then (if after_cr then univ false r else String LF (univ false r))
      else if Ascii.eqb c CR then String LF (univ true r)
      else String c (univ false r)
  end.
Definition universal (s : string) : string := univ false s.

(* file.readlines(): split after every \n, terminators kept, no empty last line *)
Fixpoint readlines (s : string) : list string :=
  match s with
  | EmptyString => []
  | String c r =>
      if Ascii.eqb c LF then String LF EmptyString :: readlines r
      else match readlines r with
           | h :: t => String c h :: t
           | [] => [String c EmptyString]
           end
  end.

Definition read_text (text : string) : dict := read_lines (readlines (universal text)).

(* the observable content of a dictionary: (key, Name, sValue, Comment, raw_entry) in iteration order *)
Definition dump (d : dict) : list (string * (string * (string * (string * string)))) :=
  map (fun p => (fst p, (e_name (snd p), (e_sval (snd p), (e_comment (snd p), e_raw (snd p)))))) d.

(* geophires_x_client.GeophiresInputParameters(params, from_file_path) BEFORE fix e85b257 (kept as the named pinned
   behaviour): f.writelines(base_file.readlines()) in text mode (so the base arrives with its line endings translated),
   followed by one line "name, value\n" per override - glued to the base's last line when that one is unterminated *)
Definition param_line (p : string * string) : string := fst p ++ ", " ++ snd p ++ String LF EmptyString.
Definition client_text_pinned (base : string) (params : list (string * string)) : string :=
  universal base ++ cat (map param_line params).

(* empty, or ends with a line feed *)
Fixpoint complete (s : string) : bool :=
  match s with
  | EmptyString => true
  | String c r => if is_empty r then Ascii.eqb c LF else complete r
  end.
(* a text whose last line is terminated (by LF, CRLF or CR), or the empty text *)
Definition terminated (text : string) : bool := complete (universal text).

(* -- vocabulary of the statements -- *)
Fixpoint allws (s : string) : bool :=
  match s with EmptyString => true | String c r => is_ws c && allws r end.
Fixpoint nochar (x : ascii) (s : string) : bool :=
  match s with EmptyString => true | String c r => negb (Ascii.eqb c x) && nochar x r end.
Definition nocomma := nochar COMMA.
Definition noeol (s : string) : bool := nochar LF s && nochar CR s.

Definition name_val (o : option entry) : option (string * string) :=
  option_map (fun e => (e_name e, e_sval e)) o.
Definition core (o : option entry) : option (string * (string * string)) :=
  option_map (fun e => (e_name e, (e_sval e, e_comment e))) o.

(* last entry of a list with a given name *)
Fixpoint find_last (k : string) (es : list entry) : option entry :=
  match es with
  | [] => None
  | e :: r => match find_last k r with
              | Some x => Some x
              | None => if String.eqb k (e_name e) then Some e else None
              end
  end.

Inductive eol := EolLF | EolCRLF | EolCR.
Definition eol_str (e : eol) : string :=
  match e with
  | EolLF => String LF EmptyString
  | EolCRLF => String CR (String LF EmptyString)
  | EolCR => String CR EmptyString
  end.
Definition join_lines (e : eol) (ls : list string) : string :=
  cat (map (fun l => l ++ eol_str e) ls).

(* equality of dumps, for the kernel correspondence *)
Fixpoint list_eqb {A} (eq : A -> A -> bool) (a b : list A) : bool :=
  match a, b with
  | [], [] => true
  | x :: a', y :: b' => eq x y && list_eqb eq a' b'
  | _, _ => false
  end.
Definition dump_eqb (a b : list (string * (string * (string * (string * string))))) : bool :=
  list_eqb (fun x y =>
    String.eqb (fst x) (fst y) && String.eqb (fst (snd x)) (fst (snd y))
    && String.eqb (fst (snd (snd x))) (fst (snd (snd y)))
    && String.eqb (fst (snd (snd (snd x)))) (fst (snd (snd (snd y))))
    && String.eqb (snd (snd (snd (snd x)))) (snd (snd (snd (snd y))))) a b.
Definition reads_as (text : string) (expected : list (string * (string * (string * (string * string))))) : bool :=
  dump_eqb (dump (read_text text)) expected.

(* an override whose name and value the client can pass through unharmed *)
Definition clean_param (p : string * string) : bool :=
  noeol (fst p) && noeol (snd p) && nocomma (fst p) && nocomma (snd p)
  && String.eqb (strip (fst p)) (fst p) && negb (is_comment (lstrip (fst p))) && negb (is_empty (lstrip (fst p))).

(* the same comparison without the Comment field (never consulted by the simulator) *)
Definition reads_as_nocomment (text : string) (expected : list (string * (string * (string * (string * string))))) : bool :=
  list_eqb (fun x y =>
    String.eqb (fst x) (fst y) && String.eqb (fst (snd x)) (fst (snd y))
    && String.eqb (fst (snd (snd x))) (fst (snd (snd y)))
    && String.eqb (snd (snd (snd (snd x)))) (snd (snd (snd (snd y))))) (dump (read_text text)) expected.

(* geophires_x_client.GeophiresInputParameters(params, from_file_path), current code (fix e85b257):
     base_lines = base_file.readlines(); f.writelines(base_lines)
     if base_lines and not base_lines[-1].endswith('\n'): f.write('\n')
   then one line "name, value\n" per override *)
Definition client_text (base : string) (params : list (string * string)) : string :=
  let u := universal base in
  (if complete u then u else u ++ String LF EmptyString) ++ cat (map param_line params).
