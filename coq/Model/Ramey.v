(* Model/Ramey.v - executable model of WellBores.RameyCalc (production wellbore temperature drop) and of the
   initial production temperature.  The library functions (log, sqrt, exp) are not modelled: the Ramey time function
   [f] and the exponential factor [ex = exp(-depth/A)] enter as data (the values the run used).  Definitions only. *)
From Coq Require Import QArith List ZArith Bool.
From Verif Require Import Base.Flat.
Import ListNotations.
Open Scope Q_scope.

(* rameyA = flowrate * cpwater * framey / 2 / pi / krock *)
Definition ramey_A (flow cpw f pi krock : Q) : Q := flow * cpw * f / 2 / pi / krock.

(* TempDrop = -((Trock - Tres) - g*(depth - A) + (Tres - g*A - Trock) * exp(-depth/A)) *)
Definition ramey_drop (Trock Tres g depth A ex : Q) : Q :=
  - ((Trock - Tres) - g * (depth - A) + (Tres - g * A - Trock) * ex).

(* at the first time step the reservoir output temperature is the bottom-hole temperature *)
Definition ramey_drop0 (g depth A ex : Q) : Q := ramey_drop 0 0 g depth A ex.
Definition produced_temperature (Tres drop : Q) : Q := Tres - drop.

(* the same initial drop written with E x = 1 - exp(-x) *)
Definition drop0_E (E : Q -> Q) (g depth A : Q) : Q := g * (depth - A * E (depth / A)).
