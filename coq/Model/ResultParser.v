(* Model/ResultParser.v - executable model of geophires_x_client/geophires_x_result.py (GeophiresXResult):
   _get_result_field (substring match with indentation, the SET of matching lines, removal of whitespace
   runs >= 2, split on one blank, unit rule, "Number..." -> count), _get_equal_sign_delimited_field,
   _get_profile_lines, header reconstruction of the two production profiles, the add-on style table
   extraction (hard-coded headers, column padding), _parse_number, the carbon-revenue view, as_csv.
   Python strings are [string] (reports are ASCII), set.pop() is a choice among the distinct matching lines
   (the model returns every candidate), exceptions are [None].  No proofs here. *)
From Coq Require Import String Ascii List ZArith NArith QArith Qabs Bool.
From Verif Require Import Base.Flat.
Import ListNotations.
Open Scope string_scope.

(* ---------------------------------------------------------------- characters *)

(* str.isspace / regex \s restricted to ASCII: \t \n \v \f \r, \x1c-\x1f and the blank *)
Definition is_ws (c : ascii) : bool :=
  let n := N_of_ascii c in (((9 <=? n) && (n <=? 13)) || ((28 <=? n) && (n <=? 32)))%N.

Definition is_digit (c : ascii) : bool :=
  let n := N_of_ascii c in ((48 <=? n) && (n <=? 57))%N.

Definition digit_val (c : ascii) : Z := Z.of_N (N_of_ascii c) - 48.

Definition NLc : ascii := "010"%char.
Definition SPc : ascii := " "%char.
Definition NL : string := String NLc "".

Fixpoint all_chars (p : ascii -> bool) (s : string) : bool :=
  match s with "" => true | String c r => p c && all_chars p r end.

Definition ws_free (s : string) : bool := all_chars (fun c => negb (is_ws c)) s.
Definition all_ws (s : string) : bool := all_chars is_ws s.

Fixpoint spaces (n : nat) : string := match n with O => "" | S k => String SPc (spaces k) end.

Definition is_empty (s : string) : bool := match s with "" => true | _ => false end.

(* ---------------------------------------------------------------- str primitives *)

Fixpoint prefixb (p s : string) : bool :=
  match p with
  | "" => true
  | String a p' => match s with "" => false | String b s' => if Ascii.eqb a b then prefixb p' s' else false end
  end.

(* [p in s] *)
Fixpoint contains (p s : string) : bool :=
  if prefixb p s then true else match s with "" => false | String _ s' => contains p s' end.

(* the piece under construction is the head of the list *)
Definition cons_head (c : ascii) (l : list string) : list string :=
  match l with t :: ts => String c t :: ts | [] => [String c ""] end.

(* s.replace(old, new) for non-empty old: leftmost non-overlapping occurrences *)
Fixpoint replace_from (old new : string) (skip : nat) (s : string) : string :=
  match s with
  | "" => ""
  | String c r =>
      match skip with
      | S k => replace_from old new k r
      | O => if prefixb old s then new ++ replace_from old new (String.length old - 1) r
             else String c (replace_from old new 0 r)
      end
  end.
Definition replace_all (old new s : string) : string := replace_from old new 0 s.

(* s.replace(c, '') for a one-character c *)
Fixpoint remove_char (d : ascii) (s : string) : string :=
  match s with "" => "" | String c r => if Ascii.eqb c d then remove_char d r else String c (remove_char d r) end.

(* s.split(d) for a one-character d *)
Fixpoint split_char (d : ascii) (s : string) : list string :=
  match s with
  | "" => [""]
  | String c r => if Ascii.eqb c d then "" :: split_char d r else cons_head c (split_char d r)
  end.

(* s.split(sep) for a non-empty sep *)
Fixpoint split_from (sep : string) (skip : nat) (s : string) : list string :=
  match s with
  | "" => [""]
  | String c r =>
      match skip with
      | S k => split_from sep k r
      | O => if prefixb sep s then "" :: split_from sep (String.length sep - 1) r
             else cons_head c (split_from sep 0 r)
      end
  end.
Definition split_str (sep s : string) : list string := split_from sep 0 s.

(* s.split(): maximal whitespace-free pieces, no empty piece *)
Fixpoint split_ws (s : string) : list string :=
  match s with
  | "" => []
  | String c r =>
      if is_ws c then split_ws r
      else match r with
           | "" => [String c ""]
           | String d _ => if is_ws d then String c "" :: split_ws r else cons_head c (split_ws r)
           end
  end.

(* re.split(r'\s+', s) *)
Fixpoint resplit1 (s : string) : list string :=
  match s with
  | "" => [""]
  | String c r =>
      if is_ws c then
        match r with
        | String d _ => if is_ws d then resplit1 r else "" :: resplit1 r
        | "" => "" :: resplit1 r
        end
      else cons_head c (resplit1 r)
  end.

(* re.split(r'\s\s+', s): split at maximal whitespace runs of length >= 2, single whitespace stays *)
Fixpoint resplit2_from (inrun : bool) (s : string) : list string :=
  match s with
  | "" => [""]
  | String c r =>
      if is_ws c then
        if inrun then resplit2_from true r
        else match r with
             | String d _ => if is_ws d then "" :: resplit2_from true r else cons_head c (resplit2_from false r)
             | "" => cons_head c [""]
             end
      else cons_head c (resplit2_from false r)
  end.
Definition resplit2 (s : string) : list string := resplit2_from false s.

(* re.sub(r'\s\s+', '', s) *)
Fixpoint rm2_from (inrun : bool) (s : string) : string :=
  match s with
  | "" => ""
  | String c r =>
      if is_ws c then
        if inrun then rm2_from true r
        else match r with
             | String d _ => if is_ws d then rm2_from true r else String c (rm2_from false r)
             | "" => String c ""
             end
      else String c (rm2_from false r)
  end.
Definition rm2 (s : string) : string := rm2_from false s.

(* re.sub(r'\s+', ' ', s)  (the client's normalize_spaces; it only drives a log message) *)
Fixpoint normalize_ws (s : string) : string :=
  match s with
  | "" => ""
  | String c r =>
      if is_ws c then
        match r with
        | String d _ => if is_ws d then normalize_ws r else String SPc (normalize_ws r)
        | "" => String SPc ""
        end
      else String c (normalize_ws r)
  end.

Fixpoint lstrip (s : string) : string :=
  match s with "" => "" | String c r => if is_ws c then lstrip r else s end.
Fixpoint rstrip (s : string) : string :=
  match s with
  | "" => ""
  | String c r => let r' := rstrip r in if is_ws c && is_empty r' then "" else String c r'
  end.
Definition strip (s : string) : string := rstrip (lstrip s).

(* f.readlines() on text without \r: pieces end with their \n, no empty last piece *)
Fixpoint readlines (s : string) : list string :=
  match s with
  | "" => []
  | String c r =>
      if Ascii.eqb c NLc then NL :: readlines r
      else match r with "" => [String c ""] | _ => cons_head c (readlines r) end
  end.

Fixpoint concat_str (l : list string) : string :=
  match l with [] => "" | x :: r => x ++ concat_str r end.

Fixpoint mem_str (x : string) (l : list string) : bool :=
  match l with [] => false | y :: r => String.eqb x y || mem_str x r end.
(* set(...) : the distinct elements (iteration order of a Python set is unspecified) *)
Fixpoint dedup (l : list string) : list string :=
  match l with [] => [] | x :: r => if mem_str x r then dedup r else x :: dedup r end.

(* ---------------------------------------------------------------- _parse_number *)

(* a parsed figure: nothing, a Python int, or the decimal m * 10^e that was handed to float() *)
Inductive mval : Type :=
| MNone
| MInt (z : Z)
| MFlt (m : Z) (e : Z)
| MStr (s : string).

(* digits with single underscores between digits (PEP 515), as int() and float() accept them.
   st: 0 nothing read, 1 after a digit, 2 after an underscore.  Returns value, number of digits, rest. *)
Fixpoint scan_digits (st : nat) (acc : Z) (cnt : Z) (s : string) : option (Z * Z * string) :=
  match s with
  | "" => match st with 2%nat => None | _ => Some (acc, cnt, "") end
  | String c r =>
      if is_digit c then scan_digits 1 (10 * acc + digit_val c) (cnt + 1) r
      else if Ascii.eqb c "_"%char then
        match st with 1%nat => scan_digits 2 acc cnt r | _ => None end
      else match st with 2%nat => None | _ => Some (acc, cnt, s) end
  end.

Definition read_sign (s : string) : Z * string :=
  match s with
  | String "-"%char r => ((-1)%Z, r)
  | String "+"%char r => (1%Z, r)
  | _ => (1%Z, s)
  end.

(* int(s) *)
Definition py_int (s0 : string) : option Z :=
  let (sg, s) := read_sign (strip s0) in
  match scan_digits 0 0 0 s with
  | Some (v, cnt, "") => if (0 <? cnt)%Z then Some (sg * v)%Z else None
  | _ => None
  end.

Definition is_e (c : ascii) : bool := Ascii.eqb c "e"%char || Ascii.eqb c "E"%char.

(* optional exponent then end of string *)
Definition read_exp (s : string) : option Z :=
  match s with
  | "" => Some 0%Z
  | String c r =>
      if is_e c then
        let (sg, r') := read_sign r in
        match scan_digits 0 0 0 r' with
        | Some (v, cnt, "") => if (0 <? cnt)%Z then Some (sg * v)%Z else None
        | _ => None
        end
      else None
  end.

(* float(s) for finite decimal literals: Some (m, e) with value m * 10^e ("inf"/"nan" carry no '.'
   and never reach float() in _parse_number) *)
Definition py_float (s0 : string) : option (Z * Z) :=
  let (sg, s) := read_sign (strip s0) in
  match scan_digits 0 0 0 s with
  | None => None
  | Some (ip, icnt, rest) =>
      match rest with
      | String "."%char r =>
          match scan_digits 0 0 0 r with
          | None => None
          | Some (fp, fcnt, rest') =>
              if (0 <? icnt + fcnt)%Z then
                match read_exp rest' with
                | Some ex => Some ((sg * (ip * 10 ^ fcnt + fp))%Z, (ex - fcnt)%Z)
                | None => None
                end
              else None
          end
      | _ =>
          if (0 <? icnt)%Z then
            match read_exp rest with Some ex => Some ((sg * ip)%Z, ex) | None => None end
          else None
      end
  end.

(* _parse_number(number_str) *)
Definition parse_number (s : string) : mval :=
  if String.eqb s "N/A" then MNone
  else
    let t := remove_char ","%char s in
    if contains "." t then match py_float t with Some (m, e) => MFlt m e | None => MNone end
    else match py_int t with Some z => MInt z | None => MNone end.

(* ---------------------------------------------------------------- scalar fields *)

(* a field result {'value': v, 'unit': u}; string and equal-sign fields carry MStr *)
Inductive mres : Type := MR (v : mval) (u : option string).

(* what _get_result_field makes of the line it popped *)
Definition field_of_line (name : string) (is_str : bool) (line : string) : mres :=
  let s := rm2 (remove_char NLc (replace_all (name ++ ":") "" line)) in
  if is_str then MR (MStr s) None
  else
    let toks := split_char SPc (strip s) in
    let u := match toks with
             | [_; u] => Some u
             | _ => if prefixb "Number" name then Some "count" else None
             end in
    MR (parse_number (hd "" toks)) u.

Definition field_marker (indent : nat) (name : string) : string := spaces indent ++ name ++ ": ".

Definition matching_lines (marker : string) (lines : list string) : list string :=
  dedup (filter (contains marker) lines).

(* every result _get_result_field can return: one per distinct matching line; [] = None *)
Definition field_candidates (name : string) (is_str : bool) (indent : nat) (lines : list string) : list mres :=
  map (field_of_line name is_str) (matching_lines (field_marker indent name) lines).

(* the result when set.pop() takes the k-th distinct matching line *)
Definition get_result_field (k : nat) (name : string) (is_str : bool) (indent : nat) (lines : list string)
  : option mres :=
  nth_error (field_candidates name is_str indent lines) k.

Definition eq_marker (name : string) : string := "  " ++ name ++ " = ".

Definition eq_of_line (marker line : string) : mres :=
  MR (MStr (remove_char NLc (nth 1 (split_str marker line) ""))) None.

Definition eq_candidates (name : string) (lines : list string) : list mres :=
  map (eq_of_line (eq_marker name)) (matching_lines (eq_marker name) lines).

(* a field of _RESULT_FIELDS_BY_CATEGORY: kind 0 number, 1 _StringValueField, 2 _EqualSignDelimitedField *)
Record fieldspec : Type := FS { fs_cat : string; fs_name : string; fs_kind : nat; fs_indent : nat }.

Definition candidates_of (f : fieldspec) (lines : list string) : list mres :=
  match fs_kind f with
  | 2%nat => eq_candidates (fs_name f) lines
  | 1%nat => field_candidates (fs_name f) true (fs_indent f) lines
  | _ => field_candidates (fs_name f) false (fs_indent f) lines
  end.

(* ---------------------------------------------------------------- comparison with the implementation *)

(* a value as the implementation returned it: None, int, float (exact rational of the double), str *)
Inductive ival : Type := INone | IInt (z : Z) | IFlt (q : Q) | IStr (s : string).
Inductive ires : Type := IR (v : ival) (u : option string).

Definition pow10Q (e : Z) : Q :=
  match e with
  | Z0 => 1%Q
  | Zpos p => inject_Z (10 ^ Zpos p)
  | Zneg p => (1 # Pos.pow 10 p)%Q
  end.
Definition mflt_Q (m e : Z) : Q := (inject_Z m * pow10Q e)%Q.

(* a float returned by the client is the double nearest to the decimal text it parsed *)
Definition float_tol : Q := (1 # 1000000000000000)%Q.

Definition agree_val (m : mval) (i : ival) : bool :=
  match m, i with
  | MNone, INone => true
  | MInt a, IInt b => Z.eqb a b
  | MFlt a e, IFlt q => close float_tol (mflt_Q a e) q
  | MStr a, IStr b => String.eqb a b
  | _, _ => false
  end.

Definition agree_unit (a b : option string) : bool :=
  match a, b with
  | None, None => true
  | Some x, Some y => String.eqb x y
  | _, _ => false
  end.

Definition agree_res (m : mres) (i : ires) : bool :=
  match m, i with MR v u, IR v' u' => agree_val v v' && agree_unit u u' end.

(* the implementation's answer is one of the model's candidates (None <-> no candidate) *)
Definition agree_field (cands : list mres) (i : option ires) : bool :=
  match i with
  | None => match cands with [] => true | _ => false end
  | Some r => existsb (fun m => agree_res m r) cands
  end.

Definition mval_eqb (a b : mval) : bool :=
  match a, b with
  | MNone, MNone => true
  | MInt x, MInt y => Z.eqb x y
  | MFlt m e, MFlt m' e' => Qeq_bool (mflt_Q m e) (mflt_Q m' e')
  | MStr x, MStr y => String.eqb x y
  | _, _ => false
  end.
Definition mres_eqb (a b : mres) : bool :=
  match a, b with MR v u, MR v' u' => mval_eqb v v' && agree_unit u u' end.

(* all candidates give the same answer: the field does not depend on which line set.pop() returns *)
Definition unambiguous (cands : list mres) : bool :=
  match cands with [] => true | c :: r => forallb (mres_eqb c) r end.

(* only a line with ": " or " = " can contain a field marker (Proofs: candidates_prefilter) *)
Definition relevant_line (l : string) : bool := contains ": " l || contains " = " l.

(* per field: i when the client's result is not a candidate of the model, 5000+i when the candidates
   disagree among themselves (the value depends on the line set.pop() returns) *)
Fixpoint check_fields_from (i : nat) (fs : list fieldspec) (lines : list string) (impl : list (option ires))
  : list nat :=
  match fs, impl with
  | f :: fs', r :: impl' =>
      let cands := candidates_of f lines in
      ((if agree_field cands r then [] else [i]) ++ (if unambiguous cands then [] else [5000 + i]%nat)
       ++ check_fields_from (S i) fs' lines impl')%list
  | [], [] => []
  | _, _ => [i]
  end.
Definition check_fields (fs : list fieldspec) (text : string) (impl : list (option ires)) : list nat :=
  check_fields_from 0 fs (filter relevant_line (readlines text)) impl.

(* indices of the fields whose value depends on the line chosen by set.pop() *)
Definition ambiguous_fields (fs : list fieldspec) (text : string) : list nat :=
  let lines := readlines text in
  mismatches (fun f => unambiguous (candidates_of f lines)) 0 fs.

(* the report text from its lines (how the harness hands a report to the kernel) *)
Fixpoint join_nl (lines : list string) : string :=
  match lines with [] => "" | l :: r => l ++ NL ++ join_nl r end.

(* ---------------------------------------------------------------- profile tables *)

(* ''.join(lines).split('*  NAME  *')[1].split('\n\n')[0].split('\n');  IndexError -> None *)
Definition get_profile_lines (name text : string) : option (list string) :=
  match split_str ("*  " ++ name ++ "  *") text with
  | _ :: b :: _ => Some (split_char NLc (hd "" (split_str (NL ++ NL) b)))
  | _ => None
  end.

(* the header loop of _get_data_from_profile_lines: one column of one header line.
   hs: data_headers so far; idx: header line number; IndexError -> None *)
Fixpoint set_nth (n : nat) (v : string) (l : list string) : option (list string) :=
  match l, n with
  | [], _ => None
  | _ :: r, O => Some (v :: r)
  | x :: r, S k => match set_nth k v r with Some r' => Some (x :: r') | None => None end
  end.

Definition header_col (idx idxc : nat) (col : string) (hs : list string) : option (list string) :=
  match nth_error hs 0 with
  | None => None
  | Some h0 =>
      let j1 := if String.eqb h0 "YEAR" && Nat.ltb 0 idx then S idxc else idxc in
      match nth_error hs 1 with
      | None => None
      | Some h1 =>
          let j := if String.eqb h1 "THERMAL DRAWDOWN" && Nat.ltb 1 idx then S j1 else j1 in
          match nth_error hs j with
          | None => None
          | Some old => set_nth j (lstrip (old ++ " " ++ strip col)) hs
          end
      end
  end.

Fixpoint header_cols (idx idxc : nat) (cols : list string) (hs : list string) : option (list string) :=
  match cols with
  | [] => Some hs
  | c :: r => match header_col idx idxc c hs with Some hs' => header_cols idx (S idxc) r hs' | None => None end
  end.

Fixpoint header_lines (idx : nat) (hls : list string) (hs : list string) : option (list string) :=
  match hls with
  | [] => Some hs
  | hl :: r =>
      let cols := tl (resplit2 hl) in
      let hs0 := match idx with O => map (fun _ => "") cols | _ => hs end in
      match header_cols idx 0 cols hs0 with Some hs' => header_lines (S idx) r hs' | None => None end
  end.

Definition data_rows (lines : list string) : list (list mval) :=
  map (map parse_number)
      (filter (fun e => Nat.ltb 1 (List.length e)) (map (fun l => tl (resplit1 l)) lines)).

(* _get_data_from_profile_lines: (headers, rows) *)
Definition data_from_profile_lines (pl : list string) : option (list string * list (list mval)) :=
  match header_lines 0 (firstn 3 (skipn 2 pl)) [] with
  | Some hs => Some (hs, data_rows (skipn 5 pl))
  | None => None
  end.

(* _get_power_generation_profile / _get_heat_electricity_extraction_generation_profile:
   new banner name first, legacy name on IndexError; any failure leaves both keys out (caller) *)
Definition production_profile (name legacy text : string) : option (list string * list (list mval)) :=
  match get_profile_lines name text with
  | Some pl => data_from_profile_lines pl
  | None => match get_profile_lines legacy text with
            | Some pl => data_from_profile_lines pl
            | None => None
            end
  end.

(* line.insert(1, '') until the row has n entries *)
Definition insert1 (l : list string) : list string :=
  match l with [] => [""] | x :: r => x :: "" :: r end.
Fixpoint pad_row (fuel : nat) (n : nat) (l : list string) : list string :=
  match fuel with
  | O => l
  | S k => if Nat.ltb (List.length l) n then pad_row k n (insert1 l) else l
  end.

Fixpoint max_len (ls : list (list string)) : nat :=
  match ls with [] => O | l :: r => Nat.max (List.length l) (max_len r) end.

(* _extract_addons_style_table_data(lines); max() of nothing raises -> None *)
Definition addons_rows (lines : list string) : option (list (list mval)) :=
  let sp := map (fun l => split_ws (remove_char "|"%char l)) (skipn 5 lines) in
  match sp with
  | [] => None
  | _ =>
      let n := max_len sp in
      let padded := map (pad_row n n) sp in
      Some (map (map parse_number) (filter (existsb (fun t => negb (is_empty t))) padded))
  end.

Definition addons_table (name text : string) : option (list (list mval)) :=
  match get_profile_lines name text with
  | Some pl => addons_rows pl
  | None => None
  end.

Definition is_underscores (s : string) : bool :=
  negb (is_empty s) && all_chars (fun c => Ascii.eqb c "_"%char) s.

Fixpoint del_nth {A : Type} (n : nat) (l : list A) : list A :=
  match l, n with
  | [], _ => []
  | _ :: r, O => r
  | x :: r, S k => x :: del_nth k r
  end.

(* _get_revenue_and_cashflow_profile: lines[5] must exist (IndexError -> None); a rule line is dropped *)
Definition revenue_table (text : string) : option (list (list mval)) :=
  match get_profile_lines "REVENUE & CASHFLOW PROFILE" text with
  | None => None
  | Some pl =>
      match nth_error pl 5 with
      | None => None
      | Some l5 => addons_rows (if is_underscores l5 then del_nth 5 pl else pl)
      end
  end.

Definition mval_nonzero (v : mval) : bool :=
  match v with
  | MInt z => negb (Z.eqb z 0)
  | MFlt m _ => negb (Z.eqb m 0)
  | _ => true                      (* None != 0 *)
  end.

Fixpoint pick_cols (idx : list nat) (row : list mval) : option (list mval) :=
  match idx with
  | [] => Some []
  | i :: r => match nth_error row i, pick_cols r row with
              | Some v, Some vs => Some (v :: vs)
              | _, _ => None
              end
  end.
Fixpoint pick_rows (idx : list nat) (rows : list (list mval)) : option (list (list mval)) :=
  match rows with
  | [] => Some []
  | r :: rs => match pick_cols idx r, pick_rows idx rs with
               | Some x, Some xs => Some (x :: xs)
               | _, _ => None
               end
  end.

(* the CARBON REVENUE PROFILE view of the revenue table.  cpi: index of the carbon price header,
   idx: indices of the four headers of the view.
   outer None: the constructor raises (a row shorter than the carbon price column, outside any try);
   inner None: no such profile *)
Definition carbon_view (cpi : nat) (idx : list nat) (rows : list (list mval))
  : option (option (list (list mval))) :=
  match rows with
  | [] => Some None
  | _ =>
      match pick_rows [cpi] rows with
      | None => None
      | Some col =>
          if existsb (fun r => mval_nonzero (hd MNone r)) col
          then Some (pick_rows idx rows)
          else Some None
      end
  end.

(* ---------------------------------------------------------------- comparison of tables *)

Fixpoint agree_list {A B : Type} (f : A -> B -> bool) (a : list A) (b : list B) : bool :=
  match a, b with
  | [], [] => true
  | x :: a', y :: b' => f x y && agree_list f a' b'
  | _, _ => false
  end.

Definition agree_rows (m : list (list mval)) (i : list (list ival)) : bool :=
  agree_list (agree_list agree_val) m i.

Definition agree_table (m : option (list (list mval))) (i : option (list (list ival))) : bool :=
  match m, i with
  | None, None => true
  | Some a, Some b => agree_rows a b
  | _, _ => false
  end.

Definition agree_profile (m : option (list string * list (list mval)))
                         (i : option (list string * list (list ival))) : bool :=
  match m, i with
  | None, None => true
  | Some (h, a), Some (h', b) => agree_list String.eqb h h' && agree_rows a b
  | _, _ => false
  end.

(* ---------------------------------------------------------------- as_csv *)

(* one csv entry before quoting: category, field, year, value, unit *)
Record csvrow (V : Type) : Type := CSV { c_cat : string; c_field : string; c_year : option V; c_val : V; c_unit : string }.
Arguments CSV {V}.

Definition escape_commas (s : string) : string := replace_all "," "\," s.

(* rows of a category that is a dict of fields; fields with value None are skipped *)
Fixpoint csv_fields {V : Type} (cat : string) (fields : list (string * option (V * option string)))
  : list (csvrow V) :=
  match fields with
  | [] => []
  | (name, None) :: r => csv_fields cat r
  | (name, Some (v, u)) :: r =>
      CSV cat (escape_commas name) None v (match u with Some x => x | None => "" end) :: csv_fields cat r
  end.

(* header 'NAME (unit)' -> (NAME, unit): split(' (') then replace(')', '') *)
Definition header_name_unit (h : string) : string * string :=
  match split_str " (" h with
  | n :: u :: _ => (n, remove_char ")"%char u)
  | n :: [] => (n, "")
  | [] => ("", "")
  end.

(* column i+1 of every row, with its year (column 0); a short row raises IndexError -> None *)
Fixpoint csv_column {V : Type} (cat nm un : string) (i : nat) (rows : list (list V)) : option (list (csvrow V)) :=
  match rows with
  | [] => Some []
  | r :: rs =>
      match nth_error r 0, nth_error r (S i), csv_column cat nm un i rs with
      | Some y, Some v, Some rest => Some (CSV cat nm (Some y) v un :: rest)
      | _, _, _ => None
      end
  end.

Fixpoint csv_columns {V : Type} (cat : string) (i : nat) (hs : list string) (rows : list (list V))
  : option (list (csvrow V)) :=
  match hs with
  | [] => Some []
  | h :: hs' =>
      let (nm, un) := header_name_unit h in
      match csv_column cat nm un i rows, csv_columns cat (S i) hs' rows with
      | Some a, Some b => Some (a ++ b)%list
      | _, _ => None
      end
  end.

(* rows of a profile category: for every header but the first, for every data row *)
Definition csv_table {V : Type} (cat : string) (headers : list string) (rows : list (list V))
  : option (list (csvrow V)) :=
  csv_columns cat 0 (tl headers) rows.

(* the content of one category of GeophiresXResult.result *)
Inductive catval (V : Type) : Type :=
| CFields (fields : list (string * option (V * option string)))
| CTable (headers : list string) (rows : list (list V)).
Arguments CFields {V}.
Arguments CTable {V}.

(* as_csv before quoting: categories in dictionary order ('metadata' is not passed in) *)
Fixpoint csv_all {V : Type} (cats : list (string * catval V)) : option (list (csvrow V)) :=
  match cats with
  | [] => Some []
  | (cat, CFields fs) :: r =>
      match csv_all r with Some rest => Some (csv_fields cat fs ++ rest)%list | None => None end
  | (cat, CTable hs rows) :: r =>
      match csv_table cat hs rows, csv_all r with
      | Some a, Some rest => Some (a ++ rest)%list
      | _, _ => None
      end
  end.

Definition opt_eqb (a b : option string) : bool :=
  match a, b with None, None => true | Some x, Some y => String.eqb x y | _, _ => false end.
(* csv text cannot tell a missing year (field rows) from an empty one (a year cell that parsed to None) *)
Definition year_text (y : option string) : string := match y with Some x => x | None => "" end.
Definition csvrow_eqb (a b : csvrow string) : bool :=
  String.eqb (c_cat _ a) (c_cat _ b) && String.eqb (c_field _ a) (c_field _ b)
  && String.eqb (year_text (c_year _ a)) (year_text (c_year _ b))
  && String.eqb (c_val _ a) (c_val _ b) && String.eqb (c_unit _ a) (c_unit _ b).
(* the rows the model derives from the result equal the rows read back from as_csv() *)
Definition agree_csv (m : option (list (csvrow string))) (i : option (list (csvrow string))) : bool :=
  match m, i with
  | None, None => true
  | Some a, Some b => agree_list csvrow_eqb a b
  | _, _ => false
  end.

(* csv rows as the harness hands them over: consecutive rows sharing category, field and unit *)
Fixpoint expand_group (cat field unit : string) (cells : list (option string * string)) : list (csvrow string) :=
  match cells with
  | [] => []
  | (y, v) :: r => CSV cat field y v unit :: expand_group cat field unit r
  end.
Fixpoint expand_groups (gs : list (string * string * string * list (option string * string))) : list (csvrow string) :=
  match gs with
  | [] => []
  | (cat, field, unit, cells) :: r => (expand_group cat field unit cells ++ expand_groups r)%list
  end.

(* ---------------------------------------------------------------- the .json next to the report *)

(* the printed decimal m*10^e is the quantity q rounded to that many places (half an ulp, plus the
   relative slack of binary64 formatting) *)
Definition rounds_to (q : Q) (m e : Z) : bool :=
  Qle_bool (Qabs (q - mflt_Q m e)) ((1 # 2) * pow10Q e + float_tol * Qabs q)%Q.

(* ---------------------------------------------------------------- a tiny renderer for synthetic reports *)

(* '      Label:      value unit\n' *)
Definition render_scalar (indent : nat) (name : string) (pad : nat) (tok : string) (unit : option string)
           (trail : string) : string :=
  spaces indent ++ name ++ ":" ++ spaces pad ++ tok
  ++ (match unit with Some u => " " ++ u | None => "" end) ++ trail.

(* a data row: tokens separated (and possibly surrounded) by blanks; seps has one more entry than toks *)
Fixpoint render_row (lead : string) (cells : list (string * string)) : string :=
  match cells with
  | [] => lead
  | (tok, sep) :: r => lead ++ tok ++ render_row sep r
  end.

(* ---------------------------------------------------------------- the whole constructor, against the client *)

Fixpoint index_of (x : string) (l : list string) : option nat :=
  match l with
  | [] => None
  | y :: r => if String.eqb x y then Some O else match index_of x r with Some k => Some (S k) | None => None end
  end.

Fixpoint indices_of (xs l : list string) : option (list nat) :=
  match xs with
  | [] => Some []
  | x :: r => match index_of x l, indices_of r l with Some i, Some is => Some (i :: is) | _, _ => None end
  end.

(* hard-coded tables of the client (regenerated from its source: Gen/C10Fields.v) *)
Record client_tables : Type := CT {
  ct_fields : list fieldspec;
  ct_revenue_headers : list string;
  ct_carbon_headers : list string;
  ct_carbon_price_field : string;
  ct_ccus_legacy_name : string
}.

(* _get_carbon_revenue_or_ccus_legacy_profile.
   outer None: the constructor raises; Some (Some (legacy?, rows)); Some None: no such key *)
Definition carbon_or_legacy (t : client_tables) (text : string) : option (option (bool * list (list mval))) :=
  match addons_table (ct_ccus_legacy_name t) text with
  | Some rows => Some (Some (true, rows))
  | None =>
      match revenue_table text with
      | None => Some None
      | Some rows =>
          match index_of (ct_carbon_price_field t) (ct_revenue_headers t) with
          | None => None                                   (* list.index raises ValueError outside any try *)
          | Some cpi =>
              match indices_of (ct_carbon_headers t) (ct_revenue_headers t) with
              | None => match carbon_view cpi [] rows with Some (Some _) => Some None | Some None => Some None | None => None end
              | Some idx =>
                  match carbon_view cpi idx rows with
                  | None => None
                  | Some None => Some None
                  | Some (Some r) => Some (Some (false, r))
                  end
              end
          end
      end
  end.

(* what the client returned for one report *)
Record impl_report : Type := IRep {
  ir_fields : list (option ires);
  ir_power : option (list string * list (list ival));
  ir_heat : option (list string * list (list ival));
  ir_extended : option (list (list ival));
  ir_revenue : option (list (list ival));
  ir_carbon : option (bool * list (list ival));
  ir_sdacgt : option (list (list ival))
}.

Definition agree_carbon (m : option (bool * list (list mval))) (i : option (bool * list (list ival))) : bool :=
  match m, i with
  | None, None => true
  | Some (a, r), Some (b, r') => Bool.eqb a b && agree_rows r r'
  | _, _ => false
  end.

(* components of the result on which client and model differ: field index, or 1000.. for the profiles;
   [raised] tells whether the constructor raised (then only that fact is compared: code 2000) *)
Definition check_report_with (cf : list fieldspec -> string -> list (option ires) -> list nat)
           (t : client_tables) (text : string) (raised : bool) (r : impl_report) : list nat :=
  match carbon_or_legacy t text with
  | None => if raised then [] else [2000%nat]
  | Some carbon =>
      if raised then [2000%nat] else
      let power := production_profile "HEATING, COOLING AND/OR ELECTRICITY PRODUCTION PROFILE" "POWER GENERATION PROFILE" text in
      let heat := match power with
                  | None => None
                  | Some _ => production_profile "ANNUAL HEATING, COOLING AND/OR ELECTRICITY PRODUCTION PROFILE"
                                                 "HEAT AND/OR ELECTRICITY EXTRACTION AND GENERATION PROFILE" text
                  end in
      (cf (ct_fields t) text (ir_fields r)
       ++ (if agree_profile power (ir_power r) then [] else [1000%nat])
       ++ (if agree_profile heat (ir_heat r) then [] else [1001%nat])
       ++ (if agree_table (addons_table "EXTENDED ECONOMIC PROFILE" text) (ir_extended r) then [] else [1002%nat])
       ++ (if agree_table (revenue_table text) (ir_revenue r) then [] else [1003%nat])
       ++ (if agree_carbon carbon (ir_carbon r) then [] else [1004%nat])
       ++ (if agree_table (addons_table "S-DAC-GT PROFILE" text) (ir_sdacgt r) then [] else [1005%nat]))%list
  end.
Definition check_report : client_tables -> string -> bool -> impl_report -> list nat := check_report_with check_fields.

(* ---------------------------------------------------------------- client fields against writer labels *)

(* what the writer prints in front of a value: indentation, label, then ": " (kind 0) or " = " (kind 1) *)
Definition label_prefix (l : nat * string * nat) : string :=
  let '(n, lab, k) := l in spaces n ++ lab ++ (match k with O => ": " | _ => " = " end).

Definition marker_of (f : fieldspec) : string :=
  match fs_kind f with
  | 2%nat => eq_marker (fs_name f)
  | _ => field_marker (fs_indent f) (fs_name f)
  end.

(* the line carries the label of this very field *)
Definition own_label (f : fieldspec) (l : nat * string * nat) : bool :=
  let '(n, lab, k) := l in
  match fs_kind f with
  | 2%nat => String.eqb (lstrip (hd "" (split_str " = " (label_prefix l)))) (fs_name f)
  | _ => Nat.eqb k 0 && String.eqb lab (fs_name f)
  end.

(* no field's marker occurs in the printed prefix of a line with another label, nor in any other literal line *)
Definition no_foreign_match_table (fields : list fieldspec) (labels : list (nat * string * nat))
           (others : list string) : bool :=
  forallb (fun f =>
             forallb (fun l => implb (contains (marker_of f) (label_prefix l)) (own_label f l)) labels
             && forallb (fun o => negb (contains (marker_of f) o)) others) fields.

(* the figure printed as [tok] is the .json quantity q rounded to the printed number of places *)
Definition json_agrees (q : Q) (tok : string) : bool :=
  match parse_number tok with
  | MFlt m e => rounds_to q m e
  | MInt z => rounds_to q z 0
  | _ => false
  end.

(* ---------------------------------------------------------------- a tiny renderer for printed numerals *)

(* every fixed-point figure a writer format ({:w.pf}, {:,.pf}, {:w.0f}) can produce is: sign, digit groups
   (one group, or several separated by ','), and, for p > 0, a point and p digits *)
Definition digit_char (d : nat) : ascii := ascii_of_nat (48 + d).
Fixpoint digits_str (ds : list nat) : string :=
  match ds with [] => "" | d :: r => String (digit_char d) (digits_str r) end.
Fixpoint digits_val (acc : Z) (ds : list nat) : Z :=
  match ds with [] => acc | d :: r => digits_val (10 * acc + Z.of_nat d) r end.
Fixpoint groups_str (g : list nat) (gs : list (list nat)) : string :=
  digits_str g ++ match gs with [] => "" | h :: t => "," ++ groups_str h t end.
Definition render_number (neg : bool) (g : list nat) (gs : list (list nat)) (frac : list nat) : string :=
  (if neg then "-" else "") ++ groups_str g gs ++ (match frac with [] => "" | _ => "." ++ digits_str frac end).
Definition all_digits (ds : list nat) : bool := forallb (fun d => Nat.ltb d 10) ds.
