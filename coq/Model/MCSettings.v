(* Model/MCSettings.v - executable model of the settings-file reader of MC_GeoPHIRES3.main (INPUT / OUTPUT / ITERATIONS /
   MC_OUTPUT_FILE / PYTHON_PATH / HTML_PATH lines) and of check_and_replace_mean (the '#' feature: a field '#' of an INPUT
   line is replaced by a value taken from the base input file).  String level, quirks included.  Definitions only. *)
From Coq Require Import List Arith Bool String Ascii.
From Verif Require Import Model.MCRows.
Import ListNotations.
Open Scope string_scope.

(* ---------------------------------------------------------------- the reader loop *)
Record settings : Type := MkSettings {
  s_inputs : list (list string);      (* pair[1:] of every INPUT line: name (stripped) :: raw remaining fields *)
  s_outputs : list string;            (* pair[1] (stripped) of every OUTPUT line *)
  s_iterations : option string;       (* text handed to int(): the last ITERATIONS line governs; None = 0 iterations *)
  s_output_file : option string;      (* last MC_OUTPUT_FILE line *)
  s_python_path : option string;
  s_html_path : option string }.

Definition settings0 : settings := MkSettings [] [] None None None None.

(* for line in flist: clean = line.strip(); pair = clean.split(','); pair[1] = pair[1].strip(); if / elif chain on
   pair[0].startswith(...).  A line without a comma raises IndexError (None) - a blank line does. *)
Definition read_line (acc : settings) (line : string) : option settings :=
  match split_char "," (strip line) with
  | p0 :: p1 :: rest =>
      let v := strip p1 in
      Some (if prefix "INPUT" p0 then
              MkSettings (s_inputs acc ++ [v :: rest]) (s_outputs acc) (s_iterations acc) (s_output_file acc) (s_python_path acc) (s_html_path acc)
            else if prefix "OUTPUT" p0 then
              MkSettings (s_inputs acc) (s_outputs acc ++ [v]) (s_iterations acc) (s_output_file acc) (s_python_path acc) (s_html_path acc)
            else if prefix "ITERATIONS" p0 then
              MkSettings (s_inputs acc) (s_outputs acc) (Some v) (s_output_file acc) (s_python_path acc) (s_html_path acc)
            else if prefix "MC_OUTPUT_FILE" p0 then
              MkSettings (s_inputs acc) (s_outputs acc) (s_iterations acc) (Some v) (s_python_path acc) (s_html_path acc)
            else if prefix "PYTHON_PATH" p0 then
              MkSettings (s_inputs acc) (s_outputs acc) (s_iterations acc) (s_output_file acc) (Some v) (s_html_path acc)
            else if prefix "HTML_PATH" p0 then
              MkSettings (s_inputs acc) (s_outputs acc) (s_iterations acc) (s_output_file acc) (s_python_path acc) (Some v)
            else acc)
  | _ => None
  end.

Fixpoint read_lines (acc : settings) (lines : list string) : option settings :=
  match lines with
  | [] => Some acc
  | l :: r => match read_line acc l with Some acc' => read_lines acc' r | None => None end
  end.

Definition read_settings (lines : list string) : option settings := read_lines settings0 lines.

(* what an INPUT line contributes, for the order theorem *)
Definition is_input_line (line : string) : bool :=
  match split_char "," (strip line) with p0 :: _ :: _ => prefix "INPUT" p0 | _ => false end.
Definition input_fields (line : string) : list string :=
  match split_char "," (strip line) with _ :: p1 :: rest => strip p1 :: rest | _ => [] end.

(* ---------------------------------------------------------------- '#': check_and_replace_mean *)
(* index of the first field (the name and the distribution word included) that contains '#' *)
Fixpoint first_hash (fields : list string) (i : nat) : option nat :=
  match fields with
  | [] => None
  | f :: r => if contains "#" f then Some i else first_hash r (S i)
  end.

Fixpoint set_nth (i : nat) (v : string) (l : list string) : list string :=
  match l, i with
  | [], _ => []
  | _ :: r, O => v :: r
  | x :: r, S j => x :: set_nth j v r
  end.

(* for s in ss: if s.startswith(vari_name): input_value[i] = s.split(',')[1]; break
   - the FIRST line of the base file that starts with the name (a prefix test on the raw line: comment lines and longer
     parameter names that begin with the same text match too); the raw second comma field, blanks and new line included;
   - no such line: the field stays '#';  a matching line without a comma: IndexError (None) *)
Definition replace_mean (fields base_lines : list string) : option (list string) :=
  match first_hash fields 0 with
  | None => Some fields
  | Some i =>
      match find (prefix (hd "" fields)) base_lines with
      | None => Some fields
      | Some l => match split_char "," l with
                  | _ :: v :: _ => Some (set_nth i v fields)
                  | _ => None
                  end
      end
  end.

(* the value the simulator itself uses for a parameter (C12: the last line whose name field - the text before the first
   comma, stripped - is the name governs; comment lines start with '#', '--' or '*') *)
Definition is_comment (line : string) : bool :=
  let l := strip line in prefix "#" l || prefix "--" l || prefix "*" l.
Definition names_param (name line : string) : bool :=
  negb (is_comment line) &&
  match split_char "," (strip line) with
  | n :: _ :: _ => String.eqb (strip n) name
  | _ => false
  end.
Fixpoint simulated_line (name : string) (base_lines : list string) : option string :=
  match base_lines with
  | [] => None
  | l :: r => match simulated_line name r with
              | Some x => Some x
              | None => if names_param name l then Some l else None
              end
  end.
Definition simulated_value (name : string) (base_lines : list string) : option string :=
  match simulated_line name base_lines with
  | Some l => match split_char "," (strip l) with _ :: v :: _ => Some (strip v) | _ => None end
  | None => None
  end.
(* the line check_and_replace_mean reads the value from *)
Definition mean_source_line (name : string) (base_lines : list string) : option string := find (prefix name) base_lines.

(* ---------------------------------------------------------------- helpers for the harness *)
Fixpoint fields_list_eqb (a b : list (list string)) : bool :=
  match a, b with
  | [], [] => true
  | x :: a', y :: b' => strings_eqb x y && fields_list_eqb a' b'
  | _, _ => false
  end.
Definition opt_string_eqb (a b : option string) : bool :=
  match a, b with
  | Some x, Some y => String.eqb x y
  | None, None => true
  | _, _ => false
  end.
(* inputs, outputs, iterations text and output-file text against an independent reading of the settings file *)
Definition settings_agree (lines : list string) (inputs : list (list string)) (outputs : list string)
           (iterations output_file : option string) : bool :=
  match read_settings lines with
  | Some s => fields_list_eqb (s_inputs s) inputs && strings_eqb (s_outputs s) outputs
              && opt_string_eqb (s_iterations s) iterations && opt_string_eqb (s_output_file s) output_file
  | None => false
  end.
