(* Model/Price.v - executable model of Economics.BuildPTCModel / BuildPricingModel and of the
   construction-year padding of the price arrays (Economics.Calculate).  No proofs here. *)
From Coq Require Import QArith List ZArith Bool.
From Verif Require Import Base.Flat.
Import ListNotations.
Open Scope Q_scope.

(* BuildPTCModel(plantlifetime, duration, ptc_price, ptc_inflation_adjusted, inflation_rate):
     Price = [0.0]*life
     for year in range(duration): Price[year] = ptc; if adj and year > 0: Price[year] = Price[year-1]*(1+infl)
   [prev] is Price[year-1]; Price[year] for year >= life raises IndexError. *)
Fixpoint ptc_fill (dur year : nat) (prev ptc infl : Q) (adj : bool) (life : nat) : list Q :=
  match life with
  | O => []
  | S l =>
      if Nat.ltb year dur
      then let v := if adj && negb (Nat.eqb year 0) then prev * (1 + infl) else ptc in
           v :: ptc_fill dur (S year) v ptc infl adj l
      else 0 :: ptc_fill dur (S year) 0 ptc infl adj l
  end.

Definition ptc_model (life dur : nat) (ptc : Q) (adj : bool) (infl : Q) : option (list Q) :=
  if Nat.ltb life dur then None (* IndexError *) else Some (ptc_fill dur 0 0 ptc infl adj life).

(* one year of BuildPricingModel, before the PTC addition *)
Definition price_at (start endp : Q) (esc : Z) (rate : Q) (i : nat) : Q :=
  let p := if (esc <=? Z.of_nat i)%Z then start + inject_Z (Z.of_nat i - esc) * rate else start in
  if Qltb endp p then endp else p.

(* BuildPricingModel(plantlifetime, StartPrice, EndPrice, EscalationStartYear, EscalationRate, PTCAddition);
   PTCAddition[i] beyond its length raises IndexError (None). *)
Fixpoint pricing_fill (start endp : Q) (esc : Z) (rate : Q) (i : nat) (ptc : list Q) (life : nat)
  {struct life} : option (list Q) :=
  match life with
  | O => Some []
  | S l =>
      match ptc with
      | [] => None
      | a :: ptc' =>
          match pricing_fill start endp esc rate (S i) ptc' l with
          | Some r => Some ((price_at start endp esc rate i + a) :: r)
          | None => None
          end
      end
  end.

Definition pricing_model (life : nat) (start endp : Q) (esc : Z) (rate : Q) (ptc : list Q) : option (list Q) :=
  pricing_fill start endp esc rate 0 ptc life.

(* "for the sake of display, insert zeros at the beginning of the pricing arrays" *)
Definition pad_construction (cy : nat) (price : list Q) : list Q := repeat 0 cy ++ price.

(* the schedule a product gets in Economics.Calculate: PTC schedule only when the PTC input is provided *)
Definition product_schedule (life : nat) (ptc_provided : bool) (dur : nat) (ptc : Q) (adj : bool) (infl : Q)
           (start endp : Q) (esc : Z) (rate : Q) : option (list Q) :=
  let ptcl := if ptc_provided then ptc_model life dur ptc adj infl else Some (repeat 0 life) in
  match ptcl with
  | Some pl => pricing_model life start endp esc rate pl
  | None => None
  end.

(* ---- flat interface ---- *)
Definition opt_res (o : option (list Q)) : res :=
  match o with Some l => Vals l | None => Err E_INDEX end.

(* [life; dur; ptc; adj; infl] *)
Definition run_ptc (a : list Q) : res :=
  match a with
  | [life; dur; ptc; adj; infl] => opt_res (ptc_model (qnat life) (qnat dur) ptc (qbool adj) infl)
  | _ => Err E_ARGS
  end.

(* [life; start; endp; esc; rate] ++ ptc list *)
Definition run_pricing (a : list Q) : res :=
  match a with
  | life :: start :: endp :: esc :: rate :: ptc =>
      opt_res (pricing_model (qnat life) start endp (qZ esc) rate ptc)
  | _ => Err E_ARGS
  end.

(* [life; provided; dur; ptc; adj; infl; start; endp; esc; rate; cy] : padded schedule *)
Definition run_schedule (a : list Q) : res :=
  match a with
  | [life; prov; dur; ptc; adj; infl; start; endp; esc; rate; cy] =>
      match product_schedule (qnat life) (qbool prov) (qnat dur) ptc (qbool adj) infl start endp (qZ esc) rate with
      | Some l => Vals (pad_construction (qnat cy) l)
      | None => Err E_INDEX
      end
  | _ => Err E_ARGS
  end.
