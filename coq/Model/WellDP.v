(* Model/WellDP.v - how the Darcy-Weisbach friction term enters the pump pressures and the pumping power in the
   four hydraulic functions of WellBores.py (productivity/injectivity-index model: ProdPressureDropAndPumpingPowerUsingIndexes,
   InjPressureDropAndPumpingPowerUsingIndexes; impedance model: Prod/InjPressureDropsAndPumpingPowerUsingImpedenceModel).
   Friction factor, velocity, densities, wellhead / plant-outlet / reservoir pressures are data.  No proofs here. *)
From Coq Require Import QArith List ZArith Bool.
From Verif Require Import Base.Flat Model.Friction Model.Pumping.
Import ListNotations.
Open Scope Q_scope.

(* rho * 9.81 * depth / 1E3 *)
Definition g_term (rho depth : Q) : Q := rho * (981 # 100) * depth / 1000.

(* DPProdWell = Pprodwellhead - (Phydrostatic - q/PI_kPa - rho*9.81*depth/1E3 - f3*(rho*v^2/2)*(depth/d)/1E3) *)
Definition dp_prod_index (pwh phyd q pikpa rho depth fric : Q) : Q :=
  pwh - (phyd - q / pikpa - g_term rho depth - fric).

(* DPInjWell = Phydrostatic + q*(1+wl)*nprod/ninj/II_kPa - rho*9.81*depth/1E3 + f1*(rho*v^2/2)*(depth/d)/1E3 - Pplantoutlet *)
Definition dp_inj_index (phyd q wl nprod ninj iikpa rho depth fric pout : Q) : Q :=
  phyd + q * (1 + wl) * nprod / ninj / iikpa - g_term rho depth + fric - pout.

(* one time step of the production side: pump pressure and power, friction from (f, v) *)
Definition prod_index_step (pumping : bool) (pwh q pi_bar depth d nprod eff phyd f v rho : Q) : Q * Q :=
  if pumping
  then let dp := dp_prod_index pwh phyd q (pi_bar / 100) rho depth (dp_friction f rho v depth d) in
       (dp, prod_power true nprod q eff dp rho)
  else (0, 0).

Definition inj_index_step (q wl nprod ninj ii_bar depth d eff pout phyd f v rho : Q) : Q * Q :=
  let dp := dp_inj_index phyd q wl nprod ninj (ii_bar / 100) rho depth (dp_friction f rho v depth d) pout in
  (dp, inj_power nprod q wl eff dp rho).

(* impedance model, one time step: (DPProdWell, DPInjWell, DPOverall, PumpingPower) *)
Definition imp_step (q wl nprod ninj eff imp rhores depth dprod dinj f3 vp rhop f1 vi rhoi : Q) : list Q :=
  let dpp := dp_friction f3 rhop vp depth dprod in
  let dpi := dp_friction f1 rhoi vi depth dinj in
  let dpo := dp_overall (dp_reserv imp nprod q rhores) dpp (dp_buoyancy rhop rhoi depth) dpi in
  [dpp; dpi; dpo; imp_power ninj q wl eff dpo rhoi].

(* ---- flat interface ---- *)
Fixpoint map4 {A} (g : Q -> Q -> Q -> Q -> A) (a b c d : list Q) : list A :=
  match a, b, c, d with
  | x :: a', y :: b', z :: c', w :: d' => g x y z w :: map4 g a' b' c' d'
  | _, _, _, _ => []
  end.

(* [n; pumping; pwh; q; PI; depth; d; nprod; eff] ++ phyd(n) ++ f(n) ++ v(n) ++ rho(n) -> DPProdWell(n) ++ PumpingPowerProd(n) *)
Definition run_prod_index (a : list Q) : res :=
  match a with
  | n :: pumping :: pwh :: q :: pi_bar :: depth :: d :: nprod :: eff :: rest =>
      let n := qnat n in
      let '(phyd, r1) := take_drop n rest in
      let '(f, r2) := take_drop n r1 in
      let '(v, rho) := take_drop n r2 in
      let l := map4 (prod_index_step (qbool pumping) pwh q pi_bar depth d nprod eff) phyd f v rho in
      Vals (map fst l ++ map snd l)
  | _ => Err E_ARGS
  end.

(* [n; q; wl; nprod; ninj; II; depth; d; eff; pout] ++ phyd(n) ++ f(n) ++ v(n) ++ rho(n) -> DPInjWell(n) ++ PumpingPowerInj(n) *)
Definition run_inj_index (a : list Q) : res :=
  match a with
  | n :: q :: wl :: nprod :: ninj :: ii_bar :: depth :: d :: eff :: pout :: rest =>
      let n := qnat n in
      let '(phyd, r1) := take_drop n rest in
      let '(f, r2) := take_drop n r1 in
      let '(v, rho) := take_drop n r2 in
      let l := map4 (inj_index_step q wl nprod ninj ii_bar depth d eff pout) phyd f v rho in
      Vals (map fst l ++ map snd l)
  | _ => Err E_ARGS
  end.

(* [q; wl; nprod; ninj; eff; imp; rhores; depth; dprod; dinj; f3; vp; rhop; f1; vi; rhoi] (one step)
   -> [DPProdWell; DPInjWell; DPOverall; PumpingPower] *)
Definition run_imp_step (a : list Q) : res :=
  match a with
  | [q; wl; nprod; ninj; eff; imp; rhores; depth; dprod; dinj; f3; vp; rhop; f1; vi; rhoi] =>
      Vals (imp_step q wl nprod ninj eff imp rhores depth dprod dinj f3 vp rhop f1 vi rhoi)
  | _ => Err E_ARGS
  end.
