(* Model/UTokenizer.v - executable model of GeoPHIRESUtils.read_input_file (C12) over texts of Unicode code points
   (ustring = list N; the file's bytes are turned into such a text by Model/Utf8.v, decoding errors included):
   text-mode decoding of line endings, readlines, str.strip with the FULL str.isspace() table, comment prefixes,
   str.split(','), the ParameterEntry fields, and Python's dict (insertion ordered, assignment to an existing key replaces
   the value in place).  Plus the client's "append the override parameters after the base file".
   [String] / [EmptyString] below are cons / nil on code points.  No proofs here. *)
From Coq Require Import NArith List Bool Arith.
From Verif Require Import Base.UStr.
Import ListNotations.
Open Scope N_scope.

Notation string := ustring (only parsing).
Notation String := cons (only parsing).
Notation EmptyString := nil (only parsing).
Notation ascii := N (only parsing).

Definition LF : N := 10.
Definition CR : N := 13.
Definition COMMA : N := 44.
Definition HASH : N := 35.
Definition STAR : N := 42.
Definition DASH : N := 45.
Definition SPACE : N := 32.

(* str.isspace(): EVERY code point Python's strip() removes (the table is compared with the running interpreter's on each check):
   U+0009-000D, 001C-0020, 0085, 00A0, 1680, 2000-200A, 2028, 2029, 202F, 205F, 3000 *)
Definition is_ws (c : N) : bool :=
  ((9 <=? c) && (c <=? 13)) || ((28 <=? c) && (c <=? 32)) || (c =? 133) || (c =? 160) || (c =? 5760)
  || ((8192 <=? c) && (c <=? 8202)) || (c =? 8232) || (c =? 8233) || (c =? 8239) || (c =? 8287) || (c =? 12288).

Definition is_empty (s : string) : bool := match s with EmptyString => true | _ => false end.

Fixpoint lstrip (s : string) : string :=
  match s with
  | String c r => if is_ws c then lstrip r else s
  | EmptyString => EmptyString
  end.

Fixpoint rstrip (s : string) : string :=
  match s with
  | EmptyString => EmptyString
  | String c r => let r' := rstrip r in
                  if is_ws c && is_empty r' then EmptyString else String c r'
  end.

Definition strip (s : string) : string := rstrip (lstrip s).

(* str.split(sep): never returns the empty list *)
Fixpoint split_on (sep : ascii) (s : string) : list string :=
  match s with
  | EmptyString => [EmptyString]
  | String c r =>
      if UA.eqb c sep then EmptyString :: split_on sep r
      else match split_on sep r with
           | h :: t => String c h :: t
           | [] => [[c]]
           end
  end.

(* ''.join(list) *)
Fixpoint cat (ls : list string) : string :=
  match ls with [] => EmptyString | x :: r => x ++ cat r end.

(* any(line.startswith(x) for x in ['#', '--', '*']) *)
Definition is_comment (line : string) : bool :=
  match line with
  | c :: r => UA.eqb c HASH || UA.eqb c STAR
              || (UA.eqb c DASH && match r with c2 :: _ => UA.eqb c2 DASH | [] => false end)
  | [] => false
  end.

(* ParameterEntry(Name, sValue, Comment, raw_entry) *)
Record entry := { e_name : string; e_sval : string; e_comment : string; e_raw : string }.

Definition comment_of (rest : list string) : string :=
  match rest with
  | [] => EmptyString
  | [c] => strip c
  | _ => cat rest
  end.

Definition fields (line : string) : option entry :=
  match split_on COMMA line with
  | d :: v :: rest => Some {| e_name := strip d; e_sval := strip v; e_comment := comment_of rest; e_raw := line |}
  | _ => None
  end.

Definition parse_line (raw : string) : option entry :=
  let line := strip raw in
  if is_comment line then None else fields line.

Definition parse_lines (ls : list string) : list entry :=
  flat_map (fun l => match parse_line l with Some e => [e] | None => [] end) ls.

(* Python dict *)
Definition dict := list (string * entry).

Fixpoint dict_set (k : string) (e : entry) (d : dict) : dict :=
  match d with
  | [] => [(k, e)]
  | (k', e') :: r => if US.eqb k k' then (k', e) :: r else (k', e') :: dict_set k e r
  end.

Fixpoint dict_get (k : string) (d : dict) : option entry :=
  match d with
  | [] => None
  | (k', e) :: r => if US.eqb k k' then Some e else dict_get k r
  end.

Definition keys (d : dict) : list string := map fst d.

Definition build_from (d : dict) (es : list entry) : dict :=
  fold_left (fun d e => dict_set (e_name e) e d) es d.

Definition read_lines (ls : list string) : dict := build_from [] (parse_lines ls).

(* open(..., encoding='UTF-8') in text mode translates \r\n and lone \r to \n
   ([after_cr] is the decoder's pending-CR flag) *)
Fixpoint univ (after_cr : bool) (s : string) : string :=
  match s with
  | EmptyString => EmptyString
  | String c r =>
      if UA.eqb c LF then (if after_cr then univ false r else String LF (univ false r))
      else if UA.eqb c CR then String LF (univ true r)
      else String c (univ false r)
  end.
Definition universal (s : string) : string := univ false s.

(* file.readlines(): split after every \n, terminators kept, no empty last line *)
Fixpoint readlines (s : string) : list string :=
  match s with
  | EmptyString => []
  | String c r =>
      if UA.eqb c LF then [LF] :: readlines r
      else match readlines r with
           | h :: t => String c h :: t
           | [] => [[c]]
           end
  end.

Definition read_text (text : string) : dict := read_lines (readlines (universal text)).

(* the observable content of a dictionary: (key, Name, sValue, Comment, raw_entry) in iteration order *)
Definition dump (d : dict) : list (string * (string * (string * (string * string)))) :=
  map (fun p => (fst p, (e_name (snd p), (e_sval (snd p), (e_comment (snd p), e_raw (snd p)))))) d.

(* geophires_x_client.GeophiresInputParameters(params, from_file_path) BEFORE fix e85b257 (kept as the named pinned
   behaviour): f.writelines(base_file.readlines()) in text mode (so the base arrives with its line endings translated),
   followed by one line "name, value\n" per override - glued to the base's last line when that one is unterminated *)
Definition param_line (p : string * string) : string := fst p ++ [COMMA; SPACE] ++ snd p ++ [LF].
Definition client_text_pinned (base : string) (params : list (string * string)) : string :=
  universal base ++ cat (map param_line params).

(* empty, or ends with a line feed *)
Fixpoint complete (s : string) : bool :=
  match s with
  | EmptyString => true
  | String c r => if is_empty r then UA.eqb c LF else complete r
  end.
(* a text whose last line is terminated (by LF, CRLF or CR), or the empty text *)
Definition terminated (text : string) : bool := complete (universal text).

(* -- vocabulary of the statements -- *)
Fixpoint allws (s : string) : bool :=
  match s with EmptyString => true | String c r => is_ws c && allws r end.
Fixpoint nochar (x : ascii) (s : string) : bool :=
  match s with EmptyString => true | String c r => negb (UA.eqb c x) && nochar x r end.
Definition nocomma := nochar COMMA.
Definition noeol (s : string) : bool := nochar LF s && nochar CR s.

Definition name_val (o : option entry) : option (string * string) :=
  option_map (fun e => (e_name e, e_sval e)) o.
Definition core (o : option entry) : option (string * (string * string)) :=
  option_map (fun e => (e_name e, (e_sval e, e_comment e))) o.

(* last entry of a list with a given name *)
Fixpoint find_last (k : string) (es : list entry) : option entry :=
  match es with
  | [] => None
  | e :: r => match find_last k r with
              | Some x => Some x
              | None => if US.eqb k (e_name e) then Some e else None
              end
  end.

Inductive eol := EolLF | EolCRLF | EolCR.
Definition eol_str (e : eol) : string :=
  match e with
  | EolLF => [LF]
  | EolCRLF => String CR ([LF])
  | EolCR => [CR]
  end.
Definition join_lines (e : eol) (ls : list string) : string :=
  cat (map (fun l => l ++ eol_str e) ls).

(* equality of dumps, for the kernel correspondence *)
Fixpoint list_eqb {A} (eq : A -> A -> bool) (a b : list A) : bool :=
  match a, b with
  | [], [] => true
  | x :: a', y :: b' => eq x y && list_eqb eq a' b'
  | _, _ => false
  end.
Definition dump_eqb (a b : list (string * (string * (string * (string * string))))) : bool :=
  list_eqb (fun x y =>
    US.eqb (fst x) (fst y) && US.eqb (fst (snd x)) (fst (snd y))
    && US.eqb (fst (snd (snd x))) (fst (snd (snd y)))
    && US.eqb (fst (snd (snd (snd x)))) (fst (snd (snd (snd y))))
    && US.eqb (snd (snd (snd (snd x)))) (snd (snd (snd (snd y))))) a b.
Definition reads_as (text : string) (expected : list (string * (string * (string * (string * string))))) : bool :=
  dump_eqb (dump (read_text text)) expected.

(* an override whose name and value the client can pass through unharmed *)
Definition clean_param (p : string * string) : bool :=
  noeol (fst p) && noeol (snd p) && nocomma (fst p) && nocomma (snd p)
  && US.eqb (strip (fst p)) (fst p) && negb (is_comment (lstrip (fst p))) && negb (is_empty (lstrip (fst p))).

(* the same comparison without the Comment field (never consulted by the simulator) *)
Definition reads_as_nocomment (text : string) (expected : list (string * (string * (string * (string * string))))) : bool :=
  list_eqb (fun x y =>
    US.eqb (fst x) (fst y) && US.eqb (fst (snd x)) (fst (snd y))
    && US.eqb (fst (snd (snd x))) (fst (snd (snd y)))
    && US.eqb (snd (snd (snd (snd x)))) (snd (snd (snd (snd y))))) (dump (read_text text)) expected.

(* geophires_x_client.GeophiresInputParameters(params, from_file_path), current code (fix e85b257):
     base_lines = base_file.readlines(); f.writelines(base_lines)
     if base_lines and not base_lines[-1].endswith('\n'): f.write('\n')
   then one line "name, value\n" per override *)
Definition client_text (base : string) (params : list (string * string)) : string :=
  let u := universal base in
  (if complete u then u else u ++ [LF]) ++ cat (map param_line params).

(* the code points str.isspace() accepts, as a list (compared with the running interpreter's table on every check;
   Proofs/UTokenizerProofs.v: is_ws c = true <-> In c ws_points) *)
Definition ws_points : list N :=
  [9; 10; 11; 12; 13; 28; 29; 30; 31; 32; 133; 160; 5760; 8192; 8193; 8194; 8195; 8196; 8197; 8198; 8199; 8200; 8201; 8202;
   8232; 8233; 8239; 8287; 12288].
Fixpoint nlist_eqb (a b : list N) : bool :=
  match a, b with [], [] => true | x :: a', y :: b' => (x =? y) && nlist_eqb a' b' | _, _ => false end.

(* Parameter.ReadParameter, list-valued parameters without a position ("Gradients, 50, 40, 30", "Thicknesses, 1, 1"):
     [float(x.strip()) for x in raw_entry.split('--')[0].split(',')[1:] if x.strip() != '']
   [before_dd] is str.split('--')[0]; [list_fields] are the texts handed to float() *)
Fixpoint before_dd (s : string) : string :=
  match s with
  | [] => []
  | c :: r => match r with
              | c2 :: _ => if UA.eqb c DASH && UA.eqb c2 DASH then [] else c :: before_dd r
              | [] => [c]
              end
  end.
Definition list_fields (raw : string) : list string :=
  filter (fun f => negb (is_empty f)) (map strip (tl (split_on COMMA (before_dd raw)))).
Fixpoint fields_eqb (a b : list string) : bool :=
  match a, b with [], [] => true | x :: a', y :: b' => US.eqb x y && fields_eqb a' b' | _, _ => false end.

(* ================= a caching client in front of the reader (GeophiresXClient._cache) =================
   get_geophires_result: cache_key = hash(input_params); hit -> the stored result, miss -> run and store.
   [serve] answers a history of requests; [key] is the cache key of a request, [run] what a fresh run returns. *)
Section Cache.
  Variables Req Key Res : Type.
  Variable key : Req -> Key.
  Variable keq : Key -> Key -> bool.
  Variable run : Req -> Res.
  Fixpoint cache_lookup (k : Key) (c : list (Key * Res)) : option Res :=
    match c with
    | [] => None
    | (k', x) :: r => if keq k k' then Some x else cache_lookup k r
    end.
  Fixpoint serve (c : list (Key * Res)) (rs : list Req) : list Res :=
    match rs with
    | [] => []
    | r :: t => match cache_lookup (key r) c with
                | Some x => x :: serve c t
                | None => let x := run r in x :: serve ((key r, x) :: c) t
                end
    end.
End Cache.

(* the real key: GeophiresInputParameters.__hash__ = hash(file path); requests are file paths, [fs] the files *)
Definition key_path (p : string) : string := p.
(* an order-insensitive alternative (NOT the code): the set of stripped non-blank lines of the file *)
Definition key_lineset (t : string) : list string :=
  filter (fun l => negb (is_empty l)) (map strip (readlines (universal t))).
Fixpoint mem_line (x : string) (l : list string) : bool := match l with [] => false | y :: r => US.eqb x y || mem_line x r end.
Definition lineset_eqb (a b : list string) : bool := forallb (fun x => mem_line x b) a && forallb (fun x => mem_line x a) b.
(* index of a path among the distinct files of a history: stands for "the result of that file" in the kernel check *)
Fixpoint index_of (p : string) (l : list string) (i : N) : N :=
  match l with [] => i | q :: r => if US.eqb p q then i else index_of p r (i + 1) end.
Definition cache_check (paths : list string) (observed : list N) : bool :=
  nlist_eqb (serve string string N key_path US.eqb (fun p => index_of p paths 0) [] paths) observed.
