(* Model/RangeReader.v - executable model of the range / membership validation of
   geophires_x.Parameter.ReadParameter for floatParameter and intParameter (C07, reused by C19),
   on one row of Gen/ParamTable.  The input [v] is the double that Python's float(sValue) returned
   (every finite double is a rational; parsing itself is CPython's and is not modelled).
   Quirks kept:  int parameters go through int(float(s)) (truncation toward zero) BEFORE any test;
   for ints "== DefaultValue" returns before "== value" and before the membership test;
   for floats "== DefaultValue" only sets Provided and falls through; "== value" returns silently
   (this is how the out-of-range 'not provided' sentinels, e.g. -1, survive being supplied).
   No proofs here. *)
From Coq Require Import QArith ZArith List String Bool.
From Verif Require Import Base.Flat Base.ParamRec.
Import ListNotations.
Open Scope Q_scope.

Inductive outcome : Type :=
| Accept (v : Q)          (* ParamToModify.value = v; Provided = Valid = True *)
| Reject (name : string)  (* ValueError "Error: Parameter given (..) for <name> outside of valid range." *)
| Unchanged               (* return without touching .value *)
| Crash.                  (* any other exception: never produced by the model, only observed *)

(* int(x) of a finite float: truncation toward zero *)
Definition trunc (q : Q) : Z := Z.quot (Qnum q) (Zpos (Qden q)).

(* Python `number == declared` where the declared value may be a non-number (None, enum object) *)
Definition oeq (o : option Q) (v : Q) : bool :=
  match o with Some d => Qeq_bool v d | None => false end.

Definition read_float (p : param) (v : Q) : outcome :=
  if oeq (p_value p) v then Unchanged
  else if Qltb v (p_min p) || Qltb (p_max p) v then Reject (p_name p)
  else Accept v.

Definition read_int (p : param) (v : Q) : outcome :=
  let n := trunc v in
  let nq := inject_Z n in
  if oeq (p_default p) nq then Unchanged
  else if oeq (p_value p) nq then Unchanged
  else if in_runs n (p_range p) then Accept nq
  else Reject (p_name p).

Definition read_param (p : param) (v : Q) : outcome :=
  match p_kind p with
  | KFloat => read_float p v
  | KInt => read_int p v
  | _ => Unchanged  (* bool / str / list parameters are outside C07 *)
  end.

(* listParameter branch (names without a blank: 'Gradients', 'Thicknesses').  sValue is the text of the FIRST
   element only: New_val = float(sValue) is range-checked; out of range -> a warning is printed and the current list
   is kept (no exception: lists are the one place where the pinned reader keeps the default); otherwise the WHOLE
   comma-separated list of the raw line is stored - the other elements are never range-checked. *)
Inductive loutcome : Type :=
| LStore (l : list Q)     (* ParamToModify.value = [first; rest...] *)
| LKeep.                  (* "Warning: Parameter given (..) for <name> outside of valid range." - value untouched *)

Definition read_list (p : param) (first : Q) (rest : list Q) : loutcome :=
  if Qltb first (p_min p) || Qltb (p_max p) first then LKeep else LStore (first :: rest).

Definition lstored (o : loutcome) : bool := match o with LStore _ => true | LKeep => false end.

(* a value written with a unit ("20000 meter"): ConvertUnits turns the text into the magnitude in the parameter's
   CurrentUnits (pint; the conversion is data: [conv]) and the float branch then runs on that number *)
Definition read_qualified (p : param) (conv : Q -> Q) (v : Q) : outcome := read_param p (conv v).

Definition accepted (o : outcome) : bool := match o with Accept _ => true | _ => false end.

(* Provided flag after the call (False before it): floats set it already on "== DefaultValue" *)
Definition provided_after (p : param) (v : Q) : bool :=
  match p_kind p with
  | KFloat => oeq (p_default p) v || accepted (read_float p v)
  | KInt => accepted (read_int p v)
  | _ => false
  end.

(* .value after the call; None when the call raised *)
Definition final (p : param) (o : outcome) : option Q :=
  match o with
  | Accept x => Some x
  | Unchanged => p_value p
  | Reject _ | Crash => None
  end.

(* ---------------- the property, as a predicate on an observed outcome ---------------- *)

Definition integral (v : Q) : bool := Qeq_bool (inject_Z (trunc v)) v.

(* the documented domain: [Min, Max] for floats, the AllowableRange (a set of integers) for ints *)
Definition in_domain (p : param) (v : Q) : bool :=
  match p_kind p with
  | KFloat => Qleb (p_min p) v && Qleb v (p_max p)
  | KInt => integral v && in_runs (trunc v) (p_range p)
  | _ => true
  end.

(* the 'not provided' value: the declared default / the value the object starts with *)
Definition is_sentinel (p : param) (v : Q) : bool := oeq (p_default p) v || oeq (p_value p) v.

Definition oQeqb (o : option Q) (v : Q) : bool :=
  match o with Some x => Qeq_bool x v | None => false end.

(* C07 on one (parameter, value, outcome): inside the domain the value is accepted and is the value in use
   afterwards; outside it the call raises naming the parameter - or, for the sentinel only, changes nothing.
   Never [Accept] of anything out of the domain, never a different value. *)
Definition spec_ok (p : param) (v : Q) (o : outcome) : bool :=
  if in_domain p v then oQeqb (final p o) v
  else match o with
       | Reject n => String.eqb n (p_name p)
       | Unchanged => is_sentinel p v
       | _ => false
       end.

(* hypothesis the int branch forces: supplying the declared default is only harmless when the object still
   holds it (AGS/SBT well bores overwrite .value of 'Number of Multilateral Sections' but not DefaultValue) *)
Definition no_shadow (p : param) (v : Q) : bool :=
  match p_kind p with
  | KInt => negb (oeq (p_default p) v) || oeq (p_value p) v
  | _ => true
  end.

(* bounds of the documented domain *)
Definition lo_bound (p : param) : option Q :=
  match p_kind p with
  | KFloat => Some (p_min p)
  | KInt => option_map inject_Z (runs_min (p_range p))
  | _ => None
  end.
Definition hi_bound (p : param) : option Q :=
  match p_kind p with
  | KFloat => Some (p_max p)
  | KInt => option_map inject_Z (runs_max (p_range p))
  | _ => None
  end.

Definition obool (o : option Q) (f : Q -> bool) : bool := match o with Some x => f x | None => false end.

(* what the table must satisfy for "values exactly at the bounds are accepted and used" to hold of a row *)
Definition row_ok (p : param) : bool :=
  match p_kind p with
  | KFloat => Qleb (p_min p) (p_max p)
  | KInt => runs_wf (p_range p) && obool (lo_bound p) (no_shadow p) && obool (hi_bound p) (no_shadow p)
  | _ => true
  end.

(* ---------------- comparison with an observed implementation outcome ---------------- *)

(* one reader-level case: row index, parsed value, observed outcome, observed final value, observed Provided *)
Definition rcase : Type := (nat * Q * outcome * option Q * bool)%type.

Definition oQ_eqb (a b : option Q) : bool :=
  match a, b with Some x, Some y => Qeq_bool x y | None, None => true | _, _ => false end.

Definition dummy_param : param :=
  mkParam "" "" KStr None None 0 0 [] "" "" "" false "" "".

(* model agrees with the implementation on the observables: raises naming the same parameter, or ends with the
   same value in use (Accept / Unchanged are told apart only through that value; Provided is not compared:
   it is bookkeeping that C07 does not constrain) *)
Definition rcase_agrees (tbl : list param) (c : rcase) : bool :=
  match c with
  | (i, v, o, fin, _) =>
      let p := nth i tbl dummy_param in
      let m := read_param p v in
      match m, o with
      | Reject n, Reject n' => String.eqb n n'
      | (Accept _ | Unchanged), (Accept _ | Unchanged) => oQ_eqb (final p m) fin
      | _, _ => false
      end
  end.

(* the property holds of the IMPLEMENTATION's outcome (evaluated with the observed final value) *)
Definition rcase_spec (tbl : list param) (c : rcase) : bool :=
  match c with
  | (i, v, o, fin, _) =>
      let p := nth i tbl dummy_param in
      if in_domain p v then oQeqb fin v
      else match o with
           | Reject n => String.eqb n (p_name p)
           | Unchanged => is_sentinel p v && oQ_eqb fin (p_value p)
           | _ => false
           end
  end.

Definition table_bad_rows (tbl : list param) : nat * list nat := (List.length tbl, mismatches row_ok 0 tbl).

(* harness entry point: (number of cases, indices of the cases on which [f tbl] is false) *)
Definition run_rcases (f : list param -> rcase -> bool) (tbl : list param) (cs : list rcase) : nat * list nat :=
  (List.length cs, mismatches (f tbl) 0 cs).
