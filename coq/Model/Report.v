(* Model/Report.v - executable model of how Outputs.PrintOutputs lays out a line and the per-year tables:
   a line is a template (literal text and formatted fields) filled with values; a profile table is one row per
   year i = 0..n-1, labelled i+off, whose cells read the series at index i*k (k = time steps per year for the
   production profile, 1 for the annual and cash-flow profiles); the cash-flow table has cy+n rows and an OPEX
   column that is 0 in the construction years.  Where Python raises IndexError the model returns None.
   Executable definitions only; lemmas are in Proofs/ReportProofs.v. *)
From Coq Require Import String Ascii QArith ZArith List Bool.
From Verif Require Import Model.Fmt Model.Float.
Import ListNotations.

Inductive fkind : Type := KF | KFc | KE | KEu | KG.

(* template segments: literal text, a numeric field '{:w.p<kind>}', an unformatted interpolation '{x}' / str(x) *)
Inductive seg : Type :=
| Lit (s : string)
| Fld (k : fkind) (w p : nat)
| Str.

(* what fills a segment *)
Inductive cell : Type :=
| Num (v : fval)               (* float / int under a numeric format spec *)
| NumE (e : sexpr)             (* a figure computed from snapshot quantities by the float model (Model/Float.v) *)
| Txt (s : string)             (* a string value (label, unit, option name) *)
| IntV (z : Z)                 (* str(int) *)
| ReprV (v : fval)             (* str(float) *)
| RoundV (v : fval) (n : nat). (* str(round(float, n)) *)

Definition render_fld (k : fkind) (w p : nat) (v : fval) : string :=
  match k with
  | KF => fmt_f v w p
  | KFc => fmt_fc v w p
  | KE => fmt_e false v w p
  | KEu => fmt_e true v w p
  | KG => fmt_g v w p
  end.

Definition render_str (c : cell) : option string :=
  match c with
  | Txt s => Some s
  | IntV z => Some (py_int z)
  | ReprV v => Some (py_repr v)
  | RoundV v n => Some (py_round_repr v n)
  | Num _ | NumE _ => None
  end.

Definition cat (a : string) (b : option string) : option string :=
  match b with Some t => Some (a ++ t)%string | None => None end.

Fixpoint render_line (segs : list seg) (vals : list cell) : option string :=
  match segs with
  | [] => match vals with [] => Some EmptyString | _ => None end
  | Lit s :: r => cat s (render_line r vals)
  | Fld k w p :: r =>
      match vals with
      | Num v :: vs => cat (render_fld k w p v) (render_line r vs)
      | NumE e :: vs => match seval None e with
                        | Some x => cat (render_fld k w p (fl_fval x)) (render_line r vs)
                        | None => None     (* outside the float model: the harness falls back to its own value *)
                        end
      | _ => None
      end
  | Str :: r =>
      match vals with
      | c :: vs => match render_str c with Some s => cat s (render_line r vs) | None => None end
      | [] => None
      end
  end.

Fixpoint mapM {A B : Type} (f : A -> option B) (l : list A) : option (list B) :=
  match l with
  | [] => Some []
  | x :: r => match f x, mapM f r with Some y, Some ys => Some (y :: ys) | _, _ => None end
  end.

Definition year_cell (n : nat) : cell := Num (Fin (inject_Z (Z.of_nat n))).

(* cells of row i: the year label i+off, then every series read at index i*k *)
Definition row_cells (off k : nat) (cols : list (list fval)) (i : nat) : option (list cell) :=
  match mapM (fun c => nth_error c (i * k)) cols with
  | Some vs => Some (year_cell (i + off) :: map Num vs)
  | None => None   (* IndexError *)
  end.

Definition table_row (segs : list seg) (off k : nat) (cols : list (list fval)) (i : nat) : option string :=
  match row_cells off k cols i with
  | Some cs => render_line segs cs
  | None => None
  end.

(* for i in range(0, n): write(row i) *)
Definition table (n off k : nat) (segs : list seg) (cols : list (list fval)) : option (list string) :=
  mapM (table_row segs off k cols) (seq 0 n).

(* the same table with every column an EXPRESSION over snapshot series, evaluated by the float model at the row's
   index i*k (SRow reads its series there): PT[i*k]/PT[0], X[i]/1E6, (H0 - R[i])*100/H0, ... *)
Definition erow_cells (off k : nat) (cols : list sexpr) (i : nat) : option (list cell) :=
  match mapM (seval (Some (i * k)%nat)) cols with
  | Some vs => Some (year_cell (i + off) :: map (fun x => Num (fl_fval x)) vs)
  | None => None   (* IndexError, or outside the float model *)
  end.
Definition etable_row (segs : list seg) (off k : nat) (cols : list sexpr) (i : nat) : option string :=
  match erow_cells off k cols i with
  | Some cs => render_line segs cs
  | None => None
  end.
Definition etable (n off k : nat) (segs : list seg) (cols : list sexpr) : option (list string) :=
  mapM (etable_row segs off k cols) (seq 0 n).
Definition plain_col (c : list fl) : sexpr := SRow (ALeaf c).

(* OPEX column of the revenue & cash-flow profile: 0.0 in the cy construction years, then the O&M cost *)
Definition opex_col (cy n : nat) (coam : fval) : list fval := repeat (Fin 0) cy ++ repeat coam n.

(* revenue & cash-flow profile: cy+n rows labelled 0.., every series read at the row index; the OPEX column
   is inserted at position [pos] among the series *)
Definition cashflow_table (n cy pos : nat) (segs : list seg) (coam : fval) (cols : list (list fval)) : option (list string) :=
  table (cy + n) 0 1 segs (firstn pos cols ++ opex_col cy n coam :: skipn pos cols).

(* ---------- comparisons used by the correspondence ---------- *)
Fixpoint strs_eqb (a b : list string) : bool :=
  match a, b with
  | [], [] => true
  | x :: a', y :: b' => String.eqb x y && strs_eqb a' b'
  | _, _ => false
  end.

Definition chk_line (segs : list seg) (vals : list cell) (actual : string) : bool :=
  match render_line segs vals with Some s => String.eqb s actual | None => false end.

Definition chk_table (n off k : nat) (segs : list seg) (cols : list (list fval)) (actual : list string) : bool :=
  match table n off k segs cols with Some rows => strs_eqb rows actual | None => false end.

Definition chk_etable (n off k : nat) (segs : list seg) (cols : list sexpr) (actual : list string) : bool :=
  match etable n off k segs cols with Some rows => strs_eqb rows actual | None => false end.
(* is the line / table inside the model at all (second pass of the correspondence: fall back or disagree?) *)
Definition line_defined (segs : list seg) (vals : list cell) : bool :=
  match render_line segs vals with Some _ => true | None => false end.
Definition etable_defined (n off k : nat) (segs : list seg) (cols : list sexpr) : bool :=
  match etable n off k segs cols with Some _ => true | None => false end.

Definition fval_eqb (a b : fval) : bool :=
  match a, b with
  | Fin x, Fin y => Qeq_bool x y
  | NegZero, NegZero | NaN, NaN | PInf, PInf | NInf, NInf => true
  | _, _ => false
  end.
Fixpoint fvals_eqb (a b : list fval) : bool :=
  match a, b with
  | [], [] => true
  | x :: a', y :: b' => fval_eqb x y && fvals_eqb a' b'
  | _, _ => false
  end.

(* every numeric field of a template uses a format the model covers (always true by typing: the generator
   fails on anything else) and the template of a per-year row starts with its year label *)
Definition starts_with_year (segs : list seg) : bool :=
  match filter (fun s => match s with Lit _ => false | _ => true end) segs with
  | Fld KF _ 0 :: _ => true
  | _ => false
  end.
Definition n_fields (segs : list seg) : nat :=
  length (filter (fun s => match s with Lit _ => false | _ => true end) segs).

(* a template printed inside a per-year loop is either pure text or starts with the year label under '.0f' *)
Definition row_template_ok (t : nat * bool * list seg) : bool :=
  let '(_, inloop, segs) := t in
  if inloop then Nat.eqb (n_fields segs) 0 || starts_with_year segs else true.

(* ---------- the unit clause ---------- *)
Local Open Scope Q_scope.
(* a parameter at print time: value, CurrentUnits, PreferredUnits *)
Record qty : Type := { q_val : Q; q_cur : string; q_pref : string }.
(* where a line takes its unit text from *)
Inductive usrc : Type := UCur | UPref | ULit (s : string).
Definition printed_unit (u : usrc) (p : qty) : string :=
  match u with UCur => q_cur p | UPref => q_pref p | ULit s => s end.
(* the conversion pass on an output the user asked in another unit: value and CurrentUnits change, PreferredUnits stays *)
Definition convert_output (p : qty) (newu : string) (factor : Q) : qty :=
  {| q_val := q_val p * factor; q_cur := newu; q_pref := q_pref p |}.
(* what a scalar line states: the figure (value x scale) and the unit text *)
Definition line_states (scale : Q) (u : usrc) (p : qty) : Q * string := (q_val p * scale, printed_unit u p).
(* how a reader understands (figure, unit): a percentage is a hundredth of a dimensionless fraction *)
Definition understood (s : Q * string) : Q * string :=
  if String.eqb (snd s) "%" then (fst s / 100, ""%string) else s.
Definition same_quantity (a b : Q * string) : Prop := fst a == fst b /\ snd a = snd b.

