(* Model/ResultHistory.v - histories of one client process: report files are (re)written and parsed.
   The modelled GeophiresXResult keeps nothing between two constructions: a Parse answers from the text the path
   holds at that moment (Model/ResultParser.v is a function of that text).  Executable definitions only. *)
From Coq Require Import String List.
Import ListNotations.
Open Scope string_scope.

Inductive op : Type :=
| Write (path text : string)       (* the simulator (re)writes a report *)
| Parse (path : string).           (* GeophiresXResult(path) *)

Definition store : Type := list (string * string).

Fixpoint lookup (p : string) (s : store) : option string :=
  match s with [] => None | (q, t) :: r => if String.eqb p q then Some t else lookup p r end.

(* answers of the Parse operations, in order; a missing file raises (None) *)
Fixpoint run {R : Type} (parse : string -> R) (s : store) (ops : list op) : list (option R) :=
  match ops with
  | [] => []
  | Write p t :: r => run parse ((p, t) :: s) r
  | Parse p :: r => option_map parse (lookup p s) :: run parse s r
  end.

(* the files after a history: only the Write operations matter *)
Fixpoint files_after (s : store) (ops : list op) : store :=
  match ops with
  | [] => s
  | Write p t :: r => files_after ((p, t) :: s) r
  | Parse _ :: r => files_after s r
  end.

Definition is_write (o : op) : bool := match o with Write _ _ => true | Parse _ => false end.
Fixpoint parses (ops : list op) : nat :=
  match ops with [] => O | Write _ _ :: r => parses r | Parse _ :: r => S (parses r) end.

(* one result object: it is read (.result) and exported (as_csv()) any number of times *)
Inductive use : Type := ReadResult | Export.

(* the modelled export is a function of the parsed result and leaves it alone *)
Definition answers {Res C : Type} (csv : Res -> C) (r : Res) (ops : list use) : list (Res + C) :=
  map (fun o => match o with ReadResult => inl r | Export => inr (csv r) end) ops.
