(* Model/ResultParserFast.v - the field search of Model/ResultParser.v with one pass per line instead of one per
   field: every line is indexed by the (reversed) texts that precede an occurrence of ": " resp. " = ", and a
   field marker [m ++ ": "] matches the line iff reversed m is a prefix of one of them
   (Proofs/ResultParserFastProofs.v: same candidates).  Executable definitions only. *)
From Coq Require Import String Ascii List Bool.
From Verif Require Import Base.Flat Model.ResultParser.
Import ListNotations.
Open Scope string_scope.

Fixpoint rev_onto (s acc : string) : string :=
  match s with "" => acc | String c r => rev_onto r (String c acc) end.
Definition rev_str (s : string) : string := rev_onto s "".

(* reversed prefixes of s (on top of acc) that end where an occurrence of sep starts *)
Fixpoint rev_prefixes (sep acc s : string) : list string :=
  match s with
  | "" => if prefixb sep "" then [acc] else []
  | String c r => ((if prefixb sep s then [acc] else []) ++ rev_prefixes sep (String c acc) r)%list
  end.

Record iline : Type := IL { il_line : string; il_colon : list string; il_equal : list string }.
Definition index_line (l : string) : iline := IL l (rev_prefixes ": " "" l) (rev_prefixes " = " "" l).

Definition fast_matching (rm : string) (sel : iline -> list string) (ils : list iline) : list string :=
  dedup (map il_line (filter (fun il => existsb (prefixb rm) (sel il)) ils)).

Definition fast_candidates (f : fieldspec) (ils : list iline) : list mres :=
  match fs_kind f with
  | 2%nat => map (eq_of_line (eq_marker (fs_name f))) (fast_matching (rev_str ("  " ++ fs_name f)) il_equal ils)
  | 1%nat => map (field_of_line (fs_name f) true) (fast_matching (rev_str (spaces (fs_indent f) ++ fs_name f)) il_colon ils)
  | _ => map (field_of_line (fs_name f) false) (fast_matching (rev_str (spaces (fs_indent f) ++ fs_name f)) il_colon ils)
  end.

Fixpoint fast_check_fields_from (i : nat) (fs : list fieldspec) (ils : list iline) (impl : list (option ires))
  : list nat :=
  match fs, impl with
  | f :: fs', r :: impl' =>
      let cands := fast_candidates f ils in
      ((if agree_field cands r then [] else [i]) ++ (if unambiguous cands then [] else [5000 + i]%nat)
       ++ fast_check_fields_from (S i) fs' ils impl')%list
  | [], [] => []
  | _, _ => [i]
  end.
Definition fast_check_fields (fs : list fieldspec) (text : string) (impl : list (option ires)) : list nat :=
  fast_check_fields_from 0 fs (map index_line (readlines text)) impl.

(* the whole-constructor check with the indexed field search *)
Definition check_report_fast : client_tables -> string -> bool -> impl_report -> list nat :=
  check_report_with fast_check_fields.

(* how the harness writes a report line: runs of blanks as a number (the literal is half as long) *)
Fixpoint unpack (segs : list (nat * string)) : string :=
  match segs with [] => "" | (n, s) :: r => spaces n ++ s ++ unpack r end.
