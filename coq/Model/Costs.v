(* Model/Costs.v - executable model of the capital-cost and O&M roll-up of Economics.Calculate
   (Economics.py: well field, stimulation, gathering, exploration, piping, CCap with ITC / fees / incentives / grants,
   O&M components, redrilling amortisation, annual fees and tax relief).  Cost *correlations* that use log or
   fractional powers (surface plant, pumps, labour) enter as inputs; every override switch is modelled.
   Definitions only. *)
From Coq Require Import QArith Qabs Qminmax List ZArith Bool.
From Verif Require Import Base.Flat.
Import ListNotations.
Open Scope Q_scope.

Record cost_in := {
  (* wells *)
  k_ppwc_valid : bool; k_ppwc : Q;               (* Well Drilling and Completion Capital Cost (per production well) *)
  k_piwc_provided : bool; k_piwc : Q;            (* Injection Well Drilling and Completion Capital Cost *)
  k_nprod : Q; k_ninj : Q;
  k_c1p_corr : Q; k_c1i_corr : Q;                (* per-well costs from the drilling-cost correlation (already adjusted) *)
  k_lateral : Q;                                 (* cost of the non-vertical sections *)
  k_sbt : bool; k_junction : Q;                  (* SBTEconomics: 1.05 is inside the per-well costs; cost to the junction is added *)
  (* stimulation, gathering, plant, exploration, piping, district network *)
  k_stim_valid : bool; k_stim_fixed : Q; k_stim_adj : Q;
  k_gath_valid : bool; k_gath_fixed : Q; k_gath_adj : Q; k_cpumps : Q;
  k_plant_valid : bool; k_plant_fixed : Q; k_plant_corr : Q;
  k_expl_valid : bool; k_expl_fixed : Q; k_expl_adj : Q;
  k_piping_len : Q;
  k_dh : Q;
  (* totals and adjustments *)
  k_total_valid : bool; k_total_fixed : Q;
  k_ritc_provided : bool; k_ritc : Q; k_flat : Q; k_other : Q; k_grant : Q;
  (* O&M *)
  k_oam_total_valid : bool; k_oam_total : Q;
  k_oamplant_valid : bool; k_oamplant_fixed : Q; k_oamplant_adj : Q; k_labor : Q;
  k_oamwell_valid : bool; k_oamwell_fixed : Q; k_oamwell_adj : Q;
  k_oamwater_valid : bool; k_oamwater_fixed : Q; k_oamwater_adj : Q; k_flow : Q; k_waterloss : Q; k_util : Q;
  k_is_chiller : bool; k_chillercapex : Q; k_chilleropex_provided : bool; k_chilleropex_in : Q;
  k_dh_oam : Q;
  k_redrill : Q; k_life : Q; k_annual_fee : Q; k_taxrelief : Q }.

Definition q105 : Q := 105 # 100.
Definition q115 : Q := 115 # 100.
Definition q112 : Q := 112 # 100.
Definition q125 : Q := 125 # 100.

(* per-well costs actually used *)
Definition c1p (k : cost_in) : Q := if k_ppwc_valid k then k_ppwc k else k_c1p_corr k.
Definition c1i (k : cost_in) : Q :=
  if k_ppwc_valid k then (if k_piwc_provided k then k_piwc k else k_ppwc k) else k_c1i_corr k.
Definition wells_sum (k : cost_in) : Q := c1p k * k_nprod k + c1i k * k_ninj k.
(* well field: a user-supplied per-well cost is used verbatim; otherwise laterals are added and 5 % indirect costs *)
Definition cwell (k : cost_in) : Q :=
  if k_ppwc_valid k then wells_sum k
  else if k_sbt k then wells_sum k + k_lateral k + k_junction k
  else q105 * (wells_sum k + k_lateral k).

Definition cstim (k : cost_in) : Q :=
  if k_stim_valid k then k_stim_fixed k else q105 * q115 * k_stim_adj k * k_ninj k * q125.
Definition cgath (k : cost_in) : Q :=
  if k_gath_valid k then k_gath_fixed k
  else q115 * k_gath_adj k * q112 * ((k_nprod k + k_ninj k) * 750 * 500 + k_cpumps k) / 1000000.
Definition cplant (k : cost_in) : Q := if k_plant_valid k then k_plant_fixed k else k_plant_corr k.
Definition cexpl (k : cost_in) : Q :=
  if k_expl_valid k then k_expl_fixed k else q115 * k_expl_adj k * q112 * (1 + c1p k * (6 # 10)).
Definition cpiping (k : cost_in) : Q := (750 # 1000) * k_piping_len k.

Definition components_sum (k : cost_in) : Q :=
  cexpl k + cwell k + cstim k + cgath k + cplant k + cpiping k + k_dh k.
Definition ccap_pre (k : cost_in) : Q := if k_total_valid k then k_total_fixed k else components_sum k.
Definition ritc_value (k : cost_in) : Q := if k_ritc_provided k then k_ritc k * ccap_pre k else 0.
Definition ccap (k : cost_in) : Q := ccap_pre k - ritc_value k + k_flat k - k_other k - k_grant k.

(* O&M *)
Definition chilleropex (k : cost_in) : Q :=
  if k_is_chiller k then (if k_chilleropex_provided k then k_chilleropex_in k else k_chillercapex k * 2 / 100) else 0.
Definition coamplant (k : cost_in) : Q :=
  if k_oamplant_valid k then k_oamplant_fixed k
  else k_oamplant_adj k * ((15 # 1000) * (cplant k - (if k_is_chiller k then k_chillercapex k else 0)) + (75 # 100) * k_labor k).
Definition coamwell (k : cost_in) : Q :=
  if k_oamwell_valid k then k_oamwell_fixed k
  else k_oamwell_adj k * ((1 # 100) * (cwell k + cgath k) + (25 # 100) * k_labor k).
Definition coamwater (k : cost_in) : Q :=
  if k_oamwater_valid k then k_oamwater_fixed k
  else k_oamwater_adj k * (k_nprod k * k_flow k * k_waterloss k * k_util k * 365 * 24 * 3600 / 1000000 * 925 / 1000000).
Definition oam_components_sum (k : cost_in) : Q :=
  coamwell k + coamplant k + coamwater k + chilleropex k + k_dh_oam k.
Definition coam_pre (k : cost_in) : Q := if k_oam_total_valid k then k_oam_total k else oam_components_sum k.
Definition redrill_amortised (k : cost_in) : Q :=
  if Qltb 0 (k_redrill k) then (cwell k + cstim k) * k_redrill k / k_life k else 0.
Definition coam (k : cost_in) : Q := coam_pre k + redrill_amortised k + k_annual_fee k - k_taxrelief k.

(* ---------------------------------------------------------------------------------------------
   Correspondence: the reported components and totals of a run against the model               *)
Record cost_out := {
  o_c1p : Q; o_c1i : Q; o_cwell : Q; o_cstim : Q; o_cgath : Q; o_cplant : Q; o_cexpl : Q; o_cpiping : Q;
  o_ritcvalue : Q; o_ccap : Q;
  o_coamplant : Q; o_coamwell : Q; o_coamwater : Q; o_chilleropex : Q; o_coam : Q }.

Definition costs_agree (tol : Q) (k : cost_in) (o : cost_out) : bool :=
  let sc := Qmax 1 (Qabs (ccap_pre k)) in
  close tol (c1p k) (o_c1p o) &&
  (if Qeq_bool (k_ninj k) 0 then true else close tol (c1i k) (o_c1i o)) &&
  close tol (cwell k) (o_cwell o) && close tol (cstim k) (o_cstim o) && close tol (cgath k) (o_cgath o) &&
  close tol (cplant k) (o_cplant o) &&
  (if k_total_valid k then true else close tol (cexpl k) (o_cexpl o) && close tol (cpiping k) (o_cpiping o)) &&
  close_scale tol sc (ritc_value k) (o_ritcvalue o) && close_scale tol sc (ccap k) (o_ccap o) &&
  (if k_oam_total_valid k then true
   else close tol (coamplant k) (o_coamplant o) && close tol (coamwell k) (o_coamwell o) &&
        close tol (coamwater k) (o_coamwater o) && close tol (chilleropex k) (o_chilleropex o)) &&
  close_scale tol (Qmax 1 (Qabs (coam_pre k))) (coam k) (o_coam o).

(* ---- drilled length by configuration (WellBores.calculate_total_drilling_lengths_m; EavorLoop uses sin: not modelled) *)
Inductive wconfig := CfgULoop | CfgCoaxial | CfgVertical | CfgL.
(* (total, vertical, lateral, to-junction) in metres *)
Definition drilling_lengths (cfg : wconfig) (nsec nonvert_km in_km out_km nprod ninj : Q) : list Q :=
  let vert := match cfg with
              | CfgULoop => nprod * in_km * 1000 + ninj * out_km * 1000
              | _ => (nprod + ninj) * in_km * 1000
              end in
  let lat := match cfg with CfgVertical => 0 | _ => nsec * nonvert_km * 1000 end in
  [vert + lat + 0; vert; lat; 0].

(* ---- per-well drilling cost (Economics.calculate_cost_of_one_vertical_well) over a quadratic correlation table ---- *)
(* coefficients (c2, c1, c0) of cost_MUSD(depth) = (c2*d^2 + c1*d + c0) * 1e-6 (table: Gen/WellCost.v) *)
Definition quad_cost (coef : Q * Q * Q) (d : Q) : Q := let '(c2, c1, c0) := coef in (c2 * d * d + c1 * d + c0) / 1000000.
Definition one_vertical_well (simple : bool) (coef : Q * Q * Q) (depth_m per_m adj : Q) : Q :=
  let use_simple := simple || Qltb depth_m 500 in
  adj * (if use_simple then per_m * depth_m / 1000000 else quad_cost coef depth_m).

(* ---- non-vertical (lateral) sections (Economics.calculate_cost_of_non_vertical_section) ----
   a vertical configuration has none; priced per metre when a per-metre figure is supplied, the SIMPLE correlation is chosen
   or a section is shorter than 500 m, by the correlation per section otherwise; uncased sections cost half *)
Definition lateral_cost (vertical_cfg per_m_provided simple cased : bool) (coef : Q * Q * Q) (nsec length_m per_m adj : Q) : Q :=
  if vertical_cfg then 0 else
  let lps := length_m / nsec in
  let per_metre := per_m_provided || simple || Qltb lps 500 in
  let casing := if cased then 1 else 1 # 2 in
  adj * (if per_metre then casing * (nsec * per_m * lps) / 1000000 else casing * nsec * quad_cost coef lps).

(* ---- district-heating network cost (Economics.Calculate, plant type district heating): four ways to obtain it ---- *)
Record dh_in := {
  d_total_provided : bool; d_total : Q;            (* Total District Heating Network Cost *)
  d_piping_provided : bool; d_piping_len : Q;      (* District Heating Network Piping Length [km] *)
  d_road_provided : bool; d_road_len : Q;          (* District Heating Road Length [km] *)
  d_area : Q;                                      (* District Heating Land Area [km2] *)
  d_pop_provided : bool; d_pop : Q;                (* District Heating Population *)
  d_units_provided : bool; d_units : Q;            (* number of housing units (2.6 people each) *)
  d_rate : Q }.                                    (* piping cost rate [$/m] *)

Definition dh_density (d : dh_in) : Q :=
  if d_pop_provided d then d_pop d / d_area d
  else if d_units_provided d then d_units d * (26 # 10) / d_area d
  else d_pop d / d_area d.
(* 7.5 km of pipe per km2 above 1000 people/km2, scaled with density below, never less than 1 km per km2 *)
Definition dh_length_from_density (d : dh_in) : Q :=
  let rho := dh_density d in
  if Qltb 1000 rho then (75 # 10) * d_area d else Qmax (rho / 1000 * (75 # 10) * d_area d) (d_area d).
Definition dh_network_cost (d : dh_in) : Q :=
  if d_total_provided d then d_total d
  else if d_piping_provided d then d_piping_len d * d_rate d / 1000
  else if d_road_provided d then d_road_len d * (75 # 100) * d_rate d / 1000
  else d_rate d * dh_length_from_density d / 1000.
(* district O&M when not supplied: 1 % of the network cost + 2 % of the heat demand priced at the electricity rate *)
Definition dh_oam (provided : bool) (supplied network_cost demand_sum elec_rate : Q) : Q :=
  if provided then supplied else (1 # 100) * network_cost + (2 # 100) * demand_sum * elec_rate / 1000.

(* ---- surface-plant capital cost (Economics.Calculate, "plant costs"): the power-plant cost CORRELATION (fractional
   powers, logs) enters as the value the run computed; everything around it is modelled ---- *)
Inductive pkind := PHeat | PChiller | PHeatPump | PDistrict | PPower.
Record plant_in := {
  p_kind : pkind; p_cogen : bool;                    (* PPower with a cogeneration end-use adds the direct-use part *)
  p_fixed_valid : bool; p_fixed : Q; p_adj : Q;      (* Surface Plant Capital Cost / its Adjustment Factor *)
  p_max_he : Q;                                      (* max(HeatExtracted) [MW] *)
  p_eq_provided : bool; p_eq_in : Q;                 (* user-supplied chiller / heat-pump capital cost *)
  p_max_eq : Q;                                      (* max(cooling_produced) resp. max(HeatProduced) [MW] *)
  p_max_peaking : Q;                                 (* district heating: max peaking boiler demand [MW] *)
  p_corr : Q;                                        (* Cplantcorrelation [M$] *)
  p_max_hp_over_eff : Q;                             (* cogeneration: max(HeatProduced / end-use efficiency) [MW] *)
  p_ratio_provided : bool; p_ratio_in : Q }.         (* CHP Electrical Plant Cost Allocation Ratio *)

Definition q1288 : Q := q112 * q115.                 (* 12 % indirect costs, 15 % contingency *)
(* $250/kWth direct-use equipment: 1.12*1.15*adj*250E-6*MW*1000 *)
Definition direct_use_cost (adj mw : Q) : Q := q1288 * adj * (250 # 1000000) * mw * 1000.
Definition equipment_cost (p : plant_in) : Q :=
  match p_kind p with
  | PChiller => if p_eq_provided p then p_eq_in p else q1288 * p_max_eq p * 1000 / (3517 # 1000) * 2500 / 1000000
  | PHeatPump => if p_eq_provided p then p_eq_in p else q1288 * p_max_eq p * 1000 * 150 / 1000000
  | PDistrict => 65 * p_max_peaking p / 1000
  | _ => 0
  end.
Definition capex_elec_plant (p : plant_in) : Q :=
  match p_kind p with
  | PPower => if p_fixed_valid p then p_fixed p * p_ratio_in p else q1288 * p_adj p * p_corr p * (102 # 100) * (110 # 100)
  | _ => 0
  end.
Definition capex_heat_plant (p : plant_in) : Q :=
  match p_kind p with
  | PPower => if p_fixed_valid p then p_fixed p * (1 - p_ratio_in p)
              else if p_cogen p then direct_use_cost (p_adj p) (p_max_hp_over_eff p) else 0
  | _ => 0
  end.
Definition plant_cost (p : plant_in) : Q :=
  if p_fixed_valid p then p_fixed p
  else match p_kind p with
       | PPower => capex_elec_plant p + capex_heat_plant p
       | _ => direct_use_cost (p_adj p) (p_max_he p) + equipment_cost p
       end.
Definition plant_ratio (p : plant_in) : Q :=
  if p_fixed_valid p || p_ratio_provided p then p_ratio_in p else capex_elec_plant p / plant_cost p.

Definition plant_agree (tol : Q) (p : plant_in) (iCplant iEq iElec iHeat iRatio : Q) : bool :=
  close tol (plant_cost p) iCplant &&
  (if p_fixed_valid p then true else close tol (equipment_cost p) iEq) &&
  match p_kind p with
  | PPower => close tol (capex_elec_plant p) iElec && close tol (capex_heat_plant p) iHeat &&
              (Qeq_bool (plant_cost p) 0 || close_scale tol 1 (plant_ratio p) iRatio)
  | _ => true
  end.
