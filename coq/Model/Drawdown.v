(* Model/Drawdown.v - executable model of the reservoir temperature histories of the built-in analytical
   reservoir models: TDPReservoir.Calculate (4, linear), SFReservoir.Calculate (3, erf), and the affine
   post-processing of MPFReservoir (1) and LHSReservoir (2) whose Laplace inversions are inputs; followed by
   production temperature = reservoir temperature - wellbore drop and the redrilling step (Model/Redrill.v).
   erf and sqrt are Section variables (library functions, not modelled); for execution the library's own
   values are passed in as data.  Definitions only; proofs in Proofs/DrawdownProofs.v. *)
From Coq Require Import QArith Qabs Qminmax List ZArith Bool PeanoNat.
From Verif Require Import Base.Flat Model.Redrill.
Import ListNotations.
Open Scope Q_scope.

Definition secs_per_year : Q := 365 * 24 * 3600.

(* np.linspace(0, L, n) *)
Definition timevector (L : Q) (n : nat) : list Q :=
  match n with
  | 1%nat => [0]
  | _ => map (fun i => natQ i * (L / natQ (n - 1))) (seq 0 n)
  end.

(* model 4: Tres = (1 - drawdp*t)*(Trock - Tinj) + Tinj *)
Definition tdp_T (Trock Tinj dd t : Q) : Q := (1 - dd * t) * (Trock - Tinj) + Tinj.
Definition tdp_series (Trock Tinj dd : Q) (ts : list Q) : list Q := map (tdp_T Trock Tinj dd) ts.

(* model 3: Tres[0] = Trock; Tres[i] = erf(1/drawdp/cpwater*sqrt(krock*rhorock*cprock/t_i/(365*24*3600)))*(Trock-Tinj)+Tinj *)
Section SingleFracture.
  Variables erf sqrt : Q -> Q.
  Definition sf_arg (dd cpw K t : Q) : Q := 1 / dd / cpw * sqrt (K / t / secs_per_year).
  Definition sf_T (Trock Tinj dd cpw K t : Q) : Q := erf (sf_arg dd cpw K t) * (Trock - Tinj) + Tinj.
  Definition sf_series (Trock Tinj dd cpw K : Q) (ts : list Q) : list Q :=
    match ts with [] => [] | _ :: r => Trock :: map (sf_T Trock Tinj dd cpw K) r end.
End SingleFracture.

(* the same series from the library's erf values *)
Definition sf_series_data (Trock Tinj : Q) (es : list Q) : list Q :=
  Trock :: map (fun e => e * (Trock - Tinj) + Tinj) es.
(* square of the erf argument: rational *)
Definition sf_argsq (dd cpw K t : Q) : Q := (1 / dd / cpw) * (1 / dd / cpw) * (K / t / secs_per_year).

(* model 1: Tres = Trock :: (Trock - Twnd*(Trock - Tinj)) *)
Definition mpf_series (Trock Tinj : Q) (tw : list Q) : list Q :=
  Trock :: map (fun w => Trock - w * (Trock - Tinj)) tw.
(* model 2: Tres = Trock :: (Twnd*(Trock - Tinj) + Tinj), "nonsensical" values replaced by Trock *)
Definition lhs_clamp (Trock Tinj x : Q) : Q := if Qltb Trock x || Qltb x Tinj then Trock else x.
Definition lhs_series (Trock Tinj : Q) (tw : list Q) : list Q :=
  map (lhs_clamp Trock Tinj) (Trock :: map (fun w => w * (Trock - Tinj) + Tinj) tw).

(* ProducedTemperature = Tresoutput - ProdTempDrop (element-wise; a scalar drop is a constant list) *)
Fixpoint minus_lists (a b : list Q) : list Q :=
  match a, b with x :: a', y :: b' => (x - y) :: minus_lists a' b' | _, _ => [] end.

Definition finish (T drops : list Q) (maxdd : Q) : redrilled := redrill (minus_lists T drops) T maxdd.
(* the same on an object whose redrill count was left at [prev] by an earlier call *)
Definition finish_call (prev : nat) (T drops : list Q) (maxdd : Q) : redrilled := redrill_call prev (minus_lists T drops) T maxdd.

(* sampled hypotheses on the library's erf: values in [0,1], ordered like their (non-negative) arguments *)
Fixpoint erf_samples_ok (args es : list Q) : bool :=
  match args, es with
  | a :: ar, e :: er =>
      Qleb 0 a && Qleb 0 e && Qleb e 1 &&
      match ar, er with
      | a' :: _, e' :: _ => (if Qleb a' a then Qleb e' (e + (1 # 1000000000000000)) else true) &&
                            (if Qleb a a' then Qleb e (e' + (1 # 1000000000000000)) else true)
      | _, _ => true
      end && erf_samples_ok ar er
  | [], [] => true
  | _, _ => false
  end.

(* flat: [m; Trock; Tinj; dd; maxdd; L; n; cpw; k; rho; cpr; prev; nd] ++ drops (nd = 1: scalar drop, else n values)
         ++ (m = 3: erf arguments (n-1) ++ erf values (n-1))
   ->  Tresoutput ++ ProducedTemperature ++ [redrill]
       ++ (m = 3: argument^2 / model argument^2 (n-1) ++ [erf samples ok]) *)
Definition run_drawdown (a : list Q) : res :=
  match a with
  | m :: Trock :: Tinj :: dd :: maxdd :: L :: n :: cpw :: k :: rho :: cpr :: prev :: nd :: rest =>
      let n := qnat n in
      let nd := qnat nd in
      let ts := timevector L n in
      let drops := if Nat.eqb nd 1 then repeat (hd 0 rest) n else firstn nd rest in
      let extra := skipn nd rest in
      let out (T : list Q) (tail : list Q) :=
        let rd := finish_call (qnat prev) T drops maxdd in Vals (rd_T rd ++ rd_P rd ++ [natQ (rd_count rd)] ++ tail) in
      if Nat.eqb n 0 || negb (Nat.eqb (length drops) n) then Err E_ARGS
      else if Qeqb m 4 then
        if Nat.eqb (length extra) 0 then out (tdp_series Trock Tinj dd ts) [] else Err E_ARGS
      else if Qeqb m 3 then
        if negb (Nat.eqb (length extra) (2 * (n - 1))) then Err E_ARGS
        else if (Qeqb dd 0 || Qeqb cpw 0) && negb (Nat.eqb n 1) then Err E_ZERODIV
        else
          let args := firstn (n - 1) extra in
          let es := skipn (n - 1) extra in
          let K := k * rho * cpr in
          out (sf_series_data Trock Tinj es)
              (map (fun p => (fst p * fst p) / sf_argsq dd cpw K (snd p)) (combine args (tl ts))
               ++ [boolQ (erf_samples_ok args es)])
      else Err E_ARGS
  | _ => Err E_ARGS
  end.

(* flat: [L; n] -> timevector *)
Definition run_timevector (a : list Q) : res :=
  match a with [L; n] => Vals (timevector L (qnat n)) | _ => Err E_ARGS end.
