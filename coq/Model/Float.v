(* Model/Float.v - executable model of the float arithmetic inside the printed expressions of the report
   writers, so that derived figures (ratios, sums, percentages, averages) are computed by Coq from the snapshot
   quantities.  A double is m * 2^e (m, e integers); + - * / produce the exact result and round it to 53 significant
   bits, ties to even (IEEE-754 binary64, normal range).  On top: Python's builtin sum (left to right from 0), numpy's
   pairwise summation (np.sum / np.average / np.mean of a contiguous float64 array, numpy 1.26: 8 interleaved
   accumulators up to 128 elements, halves above), np.max / np.min, element access, array * scalar, array / scalar.
   Outside the modelled regime (nan, inf, -0.0, a zero result that would be -0.0, division by zero, subnormal or
   overflowing results) an operation returns None and the harness falls back to the value it computed itself.
   Executable definitions only; lemmas are in Proofs/FloatProofs.v. *)
From Coq Require Import String Ascii QArith ZArith List Bool.
From Verif Require Import Model.Fmt.
Import ListNotations.
Local Open Scope Z_scope.

(* m * 2^e, m = 0 being +0.0;  FBad: nan / inf / -0.0 / an entry nobody may read *)
Inductive fl : Type := FD (m e : Z) | FBad.

Definition fl_fval (x : fl) : fval :=
  match x with
  | FD m e => if e <? 0 then Fin (Qmake m (Z.to_pos (2 ^ (- e)))) else Fin (inject_Z (m * 2 ^ e))
  | FBad => NaN
  end.

(* round the integer m (scaled by 2^e) to 53 significant bits, ties to even: (m', e') with m' * 2^e' the nearest double *)
Definition round53 (m e : Z) : Z * Z :=
  let a := Z.abs m in
  let L := Z.log2 a in
  if L <=? 52 then (m, e)
  else let d := L - 52 in
       let q := Z.shiftr a d in
       let r := a - Z.shiftl q d in
       let h := Z.shiftl 1 (d - 1) in
       let q' := match r ?= h with
                 | Lt => q
                 | Gt => q + 1
                 | Eq => if Z.even q then q else q + 1
                 end in
       ((if m <? 0 then - q' else q'), e + d).

(* the double the exact value m * 2^e rounds to, if it is a normal number *)
Definition mk (m e : Z) : option fl :=
  if m =? 0 then Some (FD 0 0)
  else let '(m', e') := round53 m e in
       let E := Z.log2 (Z.abs m') + e' in
       if (-1022 <=? E) && (E <? 1024) then Some (FD m' e') else None.

Definition fadd (a b : fl) : option fl :=
  match a, b with
  | FD mx ex, FD my ey => let e0 := Z.min ex ey in mk (Z.shiftl mx (ex - e0) + Z.shiftl my (ey - e0)) e0
  | _, _ => None
  end.
Definition fsub (a b : fl) : option fl :=
  match a, b with
  | FD mx ex, FD my ey => let e0 := Z.min ex ey in mk (Z.shiftl mx (ex - e0) - Z.shiftl my (ey - e0)) e0
  | _, _ => None
  end.
(* a zero product / quotient with a negative operand is -0.0: outside the model *)
Definition fmul (a b : fl) : option fl :=
  match a, b with
  | FD mx ex, FD my ey => if (mx * my =? 0) && ((mx <? 0) || (my <? 0)) then None else mk (mx * my) (ex + ey)
  | _, _ => None
  end.
(* quotient with at least 55 bits and a sticky bit for the remainder, then rounded once *)
Definition fdiv (a b : fl) : option fl :=
  match a, b with
  | FD mx ex, FD my ey =>
      if my =? 0 then None
      else if mx =? 0 then (if my <? 0 then None else Some (FD 0 0))
      else let s := Z.max 0 (55 + Z.log2 (Z.abs my) - Z.log2 (Z.abs mx)) in
           let num := Z.shiftl (Z.abs mx) s in
           let q := num / Z.abs my in
           let sticky := if num mod Z.abs my =? 0 then 0 else 1 in
           let v := 2 * q + sticky in
           mk (if Bool.eqb (mx <? 0) (my <? 0) then v else - v) (ex - ey - s - 1)
  | _, _ => None
  end.
Definition fneg (a : fl) : option fl :=
  match a with FD m e => if m =? 0 then None else Some (FD (- m) e) | FBad => None end.

(* x <= y on values *)
Definition fle (x y : fl) : option bool :=
  match x, y with
  | FD mx ex, FD my ey => let e0 := Z.min ex ey in Some (Z.shiftl mx (ex - e0) <=? Z.shiftl my (ey - e0))
  | _, _ => None
  end.

Definition bind2 (f : fl -> fl -> option fl) (a b : option fl) : option fl :=
  match a, b with Some x, Some y => f x y | _, _ => None end.

(* res = acc; for x in l: res += x *)
Fixpoint seq_sum (acc : fl) (l : list fl) : option fl :=
  match l with
  | [] => Some acc
  | x :: r => match fadd acc x with Some s => seq_sum s r | None => None end
  end.

Fixpoint add_lists (r blk : list fl) : option (list fl) :=
  match r, blk with
  | [], [] => Some []
  | x :: r', y :: b' => match fadd x y, add_lists r' b' with Some s, Some t => Some (s :: t) | _, _ => None end
  | _, _ => None
  end.

(* r[j] += a[i+j] for [nb] further blocks of 8; returns the accumulators and the unread tail *)
Fixpoint blocks8 (nb : nat) (r l : list fl) : option (list fl * list fl) :=
  match nb with
  | O => Some (r, l)
  | S k => match add_lists r (firstn 8 l) with Some r' => blocks8 k r' (skipn 8 l) | None => None end
  end.

(* 8 <= n <= 128 *)
Definition pw_block (l : list fl) : option fl :=
  let n := length l in
  match blocks8 ((n - Nat.modulo n 8) / 8 - 1) (firstn 8 l) (skipn 8 l) with
  | Some ([r0; r1; r2; r3; r4; r5; r6; r7], tail) =>
      match bind2 fadd (bind2 fadd (fadd r0 r1) (fadd r2 r3)) (bind2 fadd (fadd r4 r5) (fadd r6 r7)) with
      | Some res => seq_sum res tail
      | None => None
      end
  | _ => None
  end.

(* numpy's pairwise sum of a contiguous float64 array *)
Fixpoint pw_sum (fuel : nat) (l : list fl) : option fl :=
  let n := length l in
  if (n <? 8)%nat then seq_sum (FD 0 0) l
  else if (n <=? 128)%nat then pw_block l
  else match fuel with
       | O => None
       | S f => let n2 := (n / 2 - Nat.modulo (n / 2) 8)%nat in
                bind2 fadd (pw_sum f (firstn n2 l)) (pw_sum f (skipn n2 l))
       end.
Definition np_sum (l : list fl) : option fl := pw_sum (length l) l.
Definition np_average (l : list fl) : option fl :=
  match l with
  | [] => None
  | _ => match np_sum l with Some s => fdiv s (FD (Z.of_nat (length l)) 0) | None => None end
  end.

(* keep [best] while [keep best x] *)
Fixpoint extreme (keep : fl -> fl -> option bool) (best : fl) (l : list fl) : option fl :=
  match l with
  | [] => Some best
  | x :: r => match keep best x with
              | Some true => extreme keep best r
              | Some false => extreme keep x r
              | None => None
              end
  end.
Definition np_max (l : list fl) : option fl :=
  match l with FD m e :: r => extreme (fun b x => fle x b) (FD m e) r | _ => None end.
Definition np_min (l : list fl) : option fl :=
  match l with FD m e :: r => extreme (fun b x => fle b x) (FD m e) r | _ => None end.

(* ---------- expressions ---------- *)
Inductive sexpr : Type :=
| SLeaf (v : fl)                   (* a snapshot scalar or a literal of the writer *)
| SAdd (a b : sexpr) | SSub (a b : sexpr) | SMul (a b : sexpr) | SDiv (a b : sexpr)
| SNeg (a : sexpr)
| SAvg (a : aexpr) | SSum (a : aexpr) | SPySum (a : aexpr)      (* np.average/np.mean, np.sum, builtin sum *)
| SMax (a : aexpr) | SMin (a : aexpr)
| SIdx (a : aexpr) (i : nat)       (* a[i], constant i *)
| SRow (a : aexpr)                 (* a[index of the current table row] *)
with aexpr : Type :=
| ALeaf (l : list fl)              (* a snapshot series *)
| AMulS (a : aexpr) (s : sexpr)    (* array * scalar *)
| ADivS (a : aexpr) (s : sexpr).   (* array / scalar *)

Fixpoint mapo {A B : Type} (f : A -> option B) (l : list A) : option (list B) :=
  match l with
  | [] => Some []
  | x :: r => match f x, mapo f r with Some y, Some ys => Some (y :: ys) | _, _ => None end
  end.

Definition not_bad (x : fl) : option fl := match x with FD _ _ => Some x | FBad => None end.

(* [row]: index of the current table row, if any *)
Fixpoint seval (row : option nat) (e : sexpr) {struct e} : option fl :=
  match e with
  | SLeaf v => not_bad v
  | SAdd a b => bind2 fadd (seval row a) (seval row b)
  | SSub a b => bind2 fsub (seval row a) (seval row b)
  | SMul a b => bind2 fmul (seval row a) (seval row b)
  | SDiv a b => bind2 fdiv (seval row a) (seval row b)
  | SNeg a => match seval row a with Some v => fneg v | None => None end
  | SAvg a => match alist row a with Some l => np_average l | None => None end
  | SSum a => match alist row a with Some l => np_sum l | None => None end
  | SPySum a => match alist row a with Some l => seq_sum (FD 0 0) l | None => None end
  | SMax a => match alist row a with Some l => np_max l | None => None end
  | SMin a => match alist row a with Some l => np_min l | None => None end
  | SIdx a i => aget row a i
  | SRow a => match row with Some i => aget row a i | None => None end
  end
(* one element, computing nothing else *)
with aget (row : option nat) (a : aexpr) (i : nat) {struct a} : option fl :=
  match a with
  | ALeaf l => match nth_error l i with Some x => not_bad x | None => None end
  | AMulS a' s => bind2 fmul (aget row a' i) (seval row s)
  | ADivS a' s => bind2 fdiv (aget row a' i) (seval row s)
  end
(* the whole array (for reductions) *)
with alist (row : option nat) (a : aexpr) {struct a} : option (list fl) :=
  match a with
  | ALeaf l => Some l
  | AMulS a' s => match alist row a', seval row s with
                  | Some l, Some v => mapo (fun x => fmul x v) l
                  | _, _ => None
                  end
  | ADivS a' s => match alist row a', seval row s with
                  | Some l, Some v => mapo (fun x => fdiv x v) l
                  | _, _ => None
                  end
  end.

(* comparison used by the correspondence: the model's result is exactly this double *)
Definition fl_eqb (x y : fl) : bool :=
  match fle x y, fle y x with Some true, Some true => true | _, _ => false end.
Definition opt_is (o : option fl) (v : fl) : bool :=
  match o with Some x => fl_eqb x v | None => false end.
