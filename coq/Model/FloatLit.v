(* Model/FloatLit.v - cheap literals for the correspondence shards only.  NOT in the dependency cone of Props/C09.v
   (Coq's Uint63 library states its specifications as axioms): no theorem mentions these definitions; tools/props/C09.py
   builds this file itself before it evaluates shards.
   a double as two primitive 63-bit integers, mantissa and exponent + 2048.  Primitive-integer numerals are read
   natively, about five times faster than Z numerals; thousands of series entries are read per run. *)
From Coq Require Import ZArith.
From Coq Require Export Uint63.    (* so that the shards importing this file read the numerals below as primitive integers *)
From Verif Require Import Model.Fmt Model.Float.

Definition fdp (m e : int) : fl := FD (Uint63.to_Z m) (Uint63.to_Z e - 2048).      (* +m * 2^(e-2048) *)
Definition fdm (m e : int) : fl := FD (- Uint63.to_Z m) (Uint63.to_Z e - 2048).    (* -m * 2^(e-2048) *)
Definition vp (m e : int) : fval := fl_fval (fdp m e).
Definition vm (m e : int) : fval := fl_fval (fdm m e).
Arguments fdp (m e)%uint63_scope.
Arguments fdm (m e)%uint63_scope.
Arguments vp (m e)%uint63_scope.
Arguments vm (m e)%uint63_scope.
