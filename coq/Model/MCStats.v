(* Model/MCStats.v - the summary statistics of the Monte Carlo driver (np.nanmin / nanmax / nanmedian / average /
   nanmean / nanstd along axis 0 of the parsed rows), over exact rationals.  Definitions only, no proofs. *)
From Coq Require Import QArith Qabs Qminmax List.
From Verif Require Import Base.Flat.
Import ListNotations.
Open Scope Q_scope.

(* statistics of the non-empty sample x :: l *)
Fixpoint min_of (x : Q) (l : list Q) : Q := match l with [] => x | y :: r => Qmin x (min_of y r) end.
Fixpoint max_of (x : Q) (l : list Q) : Q := match l with [] => x | y :: r => Qmax x (max_of y r) end.

Definition lenQ (l : list Q) : Q := inject_Z (Z.of_nat (length l)).
Definition mean (l : list Q) : Q := sumQ l / lenQ l.
Definition sqdev (m v : Q) : Q := (v - m) * (v - m).
(* population variance (ddof = 0), as np.nanstd squares to *)
Definition variance (l : list Q) : Q := sumQ (map (sqdev (mean l)) l) / lenQ l.

(* median: sort canonical representatives, take the middle element or the mean of the two middle ones *)
Fixpoint insert (x : Q) (l : list Q) : list Q :=
  match l with
  | [] => [x]
  | y :: r => if Qle_bool x y then x :: l else y :: insert x r
  end.
Fixpoint isort (l : list Q) : list Q := match l with [] => [] | x :: r => insert x (isort r) end.
Definition sorted_red (l : list Q) : list Q := isort (map Qred l).
Definition median (l : list Q) : Q :=
  let s := sorted_red l in
  let n := length l in
  if Nat.even n then (nth (n / 2 - 1) s 0 + nth (n / 2) s 0) / 2 else nth (n / 2) s 0.

(* ---- what the harness evaluates (reduced sums: same values, small numerals) *)
Definition mean_x (l : list Q) : Q := Qred (sumQ_red l / lenQ l).
Definition variance_x (l : list Q) : Q := let m := mean_x l in Qred (sumQ_red (map (fun v => Qred (sqdev m v)) l) / lenQ l).

(* |a-b| <= tol * max(|a|,|b|) *)
Definition rel_close (tol a b : Q) : bool := Qle_bool (Qabs (a - b)) (tol * Qmax (Qabs a) (Qabs b)).

(* column j of the parsed rows *)
Definition column (j : nat) (rows : list (list Q)) : list Q := map (fun r => nth j r 0) rows.

(* one output column against the reported [minimum; maximum; median; average; mean; standard deviation].
   The squared standard deviation is compared with the variance relative to the scale of the data (a constant column
   has variance 0 exactly while numpy reports a standard deviation of the order of 1e-16 * |value|). *)
Definition stats_agree (tol : Q) (col : list Q) (reported : list Q) : bool :=
  match col, reported with
  | x :: l, [mn; mx; md; av; me; sd] =>
      let scale := Qmax (Qabs (min_of x l)) (Qabs (max_of x l)) in
      Qeq_bool (min_of x l) mn && Qeq_bool (max_of x l) mx && rel_close tol (median col) md
      && rel_close tol (mean_x col) av && rel_close tol (mean_x col) me
      && Qle_bool (Qabs (variance_x col - sd * sd)) (2 * tol * Qmax (Qmax (variance_x col) (sd * sd)) (scale * scale))
      && Qle_bool 0 sd
  | _, _ => false
  end.

(* text summary '{v:,.2f}' against the JSON value *)
Definition text_agrees (text json : Q) : bool := Qle_bool (Qabs (text - json)) (1 # 200).
