(* Model/Energy.v - executable model of the energy bookkeeping of the surface plants (C02):
   SurfacePlant.integrate_time_series_slice / electricity_heat_production / annual_electricity_pumping_power /
   remaining_reservoir_heat_content, the inline formulas of the heat-pump, absorption-chiller, industrial and
   district-heating plants, SurfacePlantDistrictHeating.calc_util_factor (with np.interp on its uniform grid) and the
   in-place adjustment of the annual figures by the add-on / S-DAC-GT economics.  Plus the reflective checkers that
   evaluate the balances on implementation data.  Executable definitions only - no proofs here. *)
From Coq Require Import QArith Qabs Qminmax Qround List ZArith Bool.
From Verif Require Import Base.Flat.
Import ListNotations.
Open Scope Q_scope.

Definition E_RUNTIME : Z := 5.     (* RuntimeError('Electricity production calculated as negative.') *)
Definition E_NONFINITE : Z := 6.   (* numpy produced nan/inf (division by a zero sum) *)

Inductive result (A : Type) : Type :=
| Ok (a : A)
| Fail (code : Z).
Arguments Ok {A} a.
Arguments Fail {A} code.

(* elementwise binary operation on two arrays (callers check the lengths: numpy raises on a shape mismatch) *)
Fixpoint map2 (f : Q -> Q -> Q) (a b : list Q) : list Q :=
  match a, b with
  | x :: a', y :: b' => f x y :: map2 f a' b'
  | _, _ => []
  end.

Definition same_len (a b : list Q) : bool := Nat.eqb (length a) (length b).

(* ------------------------------------------------------------------------------------------------ *)
(* heat extracted from the geofluid [MWth]:  nprod * prodwellflowrate * cpwater * (Tprod - Tinj) / 1E6 *)
Definition heat_of (n m cp : Q) (thot tcold : Q) : Q := n * m * cp * (thot - tcold) / 1000000.

Definition heat_extracted (n m cp tinj : Q) (tprod : list Q) : list Q :=
  map (fun t => heat_of n m cp t tinj) tprod.

(* ------------------------------------------------------------------------------------------------ *)
(* electricity_heat_production *)
Inductive enduse : Type := EU_ELEC | EU_HEAT | EU_TOP | EU_BOT | EU_PAR.

(* EndUseOptions.int_value -> branch taken by the code *)
Definition enduse_of_code (c : Z) : option enduse :=
  match c with
  | 1%Z => Some EU_ELEC
  | 2%Z => Some EU_HEAT
  | 31%Z | 32%Z => Some EU_TOP
  | 41%Z | 42%Z => Some EU_BOT
  | 51%Z | 52%Z => Some EU_PAR
  | _ => None
  end.

(* a numpy value that is either an array or a scalar (the bottoming branch yields a scalar) *)
Inductive arr : Type := Series (l : list Q) | Scalar (x : Q).
Definition arr_at (a : arr) (t : nat) : Q := match a with Series l => nth t l 0 | Scalar x => x end.
Definition arr_flat (a : arr) : list Q := match a with Series l => l | Scalar x => [x] end.

Record ehp_out : Type := mk_ehp { o_el : list Q; o_he : list Q; o_hp : list Q; o_hete : arr }.

Definition list_max (l : list Q) : option Q :=
  match l with [] => None | x :: r => Some (fold_left Qmax r x) end.

Definition ehp (eu : enduse) (avail etau : list Q) (n m cp : Q) (tprod : list Q) (tinj : Q) (reinj : list Q)
           (tchp eff chpf : Q) : result ehp_out :=
  if negb (same_len avail etau) then Fail E_VALUE else
  let he := heat_extracted n m cp tinj tprod in
  let el0 := map2 (fun a e => a * e * n * m) avail etau in
  match list_max el0 with
  | None => Fail E_VALUE                       (* .max() of an empty array *)
  | Some mx =>
      if Qltb mx 0 then Fail E_RUNTIME else
      match eu with
      | EU_ELEC => Ok (mk_ehp el0 he [] (Series he))
      | EU_HEAT => Ok (mk_ehp el0 he [] (Series []))
      | EU_TOP =>
          if negb (same_len tprod reinj) then Fail E_VALUE else
          Ok (mk_ehp el0 he
                (map (fun r => eff * n * m * cp * (r - tinj) / 1000000) reinj)
                (Series (map2 (fun t r => heat_of n m cp t r) tprod reinj)))
      | EU_BOT =>
          Ok (mk_ehp el0 he
                (map (fun t => eff * n * m * cp * (t - tchp) / 1000000) tprod)
                (Scalar (heat_of n m cp tchp tinj)))
      | EU_PAR =>
          Ok (mk_ehp (map2 (fun a e => a * e * n * m * (1 - chpf)) avail etau) he
                (map (fun t => eff * chpf * n * m * cp * (t - tinj) / 1000000) tprod)
                (Series (map (fun t => (1 - chpf) * n * m * cp * (t - tinj) / 1000000) tprod)))
      end
  end.

(* ------------------------------------------------------------------------------------------------ *)
(* conversion-efficiency and reinjection-temperature correlations of the four power-plant types
   (SurfacePlant{SubcriticalORC,SupercriticalORC,SingleFlash,DoubleFlash}.Calculate + SurfacePlant.reinjection_temperature):
   two ambient-temperature brackets (< 15 degC, >= 15 degC), in each a lower-limit and an upper-limit quadratic in the
   plant entering temperature, blended linearly in the ambient temperature. *)
Inductive plant : Type := P_SUBORC | P_SUPORC | P_SFLASH | P_DFLASH.

(* PlantType.int_value -> plant *)
Definition plant_of_code (c : Z) : option plant :=
  match c with 1%Z => Some P_SUBORC | 2%Z => Some P_SUPORC | 3%Z => Some P_SFLASH | 4%Z => Some P_DFLASH | _ => None end.

Definition poly : Type := (Q * Q * Q)%type.                 (* (c2, c1, c0) *)
Definition poly2 (c : poly) (T : Q) : Q := let '(c2, c1, c0) := c in c2 * (T * T) + c1 * T + c0.

Record corr : Type := mk_corr { eta_ll : poly; eta_ul : poly; rj_ll : poly; rj_ul : poly }.

(* the coefficient tables as written in the four Calculate methods: (C21,C11,C01) (D21,D11,D01) (C22,C12,C02) (D22,D12,D02) *)
Definition coeffs (p : plant) (low : bool) : corr :=
  match p, low with
  | P_SUBORC, true  => mk_corr (0, 2746 # 1000000, - (83806 # 1000000)) (0, 2713 # 1000000, - (91841 # 1000000))
                               (0, 894 # 10000, 556 # 10) (0, 894 # 10000, 626 # 10)
  | P_SUBORC, false => mk_corr (0, 2713 # 1000000, - (91841 # 1000000)) (0, 2676 # 1000000, - (1012 # 10000))
                               (0, 894 # 10000, 626 # 10) (0, 894 # 10000, 696 # 10)
  | P_SUPORC, true  => mk_corr (- (155 # 10000000), 7604 # 1000000, - (378 # 1000))
                               (- (1499 # 100000000), 74268 # 10000000, - (37915 # 100000))
                               (0, 2 # 100, 4926 # 100) (0, 2 # 100, 5626 # 100)
  | P_SUPORC, false => mk_corr (- (1499 # 100000000), 74268 # 10000000, - (37915 # 100000))
                               (- (155 # 10000000), 755136 # 100000000, - (4041 # 10000))
                               (0, 2 # 100, 5626 # 100) (0, 2 # 100, 6326 # 100)
  | P_SFLASH, true  => mk_corr (- (427318 # 1000000000000), 865629 # 1000000000, 178931 # 1000000)
                               (- (585412 # 1000000000000), 968352 # 1000000000, 158056 # 1000000)
                               (- (111519 # 100000000), 779126 # 1000000, - (102242 # 10000))
                               (- (110232 # 100000000), 783893 # 1000000, - (517039 # 100000))
  | P_SFLASH, false => mk_corr (- (585412 # 1000000000000), 968352 # 1000000000, 158056 # 1000000)
                               (- (778996 # 1000000000000), 109230 # 100000000, 133708 # 1000000)
                               (- (110232 # 100000000), 783893 # 1000000, - (517039 # 100000))
                               (- (108914 # 100000000), 788562 # 1000000, - (189707 # 1000000))
  | P_DFLASH, true  => mk_corr (- (12 # 10000000), 122731 # 100000000, 226956 # 1000000)
                               (- (142165 # 100000000000), 13705 # 10000000, 199847 # 1000000)
                               (- (770928 # 1000000000), 502466 # 1000000, 522091 # 100000)
                               (- (769455 # 1000000000), 509406 # 1000000, 116859 # 10000)
  | P_DFLASH, false => mk_corr (- (142165 # 100000000000), 13705 # 10000000, 199847 # 1000000)
                               (- (166771 # 100000000000), 153079 # 100000000, 169439 # 1000000)
                               (- (769455 # 1000000000), 509406 # 1000000, 116859 # 10000)
                               (- (767751 # 1000000000), 516356 # 1000000, 180798 # 10000)
  end.

Definition is_low (amb : Q) : bool := Qltb amb 15.                     (* ambient_temperature < 15. *)
Definition tfraction (amb : Q) : Q := if is_low amb then (amb - 5) / 10 else (amb - 15) / 10.
Definition blend (tf ll ul : Q) : Q := (1 - tf) * ll + tf * ul.

(* the correlation of one bracket, evaluated at any ambient temperature (used to state continuity) *)
Definition etau_bracket (p : plant) (low : bool) (amb T : Q) : Q :=
  let c := coeffs p low in
  blend (if low then (amb - 5) / 10 else (amb - 15) / 10) (poly2 (eta_ll c) T) (poly2 (eta_ul c) T).
Definition reinj_bracket (p : plant) (low : bool) (amb T : Q) : Q :=
  let c := coeffs p low in
  blend (if low then (amb - 5) / 10 else (amb - 15) / 10) (poly2 (rj_ll c) T) (poly2 (rj_ul c) T).

Definition etau_at (p : plant) (amb T : Q) : Q :=
  let c := coeffs p (is_low amb) in blend (tfraction amb) (poly2 (eta_ll c) T) (poly2 (eta_ul c) T).
Definition reinj_at (p : plant) (amb T : Q) : Q :=
  let c := coeffs p (is_low amb) in blend (tfraction amb) (poly2 (rj_ll c) T) (poly2 (rj_ul c) T).

Definition etau_series (p : plant) (amb : Q) (tpp : list Q) : list Q := map (etau_at p amb) tpp.
Definition reinj_series (p : plant) (amb : Q) (tpp : list Q) : list Q := map (reinj_at p amb) tpp.

Definition list_min (l : list Q) : option Q :=
  match l with [] => None | x :: r => Some (fold_left Qmin r x) end.

(* "if np.min(ReinjTemp) < Tinj: Tinj = np.min(ReinjTemp)" *)
Definition tinj_update (tinj : Q) (reinj : list Q) : option Q :=
  match list_min reinj with
  | None => None                                  (* np.min of an empty array: ValueError *)
  | Some mn => Some (if Qltb mn tinj then mn else tinj)
  end.

(* power_plant_entering_temperature: the bottoming cycle enters at T_chp_bottom (one value per time step) *)
Definition tentering (eu : enduse) (ntime : nat) (tchp : Q) (tprod : list Q) : list Q :=
  match eu with EU_BOT => repeat tchp ntime | _ => tprod end.

(* the power-plant part of Calculate: entering temperature -> correlations -> injection temperature -> production.
   Availability (a logarithm) stays an input. *)
Definition power_plant (p : plant) (eu : enduse) (amb : Q) (avail : list Q) (n m cp : Q) (tprod : list Q) (tinj tchp eff chpf : Q)
  : result (Q * list Q * list Q * ehp_out) :=
  let tpp := tentering eu (length tprod) tchp tprod in
  let etau := etau_series p amb tpp in
  let reinj := reinj_series p amb tpp in
  match tinj_update tinj reinj with
  | None => Fail E_VALUE
  | Some tinj' =>
      match ehp eu avail etau n m cp tprod tinj' reinj tchp eff chpf with
      | Ok o => Ok (tinj', etau, reinj, o)
      | Fail c => Fail c
      end
  end.

(* NetElectricityProduced = ElectricityProduced - PumpingPower *)
Definition net_series (el pump : list Q) : option (list Q) :=
  if same_len el pump then Some (map2 Qminus el pump) else None.

(* inline formulas of the direct-use plants *)
Definition scale_series (c : Q) (s : list Q) : list Q := map (fun x => x * c) s.
Definition industrial_heat (eff : Q) (he : list Q) : list Q := scale_series eff he.
Definition heatpump_heat (cop eff : Q) (he : list Q) : list Q := map (fun x => x * cop / (cop - 1) * eff) he.
Definition heatpump_elec (cop : Q) (he : list Q) : list Q := map (fun x => x / (cop - 1)) he.
Definition chiller_cooling (cop eff : Q) (hp : list Q) : list Q := map (fun x => x * cop * eff) hp.

(* ------------------------------------------------------------------------------------------------ *)
(* integrate_time_series_slice(series, _i, time_steps_per_year, utilization_factor) *)
Definition slice (start stop : nat) (s : list Q) : list Q := firstn (stop - start) (skipn start s).

(* np.trapz(y, dx) / dx *)
Fixpoint trapz_sum (l : list Q) : Q :=
  match l with
  | a :: r => match r with b :: _ => (a + b) / 2 + trapz_sum r | [] => 0 end
  | [] => 0
  end.

Definition integrate_slice (s : list Q) (i k : nat) (util : Q) : Q :=
  let start := (i * k)%nat in
  let stop := ((i + 1) * k + 1)%nat in
  let sl := slice start stop s in
  let sl' := match sl with
             | [a] => let extr := if Nat.ltb 0 (start - 1)     (* slice_start_index - 1 > 0 *)
                                  then a + (nth start s 0 - nth (start - 1) s 0) else a in
                      [a; extr]
             | _ => sl
             end in
  let dx_steps : Z := (Z.of_nat (length sl') - 1)%Z in
  trapz_sum sl' * (1 / inject_Z dx_steps * 365 * 24) * 1000 * util.

Definition annual (s : list Q) (life k : nat) (util : Q) : list Q :=
  map (fun i => integrate_slice s i k util) (seq 0 life).

(* district heating: one utilization factor per year; util_factor_array[i] beyond its length is an IndexError *)
Fixpoint annual_u_from (s : list Q) (k i : nat) (utils : list Q) : list Q :=
  match utils with
  | [] => []
  | u :: r => integrate_slice s i k u :: annual_u_from s k (S i) r
  end.
Definition annual_u (s : list Q) (k : nat) (utils : list Q) : list Q := annual_u_from s k 0 utils.

Definition has_elec (eu : enduse) : bool := match eu with EU_HEAT => false | _ => true end.
Definition has_heat (eu : enduse) : bool := match eu with EU_ELEC => false | _ => true end.

(* annual_electricity_pumping_power -> (HeatkWhExtracted, PumpingkWh, TotalkWhProduced, NetkWhProduced, HeatkWhProduced) *)
Definition annual_epp (eu : enduse) (life k : nat) (util : Q) (he pump el net hp : list Q)
  : list Q * list Q * list Q * list Q * list Q :=
  (annual he life k util,
   annual pump life k util,
   if has_elec eu then annual el life k util else repeat 0 life,
   if has_elec eu then annual net life k util else repeat 0 life,
   if has_heat eu then annual hp life k util else repeat 0 life).

(* EconomicsAddOns / EconomicsS_DAC_GT update the annual figures in place: figure[i] += offset[i] *)
Definition adjust (figure offs : list Q) : list Q := map2 Qplus figure offs.

(* ------------------------------------------------------------------------------------------------ *)
(* remaining_reservoir_heat_content: Initial - np.add.accumulate(HeatkWhExtracted) * 3600 * 1E3 / 1E15 *)
(* the running sum is kept reduced (Qred changes the representation, not the value) so that long lifetimes stay cheap *)
Fixpoint cumsum_from (acc : Q) (l : list Q) : list Q :=
  match l with [] => [] | x :: r => let a := Qred (acc + x) in a :: cumsum_from a r end.

Definition remaining (init : Q) (kwh : list Q) : list Q :=
  map (fun c => init - c * 3600 * 1000 / 1000000000000000) (cumsum_from 0 kwh).

(* ------------------------------------------------------------------------------------------------ *)
(* district heating: calc_util_factor *)

(* np.interp(t, xp, fp) with xp = arange(0, life+0.01, 1/k)[:len(fp)]  (xp[j] = j/k), t >= 0 *)
Definition interp (k : nat) (fp : list Q) (t : Q) : Q :=
  let u := t * natQ k in
  if Qltb u 0 then nth 0 fp 0 else
  let idx := Z.to_nat (Qfloor u) in
  if Nat.ltb (S idx) (length fp)
  then let a := nth idx fp 0 in
       let b := nth (S idx) fp 0 in
       a + (u - natQ idx) * (b - a)
  else last fp 0.

(* one day: demand d [MWh/day], well output h [MW] -> (geothermal used, peaking boiler) [MW] *)
Definition dh_split (d h : Q) : Q * Q :=
  let dd := d / 24 in
  if Qltb h dd then (h, dd - h) else (dd, 0).

Definition dh_time (i j : nat) : Q := natQ i + natQ j / 365.

(* (h, geothermal, peaking) for every day of year i *)
Definition dh_year (k : nat) (fp demand : list Q) (i : nat) : list (Q * (Q * Q)) :=
  map (fun j => let h := interp k fp (dh_time i j) in (h, dh_split (nth j demand 0) h)) (seq 0 365).

Definition dh_h (x : Q * (Q * Q)) : Q := fst x.
Definition dh_geo (x : Q * (Q * Q)) : Q := fst (snd x).
Definition dh_ng (x : Q * (Q * Q)) : Q := snd (snd x).

Record dh_out : Type := mk_dh {
  d_util_array : list Q; d_util : Q; d_annual_ng : list Q; d_max_peak : Q; d_geo : list Q; d_ng : list Q }.

Definition arange_count (life k : nat) : Z := Qceiling ((natQ life + (1 # 100)) * natQ k).

Definition dh_run (life k : nat) (fp demand : list Q) : result dh_out :=
  if Nat.eqb life 0 then Fail E_VALUE else            (* np.max of an empty array *)
  if Nat.eqb k 0 then Fail E_ZERODIV else             (* 1 / time_steps_per_year *)
  if Nat.eqb (length fp) 0 then Fail E_VALUE else     (* np.interp on empty arrays *)
  if (arange_count life k <? Z.of_nat (length fp))%Z then Fail E_VALUE else   (* len(xp) <> len(fp) *)
  if Nat.ltb (length demand) 365 then Fail E_INDEX else
  let years := map (dh_year k fp demand) (seq 0 life) in
  let sum_h := map (fun y => sumQ_red (map dh_h y)) years in
  let sum_g := map (fun y => sumQ_red (map dh_geo y)) years in
  let tot_h := sumQ_red sum_h in
  let tot_g := sumQ_red sum_g in
  if existsb (fun x => Qeq_bool x 0) (tot_h :: sum_h) then Fail E_NONFINITE else
  let ng := flat_map (map dh_ng) years in
  let mx := match list_max ng with Some x => x | None => 0 end in
  Ok (mk_dh (map2 Qdiv sum_g sum_h) (tot_g / tot_h)
            (map (fun y => sumQ_red (map dh_ng y) * 24) years)
            (if Qltb 0 mx then mx / 20 * 24 else 0)
            (flat_map (map dh_geo) years) ng).

(* ------------------------------------------------------------------------------------------------ *)
(* SurfacePlantSUTRA.Calculate (reservoir thermal energy storage): every second entry of the SUTRA profiles plus the last
   one, split of the simulated heat into injected / produced, auxiliary heat up to the target, annual sums over blocks
   of 730 steps *)
Fixpoint every_other (l : list Q) : list Q :=
  match l with
  | [] => []
  | x :: r => x :: match r with [] => [] | _ :: r' => every_other r' end
  end.

(* np.append(profile[0:-1:2], profile[-1]);  profile[-1] of an empty array is an IndexError *)
Definition subsample (l : list Q) : option (list Q) :=
  match l with [] => None | _ => Some (every_other (removelast l) ++ [last l 0]) end.

(* SUTRATimeStep = TimeVector[-1] / len(TimeVector) *)
Definition sutra_dt (tv : list Q) : Q := last tv 0 / natQ (length tv).

Definition sutra_injected (dt sim : Q) : Q := (if Qltb 0 sim then 0 else sim) / dt / 1000.
Definition sutra_produced (dt sim : Q) : Q := (if Qltb sim 0 then 0 else sim) / dt / 1000.
Definition sutra_aux (dt target sim : Q) : Q := (if Qltb (target - sim) 0 then 0 else target - sim) / dt / 1000.
Definition sutra_total (dt target sim : Q) : Q := sutra_produced dt sim + sutra_aux dt target sim.

(* sum(series[i*730:(i+1)*730]) * SUTRATimeStep / 1000   (pumping: without the / 1000) *)
Definition sutra_block (series : list Q) (i : nat) : list Q := slice (i * 730) ((i + 1) * 730) series.
Definition sutra_annual (dt : Q) (series : list Q) (i : nat) : Q := sumQ_red (sutra_block series i) * dt / 1000.
Definition sutra_pumping_kwh (dt : Q) (pump : list Q) (i : nat) : Q := sumQ_red (sutra_block pump i) * dt.

(* Python round(): to the nearest integer, ties to even *)
Definition py_round (q : Q) : Z :=
  let f := Qfloor q in
  let r := q - inject_Z f in
  if Qltb r (1 # 2) then f else if Qltb (1 # 2) r then (f + 1)%Z else if Z.even f then f else (f + 1)%Z.

Record sutra_out : Type := mk_sutra {
  s_dt : Q; s_inj : list Q; s_prod : list Q; s_aux : list Q; s_tot : list Q;
  s_ann_inj : list Q; s_ann_prod : list Q; s_ann_aux : list Q; s_ann_tot : list Q; s_pumpkwh : list Q; s_maxaux : Q }.

Definition sutra_plant (time target sim pump : list Q) : result sutra_out :=
  match subsample time, subsample target, subsample sim with
  | Some tv, Some tg, Some sm =>
      if negb (same_len tg sm) then Fail E_VALUE else
      let dt := sutra_dt tv in
      if Qeq_bool dt 0 then Fail E_NONFINITE else
      let years := Z.to_nat (py_round (last tv 0 / 8766)) in
      let inj := map (sutra_injected dt) sm in
      let prod := map (sutra_produced dt) sm in
      let aux := map2 (sutra_aux dt) tg sm in
      let tot := map2 (sutra_total dt) tg sm in
      let ann := fun ser => map (sutra_annual dt ser) (seq 0 years) in
      match list_max (ann aux) with
      | None => Fail E_VALUE                                   (* max() of an empty sequence *)
      | Some mx => Ok (mk_sutra dt inj prod aux tot (ann inj) (ann prod) (ann aux) (ann tot)
                                (map (sutra_pumping_kwh dt pump) (seq 0 years)) mx)
      end
  | _, _, _ => Fail E_INDEX
  end.

(* ------------------------------------------------------------------------------------------------ *)
(* reflective checkers: the balances evaluated on implementation data (hook snapshots), in the kernel *)

Definition check_extracted (tol n m cp tinj : Q) (tprod he : list Q) : bool :=
  all_close tol (heat_extracted n m cp tinj tprod) he.

Definition check_net (tol : Q) (el pump net : list Q) : bool :=
  match net_series el pump with Some x => all_close tol x net | None => false end.

(* b = a * c pointwise (direct-use heat, parallel cogeneration share, chiller cooling) *)
Definition check_scaled (tol c : Q) (a b : list Q) : bool := all_close tol (scale_series c a) b.

Definition check_heatpump (tol cop eff : Q) (he hp w : list Q) : bool :=
  negb (Qeq_bool cop 1) && all_close tol (heatpump_heat cop eff he) hp && all_close tol (heatpump_elec cop he) w.

Definition check_chiller (tol cop eff : Q) (he hp cooling : list Q) : bool :=
  all_close tol he hp && all_close tol (chiller_cooling cop eff hp) cooling.

Definition check_bottoming (tol eff n m cp tchp : Q) (tprod hp : list Q) : bool :=
  all_close tol (map (fun t => eff * n * m * cp * (t - tchp) / 1000000) tprod) hp.

(* the power-plant part recomputed from the run's inputs: entering temperature, etau, ReinjTemp, injection temperature
   (the reported one must be a fixed point of the update), electricity, extracted and useful heat *)
Definition check_power_plant (tol : Q) (p : plant) (eu : enduse) (amb : Q) (avail : list Q) (n m cp : Q) (tprod : list Q)
           (tinj tchp eff chpf : Q) (tpp el he hp : list Q) : bool :=
  all_close tol (tentering eu (length tprod) tchp tprod) tpp &&
  match power_plant p eu amb avail n m cp tprod tinj tchp eff chpf with
  | Ok (tinj', _, _, o) => close tol tinj' tinj && all_close tol (o_el o) el && all_close tol (o_he o) he && all_close tol (o_hp o) hp
  | Fail _ => false
  end.

(* FirstLawEfficiency = NetElectricityProduced / HeatExtractedTowardsElectricity with the MODELLED heat towards electricity
   (a series; a scalar in the bottoming cycle); steps where it is 0 (numpy yields inf/nan) carry no information *)
Fixpoint fle_ok (tol : Q) (t : nat) (hete : arr) (net fle : list Q) : bool :=
  match net, fle with
  | [], [] => true
  | x :: net', f :: fle' =>
      let h := arr_at hete t in
      (Qeq_bool h 0 || close tol (f * h) x) && fle_ok tol (S t) hete net' fle'
  | _, _ => false
  end.

Definition check_fle (tol : Q) (p : plant) (eu : enduse) (amb : Q) (avail : list Q) (n m cp : Q) (tprod : list Q)
           (tinj tchp eff chpf : Q) (net fle : list Q) : bool :=
  match power_plant p eu amb avail n m cp tprod tinj tchp eff chpf with
  | Ok (_, _, _, o) => fle_ok tol 0 (o_hete o) net fle
  | Fail _ => false
  end.

(* conservation on reported series: heat towards electricity (= Net / FirstLawEfficiency) + useful heat / efficiency
   = heat extracted.  Steps whose reported efficiency is 0 carry no information and are skipped. *)
Fixpoint conservation_terms (eff : Q) (hp net fle : list Q) : list Q :=
  match net, fle with
  | x :: net', f :: fle' =>
      let (h, hp') := match hp with h :: r => (h, r) | [] => (0, []) end in
      (x / f + h / eff) :: conservation_terms eff hp' net' fle'
  | _, _ => []
  end.

Fixpoint all_close_where (tol : Q) (mask a b : list Q) : bool :=
  match mask, a, b with
  | [], [], [] => true
  | m :: mask', x :: a', y :: b' => (Qeq_bool m 0 || close tol x y) && all_close_where tol mask' a' b'
  | _, _, _ => false
  end.

Definition check_conservation (tol eff : Q) (he hp net fle : list Q) : bool :=
  negb (Qeq_bool eff 0) && (Nat.eqb (length hp) 0 || same_len hp net) &&
  all_close_where tol fle (conservation_terms eff hp net fle) he.

Definition check_annual (tol : Q) (s : list Q) (life k : nat) (util : Q) (offs reported : list Q) : bool :=
  all_close tol (adjust (annual s life k util) offs) reported.

Definition check_annual_u (tol : Q) (s : list Q) (k : nat) (utils offs reported : list Q) : bool :=
  all_close tol (adjust (annual_u s k utils) offs) reported.

Definition check_zero (l : list Q) : bool := forallb (fun x => Qeq_bool x 0) l.

Definition check_remaining (tol init : Q) (kwh rem : list Q) : bool := all_close tol (remaining init kwh) rem.

(* district heating: the reported daily split against the model and the three balance clauses themselves *)
Fixpoint dh_days_ok (tol : Q) (k : nat) (fp demand : list Q) (i j : nat) (geo ng : list Q) : bool :=
  match geo, ng with
  | [], [] => true
  | g :: geo', p :: ng' =>
      let h := interp k fp (dh_time i j) in
      let dd := nth j demand 0 / 24 in
      close tol (g + p) dd && Qle_bool g (h + tol * Qmax 1 (Qabs h)) && Qle_bool 0 p &&
      (if Nat.eqb (S j) 365 then dh_days_ok tol k fp demand (S i) 0 geo' ng'
       else dh_days_ok tol k fp demand i (S j) geo' ng')
  | _, _ => false
  end.

Definition check_dh (tol : Q) (life k : nat) (fp demand geo ng utils : list Q) (util : Q) (ann_ng : list Q) (maxpk : Q)
  : bool :=
  Nat.eqb (length geo) (life * 365) && dh_days_ok tol k fp demand 0 0 geo ng &&
  match dh_run life k fp demand with
  | Ok o => all_close tol (d_geo o) geo && all_close tol (d_ng o) ng && all_close tol (d_util_array o) utils &&
            close tol (d_util o) util && all_close tol (d_annual_ng o) ann_ng && close tol (d_max_peak o) maxpk
  | Fail _ => false
  end.

(* SUTRA, one block of raw profile entries (an even number of them: every second one is used) against the reported
   series of the same steps; [annual] = the five reported annual figures of that year when the block is a whole year *)
Definition check_sutra_points (tol dt : Q) (raw_target raw_sim inj prod aux tot : list Q) : bool :=
  let tg := every_other raw_target in
  let sm := every_other raw_sim in
  same_len tg sm &&
  all_close tol (map (sutra_injected dt) sm) inj && all_close tol (map (sutra_produced dt) sm) prod &&
  all_close tol (map2 (sutra_aux dt) tg sm) aux && all_close tol (map2 (sutra_total dt) tg sm) tot.

Definition check_sutra_year (tol dt : Q) (inj prod aux tot pump annual : list Q) : bool :=
  Nat.eqb (length inj) 730 &&
  all_close tol [sutra_annual dt inj 0; sutra_annual dt prod 0; sutra_annual dt aux 0; sutra_annual dt tot 0;
                 sutra_pumping_kwh dt pump 0] annual.

(* the scalars: time step, number of years, peak auxiliary demand *)
Definition check_sutra_globals (tol tlast : Q) (nraw : nat) (dt : Q) (nyears : nat) (ann_aux : list Q) (maxaux : Q) : bool :=
  close tol (tlast / natQ (nraw / 2 + 1)) dt &&
  Z.eqb (py_round (tlast / 8766)) (Z.of_nat nyears) && Nat.eqb (length ann_aux) nyears &&
  match list_max ann_aux with Some mx => close tol mx maxaux | None => false end.

(* ------------------------------------------------------------------------------------------------ *)
(* flat interface (direct calls of the real helpers are compared with these) *)

(* [i; k; util] ++ series *)
Definition run_integrate (a : list Q) : res :=
  match a with
  | i :: k :: util :: s => Vals [integrate_slice s (qnat i) (qnat k) util]
  | _ => Err E_ARGS
  end.

(* init :: kwh *)
Definition run_remaining (a : list Q) : res :=
  match a with init :: kwh => Vals (remaining init kwh) | _ => Err E_ARGS end.

(* [eu; life; k; util; n; nh] ++ he(n) ++ pump(n) ++ el(n) ++ net(n) ++ hp(nh) *)
Definition run_annual_epp (a : list Q) : res :=
  match a with
  | eu :: life :: k :: util :: n :: nh :: r =>
      match enduse_of_code (qZ eu) with
      | None => Err E_ARGS
      | Some e =>
          let n := qnat n in
          let he := firstn n r in let r1 := skipn n r in
          let pump := firstn n r1 in let r2 := skipn n r1 in
          let el := firstn n r2 in let r3 := skipn n r2 in
          let net := firstn n r3 in let hp := firstn (qnat nh) (skipn n r3) in
          match annual_epp e (qnat life) (qnat k) util he pump el net hp with
          | (a1, a2, a3, a4, a5) => Vals (a1 ++ a2 ++ a3 ++ a4 ++ a5)
          end
      end
  | _ => Err E_ARGS
  end.

(* [eu; n; m; cp; tinj; tchp; eff; chpf; na; ne; nt; nr] ++ avail(na) ++ etau(ne) ++ tprod(nt) ++ reinj(nr) *)
Definition run_ehp (a : list Q) : res :=
  match a with
  | eu :: n :: m :: cp :: tinj :: tchp :: eff :: chpf :: na :: ne :: nt :: nr :: r =>
      match enduse_of_code (qZ eu) with
      | None => Err E_ARGS
      | Some e =>
          let avail := firstn (qnat na) r in let r1 := skipn (qnat na) r in
          let etau := firstn (qnat ne) r1 in let r2 := skipn (qnat ne) r1 in
          let tprod := firstn (qnat nt) r2 in let reinj := firstn (qnat nr) (skipn (qnat nt) r2) in
          match ehp e avail etau n m cp tprod tinj reinj tchp eff chpf with
          | Ok o => Vals (o_el o ++ o_he o ++ o_hp o ++ arr_flat (o_hete o))
          | Fail c => Err c
          end
      end
  | _ => Err E_ARGS
  end.

(* reinjection_temperature(model, amb, TenteringPP, Tinj, C01,C11,C21, D01,D11,D21, C02,C12,C22, D02,D12,D22):
   [amb; tinj; C01; C11; C21; D01; D11; D21; C02; C12; C22; D02; D12; D22] ++ tpp -> [Tinj'] ++ ReinjTemp ++ etau *)
Definition corr_eval (c : corr) (amb : Q) (tpp : list Q) : list Q * list Q :=
  (map (fun T => blend (tfraction amb) (poly2 (eta_ll c) T) (poly2 (eta_ul c) T)) tpp,
   map (fun T => blend (tfraction amb) (poly2 (rj_ll c) T) (poly2 (rj_ul c) T)) tpp).

Definition run_reinj (a : list Q) : res :=
  match a with
  | amb :: tinj :: c01 :: c11 :: c21 :: d01 :: d11 :: d21 :: c02 :: c12 :: c22 :: d02 :: d12 :: d22 :: tpp =>
      let c := mk_corr (c21, c11, c01) (d21, d11, d01) (c22, c12, c02) (d22, d12, d02) in
      let (etau, reinj) := corr_eval c amb tpp in
      match tinj_update tinj reinj with
      | Some t => Vals (t :: reinj ++ etau)
      | None => Err E_VALUE
      end
  | _ => Err E_ARGS
  end.

(* the plant tables through the same interface: [plant; amb] ++ tpp -> ReinjTemp ++ etau *)
Definition run_plant_corr (a : list Q) : res :=
  match a with
  | pc :: amb :: tpp =>
      match plant_of_code (qZ pc) with
      | Some p => Vals (reinj_series p amb tpp ++ etau_series p amb tpp)
      | None => Err E_ARGS
      end
  | _ => Err E_ARGS
  end.

(* [life; k; nfp] ++ fp(nfp) ++ demand  ->  util_array ++ [util] ++ annual_ng ++ [max_peak] ++ geo ++ ng *)
Definition run_dh (a : list Q) : res :=
  match a with
  | life :: k :: nfp :: r =>
      match dh_run (qnat life) (qnat k) (firstn (qnat nfp) r) (skipn (qnat nfp) r) with
      | Ok o => Vals (d_util_array o ++ [d_util o] ++ d_annual_ng o ++ [d_max_peak o] ++ d_geo o ++ d_ng o)
      | Fail c => Err c
      end
  | _ => Err E_ARGS
  end.
