(* Model/Schema.v - the published request/result schema as data, and the executable comparisons of C19:
   names (schema vs union of the modules' ParameterDicts), fields (type, unit, default, bounds vs the declaration the
   reader enforces), committed vs generated, schema-allowed vs reader-accepted, result fields vs client fields.
   No proofs here. *)
From Coq Require Import QArith ZArith List String Bool.
From Verif Require Import Base.Flat Base.ParamRec Model.RangeReader.
Import ListNotations.
Open Scope Q_scope.

(* one entry of "properties" of a request schema *)
Record sentry : Type := mkS {
  s_name : string;
  s_type : string;            (* "number" | "integer" | "boolean" | "string" | "array" *)
  s_units : string;           (* "" for null *)
  s_category : string;
  s_default : option Q;       (* when the JSON default is a number (or a numeric string) *)
  s_deftxt : string;          (* canonical text of the JSON default (same canonicaliser as ParamRec.p_deftxt) *)
  s_min : option Q;           (* "minimum"; None for null *)
  s_max : option Q;
  s_enum : list Z;            (* int_value of "enum_values", [] when absent *)
  s_digest : string           (* hash of the whole JSON entry (description, enum texts, ...) *)
}.

Definition rfield : Type := (string * string * string)%type.   (* category, field, digest of the entry *)

Definition mem_str (x : string) (l : list string) : bool := existsb (String.eqb x) l.
Definition pnames (t : list param) : list string := map p_name t.
Definition snames (s : list sentry) : list string := map s_name s.

(* rows of the classes of one program *)
Definition rows_of (classes : list string) (t : list param) : list param :=
  filter (fun p => mem_str (p_module p) classes) t.

(* ---- names ---- *)
Definition name_published (sch : list sentry) (p : param) : bool := mem_str (p_name p) (snames sch).
Definition name_accepted (t : list param) (s : sentry) : bool := mem_str (s_name s) (pnames t).
Definition names_ok (t : list param) (sch : list sentry) : bool :=
  forallb (name_published sch) t && forallb (name_accepted t) sch.

(* ---- consistency of a declaration across the classes that accept the name ---- *)
Definition oQ_same (a b : option Q) : bool := oQ_eqb a b.
Fixpoint runs_eqb (a b : list (Z * Z)) : bool :=
  match a, b with
  | [], [] => true
  | (x, y) :: a', (u, v) :: b' => (x =? u)%Z && (y =? v)%Z && runs_eqb a' b'
  | _, _ => false
  end.
Definition same_decl (p q : param) : bool :=
  pkind_eqb (p_kind p) (p_kind q) && oQ_same (p_default p) (p_default q) && Qeq_bool (p_min p) (p_min q)
  && Qeq_bool (p_max p) (p_max q) && runs_eqb (p_range p) (p_range q) && String.eqb (p_units p) (p_units q)
  && String.eqb (p_jtype p) (p_jtype q) && String.eqb (p_deftxt p) (p_deftxt q).
Definition consistent (t : list param) (p : param) : bool :=
  forallb (fun q => negb (String.eqb (p_name q) (p_name p)) || same_decl p q) t.

Fixpoint find_name (name : string) (t : list param) : option param :=
  match t with
  | [] => None
  | p :: r => if String.eqb (p_name p) name then Some p else find_name name r
  end.

(* ---- fields ---- *)
Definition kind_jtype (p : param) : bool :=
  match p_kind p with
  | KFloat => String.eqb (p_jtype p) "number"
  | KInt => String.eqb (p_jtype p) "integer"
  | _ => negb (String.eqb (p_jtype p) "number") && negb (String.eqb (p_jtype p) "integer")
  end.

(* members of a run-encoded range, for the (short) option lists *)
Definition expand_run (r : Z * Z) : list Z :=
  map (fun k => (fst r + Z.of_nat k)%Z) (seq 0 (Z.to_nat (snd r - fst r + 1))).
Definition memZ (n : Z) (l : list Z) : bool := existsb (Z.eqb n) l.

Definition oQ_close (a b : option Q) : bool :=
  match a, b with
  | Some x, Some y => close (1 # 1000000000) x y
  | None, None => true
  | _, _ => false
  end.

Definition f_type (p : param) (s : sentry) : bool := String.eqb (s_type s) (p_jtype p) && kind_jtype p.
Definition f_units (p : param) (s : sentry) : bool := String.eqb (s_units s) (p_units p).
Definition f_min (p : param) (s : sentry) : bool :=
  match p_kind p with
  | KFloat | KInt => oQ_eqb (s_min s) (lo_bound p)
  | KList => oQ_eqb (s_min s) (Some (p_min p))
  | _ => oQ_eqb (s_min s) None
  end.
Definition f_max (p : param) (s : sentry) : bool :=
  match p_kind p with
  | KFloat | KInt => oQ_eqb (s_max s) (hi_bound p)
  | KList => oQ_eqb (s_max s) (Some (p_max p))
  | _ => oQ_eqb (s_max s) None
  end.
(* defaults are echoed through a decimal prettifier: numbers within 1e-9 relative, everything else textually *)
Definition f_default (p : param) (s : sentry) : bool :=
  match p_kind p with
  | KFloat => oQ_close (s_default s) (p_default p)
  | KInt => oQ_eqb (s_default s) (p_default p)
  | _ => String.eqb (s_deftxt s) (p_deftxt p)
  end.
(* published option list = AllowableRange (both inclusions) *)
Definition f_enum (p : param) (s : sentry) : bool :=
  match s_enum s with
  | [] => true
  | e => forallb (fun n => in_runs n (p_range p)) e && forallb (fun n => memZ n e) (flat_map expand_run (p_range p))
  end.

Definition fields_match (p : param) (s : sentry) : bool :=
  f_type p s && f_units p s && f_min p s && f_max p s && f_default p s && f_enum p s.

(* the rows of the generated parameter reference (.rst) carry the PREFERRED units, no category and no option list *)
Definition f_pref (p : param) (s : sentry) : bool := String.eqb (s_units s) (p_pref p).
Definition rst_match (p : param) (s : sentry) : bool :=
  f_type p s && f_pref p s && f_min p s && f_max p s && f_default p s.

(* a schema entry against the table: only claimed when the name is declared identically everywhere *)
Definition entry_ok (f : param -> sentry -> bool) (t : list param) (s : sentry) : bool :=
  match find_name (s_name s) t with
  | Some p => negb (consistent t p) || f p s
  | None => true      (* reported by the names check *)
  end.
Definition fields_ok (t : list param) (sch : list sentry) : bool := forallb (entry_ok fields_match t) sch.
Definition rst_ok (t : list param) (sch : list sentry) : bool := forallb (entry_ok rst_match t) sch.

(* ---- what a schema entry allows ---- *)
Definition ole (o : option Q) (v : Q) : bool := match o with Some m => Qleb m v | None => true end.
Definition oge (o : option Q) (v : Q) : bool := match o with Some m => Qleb v m | None => true end.
Definition schema_allows (s : sentry) (v : Q) : bool :=
  if String.eqb (s_type s) "integer" then
    integral v && match s_enum s with [] => ole (s_min s) v && oge (s_max s) v | e => memZ (trunc v) e end
  else if String.eqb (s_type s) "number" then ole (s_min s) v && oge (s_max s) v
  else true.

(* the integer sets on which min/max (or the option list) say everything *)
Definition int_exact (p : param) (s : sentry) : bool :=
  match s_enum s with [] => (List.length (p_range p) =? 1)%nat | _ => true end.

(* one observed read at a schema-derived value: schema idx, table idx, value, observed outcome, value in use *)
Definition ecase : Type := (nat * nat * Q * outcome * option Q)%type.
Definition dummy_entry : sentry := mkS "" "" "" "" None "" None None [] "".
Definition ecase_ok (t : list param) (sch : list sentry) (c : ecase) : bool :=
  match c with
  | (j, i, v, o, fin) =>
      let s := nth j sch dummy_entry in
      let p := nth i t dummy_param in
      let rejected := match o with Reject n => String.eqb n (p_name p) | _ => false end in
      if is_sentinel p v then true
      else if schema_allows s v then
        oQeqb fin v || (pkind_eqb (p_kind p) KInt && negb (int_exact p s) && rejected)   (* gapped range: min/max only *)
      else rejected
  end.

(* ---- array entries: minimum / maximum are published for the elements ---- *)
Definition schema_allows_elem (s : sentry) (v : Q) : bool := ole (s_min s) v && oge (s_max s) v.

(* one observed list read: schema idx, table idx, first element, other elements, did the implementation store the
   supplied list (None: it raised) *)
Definition lcase : Type := (nat * nat * Q * list Q * option bool)%type.
Definition ob_eqb (a : option bool) (b : bool) : bool := match a with Some x => Bool.eqb x b | None => false end.
Definition lcase_agrees (t : list param) (c : lcase) : bool :=
  match c with (_, i, v, rest, st) => ob_eqb st (lstored (read_list (nth i t dummy_param) v rest)) end.
(* the schema's bounds are the ones enforced: stored <-> every supplied element is schema-allowed *)
Definition lcase_spec (sch : list sentry) (c : lcase) : bool :=
  match c with (j, _, v, rest, st) => ob_eqb st (forallb (schema_allows_elem (nth j sch dummy_entry)) (v :: rest)) end.

(* ---- committed = generated; result fields ---- *)
Definition entry_in (l : list sentry) (e : sentry) : bool :=
  existsb (fun x => String.eqb (s_name x) (s_name e) && String.eqb (s_digest x) (s_digest e)) l.
Definition same_entries (a b : list sentry) : bool := forallb (entry_in b) a && forallb (entry_in a) b.

Definition rfield_eqb (x y : rfield) : bool :=
  match x, y with (a, b, c), (d, e, f) => String.eqb a d && String.eqb b e && String.eqb c f end.
Definition rfield_in (l : list rfield) (e : rfield) : bool := existsb (rfield_eqb e) l.
Definition same_rfields (a b : list rfield) : bool := forallb (rfield_in b) a && forallb (rfield_in a) b.

Definition str_in (l : list string) (x : string) : bool := mem_str x l.
Definition same_strings (a b : list string) : bool := forallb (str_in b) a && forallb (str_in a) b.

Definition extractable (client : list (string * string)) (f : rfield) : bool :=
  match f with (c, n, _) => existsb (fun x => String.eqb (fst x) c && String.eqb (snd x) n) client end.
Definition result_fields_ok (client : list (string * string)) (sch : list rfield) : bool := forallb (extractable client) sch.

(* a real report: every schema field whose label the report prints must come back from the client with a value *)
Definition pair_in (l : list (string * string)) (c n : string) : bool :=
  existsb (fun x => String.eqb (fst x) c && String.eqb (snd x) n) l.
Definition report_field_ok (printed extracted : list (string * string)) (f : rfield) : bool :=
  match f with (c, n, _) => negb (pair_in printed c n) || pair_in extracted c n end.
Definition report_ok (sch : list rfield) (printed extracted : list (string * string)) : bool :=
  forallb (report_field_ok printed extracted) sch.

(* string parameters: the schema publishes type "string" without further constraint; the reader stores the text verbatim
   (blanks, digits, unit-looking suffixes included - strParameter never goes to ConvertUnits) *)
Definition read_string (p : param) (s : string) : option string :=
  match p_kind p with KStr => Some s | _ => None end.
Definition schema_allows_string (e : sentry) (s : string) : bool := String.eqb (s_type e) "string".
(* supplied text, what the implementation holds afterwards (None: it raised) *)
Definition scase : Type := (nat * string * option string)%type.
Definition ostr_eqb (a b : option string) : bool :=
  match a, b with Some x, Some y => String.eqb x y | None, None => true | _, _ => false end.
Definition scase_ok (t : list param) (c : scase) : bool :=
  match c with (i, s, held) => ostr_eqb (read_string (nth i t dummy_param) s) held && ostr_eqb held (Some s) end.

(* ---- harness entry points: (number of items, indices on which the check is false) ---- *)
Definition bad {A : Type} (f : A -> bool) (l : list A) : nat * list nat := (List.length l, mismatches f 0 l).
