(* Model/Utf8.v - executable model of the UTF-8 decoding open(..., encoding='UTF-8') applies to the bytes of the input
   file before read_input_file sees any text (C12): strict decoder (no overlong forms, no surrogates, nothing above
   U+10FFFF, no truncated sequence) - any violation raises UnicodeDecodeError for the WHOLE file.  Bytes and code points
   are numbers (N).  No proofs here. *)
From Coq Require Import NArith List Bool.
From Verif Require Import Base.UStr Model.UTokenizer.
Import ListNotations.
Open Scope N_scope.

Definition cont (b : N) : bool := (128 <=? b) && (b <=? 191).

Fixpoint utf8_decode (l : list N) : option ustring :=
  match l with
  | [] => Some []
  | b0 :: r0 =>
    if b0 <? 128 then option_map (cons b0) (utf8_decode r0)
    else match r0 with
    | [] => None
    | b1 :: r1 =>
      if (194 <=? b0) && (b0 <=? 223) then
        (if cont b1 then option_map (cons ((b0 - 192) * 64 + (b1 - 128))) (utf8_decode r1) else None)
      else match r1 with
      | [] => None
      | b2 :: r2 =>
        if (224 <=? b0) && (b0 <=? 239) then
          (if cont b1 && cont b2 && negb ((b0 =? 224) && (b1 <? 160)) && negb ((b0 =? 237) && (159 <? b1))
           then option_map (cons ((b0 - 224) * 4096 + (b1 - 128) * 64 + (b2 - 128))) (utf8_decode r2) else None)
        else match r2 with
        | [] => None
        | b3 :: r3 =>
          if (240 <=? b0) && (b0 <=? 244) then
            (if cont b1 && cont b2 && cont b3 && negb ((b0 =? 240) && (b1 <? 144)) && negb ((b0 =? 244) && (143 <? b1))
             then option_map (cons ((b0 - 240) * 262144 + (b1 - 128) * 4096 + (b2 - 128) * 64 + (b3 - 128))) (utf8_decode r3)
             else None)
          else None
        end
      end
    end
  end.

(* str.encode('utf-8') of one code point / of a text *)
Definition enc1 (c : N) : list N :=
  if c <? 128 then [c]
  else if c <? 2048 then [192 + c / 64; 128 + c mod 64]
  else if c <? 65536 then [224 + c / 4096; 128 + (c / 64) mod 64; 128 + c mod 64]
  else [240 + c / 262144; 128 + (c / 4096) mod 64; 128 + (c / 64) mod 64; 128 + c mod 64].
Definition utf8_encode (t : ustring) : list N := flat_map enc1 t.

(* Unicode scalar values: what a Python str can hold and encode *)
Definition scalar (c : N) : bool := (c <? 55296) || ((57343 <? c) && (c <? 1114112)).

(* read_input_file on the BYTES of a file: UnicodeDecodeError, or the dictionary of the decoded text *)
Inductive read_result := DecodeError | ReadOk (d : dict).
Definition read_file (bytes : list N) : read_result :=
  match utf8_decode bytes with
  | None => DecodeError
  | Some t => ReadOk (read_text t)
  end.

(* kernel correspondence helpers *)
Definition file_reads_as (bytes : list N) (expected : option (list (ustring * (ustring * (ustring * (ustring * ustring)))))) : bool :=
  match read_file bytes, expected with
  | DecodeError, None => true
  | ReadOk d, Some e => dump_eqb (dump d) e
  | _, _ => false
  end.
Fixpoint memN (x : N) (l : list N) : bool := match l with [] => false | y :: r => (x =? y) || memN x r end.
(* is_ws agrees with a given table of whitespace code points on every code point below [bound] *)
Definition ws_table_ok (table : list N) (bound : N) : bool :=
  N.recursion true (fun c acc => acc && Bool.eqb (is_ws c) (memN c table)) bound.
Definition file_reads_as_nocomment (bytes : list N) (expected : option (list (ustring * (ustring * (ustring * (ustring * ustring)))))) : bool :=
  match utf8_decode bytes, expected with
  | None, None => true
  | Some t, Some e => reads_as_nocomment t e
  | _, _ => false
  end.
