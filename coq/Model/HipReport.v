(* Model/HipReport.v - executable string model of the HIP-RA-X report writer (HIP_RA_X.PrintOutputs: the two
   SUMMARY sections) and of the client's parser (hip_ra.HipRaResult._parse_fields, used by HipRaXClient), and of
   what hip_ra_x.main() publishes when Calculate raises.  Number formatting is Model/Fmt.v (C09).  No proofs here. *)
From Coq Require Import String Ascii QArith Qabs ZArith List Bool.
From Verif Require Import Base.Flat Model.Fmt Model.HipRa.
Import ListNotations.
Open Scope Q_scope.

(* ---- rendering of one value ---- *)
Inductive fkind : Type :=
| KFix    (* render_default:     f'{p.value:10.2f} {unit}' *)
| KSci    (* render_scientific:  f'{p.value:10.2e} {unit}' *)
| KPct.   (* recovery factor:    f'{(100 * p.value):10.2f} {unit}' *)

Definition times100 (v : fval) : fval :=
  match v with Fin q => Fin (100 * q) | other => other end.

Definition number_chars (k : fkind) (v : fval) : list ascii :=
  match k with
  | KFix => fmt_f_chars false v 10 2
  | KSci => fmt_e_chars false v 10 2
  | KPct => fmt_f_chars false (times100 v) 10 2
  end.
Definition render (k : fkind) (v : fval) (unit : list ascii) : list ascii := number_chars k v ++ sp :: unit.

(* v.split(' ')[0]: the text before the first blank (empty when the number is padded) *)
Fixpoint until_space (s : list ascii) : list ascii :=
  match s with [] => [] | c :: r => if Ascii.eqb c sp then [] else c :: until_space r end.
(* kv_spaces = max(1, 24 - (len(v.split(' ')[0]) + len(k))) *)
Definition kv_spaces (label rendered : list ascii) : nat :=
  Nat.max 1 (24 - (length (until_space rendered) + length label)).
(* f'      {k}:{kv_spaces}{v}'  (the line without its newline) *)
Definition hip_line (label rendered : list ascii) : list ascii :=
  repeat sp 6 ++ label ++ ":"%char :: repeat sp (kv_spaces label rendered) ++ rendered.

(* ---- the two sections ---- *)
(* which value (position in hout_list / in the input list) is printed with which renderer, in order *)
Definition result_rows (depth_given pres_given : bool) : list (nat * fkind) :=
  ((if pres_given then [] else [(4, KFix)]) ++ (if depth_given then [] else [(3, KFix)]) ++
   [(0, KFix); (1, KFix); (2, KFix); (15, KSci); (13, KSci); (14, KSci); (7, KSci); (8, KSci);
    (12, KFix); (10, KFix); (11, KFix); (18, KPct); (16, KSci); (17, KSci); (22, KSci); (23, KSci);
    (19, KFix); (20, KFix); (21, KFix)])%nat.
Definition input_rows (depth_given pres_given : bool) : list (nat * fkind) :=
  ([(0, KFix); (1, KFix); (2, KFix); (3, KFix); (4, KFix); (5, KFix); (6, KSci); (7, KFix); (8, KSci); (9, KSci);
    (10, KFix); (11, KFix)] ++ (if depth_given then [(12, KFix)] else []) ++ (if pres_given then [(13, KFix)] else []))%nat.

Definition name_at (names : list (string * string)) (n : nat) : list ascii * list ascii :=
  let p := nth n names (EmptyString, EmptyString) in (chars (fst p), chars (snd p)).

Definition row_line (names : list (string * string)) (vals : list fval) (r : nat * fkind) : list ascii :=
  let '(label, unit) := name_at names (fst r) in
  hip_line label (render (snd r) (nth (fst r) vals (Fin 0)) unit).

Definition section_lines (rows : list (nat * fkind)) (names : list (string * string)) (vals : list fval)
  : list (list ascii) := map (row_line names vals) rows.

Definition nl : ascii := ascii_of_nat 10.
Definition join_lines (ls : list (list ascii)) : list ascii := flat_map (fun l => l ++ [nl]) ls.
Definition section_text (rows : list (nat * fkind)) (names : list (string * string)) (vals : list fval) : string :=
  string_of_list_ascii (join_lines (section_lines rows names vals)).

(* ---- what main() publishes ---- *)
(* main(): try Calculate() except: log;  then PrintOutputs() in any case.  When Calculate raises, every output that
   was assigned before the exception keeps its value and the others keep the 0 they were created with; the report has
   the same lines and no error status.  [assigned e] = how many leading statements of Calculate ran: positions of
   hout_list that are already set, per error site (program order of hip_err). *)
Inductive err_site : Type :=
| SiteHeatCapacity   (* ValueError in heat_capacity_water (T outside 0..600) *)
| SiteMassRock       (* ZeroDivisionError in enthalpy_rock (rock mass 0: porosity 100, area 0 or thickness 0) *)
| SiteHnet           (* ZeroDivisionError stored / fluid_net_enthalpy (equal temperatures) *)
| SiteStored         (* ZeroDivisionError producible / stored *)
| SiteLife
| SiteUtilEff        (* ValueError in UtilEff_func (T outside the table, e.g. > 600 C) *)
| SiteArea
| SiteVolume.

Definition err_site_of (W : water) (i : hin) : option err_site :=
  if c_fhc_derived i && (Qltb (i_Tres i) 0 || Qltb 600 (i_Tres i)) then Some SiteHeatCapacity
  else if Qeqb (c_mass_rock i) 0 then Some SiteMassRock
  else if Qeqb (c_hnet W i) 0 then Some SiteHnet
  else if Qeqb (c_stored W i) 0 then Some SiteStored
  else if Qeqb (c_life_s i) 0 then Some SiteLife
  else match util_eff (i_Tres i) with None => Some SiteUtilEff | Some _ =>
       if Qeqb (i_area i) 0 then Some SiteArea
       else if Qeqb (c_volume i) 0 then Some SiteVolume
       else None end.

(* positions of hout_list already assigned when the exception is raised at [s] *)
Definition assigned_at (s : err_site) : list nat :=
  let upto_mass := [0; 1; 2; 3; 4; 5; 7; 8; 9]%nat in                (* volumes, depth, pressure, density, the three masses *)
  match s with
  | SiteHeatCapacity => upto_mass
  | SiteMassRock => upto_mass ++ [6]%nat                              (* + heat capacity *)
  | SiteHnet => upto_mass ++ [6; 10; 13; 14; 15]%nat                  (* + enthalpy_rock, stored heats *)
  | SiteStored => upto_mass ++ [6; 10; 13; 14; 15; 11; 12; 16; 17]%nat
  | SiteLife => upto_mass ++ [6; 10; 13; 14; 15; 11; 12; 16; 17; 18]%nat
  | SiteUtilEff => upto_mass ++ [6; 10; 13; 14; 15; 11; 12; 16; 17; 18]%nat
  | SiteArea => upto_mass ++ [6; 10; 13; 14; 15; 11; 12; 16; 17; 18; 19]%nat
  | SiteVolume => upto_mass ++ [6; 10; 13; 14; 15; 11; 12; 16; 17; 18; 19; 24; 20]%nat
  end.

(* published fluid mass: the volume x density value until it is overwritten with the produced mass *)
Definition partial_value (W : water) (i : hin) (s : err_site) (n : nat) : Q :=
  if existsb (Nat.eqb n) (assigned_at s) then
    match n, s with
    | 8%nat, (SiteHeatCapacity | SiteMassRock | SiteHnet) => c_mass_fluid0 W i
    | 3%nat, _ => c_depth i
    | 4%nat, _ => c_pres i
    | _, _ => nth n (hout_list (hip_out W i)) 0
    end
  else if (Nat.eqb n 3 || Nat.eqb n 4 || Nat.eqb n 5 || Nat.eqb n 6)%bool
       then nth n [0; 0; 0; i_depth i; i_pres i; i_fdens i; i_fhc i] 0    (* input parameters keep what was read *)
       else 0.

(* the output vector main() goes on to print *)
Definition published (W : water) (i : hin) : list Q :=
  match err_site_of W i with
  | None => hout_list (hip_out W i)
  | Some s => map (partial_value W i s) (seq 0 25)
  end.

(* [inputs...] as run_hip -> published vector (no error code: main() prints it as results) *)
Definition run_published (a : list Q) : res :=
  match a with
  | [Tres; Trej; por; area; thick; life; rhc; fhc; fdens; rdens; rff; rrh; dg; d; pg; p; fdmin; fhcmin;
     dens; cp; h_res; h_rej; s_res; s_rej] =>
      Vals (published (water_of_data Tres dens cp h_res h_rej s_res s_rej)
        {| i_Tres := Tres; i_Trej := Trej; i_por := por; i_area := area; i_thick := thick; i_life := life;
           i_rhc := rhc; i_fhc := fhc; i_fdens := fdens; i_rdens := rdens; i_rff := rff; i_rrh := rrh;
           i_depth_given := qbool dg; i_depth := d; i_pres_given := qbool pg; i_pres := p;
           i_fdens_min := fdmin; i_fhc_min := fhcmin |})
  | _ => Err E_ARGS
  end.

(* ---- the client's parser: re.findall(r'(.+?):\s+([0-9eE.+-]+)\s*(\S+)*?\n', text), one line at a time ---- *)
Definition is_e (c : ascii) : bool := Ascii.eqb c "e"%char || Ascii.eqb c "E"%char.
Definition numclass (c : ascii) : bool :=
  is_digit c || is_e c || Ascii.eqb c "."%char || Ascii.eqb c "+"%char || Ascii.eqb c "-"%char.

Fixpoint span_class (s : list ascii) : list ascii * list ascii :=
  match s with
  | c :: r => if numclass c then let '(a, b) := span_class r in (c :: a, b) else ([], s)
  | [] => ([], [])
  end.

(* float(token) for the tokens a report contains: [-]digits[.digits] and [-]d[.ddd]e(+|-)dd *)
Fixpoint split_at_e (s : list ascii) : option (list ascii * list ascii) :=
  match s with
  | [] => None
  | c :: r => if is_e c then Some ([], r)
              else match split_at_e r with Some (a, b) => Some (c :: a, b) | None => None end
  end.
Definition parse_exp (s : list ascii) : option Z :=
  match s with
  | [] => None
  | c :: r =>
      let '(neg, ds) := if Ascii.eqb c "-"%char then (true, r) else if Ascii.eqb c "+"%char then (false, r) else (false, s) in
      match span_digits false ds with
      | ((_ :: _) as d, []) => Some ((if neg then -1 else 1) * dval d)%Z
      | _ => None
      end
  end.
Definition parse_num (s : list ascii) : option Q :=
  match split_at_e s with
  | Some (m, e) => match parse_dec_chars false m, parse_exp e with
                   | Some q, Some x => Some (q * Qpow10 x)
                   | _, _ => None
                   end
  | None => parse_dec_chars false s
  end.

(* the value a '10.pe' field denotes: printed digits d.ddd times 10^x *)
Definition sci_value (neg : bool) (m x : Z) (p : nat) : Q :=
  ((if neg then -(1) else 1) * (inject_Z (m mod pow10 (S p)) / inject_Z (pow10 p))) * Qpow10 x.
Definition sci_shown (q : Q) (p : nat) : Q :=
  if Qeq_bool q 0 then sci_value false 0 0 p
  else let '(m, x) := sig_round q (S p) in sci_value (qneg q) m x p.
(* the decimal exponent Fmt.ilog10 finds is the right one for q (decidable; holds on every value of every run) *)
Definition sig_ok (q : Q) : bool :=
  let x := ilog10 q in Qle_bool (Qpow10 x) (Qabs q) && negb (Qle_bool (Qpow10 (x + 1)) (Qabs q)).
Definition fval_sig_ok (v : fval) : bool :=
  match v with Fin q => Qeq_bool q 0 || sig_ok q | _ => true end.
(* what a reader / the client gets from a rendered value *)
Definition printed (k : fkind) (q : Q) : Q :=
  match k with KFix => shown q 2 | KSci => sci_shown q 2 | KPct => shown (100 * q) 2 end.

Definition strip (s : list ascii) : list ascii := rev (skip_spaces (rev (skip_spaces s))).
Definition no_space (s : list ascii) : bool := forallb (fun c => negb (Ascii.eqb c sp)) s.

(* the part after a ':' : \s+ number \s* unit? end-of-line *)
Definition parse_after_colon (post : list ascii) : option (Q * option (list ascii)) :=
  match post with
  | c :: _ =>
      if Ascii.eqb c sp then
        let '(tok, rest) := span_class (skip_spaces post) in
        match tok with
        | [] => None
        | _ => let u := skip_spaces rest in
               if no_space u then
                 match parse_num tok with
                 | Some v => Some (v, match u with [] => None | _ => Some u end)
                 | None => None
                 end
               else None
        end
      else None
  | [] => None
  end.

(* the key is the text up to the FIRST ':' after which the rest of the line matches (lazy .+?, at least one char) *)
Fixpoint parse_scan (pre_rev : list ascii) (s : list ascii) : option (list ascii * Q * option (list ascii)) :=
  match s with
  | [] => None
  | c :: r =>
      if Ascii.eqb c ":"%char then
        match pre_rev, parse_after_colon r with
        | _ :: _, Some (v, u) => Some (strip (rev pre_rev), v, u)
        | _, _ => parse_scan (c :: pre_rev) r
        end
      else parse_scan (c :: pre_rev) r
  end.
Definition parse_line (s : list ascii) : option (list ascii * Q * option (list ascii)) := parse_scan [] s.

(* lines of a text (split at newline) *)
Fixpoint lines_acc (cur_rev : list ascii) (s : list ascii) : list (list ascii) :=
  match s with
  | [] => match cur_rev with [] => [] | _ => [rev cur_rev] end
  | c :: r => if Ascii.eqb c nl then rev cur_rev :: lines_acc [] r else lines_acc (c :: cur_rev) r
  end.
Definition lines_of (s : string) : list (list ascii) := lines_acc [] (chars s).

(* HipRaResult(...).result as an association list, in order of appearance *)
Definition parse_report (s : string) : list (list ascii * Q * option (list ascii)) :=
  flat_map (fun l => match parse_line l with Some r => [r] | None => [] end) (lines_of s).

(* labels / units for which a report line is parsed back as written *)
Definition label_ok_b (label : list ascii) : bool :=
  match label with c :: _ => negb (Ascii.eqb c sp) | [] => false end &&
  match rev label with c :: _ => negb (Ascii.eqb c sp) | [] => false end &&
  forallb (fun c => negb (Ascii.eqb c ":"%char)) label.
Definition name_ok_b (p : string * string) : bool := label_ok_b (chars (fst p)) && no_space (chars (snd p)).
Definition unit_opt (u : list ascii) : option (list ascii) := match u with [] => None | _ => Some u end.

(* ---- the legacy program src/hip_ra/HIP_RA.py (USGS volumetric method) ---- *)
(* Its report has the same line layout; its formulas share with HIP-RA-X only: the volume, the fluid mass (all of the
   pore fluid: recoverable factor 1), the heat of the whole volume rhc*(Tres-Trej)*V (HIP-RA-X: rock fraction only,
   times the recoverable-heat factor) and the specific exergy.  Recovery factor, available and producible heat and the
   electricity are different formulas (see the evidence notes) and are not claimed. *)
Definition legacy_rows : list (nat * fkind) :=
  [(0, KFix); (1, KFix); (2, KSci); (3, KSci); (4, KFix); (5, KSci); (6, KPct); (7, KSci); (8, KSci); (9, KFix)]%nat.
Definition legacy_common (W : water) (i : hin) : list Q :=
  [c_volume i; c_volume i * (i_por i / 100) * i_fdens i; c_volume i * (i_rhc i * (i_Tres i - i_Trej i)); c_exergy W i].
(* [Tres; Trej; por; area; thick; rhc; density used; h_res; h_rej; s_res; s_rej] -> [V; mWH; qR; e] *)
Definition run_legacy_common (a : list Q) : res :=
  match a with
  | [Tres; Trej; por; area; thick; rhc; fdens; h_res; h_rej; s_res; s_rej] =>
      Vals (legacy_common (water_of_data Tres 0 0 h_res h_rej s_res s_rej)
        {| i_Tres := Tres; i_Trej := Trej; i_por := por; i_area := area; i_thick := thick; i_life := 1;
           i_rhc := rhc; i_fhc := 0; i_fdens := fdens; i_rdens := 0; i_rff := 1; i_rrh := 1;
           i_depth_given := true; i_depth := 0; i_pres_given := true; i_pres := 0;
           i_fdens_min := 0; i_fhc_min := 0 |})
  | _ => Err E_ARGS
  end.

(* ---- comparisons used by the correspondence ---- *)
Definition fval_of (neg_zero : bool) (q : Q) : fval := if neg_zero then NegZero else Fin q.
Definition opt_chars_eqb (a b : option (list ascii)) : bool :=
  match a, b with
  | None, None => true
  | Some x, Some y => String.eqb (string_of_list_ascii x) (string_of_list_ascii y)
  | _, _ => false
  end.
Fixpoint parsed_agree (tol : Q) (model : list (list ascii * Q * option (list ascii)))
         (impl : list (string * Q * option string)) : bool :=
  match model, impl with
  | [], [] => true
  | (k, v, u) :: mr, (k', v', u') :: ir =>
      String.eqb (string_of_list_ascii k) k' && close tol v v' &&
      opt_chars_eqb u (match u' with Some x => Some (chars x) | None => None end) && parsed_agree tol mr ir
  | _, _ => false
  end.
