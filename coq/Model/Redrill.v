(* Model/Redrill.v - executable model of the redrilling step of WellBores.Calculate (lines 1414-1430):
   np.argmax of the "below the drawdown limit" mask, np.tile of the first cycle, truncation, redrill count;
   and the reflective checkers with which the property is evaluated on series produced by the real code.
   Definitions only; proofs in Proofs/RedrillProofs.v. *)
From Coq Require Import QArith Qabs Qminmax List ZArith Bool PeanoNat.
From Verif Require Import Base.Flat.
Import ListNotations.
Open Scope Q_scope.

(* np.argmax(P < lim): index of the first element below lim, 0 when there is none *)
Fixpoint first_below (lim : Q) (l : list Q) : option nat :=
  match l with
  | [] => None
  | x :: r => if Qltb x lim then Some O
              else match first_below lim r with Some i => Some (S i) | None => None end
  end.
Definition argmax_below (lim : Q) (l : list Q) : nat :=
  match first_below lim l with Some i => i | None => O end.

Fixpoint tile {A : Type} (l : list A) (k : nat) : list A :=
  match k with O => [] | S k' => l ++ tile l k' end.

Definition drawdown_limit (maxdd : Q) (P : list Q) : Q := (1 - maxdd) * hd 0 P.

Record redrilled := { rd_P : list Q; rd_T : list Q; rd_count : nat; rd_index : nat }.

(* P = ProducedTemperature, T = Tresoutput, both before the step *)
Definition redrill (P T : list Q) (maxdd : Q) : redrilled :=
  let idx := argmax_below (drawdown_limit maxdd P) P in
  if Nat.eqb idx 0 then {| rd_P := P; rd_T := T; rd_count := 0; rd_index := 0 |}
  else
    let r := (length P / idx)%nat in
    let Pn := firstn (length P) (tile (firstn idx P) (S r)) in
    {| rd_P := Pn; rd_T := firstn (length Pn) (tile (firstn idx T) (S r)); rd_count := r; rd_index := idx |}.

(* One call of WellBores.Calculate on an object whose redrill count was left at [prev] by an earlier call (district
   heating calls Calculate twice; the reservoir history of the second call is recomputed from scratch).  Since fix
   825a507 the count is reset at the start of the step, so the earlier count never shows. *)
Definition redrill_call (prev : nat) (P T : list Q) (maxdd : Q) : redrilled := redrill P T maxdd.

(* the pinned tree (before the fix) assigned redrill.value only when the step redrills: the earlier count persisted otherwise *)
Definition redrill_call_pinned (prev : nat) (P T : list Q) (maxdd : Q) : redrilled :=
  let r := redrill P T maxdd in
  if Nat.eqb (rd_index r) 0 then {| rd_P := rd_P r; rd_T := rd_T r; rd_count := prev; rd_index := 0 |} else r.

(* ---- reflective checkers (evaluated by vm_compute on the series the real code produced) ---- *)

Definition slack (tol x : Q) : Q := tol * Qmax 1 (Qabs x).

Fixpoint all_ge (lo : Q) (l : list Q) : bool :=
  match l with [] => true | x :: r => if Qleb lo x then all_ge lo r else false end.
Fixpoint all_le (hi : Q) (l : list Q) : bool :=
  match l with [] => true | x :: r => if Qleb x hi then all_le hi r else false end.

(* every element is at least the drawdown limit of the series *)
Definition floor_ok (tol maxdd : Q) (P : list Q) : bool :=
  let lim := drawdown_limit maxdd P in all_ge (lim - slack tol lim) P.

(* l[j + idx] = l[j] wherever both exist *)
Fixpoint prefix_eq (a b : list Q) : bool :=
  match a, b with
  | x :: a', y :: b' => if Qeqb x y then prefix_eq a' b' else false
  | _, _ => true
  end.
Definition periodic (idx : nat) (l : list Q) : bool := prefix_eq (skipn idx l) l.

(* the first period (searched upwards from [from], [fuel] candidates) that reproduces both series and the reported count *)
Fixpoint find_period (fuel from r : nat) (P T : list Q) : option nat :=
  match fuel with
  | O => None
  | S f => if Nat.eqb (length P / from) r && periodic from P && periodic from T then Some from
           else find_period f (S from) r P T
  end.

(* non-increasing except where a new cycle starts; [c] = position of the next element within its cycle *)
Fixpoint noninc_cycles (tol : Q) (idx c : nat) (prev : Q) (l : list Q) : bool :=
  match l with
  | [] => true
  | x :: r =>
      let c' := if Nat.eqb (S c) idx then O else S c in
      if Nat.eqb c 0 then noninc_cycles tol idx c' x r
      else if Qleb x (prev + slack tol prev) then noninc_cycles tol idx c' x r else false
  end.
Definition noninc_between (tol : Q) (idx : nat) (l : list Q) : bool :=
  match l with
  | [] => true
  | x :: r => noninc_cycles tol (if Nat.eqb idx 0 then length l else idx)
                            (if Nat.eqb idx 1 then O else 1%nat) x r
  end.

(* model 2: every value is bottom-hole temperature itself or lies between injection and bottom-hole temperature *)
Fixpoint lhs_range_ok (tol Trock Tinj : Q) (l : list Q) : bool :=
  match l with
  | [] => true
  | x :: r => if Qeqb x Trock || (Qleb (Tinj - slack tol Tinj) x && Qleb x (Trock + slack tol Trock))
              then lhs_range_ok tol Trock Tinj r else false
  end.

(* clause selector of the oracle *)
Definition CL_HEAD : Z := 1.       (* reservoir series starts at bottom-hole temperature *)
Definition CL_FLOOR : Z := 2.      (* production temperature never below the drawdown limit *)
Definition CL_RESTART : Z := 3.    (* series repeat their first cycle; all but possibly the last reported redrilling restart it *)
Definition CL_COUNT : Z := 4.      (* every reported redrilling restarts the profile inside the series *)
Definition CL_MONO : Z := 5.       (* models 3,4: never above bottom-hole temperature, never rising within a cycle *)
Definition CL_LHS : Z := 6.        (* model 2: values outside [Tinj, Trock] replaced by Trock *)

Definition period_of (r : nat) (P T : list Q) : option nat :=
  if Nat.eqb r 0 then Some O else find_period (length P) 1 r P T.

Definition oracle (clause : Z) (tol maxdd Trock Tinj : Q) (r : nat) (T P : list Q) : bool :=
  let n := length P in
  if (clause =? CL_HEAD)%Z then close tol (hd 0 T) Trock
  else if (clause =? CL_FLOOR)%Z then floor_ok tol maxdd P
  else if (clause =? CL_LHS)%Z then lhs_range_ok tol Trock Tinj T
  else match period_of r P T with
       | None => false
       | Some idx =>
           if (clause =? CL_RESTART)%Z then Nat.eqb r 0 || Nat.ltb ((r - 1) * idx) n
           else if (clause =? CL_COUNT)%Z then Nat.eqb r 0 || Nat.ltb (r * idx) n
           else if (clause =? CL_MONO)%Z
                then noninc_between tol idx T && all_le (Trock + slack tol Trock) T
                else false
       end.

(* flat: [clause; tol; maxdd; Trock; Tinj; r; n] ++ T (n) ++ P (n)  ->  [1] when the clause holds, [0] otherwise *)
Definition run_oracle (a : list Q) : res :=
  match a with
  | clause :: tol :: maxdd :: Trock :: Tinj :: r :: n :: rest =>
      let n := qnat n in
      if Nat.eqb (length rest) (2 * n)
      then Vals [boolQ (oracle (qZ clause) tol maxdd Trock Tinj (qnat r) (firstn n rest) (skipn n rest))]
      else Err E_ARGS
  | _ => Err E_ARGS
  end.

(* flat: [mode; tol; maxdd; Trock; Tinj; r; n] ++ T (n) ++ P (n)  ->  one flag per clause 1..6
   mode 1: the monotone clause applies (models 3,4); mode 2: the range clause applies (model 2); 0: neither *)
Definition run_oracle_all (a : list Q) : res :=
  match a with
  | mode :: tol :: maxdd :: Trock :: Tinj :: r :: n :: rest =>
      let n := qnat n in
      if Nat.eqb (length rest) (2 * n)
      then let T := firstn n rest in let P := skipn n rest in
           let f (c : Z) := boolQ (oracle c tol maxdd Trock Tinj (qnat r) T P) in
           Vals [f CL_HEAD; f CL_FLOOR; f CL_RESTART; f CL_COUNT;
                 if Qeqb mode 1 then f CL_MONO else 1; if Qeqb mode 2 then f CL_LHS else 1]
      else Err E_ARGS
  | _ => Err E_ARGS
  end.

(* flat: [maxdd; n; count left by an earlier call] ++ P (n) ++ T (n)  ->  P' ++ T' ++ [count]  (the step alone, arbitrary histories) *)
Definition run_redrill (a : list Q) : res :=
  match a with
  | maxdd :: n :: prev :: rest =>
      let n := qnat n in
      if Nat.eqb (length rest) (2 * n) && negb (Nat.eqb n 0)
      then let rd := redrill_call (qnat prev) (firstn n rest) (skipn n rest) maxdd in
           Vals (rd_P rd ++ rd_T rd ++ [natQ (rd_count rd)])
      else Err E_ARGS
  | _ => Err E_ARGS
  end.
