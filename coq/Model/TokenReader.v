(* Model/TokenReader.v - what Parameter.ReadParameter and the option special cases of the read_parameters methods do
   with the TEXT of a value (C07 round 2): numbers in canonical / other notation, non-numeric text, text with a blank,
   nan / inf, booleans.  Numbers are delegated to Model/RangeReader.  Quirks kept:
   - float('nan') passes every test of the float branch (all comparisons are False) and is stored;
     int(float('nan')) / int(float('inf')) raise errors that do not mention the parameter;
   - non-numeric text dies in float() ("could not convert string to float"), again without the parameter's name;
   - a value with a blank goes to ConvertUnits; for a unit-less parameter that raises, naming the parameter;
   - option parameters: after ReadParameter most modules convert the TEXT with <Enum>.from_input_string, which only
     knows str(int_value): "4.0" or "1e0" pass ReadParameter (int(float(s)) = 4) and then die with
     "Unknown <enum> input value" (strict = true); the others are coerced later with from_int (strict = false);
   - booleans: two word lists, anything else is bool(text), i.e. True for every non-empty text ('maybe', 'FALSE').
   No proofs here. *)
From Coq Require Import QArith ZArith List String Bool.
From Verif Require Import Base.Flat Base.ParamRec Model.RangeReader.
Import ListNotations.
Open Scope Q_scope.

Inductive tok : Type :=
| TCanon (n : Z)     (* the text is exactly str(n): "31" *)
| TNum (v : Q)       (* any other text without blank that float() parses to the finite double v: "4.0", "1e0", "04" *)
| TText              (* float() raises ValueError *)
| TBlank             (* contains a blank: ConvertUnits *)
| TNaN | TPInf | TNInf.

Inductive tout : Type :=
| TAccept (v : Q)
| TUnchanged
| TRejectNamed (name : string)   (* an exception whose message contains the parameter's name *)
| TErrAnon                       (* an exception that does not *)
| TAcceptNaN.                    (* .value = nan, Provided = True *)

Definition lift (o : outcome) : tout :=
  match o with Accept v => TAccept v | Unchanged => TUnchanged | Reject n => TRejectNamed n | Crash => TErrAnon end.
Definition lower (o : tout) : outcome :=
  match o with TAccept v => Accept v | TUnchanged => Unchanged | TRejectNamed n => Reject n | _ => Crash end.

Definition tok_num (t : tok) : option Q :=
  match t with TCanon n => Some (inject_Z n) | TNum v => Some v | _ => None end.
Definition is_canon (t : tok) : bool := match t with TCanon _ => true | _ => false end.

(* ReadParameter, float and int parameters *)
Definition read_tok (p : param) (t : tok) : tout :=
  match tok_num t with
  | Some v => lift (read_param p v)
  | None =>
      match t, p_kind p with
      | TBlank, _ => TRejectNamed (p_name p)        (* claimed for unit-less parameters only (UnitType NONE); units are C06 *)
      | TNaN, KFloat => TAcceptNaN
      | (TPInf | TNInf), KFloat => TRejectNamed (p_name p)
      | _, _ => TErrAnon
      end
  end.

(* the module's read_parameters for an option parameter: ReadParameter, then the special case on the TEXT:
   strict  - <Enum>.from_input_string(sValue) raises "Unknown <enum label> input value: .." for anything but
             str(int_value); named = the enum label contains the parameter's name ("Economic Model" does,
             "Configuration" for 'Closed-loop Configuration' does not);
   else_to - an if / elif chain on sValue == '1', '2', ... whose final else assigns one fixed member (Fracture Shape:
             every text that is not exactly '1', '2' or '3' - "1.0", "2e0" - ends as member 4);
   neither - the integer is coerced later with from_int. *)
Definition read_option (strict named : bool) (else_to : option Z) (p : param) (t : tok) : tout :=
  let conv (o : tout) : tout :=
    if is_canon t then o
    else if strict then (if named then TRejectNamed (p_name p) else TErrAnon)
    else match else_to with Some m => TAccept (inject_Z m) | None => o end in
  match read_tok p t with
  | TAccept v => conv (TAccept v)
  | TUnchanged => conv TUnchanged
  | o => o
  end.

(* the property on an observed outcome: numbers as in RangeReader.spec_ok; everything that is not a number is outside
   every documented range / set and must be rejected by an error that names the parameter *)
Definition tspec_ok (p : param) (t : tok) (o : tout) : bool :=
  match tok_num t with
  | Some v => spec_ok p v (lower o)
  | None => match o with TRejectNamed n => String.eqb n (p_name p) | _ => false end
  end.

(* lenient variant for option text such as "4.0": accepted-and-used or rejected by name are both fine *)
Definition tspec_option_ok (p : param) (t : tok) (o : tout) : bool :=
  tspec_ok p t o || (negb (is_canon t) && match o with TRejectNamed n => String.eqb n (p_name p) | _ => false end).

(* ---- option table: (row of Gen/ParamTable, strict, int_value of every member of ValuesEnum) ---- *)
Definition orow : Type := (nat * bool * bool * option Z * list Z)%type.
Definition memZb (n : Z) (l : list Z) : bool := existsb (Z.eqb n) l.
Definition runs_members (rs : list (Z * Z)) : list Z :=
  flat_map (fun r => map (fun k => (fst r + Z.of_nat k)%Z) (seq 0 (Z.to_nat (snd r - fst r + 1)))) rs.
(* every value of the AllowableRange is a member of the enum: from_input_string / from_int never fail on an accepted value *)
Definition option_ok (t : list param) (r : orow) : bool :=
  match r with
  | (i, _, _, _, ms) =>
      let p := nth i t dummy_param in
      pkind_eqb (p_kind p) KInt && forallb (fun n => memZb n ms) (runs_members (p_range p))
  end.

(* ---- booleans ---- *)
Open Scope string_scope.
Definition false_words : list string := ["0"; "false"; "False"; "f"; "F"; "no"; "No"; "n"; "N"].
Definition true_words : list string := ["1"; "true"; "True"; "t"; "T"; "yes"; "Yes"; "y"; "Y"].
Definition in_words (s : string) (l : list string) : bool := existsb (String.eqb s) l.
Definition read_bool (s : string) : bool :=
  if in_words s false_words then false else if in_words s true_words then true else negb (String.eqb s "").
Definition bool_documented (s : string) : bool := in_words s false_words || in_words s true_words.
Close Scope string_scope.

(* ---- harness cases ---- *)
(* row, token, strict, named, else_to, observed outcome *)
Definition tcase : Type := (nat * tok * bool * bool * option Z * tout)%type.
Definition tout_eqb (a b : tout) : bool :=
  match a, b with
  | TAccept x, TAccept y => Qeq_bool x y
  | TUnchanged, TUnchanged | TErrAnon, TErrAnon | TAcceptNaN, TAcceptNaN => true
  | TRejectNamed n, TRejectNamed m => String.eqb n m
  | TAccept x, TUnchanged | TUnchanged, TAccept x => false
  | _, _ => false
  end.
(* observables only: the same kind of error, or the same value in use *)
Definition tobs_eqb (p : param) (a b : tout) : bool :=
  match a, b with
  | (TAccept _ | TUnchanged), (TAccept _ | TUnchanged) => oQ_eqb (final p (lower a)) (final p (lower b))
  | _, _ => tout_eqb a b
  end.
Definition tcase_agrees (t : list param) (c : tcase) : bool :=
  match c with (i, k, strict, nm, e, o) => let p := nth i t dummy_param in tobs_eqb p (read_option strict nm e p k) o end.
Definition tcase_spec (t : list param) (c : tcase) : bool :=
  match c with (i, k, strict, _, _, o) => let p := nth i t dummy_param in
    if strict then tspec_option_ok p k o else tspec_ok p k o end.
Definition run_tcases (f : list param -> tcase -> bool) (t : list param) (cs : list tcase) : nat * list nat :=
  (List.length cs, mismatches (f t) 0 cs).
Definition bad_options (t : list param) (rs : list orow) : nat * list nat := (List.length rs, mismatches (option_ok t) 0 rs).
(* text, observed stored value (None: raised) *)
Definition bcase : Type := (string * option bool)%type.
Definition bcase_agrees (c : bcase) : bool :=
  match snd c with Some b => Bool.eqb (read_bool (fst c)) b | None => false end.
Definition bcase_spec (c : bcase) : bool :=
  match snd c with Some b => bool_documented (fst c) && Bool.eqb (read_bool (fst c)) b | None => negb (bool_documented (fst c)) end.
Definition run_bcases (f : bcase -> bool) (cs : list bcase) : nat * list nat := (List.length cs, mismatches f 0 cs).
