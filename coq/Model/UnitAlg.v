(* Model/UnitAlg.v - what a unit of the program's catalogue MEANS: an affine map to the registry's base units.
   base = fac * x + off   (degF: fac 5/9, off 45967/180 kelvin;  ft: fac 381/1250 m, off 0).
   The numbers come from the program's own pint registry (Gen/UnitCatalogue.v, regenerated on every run).
   Executable definitions only. *)
From Coq Require Import QArith List ZArith Bool String.
From Verif Require Import Base.Flat.
Import ListNotations.
Open Scope Q_scope.

Record punit : Type := mkPU {
  pu_canon : string;   (* str(Quantity.units): pint's long name of the unit container, e.g. "degree_Celsius" *)
  pu_dim : nat;        (* index of the dimensionality in Gen.gen_dims *)
  pu_fac : Q;
  pu_off : Q }.

Definition to_base (u : punit) (x : Q) : Q := pu_fac u * x + pu_off u.
Definition from_base (u : punit) (b : Q) : Q := (b - pu_off u) / pu_fac u.

(* Quantity(x, u).to(v).magnitude *)
Definition convert (u v : punit) (x : Q) : Q := from_base v (to_base u x).

Definition same_dim (u v : punit) : bool := Nat.eqb (pu_dim u) (pu_dim v).

(* two spellings of one unit ("m" / "meter", "degK" / "kelvin") *)
Definition pu_same (u v : punit) : bool :=
  Nat.eqb (pu_dim u) (pu_dim v) && Qeq_bool (pu_fac u) (pu_fac v) && Qeq_bool (pu_off u) (pu_off v).

(* units without an offset: conversion is multiplication by one factor *)
Definition linear (u : punit) : bool := Qeq_bool (pu_off u) 0.
Definition conv_factor (u v : punit) : Q := pu_fac u / pu_fac v.
