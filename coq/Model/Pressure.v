(* Model/Pressure.v - executable model of WellBores.ReservoirPressurePredictor,
   WellBores.InjectionReservoirPressurePredictor and of the branch of WellBores.Calculate that decides which
   injection-reservoir pressure series a run gets.  No proofs here. *)
From Coq Require Import QArith Qminmax Qround List ZArith Bool.
From Verif Require Import Base.Flat.
Import ListNotations.
Open Scope Q_scope.

(* UnboundLocalError (Calculate reads injection_reservoir_static_pressure before any assignment) *)
Definition E_UNBOUND : Z := 5.

(* Python int(x): truncation toward zero *)
Definition Qtrunc (q : Q) : Z := Z.quot (Qnum q) (Zpos (Qden q)).

(* for timestep in range(t, t+rem):
     pressure[timestep] = pressure[0] - change*timestep
     if pressure[timestep] < initial: pressure[timestep] = initial; break      (the rest keeps the initial fill) *)
Fixpoint prod_loop (pf change p0 : Q) (t rem : nat) : list Q :=
  match rem with
  | O => []
  | S r =>
      let v := pf - change * natQ t in
      if Qltb v p0 then repeat p0 (S r) else v :: prod_loop pf change p0 (S t) r
  end.

(* depletion_timesteps = int((100.0 / depletion_rate) * timesteps_per_year); 100.0/0 raises *)
Definition depletion_steps (rate : Q) (k : nat) : option Z :=
  if Qeqb rate 0 then None else Some (Qtrunc ((100 / rate) * natQ k)).

(* ReservoirPressurePredictor(project_lifetime_yr, timesteps_per_year, initial_pressure_kPa,
                              overpressure_percentage, depletion_rate), for a given value of the step-count expression
   ([None]: 100.0/0 raised) *)
Definition prod_pressure_with (life k : nat) (p0 op : Q) (steps : option Z) : res :=
  let n := (life * k)%nat in
  if Qeqb op 100 then Vals (repeat p0 n)
  else match n with
       | O => Err E_INDEX                                   (* pressure[0] = ... on an empty list *)
       | S r =>
           let pf := p0 * (op / 100) in
           let delta := pf - p0 in
           match steps with
           | None => Err E_ZERODIV                          (* 100.0 / 0 *)
           | Some s =>
               if Z.eqb s 0 then Err E_ZERODIV              (* delta_pressure / 0 *)
               else Vals (pf :: prod_loop pf (delta / inject_Z s) p0 1 r)
           end
       end.

Definition prod_pressure (life k : nat) (p0 op rate : Q) : res :=
  prod_pressure_with life k p0 op (depletion_steps rate k).

(* InjectionReservoirPressurePredictor(project_lifetime_yr, timesteps_per_year, initial_pressure_kPa, inflation_rate) *)
Definition inj_pressure (life k : nat) (p0 rate : Q) : res :=
  let n := (life * k)%nat in
  if Qeqb rate 0 then Vals (repeat p0 n)
  else match n with
       | O => Err E_INDEX
       | S r => Vals (p0 :: map (fun t => p0 + (rate / natQ k) * natQ t) (seq 1 r))
       end.

(* WellBores.Calculate, lines "if self.overpressure_percentage.Provided: ... else: ...":
   with an overpressure input the injection series is the inflation predictor started at the hydrostatic pressure
   of the injection reservoir ([p_inj], a CoolProp value: data) - but the variable that computation needs is only
   assigned when an injection-reservoir depth or inflation rate was provided;
   without an overpressure input the injection series is the production series. *)
Definition inj_stage (op_provided depth_provided infl_provided : bool) (life k : nat) (p_inj infl : Q) (prod : res) : res :=
  if op_provided
  then if depth_provided || infl_provided then inj_pressure life k p_inj infl else Err E_UNBOUND
  else prod.

(* TypeError ('<' between list and int) *)
Definition E_TYPE : Z := 6.

(* A SECOND call of WellBores.Calculate on the same model (district heating: Model.Calculate runs the wellbores again
   after the surface plant).  The first call has stored the series in injection_reservoir_pressure.value, and the
   split-reservoir branch starts with `if self.injection_reservoir_pressure.value < 0`, a list compared with an int. *)
Definition inj_stage_second_pass (op_provided depth_provided infl_provided : bool) (life k : nat) (p_inj infl : Q) (prod : res) : res :=
  if op_provided
  then if depth_provided || infl_provided then Err E_TYPE else Err E_UNBOUND
  else prod.

(* the closed forms the theorems relate the loops to *)
Definition prod_closed (p0 op : Q) (s : Z) (t : nat) : Q :=
  let pf := p0 * (op / 100) in Qmax p0 (pf - ((pf - p0) / inject_Z s) * natQ t).
Definition inj_closed (p0 rate : Q) (k t : nat) : Q := p0 + (rate / natQ k) * natQ t.

(* ---- reflective checkers evaluated on implementation output ---- *)
Fixpoint nonincreasing (l : list Q) : bool :=
  match l with
  | x :: ((y :: _) as r) => Qleb y x && nonincreasing r
  | _ => true
  end.
Fixpoint nondecreasing (l : list Q) : bool :=
  match l with
  | x :: ((y :: _) as r) => Qleb x y && nondecreasing r
  | _ => true
  end.
Fixpoint increasing (l : list Q) : bool :=
  match l with
  | x :: ((y :: _) as r) => Qltb x y && increasing r
  | _ => true
  end.
Definition all_ge (b : Q) (l : list Q) : bool := forallb (fun x => Qleb b x) l.

(* production series: starts at p0*op/100 (within tol), never rises, never below hydrostatic *)
Definition check_prod_series (tol p0 op : Q) (l : list Q) : bool :=
  match l with
  | [] => true
  | x :: _ => close tol x (p0 * (op / 100)) && nonincreasing l && all_ge p0 l
  end.

(* injection series: starts at p0, step t is p0 + rate/k*t (within tol), and rises when rate > 0 *)
Fixpoint inj_steps_ok (tol p0 rate : Q) (k t : nat) (l : list Q) : bool :=
  match l with
  | [] => true
  | x :: r => close tol x (inj_closed p0 rate k t) && inj_steps_ok tol p0 rate k (S t) r
  end.
Definition check_inj_series (tol p0 rate : Q) (k : nat) (l : list Q) : bool :=
  inj_steps_ok tol p0 rate k 0 l && (if Qltb 0 rate then increasing l else true).

(* ---- flat interface ---- *)
(* [life; k; p0; op; rate] *)
Definition run_prod_pressure (a : list Q) : res :=
  match a with
  | [life; k; p0; op; rate] => prod_pressure (qnat life) (qnat k) p0 op rate
  | _ => Err E_ARGS
  end.
(* [life; k; p0; op; steps]: the step count as the code's float expression evaluated it (inputs on which float and
   exact truncation differ) *)
Definition run_prod_pressure_steps (a : list Q) : res :=
  match a with
  | [life; k; p0; op; s] => prod_pressure_with (qnat life) (qnat k) p0 op (Some (qZ s))
  | _ => Err E_ARGS
  end.
(* [life; k; p0; rate] *)
Definition run_inj_pressure (a : list Q) : res :=
  match a with
  | [life; k; p0; rate] => inj_pressure (qnat life) (qnat k) p0 rate
  | _ => Err E_ARGS
  end.
(* [op_provided; depth_provided; infl_provided; life; k; p_inj; infl] ++ production series *)
Definition run_inj_stage (a : list Q) : res :=
  match a with
  | opp :: dp :: ip :: life :: k :: p_inj :: infl :: prod =>
      inj_stage (qbool opp) (qbool dp) (qbool ip) (qnat life) (qnat k) p_inj infl (Vals prod)
  | _ => Err E_ARGS
  end.

(* the same arguments, second pass *)
Definition run_inj_stage2 (a : list Q) : res :=
  match a with
  | opp :: dp :: ip :: life :: k :: p_inj :: infl :: prod =>
      inj_stage_second_pass (qbool opp) (qbool dp) (qbool ip) (qnat life) (qnat k) p_inj infl (Vals prod)
  | _ => Err E_ARGS
  end.
