(* Model/CashFlow.v - executable model of the cash-flow assembly of Economics.Calculate
   (Economics.py: CalculateRevenue, CalculateCarbonRevenue, the inline CAPEX spread / OPEX subtraction /
   running sum, the payback loop) and of CalculateFinancialPerformance / calculate_npv.
   Definitions only; proofs are in Proofs/CashFlowProofs.v. *)
From Coq Require Import QArith Qabs Qminmax List ZArith Bool.
From Verif Require Import Base.Flat.
Import ListNotations.
Open Scope Q_scope.

(* element-wise combination of two series, truncated to the shorter (callers check lengths) *)
Fixpoint map2 {A B C : Type} (f : A -> B -> C) (a : list A) (b : list B) : list C :=
  match a, b with
  | x :: a', y :: b' => f x y :: map2 f a' b'
  | _, _ => []
  end.

Definition zeros (n : nat) : list Q := repeat 0 n.
Definition million : Q := 1000000 # 1.

(* CalculateRevenue: CashFlow[i] = Energy[i-cy]*Price[i-cy]/1e6 for operating years, 0 in construction years *)
Definition rev_ops (energy price : list Q) : list Q := map2 (fun e p => e * p / million) energy price.
Definition revenue (cy : nat) (energy price : list Q) : list Q := zeros cy ++ rev_ops energy price.

(* which products a configuration sells *)
Inductive kind := KElec | KHeat | KCool | KCogen.

(* CalculateCarbonRevenue: avoided CO2 [lb] per operating year, by end-use *)
Definition carbon_lbs_ops (k : kind) (gi ni : Q) (eE eH : list Q) : list Q :=
  match k with
  | KElec => map (fun e => e * gi + 0 * ni) eE
  | KHeat | KCool => map (fun h => 0 * gi + h * ni) eH      (* end-use HEAT: heat component only *)
  | KCogen => map2 (fun e h => e * gi + h * ni) eE eH
  end.
Definition carbon_rev_ops (k : kind) (gi ni : Q) (eE eH pCarb : list Q) : list Q :=
  map2 (fun lbs p => lbs * p / million) (carbon_lbs_ops k gi ni eE eH) pCarb.

(* product revenue of operating years, by end-use (the branch structure of Economics.Calculate) *)
Definition product_rev_ops (k : kind) (eE eH eC pE pH pC : list Q) : list Q :=
  match k with
  | KElec => rev_ops eE pE
  | KHeat => rev_ops eH pH
  | KCool => rev_ops eC pC
  | KCogen => map2 Qplus (rev_ops eE pE) (rev_ops eH pH)
  end.

Record cf_in := {
  ci_kind : kind; ci_cy : nat; ci_ccap : Q; ci_coam : Q;
  ci_carbon : bool; ci_gi : Q; ci_ni : Q;
  ci_eE : list Q; ci_eH : list Q; ci_eC : list Q;
  ci_pE : list Q; ci_pH : list Q; ci_pC : list Q; ci_pCarb : list Q }.

Definition total_ops (c : cf_in) : list Q :=
  let base := product_rev_ops (ci_kind c) (ci_eE c) (ci_eH c) (ci_eC c) (ci_pE c) (ci_pH c) (ci_pC c) in
  let withc := if ci_carbon c
               then map2 Qplus base (carbon_rev_ops (ci_kind c) (ci_gi c) (ci_ni c) (ci_eE c) (ci_eH c) (ci_pCarb c))
               else base in
  map (fun r => r - ci_coam c) withc.

Definition capex_year (c : cf_in) : Q := - (1) * (ci_ccap c / natQ (ci_cy c)).

(* TotalRevenue: construction years carry minus an equal share of CCap, operating years revenue - Coam *)
Definition total_cashflow (c : cf_in) : list Q := repeat (capex_year c) (ci_cy c) ++ total_ops c.

(* running sum: cum[0] = cf[0], cum[i] = cum[i-1] + cf[i] *)
Fixpoint running_from (acc : Q) (l : list Q) : list Q :=
  match l with
  | [] => []
  | x :: r => let a := acc + x in a :: running_from a r
  end.
Definition running (l : list Q) : list Q := running_from 0 l.

(* same values, reduced fractions while executing (Proofs: running_red_eq) *)
Fixpoint running_red_from (acc : Q) (l : list Q) : list Q :=
  match l with
  | [] => []
  | x :: r => let a := Qred (acc + x) in a :: running_red_from a r
  end.

Definition cumulative (c : cf_in) : list Q := running (total_cashflow c).

(* payback loop of Economics.Calculate:
     for i in range(len(cum)):  if cum[i] > 0 >= cum[i-1]:  payback = i + |cum[i-1]| / (cum[i] + |cum[i-1]|)
   with Python's cum[-1] (the LAST element) at i = 0; the last crossing wins; 0.0 when there is none. *)
Fixpoint payback_loop (prev : Q) (i : nat) (l : list Q) (acc : Q) : Q :=
  match l with
  | [] => acc
  | c :: r =>
      let acc' := if Qltb 0 c && Qleb prev 0 then natQ i + Qabs prev / (c + Qabs prev) else acc in
      payback_loop c (S i) r acc'
  end.
Definition payback (cum : list Q) : Q := payback_loop (last cum 0) 0 cum 0.

(* numpy_financial.npv(rate, values) = sum_t values[t] / (1+rate)^t, written in Horner form *)
Fixpoint npv (r : Q) (cf : list Q) : Q :=
  match cf with
  | [] => 0
  | x :: rest => x + npv r rest / (1 + r)
  end.
Fixpoint npv_red (r : Q) (cf : list Q) : Q :=
  match cf with
  | [] => 0
  | x :: rest => Qred (x + npv_red r rest / (1 + r))
  end.
(* calculate_npv: Excel-style discounting prepends a zero *)
Definition calculate_npv (r : Q) (cf : list Q) (discount_initial : bool) : Q :=
  if discount_initial then npv r (0 :: cf) else npv r cf.
Definition calculate_npv_red (r : Q) (cf : list Q) (discount_initial : bool) : Q :=
  if discount_initial then npv_red r (0 :: cf) else npv_red r cf.

(* the closed (Sigma) form the documentation states, used as the specification *)
Fixpoint npv_sigma_from (r : Q) (t : nat) (cf : list Q) : Q :=
  match cf with
  | [] => 0
  | x :: rest => x / Qpower (1 + r) (Z.of_nat t) + npv_sigma_from r (S t) rest
  end.

(* CalculateFinancialPerformance *)
Definition vir (npv_value capex : Q) : Q := 1 + npv_value / capex.
Definition moic (cum : list Q) (capex opex : Q) (lifetime : nat) : Q :=
  last cum 0 / (capex + opex * natQ lifetime).

(* ---------------------------------------------------------------------------------------------
   Correspondence entry points (evaluated by vm_compute on implementation data)               *)

Definition lens_ok (c : cf_in) (life : nat) : bool :=
  let need l := Nat.eqb (length l) life in
  need (ci_pE c) && need (ci_pH c) && need (ci_pC c) && need (ci_pCarb c) &&
  match ci_kind c with
  | KElec => need (ci_eE c)
  | KHeat => need (ci_eH c)
  | KCool => need (ci_eC c) && (negb (ci_carbon c) || need (ci_eH c))
  | KCogen => need (ci_eE c) && need (ci_eH c)
  end.

Definition scale_of (l : list Q) : Q := fold_right (fun x m => Qmax (Qabs x) m) 1 l.

Fixpoint all_close_scale (tol scale : Q) (a b : list Q) : bool :=
  match a, b with
  | [], [] => true
  | x :: a', y :: b' => close_scale tol scale x y && all_close_scale tol scale a' b'
  | _, _ => false
  end.

(* per-product revenue series as reported (zeros when the product is not sold) *)
Definition elec_revenue (c : cf_in) (life : nat) : list Q :=
  match ci_kind c with KElec | KCogen => revenue (ci_cy c) (ci_eE c) (ci_pE c) | _ => zeros (ci_cy c + life) end.
Definition heat_revenue (c : cf_in) (life : nat) : list Q :=
  match ci_kind c with KHeat | KCogen => revenue (ci_cy c) (ci_eH c) (ci_pH c) | _ => zeros (ci_cy c + life) end.
Definition cool_revenue (c : cf_in) (life : nat) : list Q :=
  match ci_kind c with KCool => revenue (ci_cy c) (ci_eC c) (ci_pC c) | _ => zeros (ci_cy c + life) end.
Definition carbon_revenue (c : cf_in) (life : nat) : list Q :=
  if ci_carbon c then zeros (ci_cy c) ++ carbon_rev_ops (ci_kind c) (ci_gi c) (ci_ni c) (ci_eE c) (ci_eH c) (ci_pCarb c)
  else zeros (ci_cy c + life).

(* does the implementation's set of series agree with the model (relative tolerance, scaled)? *)
Definition cf_agree (tol : Q) (c : cf_in) (life : nat)
           (iE iH iC iCarb iTot iCum : list Q) : bool :=
  lens_ok c life &&
  let tot := total_cashflow c in
  let sc := scale_of tot in
  all_close tol (elec_revenue c life) iE && all_close tol (heat_revenue c life) iH &&
  all_close tol (cool_revenue c life) iC && all_close tol (carbon_revenue c life) iCarb &&
  all_close_scale tol sc tot iTot &&
  all_close_scale tol (scale_of iCum) (running_red_from 0 tot) iCum.

(* stage checks on the implementation's own series (decisions are then taken on identical data) *)
Definition cum_agree (tol : Q) (iTot iCum : list Q) : bool :=
  all_close_scale tol (scale_of iCum) (running_red_from 0 iTot) iCum.
Definition payback_agree (tol : Q) (iCum : list Q) (iPayback : Q) : bool :=
  close tol (payback iCum) iPayback.
Definition metrics_agree (tol : Q) (rate_percent : Q) (disc : bool) (capex opex : Q) (life : nat)
           (iTot iCum : list Q) (iNPV iVIR iMOIC : Q) : bool :=
  let sc := sumQ_red (map Qabs iTot) in
  let n := calculate_npv (rate_percent / 100) iTot disc in   (* Horner form without reduction: numerals grow linearly *)
  close_scale tol sc n iNPV &&
  close_scale tol (sc / Qabs capex) (vir iNPV capex) iVIR &&
  close tol (moic iCum capex opex life) iMOIC.
(* a reported non-zero IRR [percent] zeroes the NPV of the series (numpy convention); the residual is measured
   against the sum of the absolute discounted terms at that rate (near r = -1 the terms are huge) *)
Definition irr_is_root (tol : Q) (irr_percent : Q) (iTot : list Q) : bool :=
  let r := irr_percent / 100 in
  let sc := npv (Qabs (1 + r) - 1) (map Qabs iTot) in
  Qle_bool (Qabs (npv r iTot)) (tol * sc).

(* ---------------------------------------------------------------------------------------------
   Add-ons (EconomicsAddOns.Calculate): the add-on totals enter the project cash flow additively   *)
Record addon_in := {
  a_kind : kind;                 (* KElec: electricity only; KHeat / KCool: end-use HEAT; KCogen: both *)
  a_cy : nat; a_ccap : Q; a_coam : Q;
  a_capex : Q; a_opex : Q; a_egain : Q; a_hgain : Q; a_profit : Q;     (* add-on totals *)
  a_net : list Q; a_heat : list Q;                                    (* yearly kWh (add-on gains already included) *)
  a_pE : list Q; a_pH : list Q }.                                      (* yearly prices, operating years only *)

Definition sells_elec (k : kind) : bool := match k with KElec | KCogen => true | _ => false end.
Definition sells_heat (k : kind) : bool := match k with KElec => false | _ => true end.

Definition addon_elec_revenue (a : addon_in) : list Q :=
  map (fun p => (if sells_elec (a_kind a) then a_egain a else 0) * p / million) (a_pE a).
Definition addon_heat_revenue (a : addon_in) : list Q :=
  map (fun p => (if sells_heat (a_kind a) then a_hgain a else 0) * p / million) (a_pH a).
Definition addon_revenue (a : addon_in) : list Q :=
  map2 (fun e h => e + h + a_profit a - a_opex a) (addon_elec_revenue a) (addon_heat_revenue a).
Definition addon_cashflow (a : addon_in) : list Q :=
  repeat (- (1) * (a_capex a / natQ (a_cy a))) (a_cy a) ++ addon_revenue a.

(* the base project's own operating cash flow: (E*pE + H*pH)/1e6 - Coam *)
Definition project_ops (a : addon_in) : list Q :=
  let eE := if sells_elec (a_kind a) then a_net a else map (fun _ => 0) (a_net a) in
  let eH := if sells_heat (a_kind a) then a_heat a else map (fun _ => 0) (a_heat a) in
  map2 (fun ep hp => (ep + hp) / million - a_coam a) (map2 Qmult eE (a_pE a)) (map2 Qmult eH (a_pH a)).
Definition addon_project_cashflow (a : addon_in) : list Q :=
  repeat (- (1) * ((a_ccap a + a_capex a) / natQ (a_cy a))) (a_cy a) ++ map2 Qplus (addon_revenue a) (project_ops a).

(* add-on payback: crossing of the add-on cumulative cash flow between consecutive years (no wrap-around here) *)
Definition addon_payback (initial : Q) (cum : list Q) : Q :=
  match cum with [] => initial | c0 :: rest => payback_loop c0 1 rest initial end.

Definition addon_agree (tol : Q) (a : addon_in) (life : nat) (rate_percent : Q) (disc : bool)
           (iERev iHRev iRev iACF iPCF iACum iPCum : list Q) (iNPV iVIR iMOIC iAdjCapex iAdjOpex : Q) : bool :=
  let pcf := addon_project_cashflow a in
  let sc := scale_of pcf in
  Nat.eqb (length (a_pE a)) life && Nat.eqb (length (a_pH a)) life &&
  Nat.eqb (length (a_net a)) life && Nat.eqb (length (a_heat a)) life &&
  all_close tol (addon_elec_revenue a) iERev && all_close tol (addon_heat_revenue a) iHRev &&
  all_close_scale tol sc (addon_revenue a) iRev && all_close_scale tol sc (addon_cashflow a) iACF &&
  all_close_scale tol sc pcf iPCF &&
  all_close_scale tol (scale_of iACum) (running_red_from 0 iACF) iACum &&
  all_close_scale tol (scale_of iPCum) (running_red_from 0 iPCF) iPCum &&
  close tol (a_ccap a + a_capex a) iAdjCapex && close tol (a_coam a + a_opex a) iAdjOpex &&
  let ssum := sumQ_red (map Qabs iPCF) in
  close_scale tol ssum (calculate_npv (rate_percent / 100) iPCF disc) iNPV &&
  close_scale tol (ssum / Qabs iAdjCapex) (vir iNPV iAdjCapex) iVIR &&
  close tol (last iPCum 0 / (iAdjCapex + iAdjOpex * natQ life)) iMOIC.
