(* Model/Memo.v - executable model of functools.lru_cache as GEOPHIRES-X uses it (C08):
     * module-level helpers (water properties, ...) memoised on their argument VALUES (keys compared with ==),
     * methods (Reservoir.Calculate, ...) memoised on (self, model): objects with the default identity hash/eq,
       so the key is the object's identity while the body reads the object's STATE.
   The table keeps the most recently used entry first; a hit moves its entry to the front; a miss computes,
   inserts at the front and drops the least recently used entries beyond maxsize.  No proofs here. *)
From Coq Require Import List Bool Arith NArith String.
Import ListNotations.

Section Memo.
  Variables K V : Type.
  Variable keq : K -> K -> bool.   (* Python's key equality (== on the argument tuple) *)
  Variable f : K -> V.             (* the undecorated function *)

  Definition table : Type := list (K * V).

  Fixpoint find_entry (x : K) (t : table) : option (K * V) :=
    match t with
    | [] => None
    | (k, v) :: r => if keq x k then Some (k, v) else find_entry x r
    end.

  Fixpoint remove_entry (x : K) (t : table) : table :=
    match t with
    | [] => []
    | (k, v) :: r => if keq x k then r else (k, v) :: remove_entry x r
    end.

  (* maxsize: None = unbounded; Some n = keep the n most recent *)
  Definition trim (m : option nat) (t : table) : table :=
    match m with None => t | Some n => firstn n t end.

  (* one call through the decorator: (value returned, was it a hit, new table) *)
  Definition memo_call (m : option nat) (t : table) (x : K) : V * bool * table :=
    match find_entry x t with
    | Some (k, v) => (v, true, (k, v) :: remove_entry x t)
    | None => let v := f x in (v, false, trim m ((x, v) :: t))
    end.

  Fixpoint memo_calls (m : option nat) (t : table) (xs : list K) : list (V * bool) * table :=
    match xs with
    | [] => ([], t)
    | x :: r =>
        let '(v, h, t') := memo_call m t x in
        let (vs, t'') := memo_calls m t' r in ((v, h) :: vs, t'')
    end.
End Memo.

Arguments find_entry {K V}.
Arguments remove_entry {K V}.
Arguments trim {K V}.
Arguments memo_call {K V}.
Arguments memo_calls {K V}.

(* identity-keyed use: a call is (identity of self, state of self at call time); the key is the identity only,
   the body reads the state - NOT a function of the key *)
Definition id_keq {S : Type} (a b : nat * S) : bool := Nat.eqb (fst a) (fst b).
Definition id_calls {S V : Type} (body : S -> V) (m : option nat) (calls : list (nat * S)) : list (V * bool) :=
  fst (memo_calls id_keq (fun c => body (snd c)) m [] calls).

(* instance run against functools.lru_cache by the correspondence: keys are numbers, the function is the identity;
   result = the hit/miss pattern *)
Definition lru_hits (m : option nat) (xs : list nat) : list bool :=
  map snd (fst (memo_calls Nat.eqb (fun x => x) m [] xs)).

Fixpoint bools_eqb (a b : list bool) : bool :=
  match a, b with
  | [], [] => true
  | x :: a', y :: b' => Bool.eqb x y && bools_eqb a' b'
  | _, _ => false
  end.

(* ---------- the memoised callables of the source tree (table regenerated into Gen/C08MemoTable.v) ---------- *)
Inductive param_kind : Type :=
| PFloat | PInt | PStr | PBool      (* immutable scalars: equal keys are equal values *)
| PQuantityOpt                      (* Optional[pint quantity]: hashed and compared by value *)
| PObject (default_hash_eq : bool)  (* an object; true = its class keeps object.__hash__/__eq__ (identity) *)
| POther.                           (* anything the generator does not recognise *)

Inductive memo_kind : Type :=
| ValueKeyed                        (* module-level function *)
| IdentityKeyed (self_default_hash_eq : bool).   (* method: first parameter is self *)

Record memo_entry : Type := mkMemo {
  me_name : string; me_kind : memo_kind; me_maxsize : option N; me_params : list param_kind }.

Definition value_param_ok (p : param_kind) : bool :=
  match p with PFloat | PInt | PStr | PBool | PQuantityOpt => true | _ => false end.
Definition ident_param_ok (p : param_kind) : bool :=
  match p with PObject true => true | q => value_param_ok q end.

(* a memoised callable is transparent ACROSS RUNS when every component of its key is a value (C08_memo_pure
   applies) or the identity of a live object created by the run (C08_identity_memo_never_hits applies: a later
   run has new objects, so it never sees an entry of an earlier one) *)
Definition entry_ok (e : memo_entry) : bool :=
  match me_kind e with
  | ValueKeyed => true
  | IdentityKeyed d => d
  end && forallb ident_param_ok (me_params e).

(* ---------- process-level mutable state beyond lru_cache (tables regenerated into Gen/C08StateTable.v) ---------- *)

(* objects that live as long as the process: created at import or re-bound through `global` *)
Inductive state_kind : Type :=
| SModuleContainer      (* list/dict/set bound at module level *)
| SClassContainer       (* ... in a class body *)
| SDefaultArg           (* mutable default argument *)
| SGlobalRebind         (* module name assigned inside a function through `global` *)
| SProcessSetting.      (* a setting of the interpreter or of an imported library written by the package: attribute of an
                           imported object (`mp.dps = ...`), os.environ item, np.seterr / warnings.filterwarnings /
                           os.chdir / random.seed ... call *)

Record state_entry : Type := mkSE {
  se_name : string; se_kind : state_kind;
  se_mutated : bool;        (* the source writes into it (item assignment, mutator call, rebinding) *)
  se_keyed_memo : bool }.   (* harmless: every write is a guarded get-or-create / initialise-once (a memo of values that do
                               not depend on the run); for a setting: EVERY run writes it, to an input-independent value,
                               in its entry point - or it is a new attribute that nothing reads *)

(* a run cannot leave anything behind in an object that is never written, nor - observably - in a keyed memo *)
Definition state_ok (e : state_entry) : bool := negb (se_mutated e) || se_keyed_memo e.

(* where the DefaultValue= / value= of a Parameter construction comes from *)
Inductive default_kind : Type :=
| DFresh        (* literal or call evaluated inside a function: a new object per instantiation *)
| DScalar       (* enum member / immutable scalar *)
| DSelfAttr     (* attribute of self: belongs to the objects of this run *)
| DLocal        (* local variable of the constructor *)
| DShared       (* a module/class-level container, or a construction executed at import: ONE object for all runs -
                   the parameter's value aliases it, so a run that sets the parameter rewrites the default *)
| DOther.       (* not recognised *)

Record param_default : Type := mkPD { pd_where : string; pd_expr : string; pd_kind : default_kind }.

Definition default_ok (d : param_default) : bool :=
  match pd_kind d with DShared | DOther => false | _ => true end.

(* loops and comprehensions over dict views (insertion-ordered) and over set expressions (a set of strings is walked in an
   order that depends on the hash seed) *)
Inductive iter_kind : Type := IDictView | ISet.
Record iteration : Type := mkIT { it_where : string; it_expr : string; it_kind : iter_kind }.
Definition iteration_ok (i : iteration) : bool := match it_kind i with IDictView => true | ISet => false end.
