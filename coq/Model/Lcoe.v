(* Model/Lcoe.v - executable transcription of Economics.CalculateLCOELCOHLCOC (Economics.py:375-549):
   numpy vectors become lists (discountvector / inflationvector over linspace), scalar-vector broadcasting becomes
   map, np.sum / np.average become sumQ / avg.  Branch selection on (economic model, end-use, plant type) is part of
   the model.  Definitions only. *)
From Coq Require Import QArith Qabs Qpower List ZArith Bool.
From Verif Require Import Base.Flat Model.CashFlow.
Import ListNotations.
Open Scope Q_scope.

(* numpy helpers *)
Definition vmul (a b : list Q) : list Q := map2 Qmult a b.          (* elementwise, equal lengths *)
Definition vadd (a b : list Q) : list Q := map2 Qplus a b.
Definition smul (k : Q) (v : list Q) : list Q := map (Qmult k) v.   (* scalar broadcast *)
Definition sadd (k : Q) (v : list Q) : list Q := map (Qplus k) v.
Definition qpow (b : Q) (t : nat) : Q := Qpower b (Z.of_nat t).
(* np.power(1+r, np.linspace(start, start+n-1, n)) *)
Definition powvec (b : Q) (start n : nat) : list Q := map (qpow b) (seq start n).
Definition invvec (v : list Q) : list Q := map Qinv v.               (* 1. / v *)

(* branch of the levelized-cost code selected by (end-use option, plant type) *)
Inductive lkind := LElec | LHeat | LCogen | LChiller | LHeatPump | LDistrict | LNone.
Definition is_cogen (enduse : Z) : bool :=
  (Z.eqb enduse 31 || Z.eqb enduse 32 || Z.eqb enduse 41 || Z.eqb enduse 42 || Z.eqb enduse 51 || Z.eqb enduse 52)%bool.
Definition classify (enduse plant : Z) : lkind :=
  if Z.eqb enduse 1 then LElec
  else if Z.eqb enduse 2 then
         (if Z.eqb plant 5 then LChiller else if Z.eqb plant 6 then LHeatPump else if Z.eqb plant 7 then LDistrict else LHeat)
  else if is_cogen enduse then LCogen else LNone.

Record lc_in := {
  l_econ : Z;                     (* 1 FCR, 2 standard levelized cost, anything else: BICYCLE *)
  l_enduse : Z; l_plant : Z;
  l_ccap : Q; l_coam : Q; l_ratio : Q;            (* CAPEX_heat_electricity_plant_ratio *)
  l_fcr : Q; l_inflc : Q; l_disc : Q;             (* FCR, inflrateconstruction, discountrate *)
  l_fib : Q; l_bir : Q; l_ctr : Q; l_eir : Q; l_rinfl : Q; l_ptr : Q; l_gtr : Q; l_ritc : Q;
  l_life : nat;
  l_net : list Q; l_heat : list Q; l_cool : list Q; l_pump : list Q; l_hp : list Q;   (* kWh per year *)
  l_elec_buy : Q;                                  (* electricity_cost_to_buy *)
  l_avg_pump : Q; l_avg_hp : Q; l_avg_ng : Q;      (* averageannual{pumpingcosts,heatpumpelectricitycost,ngcost} *)
  l_ng : list Q;                                   (* annualngcost, one per year *)
  l_demand : Q }.                                  (* annual_heating_demand [GWh/yr] *)

Definition e8 : Q := 100000000 # 1.
Definition e2 : Q := 100 # 1.
Definition e6 : Q := 1000000 # 1.
Definition mmbtu : Q := 2931 # 1000.

Definition cost_series (c : lc_in) (kWh : list Q) : list Q := smul (l_elec_buy c / e6) kWh.   (* kWh * price / 1E6 *)

(* ---- the numpy (vector) forms, as the code computes them ---- *)
Definition avg (l : list Q) : Q := sumQ l / natQ (length l).         (* np.average *)

(* --- FCR --- *)
Definition fcr_num (c : lc_in) (cap om extra : Q) : Q := l_fcr c * (1 + l_inflc c) * cap + om + extra.

(* --- Standard levelized cost --- *)
Definition std_dv (c : lc_in) : list Q := invvec (powvec (1 + l_disc c) 0 (l_life c)).
Definition std_num (c : lc_in) (cap : Q) (annual : list Q) : Q := (1 + l_inflc c) * cap + sumQ (vmul annual (std_dv c)).
Definition std_den (c : lc_in) (energy : list Q) : Q := sumQ (vmul energy (std_dv c)).
Definition const_series (c : lc_in) (x : Q) : list Q := repeat x (l_life c).   (* scalar * vector broadcasts to the vector's length *)

(* --- BICYCLE --- *)
Definition iave (c : lc_in) : Q := l_fib c * l_bir c * (1 - l_ctr c) + (1 - l_fib c) * l_eir c.
Definition crf (c : lc_in) : Q := iave c / (1 - / qpow (1 + iave c) (l_life c)).
Definition bic_infl (c : lc_in) : list Q := powvec (1 + l_rinfl c) 1 (l_life c).
Definition bic_dv (c : lc_in) : list Q := invvec (powvec (1 + iave c) 1 (l_life c)).
Definition bic_combine (c : lc_in) (cap npvcap npvfc npvit npvoandm : Q) : Q :=
  let npvitc := (1 + l_inflc c) * cap * l_ritc c / (1 - l_ctr c) in
  let npvgrt := l_gtr c / (1 - l_gtr c) * (npvcap + npvoandm + npvfc + npvit - npvitc) in
  npvcap + npvoandm + npvfc + npvit + npvgrt - npvitc.
Definition bic_it_coeff (c : lc_in) (cap : Q) : Q :=
  l_ctr c / (1 - l_ctr c) * ((1 + l_inflc c) * cap * crf c - cap / natQ (l_life c)).
Definition bic_num (c : lc_in) (cap : Q) (annual : list Q) : Q :=
  let i1 := 1 + l_inflc c in
  bic_combine c cap
    (sumQ (smul (i1 * cap * crf c) (bic_dv c)))
    (sumQ (vmul (smul (i1 * cap * l_ptr c) (bic_infl c)) (bic_dv c)))
    (sumQ (smul (bic_it_coeff c cap) (bic_dv c)))
    (sumQ (vmul (vmul annual (bic_infl c)) (bic_dv c))).
Definition bic_den (c : lc_in) (energy : list Q) : Q := sumQ (vmul (vmul energy (bic_infl c)) (bic_dv c)).

(* ---- the documented closed (Sigma) forms: sum_t x_t q^t in Horner form ---- *)
Fixpoint geo0 (q : Q) (l : list Q) : Q :=          (* sum_{t>=0} l_t q^t *)
  match l with [] => 0 | x :: r => x + q * geo0 q r end.
Definition geo1 (q : Q) (l : list Q) : Q := q * geo0 q l.     (* sum_{t>=1} l_{t-1} q^t *)
Definition ones (n : nat) : list Q := repeat 1 n.

Definition std_num_spec (c : lc_in) (cap : Q) (annual : list Q) : Q :=
  (1 + l_inflc c) * cap + geo0 (/ (1 + l_disc c)) annual.
Definition std_den_spec (c : lc_in) (energy : list Q) : Q := geo0 (/ (1 + l_disc c)) energy.
Definition bic_qd (c : lc_in) : Q := / (1 + iave c).
Definition bic_qg (c : lc_in) : Q := (1 + l_rinfl c) / (1 + iave c).
Definition bic_num_spec (c : lc_in) (cap : Q) (annual : list Q) : Q :=
  let i1 := 1 + l_inflc c in
  bic_combine c cap
    (i1 * cap * crf c * geo1 (bic_qd c) (ones (l_life c)))
    (i1 * cap * l_ptr c * geo1 (bic_qg c) (ones (l_life c)))
    (bic_it_coeff c cap * geo1 (bic_qd c) (ones (l_life c)))
    (geo1 (bic_qg c) annual).
Definition bic_den_spec (c : lc_in) (energy : list Q) : Q := geo1 (bic_qg c) energy.

Record levelizers := {
  L_std_num : lc_in -> Q -> list Q -> Q; L_std_den : lc_in -> list Q -> Q;
  L_bic_num : lc_in -> Q -> list Q -> Q; L_bic_den : lc_in -> list Q -> Q }.
Definition vec_levelizers : levelizers :=
  {| L_std_num := std_num; L_std_den := std_den; L_bic_num := bic_num; L_bic_den := bic_den |}.
Definition spec_levelizers : levelizers :=
  {| L_std_num := std_num_spec; L_std_den := std_den_spec; L_bic_num := bic_num_spec; L_bic_den := bic_den_spec |}.

(* the same closed forms with fractions reduced at the points where large numerals would meet (execution only;
   Proofs/LcoeProofs.v: equal to spec_levelizers) *)
Definition geo0r (q : Q) (l : list Q) : Q := Qred (geo0 q l).
Definition geo1r (q : Q) (l : list Q) : Q := Qred (geo1 q l).
Definition exec_levelizers : levelizers :=
  {| L_std_num := fun c cap annual => Qred ((1 + l_inflc c) * cap + geo0r (/ (1 + l_disc c)) annual);
     L_std_den := fun c energy => geo0r (/ (1 + l_disc c)) energy;
     L_bic_num := fun c cap annual =>
       let i1 := 1 + l_inflc c in
       let a := geo1r (bic_qd c) (ones (l_life c)) in
       let g := geo1r (bic_qg c) (ones (l_life c)) in
       let k := Qred (crf c) in
       Qred (bic_combine c cap (Qred (i1 * cap * k * a)) (Qred (i1 * cap * l_ptr c * g))
                         (Qred (l_ctr c / (1 - l_ctr c) * (i1 * cap * k - cap / natQ (l_life c)) * a))
                         (geo1r (bic_qg c) annual));
     L_bic_den := fun c energy => geo1r (bic_qg c) energy |}.

Section Gen.
Variable L : levelizers.
(* one levelized cost: capital share [cap], O&M share [om], other annual costs as an FCR scalar [xs] and as the series the
   standard / BICYCLE branches add to O&M ([annual_std], [annual_bic] already include [om]), the FCR denominator
   [avg_energy], the energy series and the unit factor *)
Definition lev (c : lc_in) (cap om xs : Q) (annual_std annual_bic : list Q) (avg_energy : Q) (energy : list Q)
               (unit : Q) : Q :=
  if Z.eqb (l_econ c) 1 then fcr_num c cap om xs / avg_energy * unit
  else if Z.eqb (l_econ c) 2 then L_std_num L c cap annual_std / L_std_den L c energy * unit
  else L_bic_num L c cap annual_bic / L_bic_den L c energy * unit.

(* (LCOE, LCOH, LCOC) *)
Definition lcoe_gen (c : lc_in) : Q * Q * Q :=
  let cap := l_ccap c in let om := l_coam c in
  let cap_e := l_ccap c * l_ratio c in let om_e := l_coam c * l_ratio c in
  let cap_h := l_ccap c * (1 - l_ratio c) in let om_h := l_coam c * (1 - l_ratio c) in
  let pumpc := cost_series c (l_pump c) in
  let hpc := cost_series c (l_hp c) in
  let k1 := const_series c in
  match classify (l_enduse c) (l_plant c) with
  | LElec => (lev c cap om 0 (k1 om) (k1 om) (avg (l_net c)) (l_net c) e8, 0, 0)
  | LHeat => (0, lev c cap om (l_avg_pump c) (sadd om pumpc) (sadd om pumpc) (avg (l_heat c)) (l_heat c) (e8 * mmbtu), 0)
  | LCogen => (lev c cap_e om_e 0 (k1 om_e) (k1 om_e) (avg (l_net c)) (l_net c) e8,
               (* pumping cost is charged to cogeneration heat in the FCR and standard models, not in BICYCLE *)
               lev c cap_h om_h (l_avg_pump c) (sadd om_h pumpc) (k1 om_h) (avg (l_heat c)) (l_heat c) (e8 * mmbtu), 0)
  | LChiller => (0, 0, lev c cap om (l_avg_pump c) (sadd om pumpc) (sadd om pumpc) (avg (l_cool c)) (l_cool c) (e8 * mmbtu))
  | LHeatPump => (0, lev c cap om (l_avg_pump c + l_avg_hp c) (vadd (sadd om pumpc) hpc) (vadd (sadd om pumpc) hpc)
                         (avg (l_heat c)) (l_heat c) (e8 * mmbtu), 0)
  | LDistrict => (0, lev c cap om (l_avg_pump c + l_avg_ng c) (vadd (sadd om pumpc) (l_ng c)) (vadd (sadd om pumpc) (l_ng c))
                         (l_demand c) (k1 (l_demand c)) (e2 * mmbtu), 0)
  | LNone => (0, 0, 0)
  end.
End Gen.

Definition lcoe_code (c : lc_in) : Q * Q * Q := lcoe_gen vec_levelizers c.   (* what the code computes *)
Definition lcoe_spec (c : lc_in) : Q * Q * Q := lcoe_gen spec_levelizers c.  (* the documented formulas *)
Definition lcoe_exec (c : lc_in) : Q * Q * Q := lcoe_gen exec_levelizers c.  (* same, reduced fractions: the form that is executed *)

(* ---------------------------------------------------------------------------------------------
   Correspondence entry point: reduce while executing (values are unchanged: Qred q == q)       *)
Definition red3 (t : Q * Q * Q) : Q * Q * Q := let '(a, b, c) := t in (Qred a, Qred b, Qred c).
Definition lens_ok_l (c : lc_in) : bool :=
  let need l := Nat.eqb (length l) (l_life c) in
  match classify (l_enduse c) (l_plant c) with
  | LElec => need (l_net c)
  | LHeat => need (l_heat c) && need (l_pump c)
  | LCogen => need (l_net c) && need (l_heat c) && need (l_pump c)
  | LChiller => need (l_cool c) && need (l_pump c)
  | LHeatPump => need (l_heat c) && need (l_pump c) && need (l_hp c)
  | LDistrict => need (l_pump c) && need (l_ng c)
  | LNone => true
  end.
Definition lcoe_agree (tol : Q) (c : lc_in) (iE iH iC : Q) : bool :=
  lens_ok_l c && let '(a, b, d) := lcoe_exec c in close tol a iE && close tol b iH && close tol d iC.
