(* Model/HipRa.v - executable model of HIP_RA_X.Calculate (src/hip_ra_x/hip_ra_x.py), of
   GeoPHIRESUtils.RecoverableHeat / UtilEff_func / static_pressure_MPa / celsius_to_kelvin and of the
   unit conversion a HIP-RA-X input goes through when it is read.  No proofs here.

   The CoolProp-backed water properties are a record of four arbitrary functions of (T degC, P MPa); every
   theorem quantifies over all of them, the correspondence instantiates them with the values the run used.

   Shape of the model: Calculate is straight-line arithmetic in which Python raises at a few places
   (ZeroDivisionError on a float division, ValueError from a range check).  [hip_err] is the first error in the
   order Python meets them, [hip_out] the values (total arithmetic), [hip_calc] combines them. *)
From Coq Require Import QArith Qabs Qminmax Qround List ZArith Bool String.
From Verif Require Import Base.Flat Gen.HipTables.
Import ListNotations.
Open Scope Q_scope.

Record water : Type := {
  w_dens : Q -> Q -> Q;   (* density_water_kg_per_m3 *)
  w_cp   : Q -> Q -> Q;   (* heat_capacity_water_J_per_kg_per_K *)
  w_h    : Q -> Q -> Q;   (* enthalpy_water_kJ_per_kg *)
  w_s    : Q -> Q -> Q    (* entropy_water_kJ_per_kg_per_K *)
}.

(* parameter values Calculate starts from (after read_parameters), plus the two declared minima it tests *)
Record hin : Type := {
  i_Tres : Q; i_Trej : Q; i_por : Q; i_area : Q; i_thick : Q; i_life : Q;
  i_rhc : Q;        (* Rock Heat Capacity, kJ/km3C *)
  i_fhc : Q;        (* Fluid Specific Heat Capacity (sentinel -1 = derive) *)
  i_fdens : Q;      (* Density Of Reservoir Fluid, kg/km3 (sentinel -1 = derive) *)
  i_rdens : Q;      (* Density Of Reservoir Rock *)
  i_rff : Q;        (* Recoverable Fluid Factor *)
  i_rrh : Q;        (* Recoverable Heat from Rock *)
  i_depth_given : bool; i_depth : Q;
  i_pres_given : bool; i_pres : Q;
  i_fdens_min : Q; i_fhc_min : Q
}.

Record hout : Type := {
  o_volume : Q; o_vol_rock : Q; o_vol_fluid : Q; o_depth : Q; o_pres : Q; o_fdens : Q; o_fhc : Q;
  o_mass_rock : Q; o_mass_fluid : Q; o_mass_total : Q;
  o_enth_rock : Q; o_enth_fluid : Q; o_enth_res : Q;
  o_stored_rock : Q; o_stored_fluid : Q; o_stored : Q;
  o_avail : Q; o_prod : Q; o_recovery : Q;
  o_elec : Q; o_elec_area : Q; o_elec_vol : Q; o_heat_area : Q; o_heat_vol : Q; o_elec_area_fluid : Q
}.

(* ---- GeoPHIRESUtils helpers ---- *)
Definition celsius_to_kelvin (c : Q) : Q := c + (27315#100).

Definition g_std : Q := 980665#100000.   (* scipy.constants.g *)
(* static_pressure_MPa(rho, depth_m) = rho*g*depth_m Pa -> MPa *)
Definition static_pressure_MPa (rho depth_m : Q) : Q := rho * g_std * depth_m / (1000000#1).

(* RecoverableHeat: 0.43 up to 90 C, 0.66 from 150 C, 0.0038*T + 0.085 between *)
Definition recoverable_heat (T : Q) : Q :=
  if Qleb T 90 then 43#100
  else if Qleb 150 T then 66#100
  else (38#10000) * T + (85#1000).

(* scipy interp1d (linear): segment (x_lo, x_hi) with x_hi the first knot >= t; slope*(t - x_lo) + y_lo *)
Fixpoint interp_from (t x0 y0 : Q) (rest : list (Q * Q)) : Q :=
  match rest with
  | [] => y0
  | (x1, y1) :: r =>
      match r with
      | [] => (y1 - y0) / (x1 - x0) * (t - x0) + y0
      | _ => if Qleb t x1 then (y1 - y0) / (x1 - x0) * (t - x0) + y0 else interp_from t x1 y1 r
      end
  end.

Definition last_x (tbl : list (Q * Q)) (d : Q) : Q := fst (last tbl (d, 0)).

(* UtilEff_func over a table: ValueError (None) outside [first knot, last knot] *)
Definition util_eff_on (tbl : list (Q * Q)) (t : Q) : option Q :=
  match tbl with
  | [] => None
  | (x0, y0) :: r =>
      if Qltb t x0 || Qltb (last_x tbl x0) t then None else Some (interp_from t x0 y0 r)
  end.
Definition util_eff (t : Q) : option Q := util_eff_on util_eff_table t.

(* ---- HIP_RA_X.Calculate ---- *)
Section Calc.
Variable W : water.
Variable i : hin.

Definition c_volume : Q := i_area i * i_thick i.
Definition c_vol_rock : Q := c_volume * (1 - i_por i / 100).
Definition c_vol_fluid : Q := c_volume * (i_por i / 100) * i_rff i.
(* "assume ambient Temperature of 15 C and 30C/km" *)
Definition c_depth : Q := if i_depth_given i then i_depth i else (i_Tres i - 15) / 30.
Definition c_pres : Q := if i_pres_given i then i_pres i else static_pressure_MPa 1000 (c_depth * 1000).
Definition c_fdens_derived : bool := Qltb (i_fdens i) (i_fdens_min i).
Definition c_fdens : Q := if c_fdens_derived then w_dens W (i_Tres i) c_pres * (1000000000#1) else i_fdens i.
Definition c_mass_rock : Q := c_vol_rock * i_rdens i.
Definition c_mass_fluid0 : Q := c_vol_fluid * c_fdens.      (* before it is overwritten with the produced mass *)
Definition c_mass_total : Q := c_mass_rock + c_mass_fluid0.
Definition c_fhc_derived : bool := Qltb (i_fhc i) (i_fhc_min i).
Definition c_fhc : Q := if c_fhc_derived then w_cp W (i_Tres i) c_pres / 1000 else i_fhc i.
Definition c_TrejK : Q := celsius_to_kelvin (i_Trej i).
Definition c_dT : Q := celsius_to_kelvin (i_Tres i) - c_TrejK.
Definition c_hnet : Q := w_h W (i_Tres i) c_pres - w_h W (i_Trej i) c_pres.
Definition c_snet : Q := w_s W (i_Tres i) c_pres - w_s W (i_Trej i) c_pres.
Definition c_enth_rock : Q := (i_rhc i * c_dT * c_vol_rock) / c_mass_rock.
Definition c_stored_rock : Q := i_rrh i * c_enth_rock * c_mass_rock.
Definition c_stored_fluid : Q := c_hnet * c_mass_fluid0.
Definition c_stored : Q := c_stored_rock + c_stored_fluid.
Definition c_amount : Q := c_stored / c_hnet.               (* eq. 4 of Garg & Combs; overwrites mass_recoverable_fluid *)
Definition c_exergy : Q := c_hnet - c_TrejK * c_snet.       (* eq. 7; published as enthalpy_fluid *)
Definition c_enth_res : Q := c_enth_rock + c_exergy.
Definition c_avail : Q := c_amount * c_exergy.              (* eq. 8 *)
Definition c_prod : Q := c_avail * recoverable_heat (i_Tres i).
Definition c_recovery : Q := c_prod / c_stored.
Definition c_life_s : Q := i_life i * 365 * 24 * 3600.
Definition c_maxpow_kW : Q := c_avail / c_life_s.
Definition c_util : Q := match util_eff (i_Tres i) with Some u => u | None => 0 end.
Definition c_elec : Q := c_util * c_maxpow_kW / 1000.       (* kW -> MW *)

Definition hip_out : hout := {|
  o_volume := c_volume; o_vol_rock := c_vol_rock; o_vol_fluid := c_vol_fluid; o_depth := c_depth; o_pres := c_pres;
  o_fdens := c_fdens; o_fhc := c_fhc; o_mass_rock := c_mass_rock; o_mass_fluid := c_amount;
  o_mass_total := c_mass_total; o_enth_rock := c_enth_rock; o_enth_fluid := c_exergy; o_enth_res := c_enth_res;
  o_stored_rock := c_stored_rock; o_stored_fluid := c_stored_fluid; o_stored := c_stored;
  o_avail := c_avail; o_prod := c_prod; o_recovery := c_recovery;
  o_elec := c_elec; o_elec_area := c_elec / i_area i; o_elec_vol := c_elec / c_volume;
  o_heat_area := c_prod / i_area i; o_heat_vol := c_prod / c_volume;
  o_elec_area_fluid := 0 / i_area i |}.

(* first exception Python raises, in program order *)
Definition hip_err : option Z :=
  if c_fhc_derived && (Qltb (i_Tres i) 0 || Qltb 600 (i_Tres i)) then Some E_VALUE   (* heat_capacity_water range check *)
  else if Qeqb c_mass_rock 0 then Some E_ZERODIV                                       (* enthalpy_rock *)
  else if Qeqb c_hnet 0 then Some E_ZERODIV                                            (* stored / fluid_net_enthalpy *)
  else if Qeqb c_stored 0 then Some E_ZERODIV                                          (* producible / stored *)
  else if Qeqb c_life_s 0 then Some E_ZERODIV
  else match util_eff (i_Tres i) with None => Some E_VALUE | Some _ =>                 (* UtilEff_func range check *)
       if Qeqb (i_area i) 0 then Some E_ZERODIV
       else if Qeqb c_volume 0 then Some E_ZERODIV
       else None end.
End Calc.

Definition hout_list (o : hout) : list Q :=
  [o_volume o; o_vol_rock o; o_vol_fluid o; o_depth o; o_pres o; o_fdens o; o_fhc o;
   o_mass_rock o; o_mass_fluid o; o_mass_total o; o_enth_rock o; o_enth_fluid o; o_enth_res o;
   o_stored_rock o; o_stored_fluid o; o_stored o; o_avail o; o_prod o; o_recovery o;
   o_elec o; o_elec_area o; o_elec_vol o; o_heat_area o; o_heat_vol o; o_elec_area_fluid o].

Definition hip_calc (W : water) (i : hin) : res :=
  match hip_err W i with Some e => Err e | None => Vals (hout_list (hip_out W i)) end.

(* ---- the two scalings of the property ---- *)
Definition with_area (a : Q) (i : hin) : hin :=
  {| i_Tres := i_Tres i; i_Trej := i_Trej i; i_por := i_por i; i_area := a; i_thick := i_thick i; i_life := i_life i;
     i_rhc := i_rhc i; i_fhc := i_fhc i; i_fdens := i_fdens i; i_rdens := i_rdens i; i_rff := i_rff i; i_rrh := i_rrh i;
     i_depth_given := i_depth_given i; i_depth := i_depth i; i_pres_given := i_pres_given i; i_pres := i_pres i;
     i_fdens_min := i_fdens_min i; i_fhc_min := i_fhc_min i |}.
Definition with_thick (t : Q) (i : hin) : hin :=
  {| i_Tres := i_Tres i; i_Trej := i_Trej i; i_por := i_por i; i_area := i_area i; i_thick := t; i_life := i_life i;
     i_rhc := i_rhc i; i_fhc := i_fhc i; i_fdens := i_fdens i; i_rdens := i_rdens i; i_rff := i_rff i; i_rrh := i_rrh i;
     i_depth_given := i_depth_given i; i_depth := i_depth i; i_pres_given := i_pres_given i; i_pres := i_pres i;
     i_fdens_min := i_fdens_min i; i_fhc_min := i_fhc_min i |}.

(* ---- reading an input written with a unit: pint's affine map to the preferred unit ---- *)
(* the stored value is normalised ([Qred x == x]) so that equal quantities are identical values *)
Definition read_value (f o v : Q) : Q := Qred (f * v + o).
Definition write_value (f o x : Q) : Q := (x - o) / f.        (* the number a user writes for quantity x in that unit *)
Definition Qtrunc (q : Q) : Z := if Qltb q 0 then Qceiling q else Qfloor q.   (* int(float(s)) *)

(* which field an input name sets; intParameter truncates; providing depth / pressure marks them Provided *)
Definition param_index (name : string) : option nat :=
  let names := ["Reservoir Temperature"; "Rejection Temperature"; "Reservoir Porosity"; "Reservoir Area";
                "Reservoir Thickness"; "Reservoir Life Cycle"; "Rock Heat Capacity"; "Fluid Specific Heat Capacity";
                "Density Of Reservoir Fluid"; "Density Of Reservoir Rock"; "Recoverable Fluid Factor";
                "Recoverable Heat from Rock"; "Reservoir Depth"; "Reservoir Pressure"]%string in
  (fix find (l : list string) (n : nat) : option nat :=
     match l with [] => None | s :: r => if String.eqb name s then Some n else find r (S n) end) names O.

Definition set_field (n : nat) (x : Q) (i : hin) : hin :=
  let 'Build_hin Tres Trej por area thick life rhc fhc fdens rdens rff rrh dg d pg p m1 m2 := i in
  match n with
  | 0 => Build_hin x Trej por area thick life rhc fhc fdens rdens rff rrh dg d pg p m1 m2
  | 1 => Build_hin Tres x por area thick life rhc fhc fdens rdens rff rrh dg d pg p m1 m2
  | 2 => Build_hin Tres Trej x area thick life rhc fhc fdens rdens rff rrh dg d pg p m1 m2
  | 3 => Build_hin Tres Trej por x thick life rhc fhc fdens rdens rff rrh dg d pg p m1 m2
  | 4 => Build_hin Tres Trej por area x life rhc fhc fdens rdens rff rrh dg d pg p m1 m2
  | 5 => Build_hin Tres Trej por area thick (inject_Z (Qtrunc x)) rhc fhc fdens rdens rff rrh dg d pg p m1 m2
  | 6 => Build_hin Tres Trej por area thick life x fhc fdens rdens rff rrh dg d pg p m1 m2
  | 7 => Build_hin Tres Trej por area thick life rhc x fdens rdens rff rrh dg d pg p m1 m2
  | 8 => Build_hin Tres Trej por area thick life rhc fhc x rdens rff rrh dg d pg p m1 m2
  | 9 => Build_hin Tres Trej por area thick life rhc fhc fdens x rff rrh dg d pg p m1 m2
  | 10 => Build_hin Tres Trej por area thick life rhc fhc fdens rdens x rrh dg d pg p m1 m2
  | 11 => Build_hin Tres Trej por area thick life rhc fhc fdens rdens rff x dg d pg p m1 m2
  | 12 => Build_hin Tres Trej por area thick life rhc fhc fdens rdens rff rrh true x pg p m1 m2
  | _ => Build_hin Tres Trej por area thick life rhc fhc fdens rdens rff rrh dg d true x m1 m2
  end%nat.

Definition set_param (name : string) (x : Q) (i : hin) : option hin :=
  match param_index name with Some n => Some (set_field n x i) | None => None end.

(* a HIP-RA-X run whose input [name] is written as "v unit" (unit = (f, o) of Gen.HipTables.hip_unit_table) *)
Definition hip_calc_reading (W : water) (name : string) (f o v : Q) (i : hin) : option res :=
  match set_param name (read_value f o v) i with Some i' => Some (hip_calc W i') | None => None end.

(* a table row is usable: non-zero factor and a parameter name the model knows *)
Definition unit_row_ok (e : string * string * Q * Q) : bool :=
  match e with (n, _, f, _) => negb (Qeqb f 0) && match param_index n with Some _ => true | None => false end end.

(* ---- flat interface ---- *)
(* water properties given as data: the values the run obtained at (Tres, P) and (Trej, P) *)
Definition water_of_data (Tres dens cp h_res h_rej s_res s_rej : Q) : water :=
  {| w_dens := fun _ _ => dens; w_cp := fun _ _ => cp;
     w_h := fun T _ => if Qeqb T Tres then h_res else h_rej;
     w_s := fun T _ => if Qeqb T Tres then s_res else s_rej |}.

(* [Tres; Trej; por; area; thick; life; rhc; fhc; fdens; rdens; rff; rrh; depth_given; depth; pres_given; pres;
    fdens_min; fhc_min; dens; cp; h_res; h_rej; s_res; s_rej] *)
Definition run_hip (a : list Q) : res :=
  match a with
  | [Tres; Trej; por; area; thick; life; rhc; fhc; fdens; rdens; rff; rrh; dg; d; pg; p; fdmin; fhcmin;
     dens; cp; h_res; h_rej; s_res; s_rej] =>
      hip_calc (water_of_data Tres dens cp h_res h_rej s_res s_rej)
        {| i_Tres := Tres; i_Trej := Trej; i_por := por; i_area := area; i_thick := thick; i_life := life;
           i_rhc := rhc; i_fhc := fhc; i_fdens := fdens; i_rdens := rdens; i_rff := rff; i_rrh := rrh;
           i_depth_given := qbool dg; i_depth := d; i_pres_given := qbool pg; i_pres := p;
           i_fdens_min := fdmin; i_fhc_min := fhcmin |}
  | _ => Err E_ARGS
  end.

(* [T] -> [RecoverableHeat T] ; [T] -> [UtilEff_func T] or ValueError *)
Definition run_recoverable (a : list Q) : res :=
  match a with [T] => Vals [recoverable_heat T] | _ => Err E_ARGS end.
Definition run_util_eff (a : list Q) : res :=
  match a with [T] => match util_eff T with Some u => Vals [u] | None => Err E_VALUE end | _ => Err E_ARGS end.
(* [f; o; v] -> value stored after reading "v unit" *)
Definition run_read (a : list Q) : res :=
  match a with [f; o; v] => Vals [read_value f o v] | _ => Err E_ARGS end.

(* ---- reflective checkers: the property evaluated on what the IMPLEMENTATION produced ---- *)
(* a <= b up to the comparison tolerance *)
Definition le_tol (tol a b : Q) : bool := Qle_bool a (b + tol * Qmax3 1 (Qabs a) (Qabs b)).

(* clauses on one run: inputs [por; area; thick; rff] and the implementation's output vector (order of hout_list) *)
Definition chk_volume (tol : Q) (area thick : Q) (o : list Q) : bool := close tol (nth 0 o 0) (area * thick).
Definition chk_vol_rock (tol : Q) (por : Q) (o : list Q) : bool := close tol (nth 1 o 0) (nth 0 o 0 * (1 - por / 100)).
Definition chk_vol_fluid (tol : Q) (por rff : Q) (o : list Q) : bool :=
  close tol (nth 2 o 0) (nth 0 o 0 * (por / 100) * rff).
Definition chk_stored_sum (tol : Q) (o : list Q) : bool := close tol (nth 15 o 0) (nth 13 o 0 + nth 14 o 0).
Definition chk_avail_le_stored (tol : Q) (o : list Q) : bool := le_tol tol (nth 16 o 0) (nth 15 o 0).
Definition chk_prod_le_avail (tol : Q) (o : list Q) : bool := le_tol tol (nth 17 o 0) (nth 16 o 0).

(* all six clauses at once (the per-clause checkers are evaluated only for runs on which this one is false) *)
Definition chk_run (tol : Q) (por area thick rff : Q) (o : list Q) : bool :=
  chk_volume tol area thick o && chk_vol_rock tol por o && chk_vol_fluid tol por rff o &&
  chk_stored_sum tol o && chk_avail_le_stored tol o && chk_prod_le_avail tol o.

(* scaling: [mask] says which outputs are multiplied by k (true) and which stay (false) *)
Definition area_mask : list bool :=
  [true; true; true; false; false; false; false; true; true; true; false; false; false;
   true; true; true; true; true; false; true; false; false; false; false; false].
Definition thick_mask : list bool :=
  [true; true; true; false; false; false; false; true; true; true; false; false; false;
   true; true; true; true; true; false; true; true; false; true; false; true].
Fixpoint chk_scaled (tol k : Q) (mask : list bool) (base scaled : list Q) : bool :=
  match mask, base, scaled with
  | [], [], [] => true
  | m :: mr, b :: br, s :: sr => close tol s (if m then k * b else b) && chk_scaled tol k mr br sr
  | _, _, _ => false
  end.
(* same results (unit variants) *)
Definition chk_same (tol : Q) (a b : list Q) : bool := all_close tol a b.
