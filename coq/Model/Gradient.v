(* Model/Gradient.v - executable model of the bottom-hole temperature computation of
   Reservoir.read_parameters (magnitude heuristics, lines 627-649) and Reservoir.Calculate (layer walk and
   maximum-depth cap, lines 695-724), quirks included, next to the closed ("specification") form of the same
   walk.  Definitions only; the proofs are in Proofs/GradientProofs.v.  Reused by C18. *)
From Coq Require Import QArith Qminmax List ZArith Bool.
From Verif Require Import Base.Flat.
Import ListNotations.
Open Scope Q_scope.

(* ------------------------------------------------------------------------------------------------ *)
(* 1. Specification form: a stack of finite layers (gradient, thickness) over an unbounded bottom layer *)

(* temperature at depth d below a point of temperature Ts *)
Fixpoint Tprofile (Ts : Q) (upper : list (Q * Q)) (gb d : Q) : Q :=
  match upper with
  | [] => Ts + gb * d
  | (g, th) :: rest => if Qlt_le_dec th d then Tprofile (Ts + g * th) rest gb (d - th) else Ts + g * d
  end.

(* depth at which the profile reaches Tmax *)
Fixpoint maxdepth (Ts Tmax : Q) (upper : list (Q * Q)) (gb : Q) : Q :=
  match upper with
  | [] => (Tmax - Ts) / gb
  | (g, th) :: rest => if Qlt_le_dec Tmax (Ts + g * th) then (Tmax - Ts) / g
                       else th + maxdepth (Ts + g * th) Tmax rest gb
  end.

Definition capped_depth (Ts Tmax : Q) (upper : list (Q * Q)) (gb depth : Q) : Q :=
  let md := maxdepth Ts Tmax upper gb in if Qlt_le_dec md depth then md else depth.

Definition trock (Ts Tmax : Q) (upper : list (Q * Q)) (gb depth : Q) : Q :=
  Tprofile Ts upper gb (capped_depth Ts Tmax upper gb depth).

(* the integral of the piecewise-constant gradient over [0,d]: sum of gradient x overlap of each layer
   [top, top+th] with [0,d]; the bottom layer is [top, infinity) *)
Fixpoint grad_integral (upper : list (Q * Q)) (gb top d : Q) : Q :=
  match upper with
  | [] => gb * Qmax 0 (d - top)
  | (g, th) :: rest => g * Qmax 0 (Qmin d (top + th) - top) + grad_integral rest gb (top + th) d
  end.

Definition wf (upper : list (Q * Q)) (gb : Q) : Prop :=
  0 < gb /\ Forall (fun p => 0 < fst p /\ 0 < snd p) upper.

(* ------------------------------------------------------------------------------------------------ *)
(* 2. The magnitude heuristics of read_parameters *)

Definition default_gradients : list Q := [5 # 100; 0; 0; 0].                       (* degC/m *)
Definition default_thicknesses : list Q := [100000; 1 # 100; 1 # 100; 1 # 100; 1 # 100].

Definition tiny_gradient : Q := 1 # 1000000.
Definition bottom_thickness : Q := 100000.

(* "Gradient i" / "Thickness i" given by the user overwrite position i-1 of the list *)
Fixpoint merge (defaults : list Q) (user : list (option Q)) : list Q :=
  match defaults, user with
  | d :: ds, Some v :: us => v :: merge ds us
  | d :: ds, None :: us => d :: merge ds us
  | ds, [] => ds
  | [], _ => []
  end.

(* if g > 1.0: g = g/1000;  if g < 1e-6: g = 1e-6 *)
Definition norm_gradient (g : Q) : Q :=
  let g1 := if Qltb 1 g then g / 1000 else g in
  if Qltb g1 tiny_gradient then tiny_gradient else g1.

(* if th < 100.0: th = th*1000 *)
Definition norm_thickness (th : Q) : Q := if Qltb th 100 then th * 1000 else th.

Fixpoint set_nth (i : nat) (v : Q) (l : list Q) : list Q :=
  match i, l with
  | O, _ :: r => v :: r
  | S i', x :: r => x :: set_nth i' v r
  | _, [] => []
  end.

(* while len(th) < numseg: append(100000);  th[numseg-1] = 100000 *)
Definition norm_thicknesses (n : nat) (raw : list Q) : list Q :=
  let l := map norm_thickness raw in
  let l := l ++ repeat bottom_thickness (n - length l) in
  set_nth (n - 1) bottom_thickness l.

(* "Reservoir Depth" (km) is multiplied by 1000 when it is read; since fix a8610e4 the 3.0 km default is converted in the
   same way when the input file has no such line, so Calculate always works in metres *)
Definition default_depth : Q := 3.
Definition depth_metres (user_km : option Q) : Q :=
  match user_km with Some km => km * 1000 | None => default_depth * 1000 end.
(* the pinned tree (before the fix) left the default unconverted: 3.0 was walked as 3 m *)
Definition depth_metres_pinned (user_km : option Q) : Q :=
  match user_km with Some km => km * 1000 | None => default_depth end.
(* what the depth denotes (and what the report prints): the default is 3 km *)
Definition depth_denoted_metres (user_km : option Q) : Q :=
  match user_km with Some km => km * 1000 | None => default_depth * 1000 end.

(* ------------------------------------------------------------------------------------------------ *)
(* 3. Code-shaped Calculate *)

Definition prefill : Q := 1000.       (* intersecttemperature = [1000., 1000., 1000., 1000.] *)

(* intersecttemperature[0..k-1]: running interface temperatures *)
Fixpoint isect (t : Q) (gs ths : list Q) (k : nat) {struct k} : list Q :=
  match k, gs, ths with
  | S k', g :: gs', th :: ths' => let t' := t + g * th in t' :: isect t' gs' ths' k'
  | _, _, _ => []
  end.

(* next(loc for loc, val in enumerate(l) if val > Tmax) *)
Fixpoint first_above (Tmax : Q) (l : list Q) : option nat :=
  match l with
  | [] => None
  | x :: r => if Qltb Tmax x then Some O
              else match first_above Tmax r with Some i => Some (S i) | None => None end
  end.

(* max(loc for loc, val in enumerate(d > l) if val) *)
Fixpoint last_below (d : Q) (l : list Q) : option nat :=
  match l with
  | [] => None
  | x :: r => match last_below d r with
              | Some i => Some (S i)
              | None => if Qltb x d then Some O else None
              end
  end.

(* np.cumsum, starting from a *)
Fixpoint cums (a : Q) (ths : list Q) : list Q :=
  match ths with [] => [] | th :: r => (a + th) :: cums (a + th) r end.

Definition intersect_list (n : nat) (Ts : Q) (gs ths : list Q) : list Q :=
  if Nat.eqb n 1 then repeat prefill 4
  else isect Ts gs ths (n - 1) ++ repeat prefill (4 - (n - 1)).

Inductive outcome (A : Type) : Type := Good (a : A) | Bad (code : Z).
Arguments Good {A}. Arguments Bad {A}.

Definition qdiv_checked (a b : Q) : outcome Q := if Qeqb b 0 then Bad E_ZERODIV else Good (a / b).

Definition maxdepth_code (n : nat) (Ts Tmax : Q) (gs ths : list Q) : outcome Q :=
  if Nat.eqb n 1 then qdiv_checked (Tmax - Ts) (nth 0 gs 0)
  else
    let it := intersect_list n Ts gs ths in
    match first_above Tmax it with
    | None => Bad E_STOP
    | Some O => qdiv_checked (Tmax - Ts) (nth 0 gs 0)
    | Some (S j) =>
        match qdiv_checked (Tmax - nth j it 0) (nth (S j) gs 0) with
        | Good x => Good (sumQ (firstn (S j) ths) + x)
        | Bad c => Bad c
        end
    end.

(* (Trock, depth after the cap) from the normalised lists; depth in metres *)
Definition bht_code (n : nat) (Ts Tmax : Q) (gs ths : list Q) (depth : Q) : outcome (Q * Q) :=
  if negb (Nat.leb 1 n && Nat.leb n 4) then Bad E_ARGS
  else if negb (Nat.leb n (length gs) && Nat.leb n (length ths)) then Bad E_INDEX
  else
    match maxdepth_code n Ts Tmax gs ths with
    | Bad c => Bad c
    | Good md =>
        let d := if Qltb md depth then md else depth in
        let it := Ts :: intersect_list n Ts gs ths in
        let td := 0 :: cums 0 ths in
        match last_below d td with
        | None => Bad E_VALUE                                   (* max() of an empty sequence *)
        | Some i =>
            if Nat.ltb i (length it) && Nat.ltb i (length gs)
            then Good (nth i it 0 + nth i gs 0 * (d - nth i td 0), d)
            else Bad E_INDEX
        end
    end.

(* the layers the code walks, in specification form *)
Definition upper_of (n : nat) (gs ths : list Q) : list (Q * Q) := combine (firstn (n - 1) gs) (firstn (n - 1) ths).
Definition bottom_of (n : nat) (gs : list Q) : Q := nth (n - 1) gs 0.

(* from the user's input to the bottom-hole temperature *)
Record bht_input := {
  bi_n : nat; bi_Ts : Q; bi_Tmax : Q; bi_depth_km : option Q;
  bi_grad : list (option Q); bi_thick : list (option Q) }.

Definition gradients_of (i : bht_input) : list Q := map norm_gradient (merge default_gradients (bi_grad i)).
Definition thicknesses_of (i : bht_input) : list Q :=
  norm_thicknesses (bi_n i) (merge default_thicknesses (bi_thick i)).

Definition bht_of_input (i : bht_input) : outcome (Q * Q) :=
  bht_code (bi_n i) (bi_Ts i) (bi_Tmax i) (gradients_of i) (thicknesses_of i) (depth_metres (bi_depth_km i)).
Definition bht_of_input_pinned (i : bht_input) : outcome (Q * Q) :=
  bht_code (bi_n i) (bi_Ts i) (bi_Tmax i) (gradients_of i) (thicknesses_of i) (depth_metres_pinned (bi_depth_km i)).

(* the property's right-hand side: surface temperature + integral of the gradients down to the depth the
   input denotes, capped at Tmax *)
Definition bht_spec (i : bht_input) : Q :=
  let gs := gradients_of i in let ths := thicknesses_of i in
  Qmin (bi_Ts i + grad_integral (upper_of (bi_n i) gs ths) (bottom_of (bi_n i) gs) 0 (depth_denoted_metres (bi_depth_km i)))
       (bi_Tmax i).

(* ------------------------------------------------------------------------------------------------ *)
(* 4. Flat interface *)

Definition res_of_outcome (o : outcome (Q * Q)) (extra : list Q) : res :=
  match o with Good (t, d) => Vals (t :: d :: extra) | Bad c => Err c end.

(* [n; Ts; Tmax; depth_m] ++ 4 gradients ++ 5 thicknesses (already normalised): direct call of Calculate *)
Definition run_bht_direct (a : list Q) : res :=
  match a with
  | n :: Ts :: Tmax :: depth :: g1 :: g2 :: g3 :: g4 :: ths =>
      res_of_outcome (bht_code (qnat n) Ts Tmax [g1; g2; g3; g4] ths depth) []
  | _ => Err E_ARGS
  end.

Fixpoint opts (a : list Q) : list (option Q) :=
  match a with
  | f :: v :: r => (if qbool f then Some v else None) :: opts r
  | _ => []
  end.

Definition input_of_flat (a : list Q) : option bht_input :=
  match a with
  | n :: Ts :: Tmax :: df :: dk :: rest =>
      if Nat.eqb (length rest) 16
      then Some {| bi_n := qnat n; bi_Ts := Ts; bi_Tmax := Tmax;
                   bi_depth_km := if qbool df then Some dk else None;
                   bi_grad := opts (firstn 8 rest); bi_thick := opts (skipn 8 rest) |}
      else None
  | _ => None
  end.

(* [n; Ts; Tmax; depth given?; depth km; (given?, value) x 4 gradients; (given?, value) x 4 thicknesses]
   -> [Trock; depth m] ++ normalised gradients ++ normalised thicknesses *)
Definition run_bht_input (a : list Q) : res :=
  match input_of_flat a with
  | Some i => res_of_outcome (bht_of_input i) (gradients_of i ++ thicknesses_of i)
  | None => Err E_ARGS
  end.

(* same input -> [surface temperature + integral down to the denoted depth, capped at Tmax] *)
Definition run_bht_spec (a : list Q) : res :=
  match input_of_flat a with
  | Some i => Vals [bht_spec i]
  | None => Err E_ARGS
  end.
