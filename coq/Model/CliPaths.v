(* Model/CliPaths.v - executable model of the path handling of the entry points (C20):
   geophires_x/__main__.py (argument normalisation), GEOPHIRESv3.main (chdir into the package directory, report and
   JSON path derivation), Model.__init__ (output_file from sys.argv[2]), GeophiresXClient (argv built from absolute
   temp paths, JSON path by with_suffix), plus the part of pathlib.PurePosixPath these use.  Paths are POSIX strings.
   No proofs here. *)
From Coq Require Import String Ascii List Bool Arith ZArith.
From Verif Require Import Model.Tokenizer.   (* split_on, cat, is_empty *)
Import ListNotations.
Open Scope string_scope.

Definition SLASH : ascii := "/"%char.
Definition DOT : ascii := "."%char.

(* ---- pathlib.PurePosixPath: root + parts; '' and '.' components are dropped, '..' is kept ---- *)
Record path := { p_root : string; p_parts : list string }.

Definition root_of (s : string) : string :=
  match s with
  | String a r =>
      if Ascii.eqb a SLASH then
        match r with
        | String b r2 =>
            if Ascii.eqb b SLASH then
              match r2 with
              | String c _ => if Ascii.eqb c SLASH then "/" else "//"   (* exactly two leading slashes are preserved *)
              | EmptyString => "//"
              end
            else "/"
        | EmptyString => "/"
        end
      else ""
  | EmptyString => ""
  end.

Definition good_part (c : string) : bool := negb (String.eqb c "" || String.eqb c ".").
Definition comps (s : string) : list string := filter good_part (split_on SLASH s).
Definition parse (s : string) : path := {| p_root := root_of s; p_parts := comps s |}.

Fixpoint join_sl (l : list string) : string :=
  match l with
  | [] => ""
  | [x] => x
  | x :: r => x ++ String SLASH (join_sl r)
  end.

(* str(path) *)
Definition to_str (p : path) : string :=
  if is_empty (p_root p) && (match p_parts p with [] => true | _ => false end) then "." else p_root p ++ join_sl (p_parts p).

Definition is_abs (p : path) : bool := negb (is_empty (p_root p)).

(* Path(base, p) / base.joinpath(p) / what the OS does with a relative p when the working directory is base *)
Definition join (base p : path) : path :=
  if is_abs p then p else {| p_root := p_root base; p_parts := p_parts base ++ p_parts p |}.

(* Path(s).absolute() in working directory cwd *)
Definition absolute (cwd : string) (s : string) : string := to_str (join (parse cwd) (parse s)).

Definition name (p : path) : string := last (p_parts p) "".
Definition parent_parts (p : path) : list string := removelast (p_parts p).

(* text before / after the last occurrence of x *)
Fixpoint split_last (x : ascii) (s : string) : option (string * string) :=
  match s with
  | EmptyString => None
  | String c r => match split_last x r with
                  | Some (a, b) => Some (String c a, b)
                  | None => if Ascii.eqb c x then Some (EmptyString, r) else None
                  end
  end.

(* PurePath.stem / .suffix (3.12): i = name.rfind('.'); 0 < i < len(name)-1 *)
Definition stem (n : string) : string :=
  match split_last DOT n with
  | Some (a, b) => if is_empty a || is_empty b then n else a
  | None => n
  end.
Definition suffix (n : string) : string :=
  match split_last DOT n with
  | Some (a, b) => if is_empty a || is_empty b then "" else String DOT b
  | None => ""
  end.

(* with_name raises ValueError on a path without a name *)
Definition with_name (p : path) (n : string) : option path :=
  if is_empty (name p) then None else Some {| p_root := p_root p; p_parts := parent_parts p ++ [n] |}.

(* ---- GEOPHIRESv3.main: JSON path (the code after fix 4b78654) ---- *)
Definition json_name (n : string) : string := stem n ++ ".json".
Definition json_path (out : string) : option string :=
  let p := parse out in option_map to_str (with_name p (json_name (name p))).

(* GeophiresXResult.json_output_file_path: Path(out).with_suffix('.json') *)
Definition with_suffix_json_name (n : string) : string :=
  match split_last DOT n with
  | Some (a, b) => if is_empty a || is_empty b then n ++ ".json" else a ++ ".json"
  | None => n ++ ".json"
  end.
Definition client_json_path (out : string) : option string :=
  let p := parse out in option_map to_str (with_name p (with_suffix_json_name (name p))).

(* the code before the fix: output_arg.replace(output_arg_path.name, stem + '.json') over the WHOLE string *)
Fixpoint drop_prefix (pat s : string) : option string :=
  match pat, s with
  | EmptyString, _ => Some s
  | String a p', String b s' => if Ascii.eqb a b then drop_prefix p' s' else None
  | _, EmptyString => None
  end.
Fixpoint replace_all_fuel (fuel : nat) (pat rep s : string) : string :=
  match fuel with
  | O => s
  | S f =>
      match drop_prefix pat s with
      | Some rest => if is_empty pat then s else rep ++ replace_all_fuel f pat rep rest
      | None => match s with
                | EmptyString => EmptyString
                | String c r => String c (replace_all_fuel f pat rep r)
                end
      end
  end.
Definition replace_all (pat rep s : string) : string := replace_all_fuel (S (String.length s)) pat rep s.
Definition json_path_pinned (out : string) : string :=
  let n := name (parse out) in replace_all n (json_name n) out.

(* ---- the files one run of GEOPHIRESv3.main creates ----
   orig_cwd: working directory when main() is entered; pkg: the package directory main() chdir()s into;
   argv: sys.argv as strings.  The report is opened by Outputs with the process already inside pkg. *)
Record files := { f_report : string; f_json : option string }.

Definition main_files (orig_cwd pkg : string) (argv : list string) : files :=
  match nth_error argv 2 with
  | Some out => {| f_report := absolute pkg out;
                   f_json := option_map (absolute pkg) (json_path out) |}
  | None => {| f_report := absolute pkg "HDR.out";
               f_json := Some (to_str (join (parse orig_cwd) (parse "HDR.json"))) |}
  end.

(* geophires_x/__main__.py: argv[1], argv[2] made absolute against the starting directory, default HDR.out there *)
Definition cli_argv (cwd inp : string) (out : option string) : list string :=
  [ "geophires_x"; absolute cwd inp;
    match out with Some o => absolute cwd o | None => to_str (join (parse cwd) (parse "HDR.out")) end ].

(* GeophiresXClient.get_geophires_result called in cwd (code after fix fa4a753):
     sys.argv = ['', Path(input_params.as_file_path()).absolute(), input_params.get_output_file_path()]   (output: absolute temp path) *)
Definition client_argv (cwd inp out : string) : list string := [ ""; absolute cwd inp; out ].
(* before the fix the input path was passed on as given (kept as the named pinned behaviour) *)
Definition client_argv_pinned (inp out : string) : list string := [ ""; inp; out ].

(* the input file a run reads: sys.argv[1] is opened AFTER main() has changed into the package directory *)
Definition input_file (pkg : string) (argv : list string) : string := absolute pkg (nth 1 argv EmptyString).

(* outcome of a process: exit status, files written, report text *)
Record outcome := { o_exit : Z; o_files : option files; o_report : option string }.

(* the simulation proper on one input text: a report, an exception (anywhere before the report is complete), or a bare
   sys.exit() inside the simulator ("... will abort simulation": UPPReservoir, MPFReservoir, TOUGH2Reservoir, ...) *)
Inductive sim := SimOk (report : string) | SimFail | SimAbort.

Section EntryPoints.
  Variable run : string -> sim.

  (* abort_status: what a bare SystemExit raised inside main() becomes for the caller.  o_exit is the process status of
     the command line, and 0 / 1 = "returns normally" / "raises" for the in-process entry points. *)
  Definition finish (abort_status : Z) (fs : files) (input_text : string) (dir_ok : bool) : outcome :=
    match run input_text with
    | SimOk rep => if dir_ok then {| o_exit := 0; o_files := Some fs; o_report := Some rep |}
                   else {| o_exit := 1; o_files := None; o_report := None |}
    | SimFail => {| o_exit := 1; o_files := None; o_report := None |}
    | SimAbort => {| o_exit := abort_status; o_files := None; o_report := None |}
    end.

  (* python -m geophires_x <inp> [<out>]  started in cwd; dir_ok: the directory of the report exists.
     Current code (fix 3ff4cc0):  except SystemExit as e: rc = e.code if isinstance(e.code, int) and e.code != 0 else 1
     so a bare sys.exit() (code None) ends the process with status 1 *)
  Definition cli (cwd pkg inp : string) (out : option string) (input_text : string) (dir_ok : bool) : outcome :=
    finish 1 (main_files cwd pkg (cli_argv cwd inp out)) input_text dir_ok.

  (* the command line BEFORE fix 3ff4cc0 (kept as the named pinned behaviour): the bare SystemExit passed through
     try/finally and the interpreter exited with status 0 *)
  Definition cli_pinned (cwd pkg inp : string) (out : option string) (input_text : string) (dir_ok : bool) : outcome :=
    finish 0 (main_files cwd pkg (cli_argv cwd inp out)) input_text dir_ok.

  (* GeophiresXClient from any working directory: SystemExit is caught and re-raised as RuntimeError *)
  Definition client (cwd pkg inp out : string) (input_text : string) : outcome :=
    finish 1 (main_files cwd pkg (client_argv cwd inp out)) input_text true.

  (* GEOPHIRESv3.main() called directly with sys.argv = ['', inp, out]: the SystemExit reaches the caller as an exception *)
  Definition direct (cwd pkg : string) (argv : list string) (input_text : string) (dir_ok : bool) : outcome :=
    finish 1 (main_files cwd pkg argv) input_text dir_ok.
End EntryPoints.

(* ---- what the file system does with '..' (no symbolic links): used to compare with observed file names ---- *)
Fixpoint canon_parts (acc : list string) (l : list string) : list string :=   (* acc reversed *)
  match l with
  | [] => rev acc
  | x :: r => if String.eqb x ".." then canon_parts (match acc with [] => [] | _ :: a => a end) r
              else canon_parts (x :: acc) r
  end.
Definition fs_canon (s : string) : string :=
  let p := parse s in to_str {| p_root := (if String.eqb (p_root p) "//" then "/" else p_root p); p_parts := canon_parts [] (p_parts p) |}.

(* ---- vocabulary of the statements ---- *)
Definition wf_part (c : string) : bool := good_part c && nochar SLASH c.
Definition wf_abs (p : path) : bool :=
  (String.eqb (p_root p) "/" || String.eqb (p_root p) "//") && forallb wf_part (p_parts p).

(* comparison helpers for the kernel correspondence *)
Definition opt_eqb (a b : option string) : bool :=
  match a, b with Some x, Some y => String.eqb x y | None, None => true | _, _ => false end.
Definition files_canon_eqb (fs : files) (report : string) (json : option string) : bool :=
  String.eqb (fs_canon (f_report fs)) report && opt_eqb (option_map fs_canon (f_json fs)) json.

(* observed behaviour of one command-line process against the model: exit status and the set of files it created *)
Fixpoint mem_s (x : string) (l : list string) : bool :=
  match l with [] => false | y :: r => String.eqb x y || mem_s x r end.
Definition same_set (a b : list string) : bool :=
  Nat.eqb (List.length a) (List.length b) && forallb (fun x => mem_s x b) a && forallb (fun x => mem_s x a) b.
Definition sim_of_code (c : nat) : sim := match c with 0 => SimOk EmptyString | 1 => SimFail | _ => SimAbort end.
Definition cli_check (cwd pkg inp : string) (out : option string) (sim_code : nat) (dir_ok : bool)
           (obs_exit : Z) (obs_files : list string) : bool :=
  let o := cli (fun _ => sim_of_code sim_code) cwd pkg inp out EmptyString dir_ok in
  match o_files o with
  | Some fs => Z.eqb obs_exit 0
               && same_set obs_files (fs_canon (f_report fs) :: match f_json fs with Some j => [fs_canon j] | None => [] end)
  | None => Bool.eqb (Z.eqb obs_exit 0) (Z.eqb (o_exit o) 0) && match obs_files with [] => true | _ => false end
  end.
Definition argv_check (cwd inp : string) (out : option string) (seen : list string) : bool :=
  match cli_argv cwd inp out, seen with
  | [_; a1; a2], [_; b1; b2] => String.eqb a1 b1 && String.eqb a2 b2
  | _, _ => false
  end.

(* observed files of one direct GEOPHIRESv3.main() run against main_files *)
Definition direct_check (cwd pkg : string) (argv : list string) (obs_files : list string) : bool :=
  let fs := main_files cwd pkg argv in
  same_set obs_files (fs_canon (f_report fs) :: match f_json fs with Some j => [fs_canon j] | None => [] end).

(* ================= HIP-RA-X: hip_ra_x/hip_ra_x.py main(), HipRaXClient, the Monte-Carlo driver's HipRaXClient call =========
   main():  os.chdir(<package dir>); model.read_parameters() -> read_input_file(sys.argv[1])   (AFTER the chdir)
            try: Calculate() except Exception: log;  try: PrintOutputs() except Exception: log   (failures swallowed)
   PrintOutputs: outputfile = 'HIP.out' if len(sys.argv) <= 2 else sys.argv[2]; open(outputfile, 'w')
   There is no __main__.py and no argument normalisation: the script is run as  python -m hip_ra_x.hip_ra_x <in> [<out>]. *)
Record hip_io := { h_input : string; h_report : string }.
Definition hip_files (pkg : string) (argv : list string) : hip_io :=
  {| h_input := absolute pkg (nth 1 argv EmptyString);
     h_report := absolute pkg (match nth_error argv 2 with Some o => o | None => "HIP.out" end) |}.

(* reading + calculating one input FILE (identified by its canonical path): a report, or an exception while the
   parameters are read (missing file, malformed / out-of-range value) - the only failures main() lets through *)
Inductive hsim := HOk (report : string) | HFail.
Record houtcome := { ho_raises : bool; ho_report_at : option string; ho_text : option string }.

Section HipEntryPoints.
  Variable hrun : string -> hsim.

  (* dir_ok: the directory of the report exists (otherwise open() fails inside PrintOutputs and main() swallows it) *)
  Definition hip_main (pkg : string) (argv : list string) (dir_ok : bool) : houtcome :=
    let io := hip_files pkg argv in
    match hrun (fs_canon (h_input io)) with
    | HOk rep => if dir_ok then {| ho_raises := false; ho_report_at := Some (h_report io); ho_text := Some rep |}
                 else {| ho_raises := false; ho_report_at := None; ho_text := None |}
    | HFail => {| ho_raises := true; ho_report_at := None; ho_text := None |}
    end.

  (* python -m hip_ra_x.hip_ra_x <inp> [<out>] started in cwd: the arguments reach main() as typed; cwd plays no role *)
  Definition hip_script (cwd pkg inp : string) (out : option string) (dir_ok : bool) : houtcome :=
    hip_main pkg (EmptyString :: inp :: match out with Some o => [o] | None => [] end) dir_ok.
  Definition hip_status (o : houtcome) : Z := if ho_raises o then 1 else 0.

  (* HipRaXClient.get_hip_ra_result(HipRaInputParameters(inp)) with the parameter object built in cwd (code after fix fa4a753:
     the input path is stored as Path(inp).absolute()); argv = ['', that path, absolute temp output]; afterwards HipRaResult
     opens the report, which raises when main() did not write it *)
  Definition hip_client_of (argv1 : string) (pkg out : string) (dir_ok : bool) : houtcome :=
    let o := hip_main pkg [EmptyString; argv1; out] dir_ok in
    match ho_report_at o with
    | Some _ => o
    | None => {| ho_raises := true; ho_report_at := None; ho_text := None |}
    end.
  Definition hip_client (cwd pkg inp out : string) (dir_ok : bool) : houtcome := hip_client_of (absolute cwd inp) pkg out dir_ok.
  (* before the fix: the path as given (kept as the named pinned behaviour) *)
  Definition hip_client_pinned (pkg inp out : string) (dir_ok : bool) : houtcome := hip_client_of inp pkg out dir_ok.
End HipEntryPoints.

(* observed behaviour of one HIP-RA-X run against the model: ok_inputs = canonical paths of the existing, valid input files *)
Definition hip_check (pkg : string) (argv : list string) (ok_inputs : list string) (dir_ok : bool)
           (obs_raised : bool) (obs_files : list string) : bool :=
  let o := hip_main (fun p => if mem_s p ok_inputs then HOk EmptyString else HFail) pkg argv dir_ok in
  Bool.eqb obs_raised (ho_raises o)
  && same_set obs_files (match ho_report_at o with Some r => [fs_canon r] | None => [] end).

(* ================= Model.__init__(input_file=kw): which file a Model reads =================
     if input_file is None and len(sys.argv) > 1: input_file = sys.argv[1]
   the keyword wins; sys.argv[1] is only the fall-back *)
Definition model_input_source (kw : option string) (argv : list string) : option string :=
  match kw with
  | Some a => Some a
  | None => nth_error argv 1
  end.

(* ================= histories of client calls in one process =================
   get_geophires_result: stash_cwd = Path.cwd() ... try: main() ... finally: sys.argv = stash; os.chdir(stash_cwd)
   - the working directory is restored whatever main() did (it chdir()s into the package directory first) *)
Record creq := { q_inp : string; q_out : string; q_text : string }.
Section Histories.
  Variable run : string -> sim.
  Definition client_step (pkg st : string) (q : creq) : string * outcome :=
    (st, client run st pkg (q_inp q) (q_out q) (q_text q)).
  (* a client that restores the directory only when main() returned normally (chdir after, not in, the finally) *)
  Definition client_step_leaky (pkg st : string) (q : creq) : string * outcome :=
    let o := client run st pkg (q_inp q) (q_out q) (q_text q) in
    ((if Z.eqb (o_exit o) 0 then st else pkg), o).
  Fixpoint history (step : string -> string -> creq -> string * outcome) (pkg st : string) (qs : list creq)
    : list (string * outcome) :=     (* working directory after, and outcome of, each call *)
    match qs with
    | [] => []
    | q :: r => let so := step pkg st q in so :: history step pkg (fst so) r
    end.
End Histories.
Definition sim_of_text (t : string) : sim :=
  if String.eqb t "ok" then SimOk EmptyString else if String.eqb t "abort" then SimAbort else SimFail.
Definition history_check (pkg cwd : string) (kinds obs_cwds : list string) : bool :=
  Tokenizer.list_eqb String.eqb
    (map fst (history (client_step sim_of_text) pkg cwd
                 (map (fun k => {| q_inp := "in.txt"; q_out := "/tmp/o.out"; q_text := k |}) kinds)))
    obs_cwds.

(* ================= the report file after a history of runs =================
   Outputs.PrintOutputs: with open(self.output_file, 'w', ...) - truncate, then write; GEOPHIRESv3.main writes the JSON
   the same way.  A file system is a list (path, content); content = the sequence of reports in the file (their ids). *)
Definition fsys := list (string * list N).
Fixpoint fs_lookup (p : string) (fs : fsys) : option (list N) :=
  match fs with [] => None | (q, c) :: r => if String.eqb p q then Some c else fs_lookup p r end.
Fixpoint fs_set (p : string) (c : list N) (fs : fsys) : fsys :=
  match fs with
  | [] => [(p, c)]
  | (q, d) :: r => if String.eqb p q then (q, c) :: r else (q, d) :: fs_set p c r
  end.
(* one successful run writing report [id] to path p: mode 'w' (the code) or mode 'a' (NOT the code) *)
Definition write_report (append : bool) (fs : fsys) (run : string * N) : fsys :=
  let '(p, id) := run in
  fs_set p (if append then match fs_lookup p fs with Some c => c ++ [id] | None => [id] end else [id]) fs.
Definition after_runs (append : bool) (runs : list (string * N)) : fsys := fold_left (write_report append) runs [].
Fixpoint last_run_to (p : string) (runs : list (string * N)) : option N :=
  match runs with
  | [] => None
  | (q, id) :: r => match last_run_to p r with Some x => Some x | None => if String.eqb p q then Some id else None end
  end.
Fixpoint nlist_eqb' (a b : list N) : bool :=
  match a, b with [] , [] => true | x :: a', y :: b' => N.eqb x y && nlist_eqb' a' b' | _, _ => false end.
Definition report_file_check (runs : list (string * N)) (p : string) (observed : list N) : bool :=
  match fs_lookup p (after_runs false runs) with Some c => nlist_eqb' c observed | None => match observed with [] => true | _ => false end end.
