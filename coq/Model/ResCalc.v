(* Model/ResCalc.v - executable model of the rational remainder of Reservoir.Calculate (lines 678-698, 726-731,
   749-755): fracture geometry by shape option, reservoir volume by volume option, average gradient, injection
   temperature after the wellbore gain and initial reservoir heat content; and of the bottom-hole temperature of
   the reservoir classes that override the walk (CylindricalReservoir, SBTReservoir.Calculate_Uloop).
   pi and sqrt(4/pi*area) are data (math.pi, math.sqrt); CoolProp values do not enter.  Definitions only. *)
From Coq Require Import QArith Qminmax List ZArith Bool.
From Verif Require Import Base.Flat Model.Gradient.
Import ListNotations.
Open Scope Q_scope.

Record frac_state := { fs_height : Q; fs_width : Q; fs_area : Q; fs_numb : Q; fs_sep : Q; fs_vol : Q }.

(* FractureShape: 1 circular with known area, 2 circular with known diameter, 3 square, 4 rectangular *)
Definition frac_geometry (shape : Z) (pi sqrt_val : Q) (s : frac_state) : frac_state :=
  if (shape =? 1)%Z then
    {| fs_height := sqrt_val; fs_width := sqrt_val; fs_area := fs_area s;
       fs_numb := fs_numb s; fs_sep := fs_sep s; fs_vol := fs_vol s |}
  else if (shape =? 2)%Z then
    {| fs_height := fs_height s; fs_width := fs_height s; fs_area := pi / 4 * fs_height s * fs_height s;
       fs_numb := fs_numb s; fs_sep := fs_sep s; fs_vol := fs_vol s |}
  else if (shape =? 3)%Z then
    {| fs_height := fs_height s; fs_width := fs_height s; fs_area := fs_height s * fs_height s;
       fs_numb := fs_numb s; fs_sep := fs_sep s; fs_vol := fs_vol s |}
  else if (shape =? 4)%Z then
    {| fs_height := fs_height s; fs_width := fs_width s; fs_area := fs_height s * fs_width s;
       fs_numb := fs_numb s; fs_sep := fs_sep s; fs_vol := fs_vol s |}
  else s.

(* ReservoirVolume: 1 FRAC_NUM_SEP, 2 RES_VOL_FRAC_SEP, 3 RES_VOL_FRAC_NUM, 4 RES_VOL_ONLY;
   [resvol] is the input parameter (option 3 reads it, not the calculated copy); x/0 raises ZeroDivisionError *)
Definition res_volume (opt : Z) (resvol : Q) (s : frac_state) : outcome frac_state :=
  if (opt =? 1)%Z then
    Good {| fs_height := fs_height s; fs_width := fs_width s; fs_area := fs_area s; fs_numb := fs_numb s;
            fs_sep := fs_sep s; fs_vol := (fs_numb s - 1) * fs_area s * fs_sep s |}
  else if (opt =? 2)%Z then
    if Qeqb (fs_area s) 0 || Qeqb (fs_sep s) 0 then Bad E_ZERODIV
    else Good {| fs_height := fs_height s; fs_width := fs_width s; fs_area := fs_area s;
                 fs_numb := fs_vol s / fs_area s / fs_sep s + 1; fs_sep := fs_sep s; fs_vol := fs_vol s |}
  else if (opt =? 3)%Z then
    if Qeqb (fs_area s) 0 || Qeqb (fs_numb s - 1) 0 then Bad E_ZERODIV
    else Good {| fs_height := fs_height s; fs_width := fs_width s; fs_area := fs_area s; fs_numb := fs_numb s;
                 fs_sep := resvol / fs_area s / (fs_numb s - 1); fs_vol := fs_vol s |}
  else Good s.

(* averagegradient *)
Definition average_gradient (n : nat) (gs : list Q) (Ts T d : Q) : Q :=
  if Nat.eqb n 1 then nth 0 gs 0 else (T - Ts) / d.

(* InitialReservoirHeatContent [1e15 J] *)
Definition heat_content (vol rho cp T Tinj : Q) : Q := vol * rho * cp * (T - Tinj) / 1000000000000000.

Record res_inputs := {
  ri_shape : Z; ri_opt : Z; ri_area : Q; ri_height : Q; ri_width : Q; ri_numb : Q; ri_sep : Q; ri_resvol : Q;
  ri_pi : Q; ri_sqrt : Q; ri_rho : Q; ri_cp : Q; ri_Tinj : Q; ri_gain : Q }.

(* the calculated copies start as the input values *)
Definition initial_state (r : res_inputs) : frac_state :=
  {| fs_height := ri_height r; fs_width := ri_width r; fs_area := ri_area r; fs_numb := ri_numb r;
     fs_sep := ri_sep r; fs_vol := ri_resvol r |}.

Definition geometry_of (r : res_inputs) : outcome frac_state :=
  res_volume (ri_opt r) (ri_resvol r) (frac_geometry (ri_shape r) (ri_pi r) (ri_sqrt r) (initial_state r)).

(* what follows the walk: [average gradient; height; width; area; volume; number; separation; Tinj after gain; heat content] *)
Definition res_post (r : res_inputs) (s : frac_state) (n : nat) (gs : list Q) (Ts T d : Q) : list Q :=
  let tinj := ri_Tinj r + ri_gain r in
  [average_gradient n gs Ts T d; fs_height s; fs_width s; fs_area s; fs_vol s; fs_numb s; fs_sep s; tinj;
   heat_content (fs_vol s) (ri_rho r) (ri_cp r) T tinj].

(* Reservoir.Calculate: geometry, volume, walk, the rest *)
Definition res_calc (r : res_inputs) (n : nat) (Ts Tmax : Q) (gs ths : list Q) (depth : Q) : outcome (list Q) :=
  match geometry_of r with
  | Bad c => Bad c
  | Good s =>
      match bht_code n Ts Tmax gs ths depth with
      | Bad c => Bad c
      | Good (T, d) => Good (T :: d :: res_post r s n gs Ts T d)
      end
  end.

(* CylindricalReservoir.Calculate: no layer walk and no Tmax cap; depth is the mean of input and output depth (km) *)
Definition cyl_trock (Ts g0 input_depth_km : Q) : Q := Ts + g0 * (input_depth_km * 1000).
Definition cyl_depth (input_depth_km output_depth_km : Q) : Q := (input_depth_km + output_depth_km) / 2.

(* SBTReservoir: averagegradient = np.average(gradient[0:numseg]) (thicknesses ignored);
   Trock = Tsurf + averagegradient * lateral endpoint depth (m); no Tmax cap *)
Definition sbt_average_gradient (n : nat) (gs : list Q) : Q := sumQ (firstn n gs) / natQ (length (firstn n gs)).
Definition sbt_trock (n : nat) (Ts : Q) (gs : list Q) (endpoint_m : Q) : Q := Ts + sbt_average_gradient n gs * endpoint_m.
Definition sbt_depth (junction_km endpoint_km : Q) : Q := (junction_km + endpoint_km) / 2.

(* ---- flat interface ---- *)

Definition inputs_of_flat (a : list Q) : option res_inputs :=
  match a with
  | [shape; opt; area; h; w; numb; sep; resvol; pi; sq; rho; cp; tinj; gain] =>
      Some {| ri_shape := qZ shape; ri_opt := qZ opt; ri_area := area; ri_height := h; ri_width := w; ri_numb := numb;
              ri_sep := sep; ri_resvol := resvol; ri_pi := pi; ri_sqrt := sq; ri_rho := rho; ri_cp := cp;
              ri_Tinj := tinj; ri_gain := gain |}
  | _ => None
  end.

(* residual of the library square root: sqrt_val^2 / (4/pi*area), 1 when the shape does not use it *)
Definition sqrt_residual (r : res_inputs) : Q :=
  if (ri_shape r =? 1)%Z then ri_sqrt r * ri_sqrt r / (4 / ri_pi r * ri_area r) else 1.

(* [n; Ts; Tmax; depth_m] ++ 4 gradients ++ 5 thicknesses ++ 14 reservoir inputs
   -> [Trock; depth; averagegradient; height; width; area; volume; number; separation; Tinj; heat content; sqrt residual] *)
Definition run_rescalc (a : list Q) : res :=
  match a with
  | n :: Ts :: Tmax :: depth :: g1 :: g2 :: g3 :: g4 :: t1 :: t2 :: t3 :: t4 :: t5 :: rest =>
      match inputs_of_flat rest with
      | None => Err E_ARGS
      | Some r =>
          match res_calc r (qnat n) Ts Tmax [g1; g2; g3; g4] [t1; t2; t3; t4; t5] depth with
          | Good l => Vals (l ++ [sqrt_residual r])
          | Bad c => Err c
          end
      end
  | _ => Err E_ARGS
  end.

(* the same for a snapshot, with Trock and the capped depth of the run as data:
   [n; Ts; g1; Trock; depth_m] ++ 14 reservoir inputs -> the nine values of res_post ++ [sqrt residual] *)
Definition run_respost (a : list Q) : res :=
  match a with
  | n :: Ts :: g1 :: T :: d :: rest =>
      match inputs_of_flat rest with
      | None => Err E_ARGS
      | Some r =>
          match geometry_of r with
          | Good s => Vals (res_post r s (qnat n) [g1] Ts T d ++ [sqrt_residual r])
          | Bad c => Err c
          end
      end
  | _ => Err E_ARGS
  end.

(* [Ts; g1; input depth km; output depth km] -> [Trock; depth; averagegradient] *)
Definition run_cylindrical (a : list Q) : res :=
  match a with
  | [Ts; g1; din; dout] => Vals [cyl_trock Ts g1 din; cyl_depth din dout; g1]
  | _ => Err E_ARGS
  end.

(* [n; Ts; endpoint m; junction km; endpoint km] ++ gradients -> [Trock; depth; averagegradient] *)
Definition run_sbt (a : list Q) : res :=
  match a with
  | n :: Ts :: ep :: jkm :: ekm :: gs =>
      if Nat.eqb (length (firstn (qnat n) gs)) 0 then Err E_ARGS
      else Vals [sbt_trock (qnat n) Ts gs ep; sbt_depth jkm ekm; sbt_average_gradient (qnat n) gs]
  | _ => Err E_ARGS
  end.
