(* Model/Friction.v - executable model of the frictional pressure loss of WellBores.WellPressureDrop /
   InjectionWellPressureDrop (Darcy-Weisbach).  Water density/viscosity, pi and - in the turbulent branch - the
   Colebrook friction factor are data (library values); the laminar factor 64/Re is computed.  No proofs here. *)
From Coq Require Import QArith List ZArith Bool.
From Verif Require Import Base.Flat.
Import ListNotations.
Open Scope Q_scope.

(* v = wellflowrate / rhowater / (math.pi / 4. * welldiam ** 2) *)
Definition velocity (q rho pi d : Q) : Q := q / rho / (pi / 4 * (d * d)).
(* Rewater = 4.0 * wellflowrate / (muwater * math.pi * welldiam) *)
Definition reynolds (q mu pi d : Q) : Q := 4 * q / (mu * pi * d).
Definition f_laminar (re : Q) : Q := 64 / re.
(* DPWell = f * (rhowater * v ** 2 / 2.) * (depth / welldiam) / 1E3 *)
Definition dp_friction (f rho v depth d : Q) : Q := f * (rho * (v * v) / 2) * (depth / d) / 1000.
(* flow in one injection well: nprod / ninj * wellflowrate * (1.0 + waterloss) *)
Definition inj_flow (nprod ninj q wl : Q) : Q := nprod / ninj * q * (1 + wl).

(* pressure loss of one time step for a given friction factor *)
Definition dp_of (f q rho pi depth d : Q) : Q := dp_friction f rho (velocity q rho pi d) depth d.
(* laminar pressure loss of one time step *)
Definition dp_laminar (q rho mu pi depth d : Q) : Q := dp_of (f_laminar (reynolds q mu pi d)) q rho pi depth d.

(* friction factor of one time step as a function of the diameter, for a given turbulent correlation
   [colebrook relroughness Re] (the code's six Colebrook iterations: log10, sqrt, fractional powers - library):
   relroughness = 1E-4 / welldiam *)
Definition well_f (colebrook : Q -> Q -> Q) (q mu pi d : Q) : Q :=
  let re := reynolds q mu pi d in
  if Qltb re 2300 then f_laminar re else colebrook ((1 # 10000) / d) re.

Definition averageQ (l : list Q) : Q := sumQ l / natQ (length l).
(* regime decision of the code: np.average(Rewater) < 2300 *)
Definition laminar_regime (q pi d : Q) (mu : list Q) : bool :=
  Qltb (averageQ (map (fun m => reynolds q m pi d) mu)) 2300.

(* friction factor series: 64/Re per step in the laminar regime, the supplied (Colebrook) values otherwise *)
Definition friction_series (q pi d : Q) (mu fturb : list Q) : list Q :=
  if laminar_regime q pi d mu then map (fun m => f_laminar (reynolds q m pi d)) mu else fturb.

Fixpoint dp_series (q pi depth d : Q) (f rho : list Q) : list Q :=
  match f, rho with
  | x :: f', r :: rho' => dp_of x q r pi depth d :: dp_series q pi depth d f' rho'
  | _, _ => []
  end.

(* ---- reflective checker: the growth condition between two diameters, per time step:
        f2 * d1^5 <= f1 * d2^5  (the friction factor grows slower than D^5) ---- *)
Definition pow5 (d : Q) : Q := d * d * d * d * d.
Definition growth_ok (d1 f1 d2 f2 : Q) : bool := Qleb (f2 * pow5 d1) (f1 * pow5 d2).
Fixpoint growth_ok_series (d1 d2 : Q) (f1 f2 : list Q) : bool :=
  match f1, f2 with
  | [], [] => true
  | x :: f1', y :: f2' => growth_ok d1 x d2 y && growth_ok_series d1 d2 f1' f2'
  | _, _ => false
  end.
(* implementation pressure losses at the larger diameter do not exceed those at the smaller one *)
Fixpoint le_series (a b : list Q) : bool :=
  match a, b with
  | [], [] => true
  | x :: a', y :: b' => Qleb x y && le_series a' b'
  | _, _ => false
  end.

(* ---- flat interface ----
   [n; q; pi; depth; d] ++ rho(n) ++ mu(n) ++ fturb(n)  ->  [regime] ++ v(n) ++ Re(n) ++ f(n) ++ DP(n) *)
Definition run_friction (a : list Q) : res :=
  match a with
  | n :: q :: pi :: depth :: d :: rest =>
      let n := qnat n in
      let '(rho, r1) := take_drop n rest in
      let '(mu, fturb) := take_drop n r1 in
      let f := friction_series q pi d mu fturb in
      Vals (boolQ (laminar_regime q pi d mu) :: map (fun r => velocity q r pi d) rho ++ map (fun m => reynolds q m pi d) mu
            ++ f ++ dp_series q pi depth d f rho)
  | _ => Err E_ARGS
  end.

(* injection well: [n; nprod; ninj; q; wl; pi; depth; d] ++ rho(n) ++ mu(n) ++ fturb(n), same outputs *)
Definition run_friction_inj (a : list Q) : res :=
  match a with
  | n :: nprod :: ninj :: q :: wl :: rest => run_friction (n :: inj_flow nprod ninj q wl :: rest)
  | _ => Err E_ARGS
  end.
