(* Model/MonteCarlo.v - executable model of the Monte Carlo driver (geophires_monte_carlo/MC_GeoPHIRES3.py):
   1. the random generator as seen by a pool of forked workers, under two seeding disciplines
      (fork-copy = the code before commit 883a02d, fresh-per-task = np.random.seed() at the start of work_package);
   2. the distribution dispatch of work_package and the documented numpy transforms;
   3. the pylocker-guarded append of one result row per work package.
   Definitions only, no proofs. *)
From Coq Require Import List Arith Bool QArith Qminmax Qround String Ascii.
Import ListNotations.
Open Scope nat_scope.

(* ------------------------------------------------------------------------------------------------
   1. generator and pool.
   A raw draw is identified by (stream, position): stream = the seed the generator was initialised
   with, position = how many raw draws were consumed since.  Two sampled values are "the same random
   number" exactly when they come from the same (stream, position). *)
Record gstate : Type := G { g_stream : nat; g_pos : nat }.
Definition rawdraw : Type := (nat * nat)%type.

Definition span (s p d : nat) : list rawdraw := map (fun k => (s, p + k)) (seq 0 d).

(* a work package consumes [d] raw draws (d is fixed by the settings file) *)
Definition take_draws (g : gstate) (d : nat) : list rawdraw * gstate :=
  (span (g_stream g) (g_pos g) d, G (g_stream g) (g_pos g + d)).

Inductive discipline : Type :=
| ForkCopy        (* worker state is whatever the forked copy of the parent's generator has become *)
| FreshPerTask.   (* np.random.seed() first: task number t starts stream [seeds t] at position 0 *)

Definition wstates : Type := nat -> gstate.          (* worker id -> its local generator *)
Definition upd (ws : wstates) (w : nat) (g : gstate) : wstates :=
  fun v => if Nat.eqb v w then g else ws v.

(* task number [t] executed by worker [w] *)
Definition run_task (disc : discipline) (seeds : nat -> nat) (d : nat) (ws : wstates) (t w : nat)
  : list rawdraw * wstates :=
  let g := match disc with ForkCopy => ws w | FreshPerTask => G (seeds t) 0 end in
  (fst (take_draws g d), upd ws w (snd (take_draws g d))).

(* a schedule is the list of worker ids that take tasks 0,1,2,... ; result: raw draws of every task *)
Fixpoint run_sched (disc : discipline) (seeds : nat -> nat) (d : nat) (ws : wstates) (t : nat)
         (sched : list nat) : list (list rawdraw) :=
  match sched with
  | [] => []
  | w :: r => fst (run_task disc seeds d ws t w)
              :: run_sched disc seeds d (snd (run_task disc seeds d ws t w)) (S t) r
  end.

(* fork: every worker starts as a copy of the parent's generator [g0] *)
Definition run_pool (disc : discipline) (seeds : nat -> nat) (d : nat) (g0 : gstate) (sched : list nat)
  : list (list rawdraw) :=
  run_sched disc seeds d (fun _ => g0) 0 sched.

(* rank of task i on its worker: how many earlier tasks the same worker ran *)
Definition rank (sched : list nat) (i : nat) : nat :=
  count_occ Nat.eq_dec (firstn i sched) (nth i sched 0).

(* equality pattern of the sample vectors: class id of task i = index of the first task with the same draws *)
Definition rawdraw_eqb (a b : rawdraw) : bool := Nat.eqb (fst a) (fst b) && Nat.eqb (snd a) (snd b).
Fixpoint vec_eqb (a b : list rawdraw) : bool :=
  match a, b with
  | [], [] => true
  | x :: a', y :: b' => rawdraw_eqb x y && vec_eqb a' b'
  | _, _ => false
  end.
Fixpoint first_index (v : list rawdraw) (l : list (list rawdraw)) (i : nat) : nat :=
  match l with
  | [] => i
  | x :: r => if vec_eqb v x then i else first_index v r (S i)
  end.
Definition classes (res : list (list rawdraw)) : list nat := map (fun v => first_index v res 0) res.

(* what the harness compares with the observed duplicate pattern of a real run:
   seeds are taken distinct (identity) for the fresh discipline *)
Definition predicted_classes (disc : discipline) (d : nat) (sched : list nat) : list nat :=
  classes (run_pool disc (fun t => t) d (G 0 0) sched).
Fixpoint nat_list_eqb (a b : list nat) : bool :=
  match a, b with
  | [], [] => true
  | x :: a', y :: b' => Nat.eqb x y && nat_list_eqb a' b'
  | _, _ => false
  end.

(* ------------------------------------------------------------------------------------------------
   2. distributions *)
Inductive dist : Type := DNormal | DUniform | DTriangular | DLognormal | DBinomial.

Definition dist_eqb (a b : dist) : bool :=
  match a, b with
  | DNormal, DNormal | DUniform, DUniform | DTriangular, DTriangular
  | DLognormal, DLognormal | DBinomial, DBinomial => true
  | _, _ => false
  end.

(* str.strip() on the left, ASCII white space *)
Definition is_ws (c : ascii) : bool :=
  let n := nat_of_ascii c in
  Nat.eqb n 32 || (Nat.leb 9 n && Nat.leb n 13) || (Nat.leb 28 n && Nat.leb n 31).
Fixpoint lstrip (s : string) : string :=
  match s with
  | String c r => if is_ws c then lstrip r else s
  | EmptyString => EmptyString
  end.

(* the if / elif / elif ; if ; if chain of work_package: every distribution that fires, in order *)
Definition dispatch (word : string) : list dist :=
  let w := lstrip word in
  (if prefix "normal" w then [DNormal]
   else if prefix "uniform" w then [DUniform]
   else if prefix "triangular" w then [DTriangular] else [])
  ++ (if prefix "lognormal" w then [DLognormal] else [])
  ++ (if prefix "binomial" w then [DBinomial] else []).

(* numpy call made for a distribution: how many of the numeric fields input_value[2..] are passed, in order *)
Definition nargs (k : dist) : nat := match k with DTriangular => 3 | _ => 2 end.
Definition call_args (k : dist) (fields : list Q) : list Q := firstn (nargs k) fields.

(* the numpy calls one work package makes for the INPUT lines (distribution word, numeric fields), in order *)
Definition expected_calls (inputs : list (string * list Q)) : list (dist * list Q) :=
  flat_map (fun wf => map (fun k => (k, call_args k (snd wf))) (dispatch (fst wf))) inputs.
Fixpoint qlist_eqb (a b : list Q) : bool :=
  match a, b with
  | [], [] => true
  | x :: a', y :: b' => Qeq_bool x y && qlist_eqb a' b'
  | _, _ => false
  end.
Fixpoint calls_eqb (a b : list (dist * list Q)) : bool :=
  match a, b with
  | [], [] => true
  | (k, x) :: a', (k', y) :: b' => dist_eqb k k' && qlist_eqb x y && calls_eqb a' b'
  | _, _ => false
  end.

(* documented transforms of one uniform variate u in [0,1) *)
Definition uniform_t (lo hi u : Q) : Q := (lo + (hi - lo) * u)%Q.

Definition triangular_t (sqrtf : Q -> Q) (l m r u : Q) : Q :=
  let base := (r - l)%Q in
  let lb := (m - l)%Q in
  if Qle_bool u (lb / base) then (l + sqrtf (u * (lb * base)))%Q
  else (r - sqrtf ((1 - u) * ((r - m) * base)))%Q.

(* binomial(n, p): number of successes in n Bernoulli(p) trials, trial i succeeds when u_i < p *)
Fixpoint binomial_t (p : Q) (us : list Q) : nat :=
  match us with
  | [] => O
  | u :: r => (if Qle_bool p u then O else 1%nat) + binomial_t p r
  end.

Definition lognormal_t (expf : Q -> Q) (z : Q) : Q := expf z.

(* support test applied to the values recorded in real result rows *)
Definition is_integer (x : Q) : bool := Qeq_bool (inject_Z (Qfloor x)) x.
Definition in_support (k : dist) (ps : list Q) (x : Q) : bool :=
  match k, ps with
  | DNormal, [_; _] => true
  | DUniform, [a; b] => Qle_bool (Qmin a b) x && Qle_bool x (Qmax a b)
  | DTriangular, [l; _; r] => Qle_bool l x && Qle_bool x r
  | DLognormal, [_; _] => negb (Qle_bool x 0%Q)
  | DBinomial, [n; _] => Qle_bool 0%Q x && Qle_bool x n && is_integer x
  | _, _ => false
  end.

(* ------------------------------------------------------------------------------------------------
   3. the guarded append (pylocker.Locker(filePath=output_file, timeout=10, mode='a')).
   One task = one work package that has computed its row.  The protocol of Locker.acquire_lock /
   release_lock, step by step:
     Idle     --check-->  Checked   when the lock file is empty or carries the task's own pass
                                    (otherwise the task keeps polling; after the time-out it gives up,
                                     __enter__ returns fd = None and the row is silently dropped)
              --takeover-> Checked  the lock file carries a foreign pass but its owner process is dead or the lock is older
                                    than the dead-lock delay (an earlier run was killed while holding it): pylocker
                                    takes it over (acquire code 2); whether that applies is a fact of the environment,
                                    so it is an action of the schedule
     Checked  --write-->  Written   the lock file now carries this task's pass (write tmp + os.rename)
     Written  --verify--> Holding   if the lock file still carries this task's pass, else back to Idle
     Holding  --release-> DoneOk    the row is in the result file.  The work package writes the row into the buffered
                                    file object and (since commit 1d8733c) flushes it while it still believes it holds
                                    the lock; release_lock then empties the lock file if it still carries this task's
                                    pass and otherwise refuses ("owned by another locker", code 4) and neither flushes
                                    nor closes the file object - harmless once the row has been flushed.
                          DoneLost  [early = false] the code before 1d8733c: no flush of its own, so after a refused
                                    release the row stays in the buffer; the pool worker ends with os._exit and the
                                    row never reaches the file.
   [early] selects the two variants: lstep / lrun are the current code, lstep_pinned / lrun_pinned the earlier one. *)
Inductive phase : Type := PIdle | PChecked | PWritten | PHolding | PDoneOk | PDoneLost.
Inductive action : Type := Step | Timeout | Takeover.

Record lstate : Type := LS { lock : option nat; phases : nat -> phase; file : list nat }.

Definition linit : lstate := LS None (fun _ => PIdle) [].

Definition free_for (l : option nat) (t : nat) : bool :=
  match l with None => true | Some o => Nat.eqb o t end.
Definition owned_by (l : option nat) (t : nat) : bool :=
  match l with None => false | Some o => Nat.eqb o t end.
Definition setp (ph : nat -> phase) (t : nat) (p : phase) : nat -> phase :=
  fun u => if Nat.eqb u t then p else ph u.

(* [pass t] is the pass phrase under which work package t takes the lock (lockPass = str(uuid.uuid1()), made anew in every
   work_package call): the lock file stores a pass phrase, and a contender whose pass phrase equals the stored one is
   granted the lock at once (pylocker code 1, "already set") *)
Definition lstep_pass (pass : nat -> nat) (early : bool) (st : lstate) (t : nat) (a : action) : lstate :=
  match phases st t, a with
  | PIdle, Step => if free_for (lock st) (pass t) then LS (lock st) (setp (phases st) t PChecked) (file st) else st
  | PIdle, Timeout => LS (lock st) (setp (phases st) t PDoneLost) (file st)
  | PIdle, Takeover => LS (lock st) (setp (phases st) t PChecked) (file st)
  | PChecked, Step => LS (Some (pass t)) (setp (phases st) t PWritten) (file st)
  | PWritten, Step => if owned_by (lock st) (pass t) then LS (lock st) (setp (phases st) t PHolding) (file st)
                      else LS (lock st) (setp (phases st) t PIdle) (file st)
  | PHolding, Step => if owned_by (lock st) (pass t) then LS None (setp (phases st) t PDoneOk) (file st ++ [t])
                      else if early then LS (lock st) (setp (phases st) t PDoneOk) (file st ++ [t])
                      else LS (lock st) (setp (phases st) t PDoneLost) (file st)
  | _, _ => st
  end.

Fixpoint lrun_pass (pass : nat -> nat) (early : bool) (st : lstate) (sched : list (nat * action)) : lstate :=
  match sched with
  | [] => st
  | (t, a) :: r => lrun_pass pass early (lstep_pass pass early st t a) r
  end.

(* the code: a fresh pass phrase per work package, i.e. pairwise distinct ones *)
Definition lstep_gen (early : bool) : lstate -> nat -> action -> lstate := lstep_pass (fun t => t) early.

Fixpoint lrun_gen (early : bool) (st : lstate) (sched : list (nat * action)) : lstate :=
  match sched with
  | [] => st
  | (t, a) :: r => lrun_gen early (lstep_gen early st t a) r
  end.

Definition lstep : lstate -> nat -> action -> lstate := lstep_gen true.          (* current code *)
Definition lrun : lstate -> list (nat * action) -> lstate := lrun_gen true.
Definition lstep_pinned : lstate -> nat -> action -> lstate := lstep_gen false.  (* before 1d8733c *)
Definition lrun_pinned : lstate -> list (nat * action) -> lstate := lrun_gen false.

Definition critical (p : phase) : bool :=
  match p with PChecked | PWritten | PHolding => true | _ => false end.
Definition finished (p : phase) : bool :=
  match p with PDoneOk | PDoneLost => true | _ => false end.
Definition phase_eqb (a b : phase) : bool :=
  match a, b with
  | PIdle, PIdle | PChecked, PChecked | PWritten, PWritten | PHolding, PHolding
  | PDoneOk, PDoneOk | PDoneLost, PDoneLost => true
  | _, _ => false
  end.

(* the interleaving the harness forces on two real work packages A = 0 and B = 1 *)
Definition double_acquire_schedule : list (nat * action) :=
  [(1, Step);              (* B checks: lock free *)
   (0, Step); (0, Step); (0, Step);   (* A checks, writes, verifies: A holds *)
   (1, Step); (1, Step);   (* B writes over A's pass, verifies: B holds too *)
   (0, Step);              (* A's row, then its release: owned by B, refused (pinned code: row lost) *)
   (1, Step)]%nat.         (* B's row and release *)

(* the lock is held by somebody else until task 0 gives up: its row is dropped (both variants) *)
Definition timeout_schedule : list (nat * action) :=
  [(1, Step); (1, Step); (1, Step); (0, Step); (0, Timeout); (1, Step)]%nat.

(* a run into a directory where a killed earlier run left its lock (owner id [o]): the first work package takes the stale
   lock over, then the n work packages append one after the other *)
Definition lstale (o : nat) : lstate := LS (Some o) (fun _ => PIdle) [].
Definition stale_serial_schedule (n : nat) : list (nat * action) :=
  match n with
  | O => []
  | S m => (0, Takeover) :: repeat (0, Step) 3 ++ flat_map (fun t => repeat (t, Step) 4) (seq 1 m)
  end%nat.

(* work package 1 arrives while work package 0 is inside its critical section (lock file carries 0's pass phrase) *)
Definition overlap_schedule : list (nat * action) :=
  [(0, Step); (0, Step); (0, Step);      (* 0 checks, writes, verifies: holds *)
   (1, Step); (1, Step); (1, Step)]%nat. (* 1 tries to check / write / verify *)
