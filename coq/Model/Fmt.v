(* Model/Fmt.v - executable model of CPython's formatting of a float, evaluated on the EXACT rational
   value of the double (every finite double is a rational):
     format(x, 'w.pf')  format(x, 'w,.pf')  format(x, 'w.pe') / 'w.pE'  format(x, 'w.pg')
     repr(x) / str(x)   round(x, n)   str(int)
   CPython rounds the exact binary value half-to-even at the requested decimal position (dtoa modes 2/3)
   and repr() is the shortest digit string that reads back as the same double (dtoa mode 0).
   Executable definitions only; lemmas are in Proofs/FmtProofs.v. *)
From Coq Require Import String Ascii QArith Qabs Qround ZArith List Bool.
Import ListNotations.
Open Scope Z_scope.

(* ---------- values a formatted field can hold ---------- *)
Inductive fval : Type :=
| Fin (q : Q)      (* finite, value given exactly; -0.0 is NegZero *)
| NegZero
| NaN
| PInf
| NInf.

(* a finite double given as mantissa / 2^e (cheap literal for the correspondence shards) *)
Definition dbl (m : Z) (e : N) : fval := Fin (Qmake m (Pos.shiftl 1 e)).

(* ---------- rounding ---------- *)
Definition round_half_even (q : Q) : Z :=
  let f := Qfloor q in
  match Qcompare (q - inject_Z f) (1#2) with
  | Lt => f
  | Gt => f + 1
  | Eq => if Z.even f then f else f + 1
  end.

Definition pow10 (p : nat) : Z := 10 ^ Z.of_nat p.

(* |q| * 10^p rounded half-even: the integer whose digits are printed by '.pf' *)
Definition scaled_abs (q : Q) (p : nat) : Z := round_half_even (Qabs q * inject_Z (pow10 p)).
Definition qneg (q : Q) : bool := (Qnum q <? 0).
(* the decimal value a '.pf' field shows *)
Definition shown (q : Q) (p : nat) : Q :=
  (if qneg q then -(1) else 1)%Q * (inject_Z (scaled_abs q p) / inject_Z (pow10 p))%Q.

(* ---------- digits ---------- *)
Fixpoint digs_acc (fuel : nat) (n : Z) (acc : list Z) : list Z :=
  match fuel with
  | O => acc
  | S f => if n <? 10 then n :: acc else digs_acc f (n / 10) (n mod 10 :: acc)
  end.
(* decimal digits of n >= 0, most significant first, no leading zero ("0" for 0) *)
Definition zdigits (n : Z) : list Z := digs_acc (S (Z.to_nat (Z.log2 n))) n [].

(* exactly p digits of r (r mod 10^p), most significant first *)
Fixpoint fixdigs_acc (p : nat) (r : Z) (acc : list Z) : list Z :=
  match p with
  | O => acc
  | S p' => fixdigs_acc p' (r / 10) (r mod 10 :: acc)
  end.
Definition fixdigs (p : nat) (r : Z) : list Z := fixdigs_acc p r [].

Definition digit_char (d : Z) : ascii := ascii_of_nat (48 + Z.to_nat d).
Definition dchars (ds : list Z) : list ascii := map digit_char ds.

Definition sp : ascii := " "%char.
Definition lpad (w : nat) (s : list ascii) : list ascii := repeat sp (w - length s) ++ s.

(* thousands separators: groups of three from the right *)
Fixpoint group3_rev (ds : list ascii) (k : nat) : list ascii :=
  match ds with
  | [] => []
  | d :: r => match k, r with
              | 2%nat, _ :: _ => d :: ","%char :: group3_rev r 0
              | _, _ => d :: group3_rev r (S k)
              end
  end.
Definition group3 (ds : list ascii) : list ascii := rev (group3_rev (rev ds) 0).

Definition chars (s : string) : list ascii := list_ascii_of_string s.
Arguments chars _%string.

(* ---------- fixed: format(x, 'w.pf') and 'w,.pf' ---------- *)
Definition fixed_body (comma : bool) (neg : bool) (s : Z) (p : nat) : list ascii :=
  let ip := dchars (zdigits (s / pow10 p)) in
  (if neg then ["-"%char] else []) ++ (if comma then group3 ip else ip)
  ++ match p with O => [] | _ => "."%char :: dchars (fixdigs p (s mod pow10 p)) end.

Definition special (v : fval) : list ascii :=
  match v with NaN => chars "nan" | PInf => chars "inf" | NInf => chars "-inf" | _ => [] end.

Definition fmt_f_chars (comma : bool) (v : fval) (w p : nat) : list ascii :=
  lpad w match v with
         | Fin q => fixed_body comma (qneg q) (scaled_abs q p) p
         | NegZero => fixed_body comma true 0 p
         | _ => special v
         end.
Definition fmt_f (v : fval) (w p : nat) : string := string_of_list_ascii (fmt_f_chars false v w p).
Definition fmt_fc (v : fval) (w p : nat) : string := string_of_list_ascii (fmt_f_chars true v w p).

(* ---------- decimal exponent ---------- *)
Definition Qpow10 (z : Z) : Q := if z <? 0 then 1 # Z.to_pos (10 ^ (- z)) else inject_Z (10 ^ z).
Definition ndig (n : Z) : Z := Z.of_nat (length (zdigits n)).
(* floor(log10 |q|) for q <> 0 *)
Definition ilog10 (q : Q) : Z :=
  let a := Qabs q in
  let d := ndig (Qnum a) - ndig (Zpos (Qden a)) in
  if Qle_bool (Qpow10 d) a then d else d - 1.

(* |q| rounded half-even to n significant digits: (integer of n digits, decimal exponent of its FIRST digit) *)
Definition sig_round (q : Q) (n : nat) : Z * Z :=
  let x := ilog10 q in
  let m := round_half_even (Qabs q * Qpow10 (Z.of_nat n - 1 - x)) in
  if m =? pow10 n then (pow10 (n - 1), x + 1) else (m, x).

Definition exp_chars (upper : bool) (x : Z) : list ascii :=
  (if upper then "E"%char else "e"%char) :: (if x <? 0 then "-"%char else "+"%char)
  :: let ds := zdigits (Z.abs x) in dchars (if (length ds <? 2)%nat then 0 :: ds else ds).

(* ---------- scientific: format(x, 'w.pe') ---------- *)
Definition sci_body (upper neg : bool) (m x : Z) (p : nat) : list ascii :=
  (if neg then ["-"%char] else [])
  ++ match fixdigs (S p) m with
     | d :: r => digit_char d :: match p with O => [] | _ => "."%char :: dchars r end
     | [] => []
     end ++ exp_chars upper x.

Definition fmt_e_chars (upper : bool) (v : fval) (w p : nat) : list ascii :=
  lpad w match v with
         | Fin q => if Qeq_bool q 0 then sci_body upper false 0 0 p
                    else let '(m, x) := sig_round q (S p) in sci_body upper (qneg q) m x p
         | NegZero => sci_body upper true 0 0 p
         | NaN => chars (if upper then "NAN" else "nan")
         | PInf => chars (if upper then "INF" else "inf")
         | NInf => chars (if upper then "-INF" else "-inf")
         end.
Definition fmt_e (upper : bool) (v : fval) (w p : nat) : string := string_of_list_ascii (fmt_e_chars upper v w p).

(* ---------- general: format(x, 'w.pg') (no '#': trailing zeros removed) ---------- *)
Fixpoint strip0_rev (ds : list Z) : list Z :=
  match ds with 0 :: r => strip0_rev r | _ => ds end.
Definition strip0 (ds : list Z) : list Z := rev (strip0_rev (rev ds)).

(* lay out digits d1 d2 .. dn with value 0.d1..dn * 10^(x+1) in positional notation; frac part may be empty *)
Definition positional (ds : list Z) (x : Z) : list Z * list Z :=
  if x <? 0 then ([0], repeat 0 (Z.to_nat (- x - 1)) ++ ds)
  else let k := Z.to_nat (x + 1) in
       (firstn k ds ++ repeat 0 (k - length ds), skipn k ds).

Definition gen_body (neg : bool) (m x : Z) (prec : nat) : list ascii :=
  let ds := fixdigs prec m in
  (if neg then ["-"%char] else [])
  ++ if (x <? -4) || (Z.of_nat prec <=? x)
     then match ds with
          | d :: r => digit_char d :: match strip0 r with [] => [] | r' => "."%char :: dchars r' end
          | [] => []
          end ++ exp_chars false x
     else let '(ip, fp) := positional ds x in
          dchars ip ++ match strip0 fp with [] => [] | f => "."%char :: dchars f end.

Definition fmt_g_chars (v : fval) (w p : nat) : list ascii :=
  let prec := match p with O => 1%nat | _ => p end in
  lpad w match v with
         | Fin q => if Qeq_bool q 0 then ["0"%char]
                    else let '(m, x) := sig_round q prec in gen_body (qneg q) m x prec
         | NegZero => chars "-0"
         | _ => special v
         end.
Definition fmt_g (v : fval) (w p : nat) : string := string_of_list_ascii (fmt_g_chars v w p).

(* ---------- repr(x): shortest digits that read back as the same double ---------- *)
Definition Qpow2 (z : Z) : Q := if z <? 0 then 1 # Z.to_pos (2 ^ (- z)) else inject_Z (2 ^ z).
(* floor(log2 |q|), q <> 0 *)
Definition ilog2 (q : Q) : Z :=
  let a := Qabs q in
  let d := Z.log2 (Qnum a) - Z.log2 (Zpos (Qden a)) in
  if Qle_bool (Qpow2 d) a then d else d - 1.

(* the reals that round to the (normal) double a > 0: (low, high, bounds included?) *)
Definition rt_interval (a : Q) : Q * Q * bool :=
  let e := ilog2 a in
  let ulp := Qpow2 (e - 52) in
  let m := Qfloor (a / ulp) in                       (* 2^52 <= m < 2^53, exact for a double *)
  let lowgap := if Qeq_bool a (Qpow2 e) then (ulp / 4)%Q else (ulp / 2)%Q in
  ((a - lowgap)%Q, (a + ulp / 2)%Q, Z.even m).

Definition in_iv (iv : Q * Q * bool) (c : Q) : bool :=
  let '(lo, hi, incl) := iv in
  if incl then Qle_bool lo c && Qle_bool c hi
  else negb (Qle_bool c lo) && negb (Qle_bool hi c).

(* try n significant digits: the candidates are floor and floor+1 at that position *)
Definition repr_try (a : Q) (iv : Q * Q * bool) (x : Z) (n : nat) : option (Z * Z) :=
  let e10 := x - Z.of_nat n + 1 in
  let u := Qpow10 e10 in
  let c1 := Qfloor (a / u) in
  let c2 := c1 + 1 in
  let v1 := (inject_Z c1 * u)%Q in
  let v2 := (inject_Z c2 * u)%Q in
  match in_iv iv v1, in_iv iv v2 with
  | true, false => Some (c1, e10)
  | false, true => Some (c2, e10)
  | true, true => match Qcompare (a - v1) (v2 - a) with
                  | Lt => Some (c1, e10) | Gt => Some (c2, e10)
                  | Eq => Some (if Z.even c1 then c1 else c2, e10)
                  end
  | false, false => None
  end.

Fixpoint repr_search (a : Q) (iv : Q * Q * bool) (x : Z) (n fuel : nat) : Z * Z :=
  match fuel with
  | O => (Qfloor (a / Qpow10 (x - 16)), x - 16)
  | S f => match repr_try a iv x n with
           | Some r => r
           | None => repr_search a iv x (S n) f
           end
  end.

(* shortest digits (no trailing zeros) and the decimal exponent x of the first digit *)
Definition repr_digits (a : Q) : list Z * Z :=
  let '(c, e10) := repr_search a (rt_interval a) (ilog10 a) 1 17 in
  let ds := zdigits c in
  (match strip0 ds with [] => [0] | l => l end, Z.of_nat (length ds) - 1 + e10).

Definition repr_body (neg : bool) (a : Q) : list ascii :=
  let '(ds, x) := repr_digits a in
  (if neg then ["-"%char] else [])
  ++ if (x <? -4) || (16 <=? x)
     then match ds with
          | d :: r => digit_char d :: match r with [] => [] | _ => "."%char :: dchars r end
          | [] => []
          end ++ exp_chars false x
     else let '(ip, fp) := positional ds x in
          dchars ip ++ "."%char :: dchars (match fp with [] => [0] | _ => fp end).

Definition py_repr_chars (v : fval) : list ascii :=
  match v with
  | Fin q => if Qeq_bool q 0 then chars "0.0" else repr_body (qneg q) (Qabs q)
  | NegZero => chars "-0.0"
  | _ => special v
  end.
Definition py_repr (v : fval) : string := string_of_list_ascii (py_repr_chars v).

(* ---------- round(x, n), n >= 0: exact half-even decimal rounding, then the nearest double ---------- *)
Definition nearest_double (r : Q) : Q :=
  if Qeq_bool r 0 then 0%Q else
  let a := Qabs r in
  let u := Qpow2 (ilog2 a - 52) in
  let m := round_half_even (a / u) in
  ((if qneg r then -(1) else 1) * (inject_Z m * u))%Q.

Definition py_round (q : Q) (n : nat) : Q := nearest_double (shown q n).
Definition py_round_repr (v : fval) (n : nat) : string :=
  match v with
  | Fin q => let r := py_round q n in
             if Qeq_bool r 0 then (if qneg q then "-0.0" else "0.0")%string else py_repr (Fin r)
  | _ => py_repr v
  end.

(* ---------- str(int) and format(int, 'w.0f')-style labels ---------- *)
Definition py_int_chars (z : Z) : list ascii :=
  (if z <? 0 then ["-"%char] else []) ++ dchars (zdigits (Z.abs z)).
Definition py_int (z : Z) : string := string_of_list_ascii (py_int_chars z).

(* ---------- reading a printed decimal back (the meaning of the text) ---------- *)
Definition is_digit (c : ascii) : bool := let n := nat_of_ascii c in (48 <=? n)%nat && (n <=? 57)%nat.
Definition digit_val (c : ascii) : Z := Z.of_nat (nat_of_ascii c - 48).
Definition dval (ds : list Z) : Z := fold_left (fun a d => a * 10 + d) ds 0.

Fixpoint skip_spaces (s : list ascii) : list ascii :=
  match s with c :: r => if Ascii.eqb c sp then skip_spaces r else s | [] => [] end.
(* leading digits (commas between digits are skipped when [comma]) and the rest *)
Fixpoint span_digits (comma : bool) (s : list ascii) : list Z * list ascii :=
  match s with
  | c :: r => if is_digit c then let '(ds, t) := span_digits comma r in (digit_val c :: ds, t)
              else if comma && Ascii.eqb c ","%char then span_digits comma r
              else ([], s)
  | [] => ([], [])
  end.

(* spaces* '-'? digits+ ('.' digits* )? end  ->  the rational it denotes *)
Definition parse_dec_chars (comma : bool) (s : list ascii) : option Q :=
  let s1 := skip_spaces s in
  let '(neg, s2) := match s1 with c :: r => if Ascii.eqb c "-"%char then (true, r) else (false, s1) | [] => (false, []) end in
  let '(ip, s3) := span_digits comma s2 in
  match ip with
  | [] => None
  | _ =>
    let '(fp, s4) := match s3 with
                     | c :: r => if Ascii.eqb c "."%char then span_digits false r else ([], s3)
                     | [] => ([], [])
                     end in
    match s4 with
    | [] => Some ((if neg then -(1) else 1)%Q * (inject_Z (dval (ip ++ fp)) / inject_Z (pow10 (length fp)))%Q)%Q
    | _ => None
    end
  end.
Definition parse_dec (s : string) : option Q := parse_dec_chars false (chars s).
Definition parse_dec_comma (s : string) : option Q := parse_dec_chars true (chars s).

(* spaces* '-'? digit ('.' digits* )? ('e'|'E') ('+'|'-') digits+ end  ->  the rational it denotes *)
Definition parse_sci_chars (s : list ascii) : option Q :=
  let s1 := skip_spaces s in
  let '(neg, s2) := match s1 with c :: r => if Ascii.eqb c "-"%char then (true, r) else (false, s1) | [] => (false, []) end in
  let '(ip, s3) := span_digits false s2 in
  match ip with
  | [_] =>
    let '(fp, s4) := match s3 with
                     | c :: r => if Ascii.eqb c "."%char then span_digits false r else ([], s3)
                     | [] => ([], [])
                     end in
    match s4 with
    | e :: sg :: r =>
        if Ascii.eqb e "e"%char || Ascii.eqb e "E"%char then
          let '(xd, s5) := span_digits false r in
          match xd, s5 with
          | _ :: _, [] =>
              if Ascii.eqb sg "-"%char || Ascii.eqb sg "+"%char then
                Some ((if neg then -(1) else 1) * (inject_Z (dval (ip ++ fp)) / inject_Z (pow10 (length fp)))
                      * Qpow10 (if Ascii.eqb sg "-"%char then - dval xd else dval xd))%Q
              else None
          | _, _ => None
          end
        else None
    | _ => None
    end
  | _ => None
  end.
Definition parse_sci (s : string) : option Q := parse_sci_chars (chars s).
