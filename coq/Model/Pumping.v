(* Model/Pumping.v - executable model of the pumping-power stage of WellBores.Calculate for both hydraulic
   models (impedance; productivity/injectivity index, pumped or self-flowing), per time step, with the
   negative-to-zero clamps where the code has them.  Densities and pressure drops are data.  No proofs here. *)
From Coq Require Import QArith List ZArith Bool.
From Verif Require Import Base.Flat.
Import ListNotations.
Open Scope Q_scope.

(* [0. if x < 0. else x for x in ...] *)
Definition clamp0 (x : Q) : Q := if Qltb x 0 then 0 else x.

(* numpy elementwise combination of two equally long arrays; a length mismatch raises ValueError *)
Fixpoint zipQ (f : Q -> Q -> Q) (a b : list Q) : option (list Q) :=
  match a, b with
  | [], [] => Some []
  | x :: a', y :: b' => match zipQ f a' b' with Some r => Some (f x y :: r) | None => None end
  | _, _ => None
  end.

(* ---------- impedance model ---------- *)
(* DPOverall = DPReserv + DPProdWell + DPBouyancy, then + DPInjWell (InjPressureDropsAndPumpingPowerUsingImpedenceModel) *)
Definition dp_reserv (impedance nprod q rho_res : Q) : Q := impedance * nprod * q * 1000 / rho_res.
Definition dp_buoyancy (rho_prod rho_inj depth : Q) : Q := (rho_prod - rho_inj) * depth * (981 # 100) / 1000.
Definition dp_overall (dpres dpprod dpbuoy dpinj : Q) : Q := dpres + dpprod + dpbuoy + dpinj.
(* PumpingPower = newDPOverall * ninj * wellflowrate * (1 + waterloss) / rhowaterinj / pumpeff / 1E3, clamped *)
Definition imp_power_raw (ninj q wl eff dp rho_inj : Q) : Q := dp * ninj * q * (1 + wl) / rho_inj / eff / 1000.
Definition imp_power (ninj q wl eff dp rho_inj : Q) : Q := clamp0 (imp_power_raw ninj q wl eff dp rho_inj).

(* ---------- productivity / injectivity index model ---------- *)
(* PumpingPowerProd = DPProdWell * nprod * wellflowrate / rhowaterprod / pumpeff / 1E3, clamped; zeros when not pumping *)
Definition prod_power_raw (nprod q eff dp rho_prod : Q) : Q := dp * nprod * q / rho_prod / eff / 1000.
Definition prod_power (pumping : bool) (nprod q eff dp rho_prod : Q) : Q :=
  if pumping then clamp0 (prod_power_raw nprod q eff dp rho_prod) else 0.
(* PumpingPowerInj[i] = DPInjWell[i] * nprod * wellflowrate * (1 + waterloss) / rhowaterinj[i] / pumpeff / 1E3, clamped *)
Definition inj_power_raw (nprod q wl eff dp rho_inj : Q) : Q := dp * nprod * q * (1 + wl) / rho_inj / eff / 1000.
Definition inj_power (nprod q wl eff dp rho_inj : Q) : Q := clamp0 (inj_power_raw nprod q wl eff dp rho_inj).
(* total: PumpingPowerInj + PumpingPowerProd when pumping, else PumpingPowerInj; then clamped once more *)
Definition total_power (pumping : bool) (inj prod : list Q) : option (list Q) :=
  if pumping then zipQ (fun a b => clamp0 (a + b)) inj prod else Some (map clamp0 inj).

(* series versions *)
Definition imp_power_series (ninj q wl eff : Q) (dp rho_inj : list Q) : option (list Q) :=
  zipQ (imp_power ninj q wl eff) dp rho_inj.
Definition prod_power_series (pumping : bool) (nprod q eff : Q) (dp rho_prod : list Q) : option (list Q) :=
  zipQ (prod_power pumping nprod q eff) dp rho_prod.
Definition inj_power_series (nprod q wl eff : Q) (dp rho_inj : list Q) : option (list Q) :=
  zipQ (inj_power nprod q wl eff) dp rho_inj.

(* ---------- reflective checkers on implementation output ---------- *)
Definition all_nonneg (l : list Q) : bool := forallb (fun x => Qleb 0 x) l.
(* total is the sum of the two, exactly as computed (rounded float sum): |t - (a+b)| <= tol*max(1,..) *)
Fixpoint sum_ok (tol : Q) (t a b : list Q) : bool :=
  match t, a, b with
  | [], [], [] => true
  | x :: t', y :: a', z :: b' => close tol x (y + z) && sum_ok tol t' a' b'
  | _, _, _ => false
  end.

(* ---------- flat interface ---------- *)
Definition opt_res (o : option (list Q)) : res :=
  match o with Some l => Vals l | None => Err E_VALUE end.

(* [n; ninj; q; wl; eff] ++ dpres(n) ++ dpprod(n) ++ dpbuoy(n) ++ dpinj(n) ++ rho_inj(n)
   -> DPOverall(n) ++ PumpingPower(n) *)
Fixpoint overall_series (a b c d : list Q) : option (list Q) :=
  match a, b, c, d with
  | [], [], [], [] => Some []
  | x :: a', y :: b', z :: c', w :: d' =>
      match overall_series a' b' c' d' with Some r => Some (dp_overall x y z w :: r) | None => None end
  | _, _, _, _ => None
  end.

Definition run_impedance (a : list Q) : res :=
  match a with
  | n :: ninj :: q :: wl :: eff :: rest =>
      let n := qnat n in
      let '(dpres, r0) := take_drop n rest in
      let '(dpprod, r1) := take_drop n r0 in
      let '(dpbuoy, r2) := take_drop n r1 in
      let '(dpinj, rho) := take_drop n r2 in
      match overall_series dpres dpprod dpbuoy dpinj with
      | Some dpo =>
          match imp_power_series ninj q wl eff dpo rho with
          | Some p => Vals (dpo ++ p)
          | None => Err E_VALUE
          end
      | None => Err E_VALUE
      end
  | _ => Err E_ARGS
  end.

(* [n; pumping; nprod; q; wl; eff] ++ dpprod(n) ++ dpinj(n) ++ rho_prod(n) ++ rho_inj(n)
   -> PumpingPowerProd(n) ++ PumpingPowerInj(n) ++ PumpingPower(n) *)
Definition run_index (a : list Q) : res :=
  match a with
  | n :: pumping :: nprod :: q :: wl :: eff :: rest =>
      let n := qnat n in
      let pumping := qbool pumping in
      let '(dpprod, r1) := take_drop n rest in
      let '(dpinj, r2) := take_drop n r1 in
      let '(rhop, rhoi) := take_drop n r2 in
      match prod_power_series pumping nprod q eff dpprod rhop, inj_power_series nprod q wl eff dpinj rhoi with
      | Some pp, Some pi =>
          match total_power pumping pi pp with
          | Some t => Vals (pp ++ pi ++ t)
          | None => Err E_VALUE
          end
      | _, _ => Err E_VALUE
      end
  | _ => Err E_ARGS
  end.
