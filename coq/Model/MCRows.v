(* Model/MCRows.v - executable model of the Monte Carlo result-file codec (MC_GeoPHIRES3.py):
   header line (main), extraction of the requested outputs from a report and assembly of one row
   (work_package), re-reading of a row for the statistics (main).  String level, quirks included.
   Definitions only, no proofs. *)
From Coq Require Import List Arith Bool String Ascii.
Import ListNotations.
Open Scope string_scope.

(* ---------------------------------------------------------------- Python str helpers *)
(* str.strip() white space, ASCII part *)
Definition is_ws (c : ascii) : bool :=
  let n := nat_of_ascii c in
  Nat.eqb n 32 || (Nat.leb 9 n && Nat.leb n 13) || (Nat.leb 28 n && Nat.leb n 31).

Fixpoint lstrip_by (f : ascii -> bool) (s : string) : string :=
  match s with
  | String c r => if f c then lstrip_by f r else s
  | EmptyString => EmptyString
  end.
Fixpoint rstrip_by (f : ascii -> bool) (s : string) : string :=
  match s with
  | EmptyString => EmptyString
  | String a r => match rstrip_by f r with
                  | EmptyString => if f a then EmptyString else String a EmptyString
                  | r' => String a r'
                  end
  end.
Definition strip_by (f : ascii -> bool) (s : string) : string := rstrip_by f (lstrip_by f s).
Definition strip : string -> string := strip_by is_ws.                       (* s.strip()    *)
Definition strip_char (c : ascii) : string -> string := strip_by (Ascii.eqb c).   (* s.strip(c)   *)

(* needle in s *)
Fixpoint contains (needle s : string) : bool :=
  prefix needle s || match s with EmptyString => false | String _ r => contains needle r end.

(* s.split(c): never empty *)
Fixpoint split_char (c : ascii) (s : string) : list string :=
  match s with
  | EmptyString => [EmptyString]
  | String a r => if Ascii.eqb a c then EmptyString :: split_char c r
                  else match split_char c r with
                       | x :: xs => String a x :: xs
                       | [] => [String a EmptyString]
                       end
  end.

(* s.partition(sep)[0]: the text before the first occurrence of sep, the whole of s when there is none *)
Fixpoint before_sep (sep s : string) : string :=
  match s with
  | EmptyString => EmptyString
  | String a r => if prefix sep s then EmptyString else String a (before_sep sep r)
  end.

(* s.replace(c, '') *)
Fixpoint remove_char (c : ascii) (s : string) : string :=
  match s with
  | EmptyString => EmptyString
  | String a r => if Ascii.eqb a c then remove_char c r else String a (remove_char c r)
  end.

(* ''.join(s.rsplit(c, 1)): drop the last occurrence of c *)
Fixpoint remove_last (c : ascii) (s : string) : string :=
  match s with
  | EmptyString => EmptyString
  | String a r => if Ascii.eqb a c && negb (contains (String c EmptyString) r) then r else String a (remove_last c r)
  end.

Definition join_suffix (suffix : string) (l : list string) : string := concat "" (map (fun x => x ++ suffix) l).

(* ---------------------------------------------------------------- header (main) *)
Definition render_header (outputs input_names : list string) : string :=
  remove_last "," (remove_last " " (join_suffix ", " (outputs ++ input_names))) ++ String (ascii_of_nat 10) EmptyString.

(* ---------------------------------------------------------------- one row (work_package) *)
(* s1.split(':')[1].strip().split(' ')[0].strip() *)
Definition value_token (line : string) : string :=
  match split_char ":" line with
  | _ :: seg :: _ => match split_char " " (strip seg) with t :: _ => strip t | [] => EmptyString end
  | _ => EmptyString       (* no colon: IndexError in the code; unreachable for a matched line *)
  end.

(* get_output: the report line that contains '  <label>: ', provided there is exactly one *)
Definition find_output (label : string) (lines : list string) : option string :=
  match filter (contains ("  " ++ label ++ ": ")) lines with
  | [l] => Some (value_token l)
  | _ => None
  end.

(* outputs that are not found are skipped: nothing is written for them *)
Definition row_tokens (outputs lines : list string) : list string :=
  flat_map (fun o => match find_output o lines with Some t => [t] | None => [] end) outputs.

(* input_file_entries.replace('\n', ';').replace(', ', ':') for entries "name, value\n" (names and values free of
   new lines and of ", ") *)
Definition entries_text (entries : list (string * string)) : string :=
  concat "" (map (fun e => fst e ++ ":" ++ snd e ++ ";") entries).

Definition assemble_row (tokens : list string) (etext : string) : string :=
  strip_char "," (strip_char " " (join_suffix ", " tokens ++ "(" ++ etext ++ ")")) ++ String (ascii_of_nat 10) EmptyString.

Definition render_row (outputs lines : list string) (entries : list (string * string)) : string :=
  assemble_row (row_tokens outputs lines) (entries_text entries).

(* the input file of one iteration: the base file copied, then the 'name, value' lines appended with open(..., 'a').
   Current code (commit db0b708): f.write('\n' + input_file_entries) - the sampled lines always start on a new line.
   input_file_pinned: the code before, f.write(input_file_entries). *)
Definition NLc : ascii := ascii_of_nat 10.
Definition entry_line (e : string * string) : string := fst e ++ ", " ++ snd e.
Definition entries_lines (entries : list (string * string)) : string :=
  join_suffix (String NLc EmptyString) (map entry_line entries).
Definition input_file (base : string) (entries : list (string * string)) : string :=
  base ++ String NLc (entries_lines entries).
Definition input_file_pinned (base : string) (entries : list (string * string)) : string := base ++ entries_lines entries.
Definition file_lines (s : string) : list string := split_char NLc s.

(* ---------------------------------------------------------------- re-reading a row (main, statistics) *)
(* None: the line is skipped ('-9999.0' in it, or at most 10 characters once stripped); the tokens are what float() gets *)
Definition parse_row (line : string) : option (list string) :=
  if contains "-9999.0" line then None
  else let l := strip line in
       if Nat.leb (String.length l) 10 then None
       else Some (map strip (split_char "," (remove_char ")" (remove_char "(" (before_sep ", (" l))))).

(* ---------------------------------------------------------------- helpers for the harness *)
Fixpoint strings_eqb (a b : list string) : bool :=
  match a, b with
  | [], [] => true
  | x :: a', y :: b' => String.eqb x y && strings_eqb a' b'
  | _, _ => false
  end.
Definition opt_strings_eqb (a b : option (list string)) : bool :=
  match a, b with
  | Some x, Some y => strings_eqb x y
  | None, None => true
  | _, _ => false
  end.

(* a token the codec can carry: not empty, no comma, no parenthesis, no white space *)
Definition clean_char (c : ascii) : bool :=
  negb (is_ws c) && negb (Ascii.eqb c ",") && negb (Ascii.eqb c "(") && negb (Ascii.eqb c ")").
Fixpoint all_chars (f : ascii -> bool) (s : string) : bool :=
  match s with EmptyString => true | String c r => f c && all_chars f r end.
Definition clean_token (t : string) : bool :=
  match t with EmptyString => false | _ => all_chars clean_char t end.
