(* Model/UnitReader.v - executable model of the unit handling of Parameter.py:
     ReadParameter (the unit / validation path of float and int parameters), ConvertUnits (pint branch with the
     order in which CurrentUnits is overwritten and conditionally restored; currency-prefix branch), LookupUnits,
     ConvertUnitsBack, ConvertOutputUnits and the guard loops of Outputs._convert_units, plus the post-read
     magnitude heuristics of Reservoir / WellBores.
   Units are compared by their TEXT (the enums are str-enums: PorosityUnit.PERCENT == PercentUnit.PERCENT == "%").
   pint / forex_python enter only through [tables] (regenerated from the live registry: Gen/UnitCatalogue.v).
   Where Python raises the model returns [RErr code].  No proofs here. *)
From Coq Require Import QArith Qabs Qminmax Qround List ZArith Bool String Ascii.
From Verif Require Import Base.Flat Model.UnitAlg.
Import ListNotations.
Open Scope string_scope.
Open Scope Q_scope.

(* ---------- unit references, results, tables ---------- *)

(* what a Parameter's CurrentUnits attribute holds *)
Inductive uref : Type :=
| UEnum (s : string)     (* a member of a unit enum; [s] is its .value *)
| UStr (s : string)      (* a bare str (the currency branch stores one) *)
| UNone.                 (* None (LookupUnits found nothing) *)

Inductive lres : Type :=
| LItem (s : string) (currency : bool)   (* enum member with that text; whether its unit type is a currency type *)
| LNone
| LRaise.                                (* pint.UndefinedUnitError out of registry.get_symbol *)

Inductive rres (A : Type) : Type :=
| ROk (a : A)
| RErr (code : Z).
Arguments ROk {A} a.
Arguments RErr {A} code.

Definition E_RANGE : Z := 3.     (* ValueError: outside of valid range *)
Definition E_INIT : Z := 10.     (* RuntimeError: failed to initialize your units *)
Definition E_UNDEF : Z := 11.    (* pint.UndefinedUnitError escaping from LookupUnits *)
Definition E_CONV : Z := 12.     (* RuntimeError: failed to convert your units *)
Definition E_FOREX : Z := 13.    (* RuntimeError: failed to convert your currency (forex disabled) *)
Definition E_ATTR : Z := 14.     (* AttributeError *)
Definition E_DIM : Z := 15.      (* pint.DimensionalityError (not an AttributeError: not caught) *)
Definition E_FLOAT : Z := 17.    (* ValueError: could not convert string to float *)

Record tables : Type := mkT {
  t_parse : string -> option punit;   (* registry.Quantity(_, text): None when pint cannot parse the text *)
  t_lookup : string -> lres;          (* LookupUnits(text) *)
  t_cc : string -> bool }.            (* CurrencyCodes().get_symbol(text) is not None *)

(* ---------- strings ---------- *)

Definition str_tail (s : string) : string := match s with EmptyString => EmptyString | String _ r => r end.
Definition str_head (s : string) : option ascii := match s with EmptyString => None | String c _ => Some c end.
Definition slash : ascii := "/"%char.
(* s.split("/")[0] *)
Fixpoint before_slash (s : string) : string :=
  match s with
  | EmptyString => EmptyString
  | String c r => if Ascii.eqb c slash then EmptyString else String c (before_slash r)
  end.
Definition head_in (s : string) (a b : ascii) : bool :=
  match str_head s with Some c => Ascii.eqb c a || Ascii.eqb c b | None => false end.

Fixpoint assoc_str {A : Type} (k : string) (l : list (string * A)) : option A :=
  match l with
  | [] => None
  | (k', v) :: r => if String.eqb k k' then Some v else assoc_str k r
  end.

(* ---------- LookupUnits ---------- *)

(* the unit enums in the order LookupUnits scans them: (enum class, currency unit type?, member texts) *)
Definition scan_t : Type := list (string * bool * list string).

Fixpoint scan_find (s : string) (scan : scan_t) : option bool :=
  match scan with
  | [] => None
  | (_, c, vals) :: r => if existsb (String.eqb s) vals then Some c else scan_find s r
  end.

(* sym: registry.get_symbol(text) = Some symbol, or None when it raises; texts outside the table raise *)
Fixpoint lookup_units (scan : scan_t) (sym : list (string * option string)) (fuel : nat) (s : string) : lres :=
  match scan_find s scan with
  | Some c => LItem s c
  | None =>
      match fuel with
      | O => LRaise
      | S f =>
          match assoc_str s sym with
          | Some (Some y) => if String.eqb y s then LNone else lookup_units scan sym f y
          | _ => LRaise
          end
      end
  end.

Definition mk_tables (pint : list (string * option punit)) (scan : scan_t) (sym : list (string * option string))
           (cc : list string) : tables :=
  mkT (fun s => match assoc_str s pint with Some r => r | None => None end)
      (lookup_units scan sym 8)
      (fun s => existsb (String.eqb s) cc).

(* ---------- parameter state ---------- *)

Inductive pkind : Type := KFloat | KInt.

Record pspec : Type := mkS {
  s_kind : pkind;
  s_currency : bool;        (* UnitType in [CURRENCY, CURRENCYFREQUENCY, COSTPERMASS, ENERGYCOST] *)
  s_pref : string;          (* PreferredUnits.value *)
  s_min : Q; s_max : Q;     (* float parameters *)
  s_default : Q;
  s_allow : list Z }.       (* int parameters: AllowableRange *)

Record pstate : Type := mkP { p_value : Q; p_cur : uref; p_provided : bool }.

Definition uref_of_lres (l : lres) : uref := match l with LItem s _ => UEnum s | _ => UNone end.

(* ---------- ConvertUnits ---------- *)

(* pint branch.  [x u] is the user's text "x u"; returns the new value text (as a number) and CurrentUnits.
     Old_valQ = Quantity(0, CurrentUnits.value); New_valQ = Quantity(x, u)            -> E_INIT when either fails
     if Old.units != New.units:
         CurrentUnits = LookupUnits(u)[0]                                             -> E_UNDEF when it raises
         New_valQ.ito(Old_valQ)                                                       -> E_CONV on a dimension clash
         l = LookupUnits(str(New_valQ.units));  if l[0] is not None: CurrentUnits = l[0]   (the conditional restore) *)
Definition convert_units_pint (T : tables) (cur : uref) (x : Q) (u : string) : rres (Q * uref) :=
  match cur with
  | UEnum c =>
      match t_parse T c, t_parse T u with
      | Some o, Some n =>
          if String.eqb (pu_canon o) (pu_canon n) then ROk (x, cur)
          else match t_lookup T u with
               | LRaise => RErr E_UNDEF
               | l1 =>
                   if negb (same_dim o n) then RErr E_CONV
                   else match t_lookup T (pu_canon o) with
                        | LRaise => RErr E_UNDEF
                        | LItem s _ => ROk (convert n o x, UEnum s)
                        | LNone => ROk (convert n o x, uref_of_lres l1)
                        end
               end
      | _, _ => RErr E_INIT
      end
  | _ => RErr E_INIT
  end.

(* the M/K prefix logic shared by ConvertUnits, the currency fall-back of ConvertUnitsBack and ConvertOutputUnits:
   -> (Factor, prefShort, currShort) *)
Definition is_M (s : string) : bool := head_in s "M"%char "m"%char.
Definition is_K (s : string) : bool := head_in s "K"%char "k"%char.
Definition currency_factor (T : tables) (prefType currType : string) : Q * string * string :=
  let prefPrefix := t_cc T (str_tail prefType) in
  let currPrefix := t_cc T (str_tail currType) in
  let prefFactor := if prefPrefix && is_M prefType then 1000000 else if prefPrefix && is_K prefType then 1000 else 1 in
  let currFactor := if currPrefix && is_M currType then 1 / 1000000 else if currPrefix && is_K currType then 1 / 1000 else 1 in
  (currFactor * prefFactor,
   if prefPrefix then str_tail prefType else prefType,
   if currPrefix then str_tail currType else currType).

(* currency branch: suffixes ("/yr", "/kWh") are stripped and ignored; CurrentUnits becomes a bare str *)
Definition convert_units_currency (T : tables) (pref : string) (x : Q) (u : string) : rres (Q * uref) :=
  if String.eqb pref u then ROk (x, UStr u)
  else
    let ct := before_slash u in
    let '(f, ps, cs) := currency_factor T (before_slash pref) ct in
    if String.eqb ps cs then ROk (x * f, UStr ct) else RErr E_FOREX.

Definition convert_units (T : tables) (sp : pspec) (cur : uref) (x : Q) (u : string) : rres (Q * uref) :=
  if s_currency sp then convert_units_currency T (s_pref sp) x u else convert_units_pint T cur x u.

(* ---------- ReadParameter (float / int), after the optional unit conversion ---------- *)

(* int(): truncation toward zero *)
Definition Qtrunc (v : Q) : Z := if Qle_bool 0 v then Qfloor v else Qceiling v.

Definition accept (sp : pspec) (st : pstate) (v : Q) (cur : uref) : rres pstate :=
  match s_kind sp with
  | KFloat =>
      let prov := if Qeq_bool v (s_default sp) then true else p_provided st in
      if Qeq_bool v (p_value st) then ROk (mkP (p_value st) cur prov)
      else if Qltb v (s_min sp) || Qltb (s_max sp) v then RErr E_RANGE
      else ROk (mkP v cur true)
  | KInt =>
      let n := Qtrunc v in
      if Qeq_bool (inject_Z n) (s_default sp) then ROk (mkP (p_value st) cur (p_provided st))
      else if Qeq_bool (inject_Z n) (p_value st) then ROk (mkP (p_value st) cur (p_provided st))
      else if negb (existsb (Z.eqb n) (s_allow sp)) then RErr E_RANGE
      else ROk (mkP (inject_Z n) cur true)
  end.

(* the user's entry is "x" (u = None) or "x u" *)
Definition read_param (T : tables) (sp : pspec) (st : pstate) (x : Q) (u : option string) : rres pstate :=
  match u with
  | None => accept sp st x (p_cur st)
  | Some ut =>
      match convert_units T sp (p_cur st) x ut with
      | ROk (v, cur) => accept sp st v cur
      | RErr c => RErr c
      end
  end.

(* ---------- post-read magnitude heuristics (Reservoir.read_parameters, WellBores.Calculate) ---------- *)

(* 'Reservoir Depth': value * 1000, CurrentUnits = METERS (unconditionally) *)
Definition post_depth (st : pstate) : pstate := mkP (p_value st * 1000) (UEnum "meter") (p_provided st).
(* Economics.Calculate, "for display consistency": a depth > 500 (metres) goes back to value / 1000, CurrentUnits = KILOMETERS *)
Definition post_depth_back (st : pstate) : pstate :=
  if Qltb 500 (p_value st) then mkP (p_value st / 1000) (UEnum "kilometer") (p_provided st) else st.
(* well diameters: anything > 2 "must be inches": value * 0.0254, CurrentUnits = METERS *)
Definition post_diameter (st : pstate) : pstate :=
  if Qltb 2 (p_value st) then mkP (p_value st * (254 # 10000)) (UEnum "meter") (p_provided st) else st.

(* 'Reservoir Impedance' (WellBores.read_parameters): GPa.s/m**3 -> kPa/(kg/s) "assuming 1000 for density":
   value * (1E6 / 1E3), CurrentUnits untouched; the report prints value / 1000 next to CurrentUnits *)
Definition post_impedance (st : pstate) : pstate := mkP (p_value st * 1000) (p_cur st) (p_provided st).

(* ---------- ConvertUnitsBack (called by Outputs._convert_units when not UnitsMatch) ---------- *)

Definition uref_text (r : uref) : string := match r with UEnum s | UStr s => s | UNone => "None" end.
(* Quantity(value, convertible_unit(CurrentUnits)): None gives a dimensionless quantity *)
Definition parse_uref (T : tables) (r : uref) : option punit :=
  match r with UEnum s | UStr s => t_parse T s | UNone => t_parse T "" end.

Definition units_match (pref : string) (cur : uref) : bool :=
  match cur with UEnum s | UStr s => String.eqb pref s | UNone => false end.

Definition convert_units_back (T : tables) (sp : pspec) (st : pstate) : rres pstate :=
  match parse_uref T (p_cur st), t_parse T (s_pref sp) with
  | Some c, Some p =>
      if same_dim c p then ROk (mkP (convert c p (p_value st)) (UEnum (s_pref sp)) (p_provided st)) else RErr E_DIM
  | _, _ =>
      (* pint.UndefinedUnitError is an AttributeError: currency fall-back *)
      if s_currency sp then
        let ct := before_slash (uref_text (p_cur st)) in
        let '(f, ps, cs) := currency_factor T (before_slash (s_pref sp)) ct in
        if String.eqb ps cs then ROk (mkP (p_value st * f) (UStr ct) (p_provided st)) else RErr E_FOREX
      else RErr E_CONV
  end.

(* the loop body of Outputs._convert_units for input parameters *)
Definition echo_state (T : tables) (sp : pspec) (st : pstate) : rres pstate :=
  if units_match (s_pref sp) (p_cur st) then ROk st else convert_units_back T sp st.

(* ---------- ConvertOutputUnits / the output loop of Outputs._convert_units ---------- *)

Record ostate : Type := mkO { o_vals : list Q; o_cur : uref; o_pref : string }.

(* [new] = LookupUnits(text)[0] as stored by Outputs.read_parameters *)
Definition convert_output_units (T : tables) (o : ostate) (new : lres) : rres ostate :=
  match new with
  | LRaise => RErr E_UNDEF
  | LNone => RErr E_ATTR                      (* None.value *)
  | LItem nu ncur =>
      match o_cur o with
      | UEnum c =>
          match t_parse T c, t_parse T nu with
          | Some a, Some b =>
              if same_dim a b then ROk (mkO (map (convert a b) (o_vals o)) (UEnum nu) (o_pref o)) else RErr E_DIM
          | _, _ =>
              if ncur then
                let '(f, ps, cs) := currency_factor T (before_slash (o_pref o)) (before_slash nu) in
                if String.eqb ps cs then ROk (mkO (map (fun v => v * f) (o_vals o)) (UEnum nu) (o_pref o)) else RErr E_FOREX
              else ROk o                         (* warning, continue without output conversion *)
          end
      | _ => RErr E_ATTR
      end
  end.

(* one entry of OutputParameterDict: requested unit (if any) or back to preferred units *)
Definition output_step (T : tables) (req : option lres) (o : ostate) : rres ostate :=
  match req with
  | Some new =>
      match new with
      | LItem nu _ => if units_match nu (o_cur o) then ROk o else convert_output_units T o new
      | _ => convert_output_units T o new
      end
  | None =>
      if units_match (o_pref o) (o_cur o) then ROk o
      else match parse_uref T (o_cur o), t_parse T (o_pref o) with
           | Some a, Some b => if same_dim a b then ROk (mkO (map (convert a b) (o_vals o)) (UEnum (o_pref o)) (o_pref o)) else RErr E_DIM
           | _, _ => RErr E_UNDEF
           end
  end.

(* the whole dictionary: keys are output names; [reqs] is Outputs.ParameterDict restricted to "Units:" entries *)
Fixpoint convert_outputs (T : tables) (reqs : list (string * lres)) (outs : list (string * ostate))
  : rres (list (string * ostate)) :=
  match outs with
  | [] => ROk []
  | (k, o) :: r =>
      match output_step T (assoc_str k reqs) o with
      | RErr c => RErr c
      | ROk o' => match convert_outputs T reqs r with
                  | RErr c => RErr c
                  | ROk r' => ROk ((k, o') :: r')
                  end
      end
  end.

(* ---------- ReadParameter on a one-line list parameter (Name without a space: "Gradients", "Thicknesses") ----------
   ConvertUnits runs on the FIRST element's text, the range test on its result (out of range: a warning, nothing is
   stored), then value = [float(e) for e in the raw elements]: a unit suffix on any element makes float() raise.
   [raw]: the elements of the line as (number, carries a unit suffix?) *)
Definition read_list_line (T : tables) (sp : pspec) (o : ostate) (x : Q) (u : option string) (raw : list (Q * bool))
  : rres ostate :=
  let conv := match u with
              | None => ROk (x, o_cur o)
              | Some ut => convert_units T sp (o_cur o) x ut
              end in
  match conv with
  | RErr c => RErr c
  | ROk (v, cur) =>
      if Qltb v (s_min sp) || Qltb (s_max sp) v then ROk (mkO (o_vals o) cur (o_pref o))
      else if existsb snd raw then RErr E_FLOAT
      else ROk (mkO (map fst raw) cur (o_pref o))
  end.

(* ---------- comparison with what the implementation did (evaluated inside Coq by the harness) ---------- *)

Definition rel_close (tol a b : Q) : bool := Qle_bool (Qabs (a - b)) (tol * Qmax (Qabs a) (Qabs b)).
(* relative closeness, or absolute closeness below [fl]: units with an offset (degC, degF) produce values near 0 by
   cancellation of numbers of the size of the offset, where only an absolute comparison is meaningful; fl = tol * offset *)
Definition aclose (tol fl a b : Q) : bool := rel_close tol a b || Qle_bool (Qabs (a - b)) fl.
Definition off_floor (tol : Q) (us : list punit) : Q := tol * fold_right (fun u m => Qmax (Qabs (pu_off u)) m) 0 us.

Definition uref_eqb (a b : uref) : bool :=
  match a, b with
  | UEnum s, UEnum t | UStr s, UStr t => String.eqb s t
  | UNone, UNone => true
  | _, _ => false
  end.

Inductive obs : Type :=
| OOk (v : Q) (cur : uref) (prov : bool)
| OErr (code : Z).

Definition agree_state (tol fl : Q) (m : rres pstate) (o : obs) : bool :=
  match m, o with
  | ROk st, OOk v cur prov => aclose tol fl (p_value st) v && uref_eqb (p_cur st) cur && Bool.eqb (p_provided st) prov
  | RErr c, OErr d => Z.eqb c d
  | _, _ => false
  end.

Inductive oobs : Type :=
| OOut (vals : list Q) (cur : uref)
| OOutErr (code : Z).

Fixpoint all_aclose (tol fl : Q) (a b : list Q) : bool :=
  match a, b with
  | [], [] => true
  | x :: a', y :: b' => aclose tol fl x y && all_aclose tol fl a' b'
  | _, _ => false
  end.

Definition agree_output (tol fl : Q) (m : rres ostate) (o : oobs) : bool :=
  match m, o with
  | ROk st, OOut vals cur => all_aclose tol fl (o_vals st) vals && uref_eqb (o_cur st) cur
  | RErr c, OOutErr d => Z.eqb c d
  | _, _ => false
  end.

(* a whole OutputParameterDict after Outputs._convert_units *)
Fixpoint agree_dict (tol fl : Q) (m : list (string * ostate)) (o : list (string * oobs)) : bool :=
  match m, o with
  | [], [] => true
  | (k, st) :: m', (k', ob) :: o' => String.eqb k k' && agree_output tol fl (ROk st) ob && agree_dict tol fl m' o'
  | _, _ => false
  end.
Definition agree_outputs (tol fl : Q) (m : rres (list (string * ostate))) (o : rres (list (string * oobs))) : bool :=
  match m, o with
  | ROk a, ROk b => agree_dict tol fl a b
  | RErr c, RErr e => Z.eqb c e
  | _, _ => false
  end.

(* ---------- the PROPERTY evaluated on what the implementation did (reflective oracles) ----------
   verdict codes: 0 holds, 1 raised although the unit is convertible, 2 value is not the equivalent value in preferred
   units, 3 value right but (value, CurrentUnits) does not denote it (stale / unknown remembered unit),
   9 outside the property's domain (unit not dimensionally convertible to the preferred unit). *)

Definition in_domain (T : tables) (pref u : string) : bool :=
  match t_parse T pref, t_parse T u with
  | Some p, Some n => same_dim p n
  | _, _ => false
  end.

(* reading "x u" into a parameter with preferred unit [pref]; [isint]: the value is truncated by int() *)
Definition oracle_read (T : tables) (tol : Q) (pref : string) (isint : bool) (x : Q) (u : string) (o : obs) : Z :=
  match t_parse T pref, t_parse T u with
  | Some p, Some n =>
      if negb (same_dim p n) then 9%Z
      else match o with
           | OErr _ => 1%Z
           | OOk v cur _ =>
               let e := convert n p x in
               let e' := if isint then inject_Z (Qtrunc e) else e in
               if negb (aclose tol (off_floor tol [p; n]) v e') then 2%Z
               else match parse_uref T cur with
                    | Some c => if same_dim c p && aclose tol (off_floor tol [p; n; c]) (convert c p v) v then 0%Z else 3%Z
                    | None => 3%Z
                    end
           end
  | _, _ => 9%Z
  end.

(* the echo: after Outputs._convert_units the pair (value, unit) must denote the user's quantity *)
Definition oracle_echo (T : tables) (tol : Q) (pref : string) (isint : bool) (x : Q) (u : string) (o : obs) : Z :=
  match t_parse T pref, t_parse T u with
  | Some p, Some n =>
      if negb (same_dim p n) then 9%Z
      else match o with
           | OErr _ => 1%Z
           | OOk v cur _ =>
               let e := convert n p x in
               let e' := if isint then inject_Z (Qtrunc e) else e in
               match parse_uref T cur with
               | Some c => if same_dim c p && aclose tol (off_floor tol [p; n; c]) (convert c p v) e' then 0%Z else 3%Z
               | None => 3%Z
               end
           end
  | _, _ => 9%Z
  end.

(* an output requested in unit [nu]: same quantity, new label *)
Definition oracle_output (T : tables) (tol : Q) (cur nu : string) (vals : list Q) (o : oobs) : Z :=
  match t_parse T cur, t_parse T nu with
  | Some a, Some b =>
      if negb (same_dim a b) then 9%Z
      else match o with
           | OOutErr _ => 1%Z
           | OOut vs c =>
               if negb (all_aclose tol (off_floor tol [a; b]) vs (map (convert a b) vals)) then 2%Z
               else if uref_eqb c (UEnum nu) then 0%Z else 3%Z
           end
  | _, _ => 9%Z
  end.

(* an output that was not requested and is in its preferred unit: exactly what it was *)
Definition oracle_untouched (cur : uref) (vals : list Q) (o : oobs) : Z :=
  match o with
  | OOutErr _ => 1%Z
  | OOut vs c => if all_aclose 0 0 vs vals && uref_eqb c cur then 0%Z else 2%Z
  end.

(* an entry of the FROZEN independent reference (spec/c06_unit_reference.json): "x u" is "f * x + o" of unit r.
   [ref_entry_ok tol T e]: the registry table T gives unit u that meaning *)
Definition ref_entry_ok (tol : Q) (T : tables) (e : string * string * Q * Q) : bool :=
  let '(u, r, f, o) := e in
  match t_parse T u, t_parse T r with
  | Some a, Some b => same_dim a b && rel_close tol (convert a b 1 - convert a b 0) f && aclose tol tol (convert a b 0) o
  | _, _ => false
  end.

(* well-formedness of a registry table: one long name, one meaning *)
Fixpoint wf_pint_against (c : punit) (l : list (string * option punit)) : bool :=
  match l with
  | [] => true
  | (_, Some d) :: r => (negb (String.eqb (pu_canon c) (pu_canon d)) || pu_same c d) && wf_pint_against c r
  | (_, None) :: r => wf_pint_against c r
  end.
Fixpoint wf_pint_from (l all : list (string * option punit)) : bool :=
  match l with
  | [] => true
  | (_, Some c) :: r => negb (Qeq_bool (pu_fac c) 0) && wf_pint_against c all && wf_pint_from r all
  | (_, None) :: r => wf_pint_from r all
  end.
Definition wf_pint (l : list (string * option punit)) : bool := wf_pint_from l l.

(* ---------- the pinned registry fragment used by the _refuted witnesses (checked against Gen on every run) ---------- *)

Definition pin_degC : punit := mkPU "degree_Celsius" 0 1 (5463 # 20).
Definition pin_degF : punit := mkPU "degree_Fahrenheit" 0 (5 # 9) (45967 # 180).
Definition pin_kelvin : punit := mkPU "kelvin" 0 1 0.
Definition pin_m2 : punit := mkPU "meter ** 2" 1 1 0.
Definition pin_cm2 : punit := mkPU "centimeter ** 2" 1 (1 # 10000) 0.
Definition pin_pint : list (string * option punit) :=
  [("degC", Some pin_degC); ("degF", Some pin_degF); ("degK", Some pin_kelvin);
   ("m**2", Some pin_m2); ("cm**2", Some pin_cm2);
   ("MUSD", Some (mkPU "megaUSD" 2 1000000 0)); ("KUSD", Some (mkPU "KUSD" 2 1000 0)); ("USD", Some (mkPU "USD" 2 1 0))].
Definition pin_scan : scan_t :=
  [("AreaUnit", false, ["m**2"; "cm**2"]); ("TemperatureUnit", false, ["degC"; "degF"; "degK"]);
   ("CurrencyUnit", true, ["MUSD"; "KUSD"; "USD"])].
(* get_symbol("degree_Celsius") is the degree sign + "C" (not a catalogue text); get_symbol raises on compound names *)
Definition pin_sym : list (string * option string) :=
  [("degree_Celsius", Some "oC"); ("oC", Some "oC"); ("kelvin", Some "K"); ("K", Some "K"); ("meter ** 2", None)].
Definition pin_tables : tables := mk_tables pin_pint pin_scan pin_sym ["USD"].

Definition spec_temperature : pspec := mkS KFloat false "degC" 0 200 70 [].
Definition spec_area : pspec := mkS KFloat false "m**2" 1 100000000 250000 [].
Definition spec_cost : pspec := mkS KFloat true "MUSD" 0 1000 (-1) [].
