(* Model/Process.v - executable model of the process-level state a GEOPHIRES-X run touches (C08):
     * the current working directory and sys.argv,
     * the input files on disk,
     * GeophiresXClient instances with their result cache (key: a parameter of the model; the code under test
       uses hash(file path) = [path_key]; [content_key] is the repaired cache kept as a named alternative),
   and of the code that moves it:
     * GEOPHIRESv3.main()            - os.chdir(<directory of GEOPHIRESv3.py>), reads sys.argv[1], runs or raises;
     * GeophiresXClient.get_geophires_result - cache lookup, stash cwd/argv, set argv, main(), restore
       ([fixed = true]: restore in a `finally`, the current client; [fixed = false]: restore only after a
       successful run, the client of the pinned tree), parse the result, store it in the cache;
     * geophires_x/__main__.py       - stash, main() in try, restore in `finally`.
   The simulation itself is the oracle [run : C -> option R] (None = the run raises): a FUNCTION of the
   content of the input file - that the real simulation is one is what the histories of the check exercise.
   Paths are identifiers of absolute, normalised file paths.  No proofs here. *)
From Coq Require Import List ZArith NArith Bool Arith.
Import ListNotations.

(* working directories: the directory of GEOPHIRESv3.py (main() chdirs there), the directory of another program
   of the distribution (1 = hip_ra_x, 2 = hip_ra; their main() chdirs there), or any other one *)
Inductive dir : Type := DSrc | DPkg (k : nat) | DUser (n : nat).

(* elements of sys.argv: '' | an input file path | the client's output path geophires-result_<hash>.out | other *)
Inductive arg : Type := AEmpty | AIn (p : nat) | AOut (k : Z) | AUser (n : nat) | AHipOut.

Definition dir_eqb (a b : dir) : bool :=
  match a, b with
  | DSrc, DSrc => true
  | DPkg x, DPkg y => Nat.eqb x y
  | DUser x, DUser y => Nat.eqb x y
  | _, _ => false
  end.

Definition arg_eqb (a b : arg) : bool :=
  match a, b with
  | AEmpty, AEmpty => true
  | AIn x, AIn y => Nat.eqb x y
  | AOut x, AOut y => Z.eqb x y
  | AUser x, AUser y => Nat.eqb x y
  | AHipOut, AHipOut => true
  | _, _ => false
  end.

Fixpoint list_eqb {A : Type} (e : A -> A -> bool) (a b : list A) : bool :=
  match a, b with
  | [], [] => true
  | x :: a', y :: b' => e x y && list_eqb e a' b'
  | _, _ => false
  end.

Section Process.
  Variables C R : Type.            (* file contents, results *)
  Variable run : C -> option R.    (* the simulation: Some result, or None when it raises / exits *)
  Variable hash : nat -> Z.        (* hash(file path): GeophiresInputParameters.__hash__ *)
  (* A request path is kept AS GIVEN (GeophiresInputParameters stores from_file_path unchanged, hashes it
     unchanged); the operating system resolves it against the working directory of the moment it is opened:
     [resolve d p] = the file that path p names when the working directory is d.  An absolute path has
     [resolve d p = p] for every d. *)
  Variable resolve : dir -> nat -> nat.
  (* against which directory a program opens the request path: [opendir pkg d] for the program living in pkg,
     called from working directory d.  The CURRENT clients hand main() the path made absolute against the caller's
     directory ([caller_opendir]: d; the GEOPHIRES client at request time, HipRaInputParameters when it is built -
     the histories build it at the request); the clients of the PINNED tree passed the path on as given and main()
     chdirs to pkg before opening it ([pinned_opendir]: pkg). *)
  Variable opendir : dir -> dir -> dir.
  Variable runh : nat -> C -> option R.   (* the HIP-RA programs (1 = hip_ra_x, 2 = hip_ra) on a file content *)
  (* the key of the client's result cache, computed from the requested path and the content its file has at
     request time.  The code under test uses [path_key] (hash of the path, content ignored); [content_key]
     (path hash AND content) is the repaired cache, kept as a named alternative. *)
  Variable K : Type.
  Variable keq : K -> K -> bool.
  Variable keyof : nat -> option C -> K.

  (* files on disk: latest write first; [None] = deleted *)
  Definition fs : Type := list (nat * option C).
  Fixpoint fs_lookup (p : nat) (f : fs) : option C :=
    match f with
    | [] => None
    | (q, c) :: r => if Nat.eqb p q then c else fs_lookup p r
    end.

  (* what the request for path p should give on the files f: the run of the content the file has NOW *)
  Definition expected_with (oracle : C -> option R) (f : fs) (p : nat) : option R :=
    match fs_lookup p f with Some c => oracle c | None => None end.
  Definition expected (f : fs) (p : nat) : option R := expected_with run f p.

  Record client : Type := mkClient { caching : bool; cache : list (K * R) }.

  Fixpoint cache_lookup (k : K) (l : list (K * R)) : option R :=
    match l with
    | [] => None
    | (k', r) :: t => if keq k k' then Some r else cache_lookup k t
    end.

  Record state : Type := mkState { cwd : dir; argv : list arg; files : fs; clients : list client }.

  Definition set_cwd (st : state) (d : dir) : state := mkState d (argv st) (files st) (clients st).
  Definition set_argv (st : state) (a : list arg) : state := mkState (cwd st) a (files st) (clients st).
  Definition set_files (st : state) (f : fs) : state := mkState (cwd st) (argv st) f (clients st).
  Definition set_clients (st : state) (cs : list client) : state := mkState (cwd st) (argv st) (files st) cs.

  Fixpoint replace_nth {A : Type} (n : nat) (x : A) (l : list A) : list A :=
    match l, n with
    | [], _ => []
    | _ :: t, O => x :: t
    | h :: t, S m => h :: replace_nth m x t
    end.

  (* main() of a program living in directory [pkg]: chdir there FIRST, then open the file named by sys.argv[1] -
     a relative name is therefore looked up in the program's own directory, not in the caller's *)
  Definition prog_run (pkg : dir) (oracle : C -> option R) (st : state) : state * option R :=
    let st1 := set_cwd st pkg in
    match nth_error (argv st) 1 with
    | Some (AIn p) => (st1, expected_with oracle (files st) (resolve (opendir pkg (cwd st)) p))
    | _ => (st1, None)
    end.
  Definition main_run (st : state) : state * option R := prog_run DSrc run st.

  Inductive outcome : Type :=
  | Returned (r : R) (hit : bool)   (* a result; hit = it came out of the client's cache *)
  | Raised                          (* RuntimeError from the client / exception or non-zero exit from the CLI *)
  | NoSuchClient
  | Done.                           (* operations that are not runs *)

  (* GeophiresXClient.get_geophires_result(GeophiresInputParameters(from_file_path=p)) on client number ci *)
  Definition client_get (fixed : bool) (st : state) (ci p : nat) : state * outcome :=
    match nth_error (clients st) ci with
    | None => (st, NoSuchClient)
    | Some cl =>
        let key := keyof p (fs_lookup (resolve (cwd st) p) (files st)) in   (* as_text() would read the caller's file *)
        match (if caching cl then cache_lookup key (cache cl) else None) with
        | Some r => (st, Returned r true)
        | None =>
            let stash_cwd := cwd st in
            let stash_argv := argv st in
            let (st2, res) := main_run (set_argv st [AEmpty; AIn p; AOut (hash p)]) in
            let restored := set_cwd (set_argv st2 stash_argv) stash_cwd in
            match res with
            | None => (if fixed then restored else st2, Raised)
            | Some r =>
                let cl' := if caching cl then mkClient true ((key, r) :: cache cl) else cl in
                (set_clients restored (replace_nth ci cl' (clients st)), Returned r false)
            end
        end
    end.

  (* python -m geophires_x <p> <out> executed in-process with sys.argv = [prog, p, out]: the script keeps the
     SAME list object (its in-place canonicalisation leaves absolute paths unchanged), main() in a try,
     cwd restored in the finally *)
  Definition cli_run (st : state) (p : nat) : state * outcome :=
    (* the script makes its arguments absolute against the CALLER's directory before main() *)
    let stash_cwd := cwd st in
    let res := expected (files st) (resolve (cwd st) p) in
    let st2 := set_cwd (set_argv st [AUser 0; AIn p; AOut (hash p)]) DSrc in          (* main(): chdir *)
    (set_cwd st2 stash_cwd, match res with Some r => Returned r false | None => Raised end).   (* finally *)

  (* HipRaXClient / HipRaClient .get_hip_ra_result(HipRaInputParameters(p)): no cache; stash, set argv, main() of
     the program (chdir to ITS directory), restore in a `finally` (already so in the pinned tree) *)
  Definition hip_get (st : state) (k p : nat) : state * outcome :=
    let (st2, res) := prog_run (DPkg k) (runh k) (set_argv st [AEmpty; AIn p; AHipOut]) in
    (set_cwd (set_argv st2 (argv st)) (cwd st),
     match res with Some r => Returned r false | None => Raised end).

  Inductive op : Type :=
  | Get (ci p : nat)            (* request file p through client ci *)
  | Write (p : nat) (c : C)     (* (re)write file p *)
  | Delete (p : nat)
  | Chdir (d : dir)
  | SetArgv (a : list arg)
  | NewClient (caching : bool)
  | Cli (p : nat)
  | HipGet (k p : nat).          (* request file p through the HIP-RA client of program k (the clients keep nothing) *)

  Definition step (fixed : bool) (st : state) (o : op) : state * outcome :=
    match o with
    | Get ci p => client_get fixed st ci p
    | Write p c => (set_files st ((p, Some c) :: files st), Done)
    | Delete p => (set_files st ((p, None) :: files st), Done)
    | Chdir d => (set_cwd st d, Done)
    | SetArgv a => (set_argv st a, Done)
    | NewClient b => (set_clients st (clients st ++ [mkClient b []]), Done)
    | Cli p => cli_run st p
    | HipGet k p => hip_get st k p
    end.

  (* one entry per operation: state before, operation, state after, outcome *)
  Record event : Type := mkEvent { before : state; eop : op; after : state; eout : outcome }.

  Fixpoint trace (fixed : bool) (st : state) (ops : list op) : list event :=
    match ops with
    | [] => []
    | o :: r => let (st', out) := step fixed st o in mkEvent st o st' out :: trace fixed st' r
    end.

  Definition final (fixed : bool) (st : state) (ops : list op) : state :=
    fold_left (fun s o => fst (step fixed s o)) ops st.

  (* a fresh process: no client yet *)
  Definition init (d : dir) (a : list arg) (f : fs) : state := mkState d a f [].

  Definition is_run (o : op) : bool := match o with Get _ _ | Cli _ | HipGet _ _ => true | _ => false end.
  Definition is_get (o : op) : bool := match o with Get _ _ => true | _ => false end.
End Process.

Arguments Returned {R}.
Arguments Raised {R}.
Arguments NoSuchClient {R}.
Arguments Done {R}.
Arguments Get {C}.
Arguments Write {C}.
Arguments Delete {C}.
Arguments Chdir {C}.
Arguments SetArgv {C}.
Arguments NewClient {C}.
Arguments Cli {C}.
Arguments HipGet {C}.
Arguments mkClient {R K}.
Arguments caching {R K}.
Arguments cache {R K}.
Arguments mkState {C R K}.
Arguments cwd {C R K}.
Arguments argv {C R K}.
Arguments files {C R K}.
Arguments clients {C R K}.
Arguments before {C R K}.
Arguments eop {C R K}.
Arguments after {C R K}.
Arguments eout {C R K}.
Arguments mkEvent {C R K}.
Arguments init {C R K}.
Arguments cache_lookup {R K}.
Arguments is_run {C}.
Arguments is_get {C}.
Arguments fs_lookup {C}.

(* A Monte-Carlo work package (MC_GeoPHIRES3.work_package executed n times in one process): each iteration writes its
   own input file p (base text + sampled lines = content c), asks a NEW caching client for it, deletes the file.
   [m] = number of the client the first iteration creates. *)
Definition mc_iter {C : Type} (m p : nat) (c : C) : list (op C) := [Write p c; NewClient true; Get m p; Delete p].
Fixpoint mc_package {C : Type} (m : nat) (ps : list nat) (c : C) : list (op C) :=
  match ps with
  | [] => []
  | p :: r => mc_iter m p c ++ mc_package (S m) r c
  end.

(* ------------------------------------------------------------------------------------------------
   Concrete instance used by the correspondence: contents and results are numbers, the result of a
   content is the content itself (so a returned result names the content it was computed from),
   contents listed in [okc] run, all others raise; hash = the path identifier. *)
(* where a request path is opened: by the current clients in the caller's directory, by the clients of the pinned
   tree in the program's own directory *)
Definition caller_opendir (_ d : dir) : dir := d.
Definition pinned_opendir (pkg _ : dir) : dir := pkg.

(* the cache key of the code under test: hash(file path), whatever the file holds *)
Definition path_key {C : Type} (hash : nat -> Z) (p : nat) (_ : option C) : Z := hash p.

(* the repaired cache: path hash and content *)
Definition content_key {C : Type} (hash : nat -> Z) (p : nat) (c : option C) : Z * option C := (hash p, c).
Definition content_keq {C : Type} (ceq : C -> C -> bool) (a b : Z * option C) : bool :=
  Z.eqb (fst a) (fst b) &&
  match snd a, snd b with
  | Some x, Some y => ceq x y
  | None, None => true
  | _, _ => false
  end.

Definition crun (okc : list nat) (c : nat) : option nat :=
  if existsb (Nat.eqb c) okc then Some c else None.
Definition chash (p : nat) : Z := Z.of_nat p.

(* HIP-RA results get their own names: program k on content c -> 1000 + 10 c + k; [okh] = the (k, c) that run *)
Definition hipres (k c : nat) : nat := 1000 + 10 * c + k.
Definition crunh (okh : list (nat * nat)) (k c : nat) : option nat :=
  if existsb (fun x => Nat.eqb (fst x) k && Nat.eqb (snd x) c) okh then Some (hipres k c) else None.

(* path resolution as a table ((directory, path) -> file); a path not listed is absolute: it names itself *)
Fixpoint cresolve (t : list (dir * nat * nat)) (d : dir) (p : nat) : nat :=
  match t with
  | [] => p
  | (d', p', f) :: r => if dir_eqb d d' && Nat.eqb p p' then f else cresolve r d p
  end.

(* what a session of the correspondence fixes: contents that run (geophires / HIP), path table, files that exist
   before the first operation (a file of the source tree that a relative name can hit) *)
Record cfg : Type := mkCfg {
  g_okc : list nat; g_okh : list (nat * nat); g_rt : list (dir * nat * nat); g_files : fs nat }.

(* sessions with absolute paths only, no HIP-RA content, no pre-existing file *)
Definition plain_cfg (okc : list nat) : cfg := mkCfg okc [] [] [].

Definition outcome_eqb (a b : outcome nat) : bool :=
  match a, b with
  | Returned r h, Returned r' h' => Nat.eqb r r' && Bool.eqb h h'
  | Raised, Raised => true
  | NoSuchClient, NoSuchClient => true
  | Done, Done => true
  | _, _ => false
  end.

(* what the harness saw around one operation of the real code *)
Record obs : Type := mkObs {
  o_cwd_before : dir; o_argv_before : list arg;
  o_cwd_after : dir; o_argv_after : list arg;
  o_out : outcome nat }.

(* PROPERTY ORACLES, evaluated on the implementation's observations (soundness: Proofs/ProcessProofs.v) *)

(* restore clause: a run leaves cwd and argv as they were *)
Definition check_restore_step (o : op nat) (b : obs) : bool :=
  if is_run o
  then dir_eqb (o_cwd_after b) (o_cwd_before b) && list_eqb arg_eqb (o_argv_after b) (o_argv_before b)
  else true.

(* the request of an operation: (oracle of the program it addresses, path as given) *)
Definition request_of (g : cfg) (o : op nat) : option ((nat -> option nat) * nat) :=
  match o with
  | Get _ p | Cli p => Some (crun (g_okc g), p)
  | HipGet k p => Some (crunh (g_okh g) k, p)
  | _ => None
  end.

(* refinement clause: a returned result is the run of the content that the file the request names - as the
   CALLER sees it, i.e. resolved against the caller's working directory at request time - has at request time;
   a request whose content runs does not raise.  [f] = the files as the operations so far left them. *)
Definition check_refines_step (g : cfg) (f : fs nat) (o : op nat) (b : obs) : bool :=
  match request_of g o with
  | Some (oracle, p) =>
      match o_out b, expected_with nat nat oracle f (cresolve (g_rt g) (o_cwd_before b) p) with
      | Returned r _, Some e => Nat.eqb r e
      | Returned _ _, None => false
      | Raised, Some _ => false
      | _, _ => true
      end
  | None => true
  end.

Definition files_step (f : fs nat) (o : op nat) : fs nat :=
  match o with
  | Write p c => (p, Some c) :: f
  | Delete p => (p, None) :: f
  | _ => f
  end.

(* failure codes of one step *)
Definition F_MODEL : N := 1.     (* implementation differs from the model of the CURRENT (fixed) client *)
Definition F_RESTORE : N := 2.   (* property: cwd/argv not restored *)
Definition F_REFINE : N := 3.    (* property: result is not the run of the current content *)
Definition F_STALE : N := 4.     (* property: the same, and it is exactly the modelled path-keyed cache hit *)
Definition F_HARNESS : N := 9.   (* observation list and operation list differ in length *)

(* the two instances the correspondence runs *)
Definition ptrace_with (od : dir -> dir -> dir) (g : cfg) (fixed : bool) (d : dir) (a : list arg) (ops : list (op nat))
  : list (event nat nat Z) :=
  trace nat nat (crun (g_okc g)) chash (cresolve (g_rt g)) od (crunh (g_okh g)) Z Z.eqb (path_key chash) fixed
        (init d a (g_files g)) ops.
Definition ctrace_with (od : dir -> dir -> dir) (g : cfg) (fixed : bool) (d : dir) (a : list arg) (ops : list (op nat))
  : list (event nat nat (Z * option nat)) :=
  trace nat nat (crun (g_okc g)) chash (cresolve (g_rt g)) od (crunh (g_okh g)) (Z * option nat) (content_keq Nat.eqb)
        (content_key chash) fixed (init d a (g_files g)) ops.
Definition ptrace := ptrace_with caller_opendir.     (* the code under test *)
Definition ctrace := ctrace_with caller_opendir.     (* ... with the content-keyed cache *)

Definition obs_matches {K : Type} (e : event nat nat K) (b : obs) : bool :=
  dir_eqb (cwd (after e)) (o_cwd_after b) && list_eqb arg_eqb (argv (after e)) (o_argv_after b)
  && outcome_eqb (eout e) (o_out b).

Definition stale_hit_as_modelled {K : Type} (e : event nat nat K) (b : obs) : bool :=
  match eout e with
  | Returned _ true => outcome_eqb (eout e) (o_out b)
  | _ => false
  end.

(* codes of a session: step * 10 + code (binary numbers: cheap for the VM) *)
Fixpoint session_codes {K : Type} (g : cfg) (i : N) (f : fs nat) (evs : list (event nat nat K)) (os : list obs)
  : list N :=
  match evs, os with
  | e :: evs', b :: os' =>
      let o := eop e in
      let m := if obs_matches e b then [] else [i * 10 + F_MODEL]%N in
      let r := if check_restore_step o b then [] else [i * 10 + F_RESTORE]%N in
      let q := if check_refines_step g f o b then []
               else [i * 10 + (if stale_hit_as_modelled e b then F_STALE else F_REFINE)]%N in
      m ++ r ++ q ++ session_codes g (N.succ i) (files_step f o) evs' os'
  | [], [] => []
  | _, _ => [i * 10 + F_HARNESS]%N
  end.

(* a session = one process: initial cwd/argv, the operations, what was observed *)
Definition session_check (fixed : bool) (g : cfg) (d : dir) (a : list arg) (ops : list (op nat))
  (os : list obs) : list N :=
  session_codes g 0%N (g_files g) (ptrace g fixed d a ops) os.

(* does the implementation behave like the given variant of the client on the whole session?
   [session_matches]: path-keyed cache (fixed = true: current client, false: client of the pinned tree);
   [session_matches_repaired]: current client with the content-keyed cache *)
Definition all_match {K : Type} (evs : list (event nat nat K)) (os : list obs) : bool :=
  Nat.eqb (length evs) (length os) && forallb (fun eb => obs_matches (fst eb) (snd eb)) (combine evs os).
Definition session_matches (fixed : bool) (g : cfg) (d : dir) (a : list arg) (ops : list (op nat))
  (os : list obs) : bool := all_match (ptrace g fixed d a ops) os.
Definition session_matches_repaired (fixed : bool) (g : cfg) (d : dir) (a : list arg) (ops : list (op nat))
  (os : list obs) : bool := all_match (ctrace g fixed d a ops) os.
(* request paths opened in the PROGRAM's directory (the clients of the pinned tree, before fa4a753) *)
Definition session_matches_pinned_path (g : cfg) (d : dir) (a : list arg) (ops : list (op nat))
  (os : list obs) : bool := all_match (ptrace_with pinned_opendir g true d a ops) os.

(* many sessions: (number of sessions, [session * 100000 + step * 10 + code]) *)
Fixpoint sessions_codes (k : N) (l : list (list N)) : list N :=
  match l with
  | [] => []
  | c :: r => map (fun x => k * 100000 + x)%N c ++ sessions_codes (N.succ k) r
  end.
Definition sessions_result (l : list (list N)) : nat * list N := (length l, sessions_codes 0%N l).
