(* Model/Hydrostatic.v - executable model of the rational parts of GeoPHIRESUtils.static_pressure_MPa (litho-/hydrostatic
   column rho*g*depth) and of WellBores.get_hydrostatic_pressure_kPa (Xie-Bloomfield-Shook correlation).
   CoolProp water density, Trock ** (-0.552) and math.exp are library values: data / an explicit function argument.
   No proofs here. *)
From Coq Require Import QArith List ZArith Bool.
From Verif Require Import Base.Flat.
Import ListNotations.
Open Scope Q_scope.

(* scipy.constants.g *)
Definition g_std : Q := 980665 # 100000.
(* static_pressure_MPa(rho, depth) = rho * g * depth  [Pa] -> MPa *)
Definition static_pressure_MPa (rho depth : Q) : Q := rho * g_std * depth / 1000000.

(* get_hydrostatic_pressure_kPa(Trock, Tsurf, depth_m, gradient, lithostatic_pressure):
     CP = 4.64E-7;  CT = 9E-4 / (30.796 * Trock ** (-0.552))
     0 + 1./CP * (math.exp(rho_surface * 9.81 * CP / 1000 * (depth_m - CT / 2 * gradient * depth_m ** 2)) - 1) *)
Definition CP : Q := 464 # 1000000000.
Definition ct_of (pw : Q) : Q := (9 # 10000) / ((30796 # 1000) * pw).          (* pw = Trock ** (-0.552) *)
Definition hydro_arg (rho ct grad depth : Q) : Q :=
  rho * (981 # 100) * CP / 1000 * (depth - ct / 2 * grad * (depth * depth)).
Definition hydro_of_exp (e : Q) : Q := 0 + 1 / CP * (e - 1).
Definition hydrostatic_kPa (ex : Q -> Q) (rho pw grad depth : Q) : Q :=
  hydro_of_exp (ex (hydro_arg rho (ct_of pw) grad depth)).

(* ---- flat interface ---- *)
(* [rho; depth] -> [MPa] *)
Definition run_static (a : list Q) : res :=
  match a with [rho; depth] => Vals [static_pressure_MPa rho depth] | _ => Err E_ARGS end.
(* [rho_surface; pw; grad; depth; e] with e = the value math.exp returned -> [argument of exp; pressure in kPa] *)
Definition run_hydro (a : list Q) : res :=
  match a with
  | [rho; pw; grad; depth; e] => Vals [hydro_arg rho (ct_of pw) grad depth; hydrostatic_kPa (fun _ => e) rho pw grad depth]
  | _ => Err E_ARGS
  end.
