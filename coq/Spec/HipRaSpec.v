(* Spec/HipRaSpec.v - the vocabulary in which property C17 is stated: declared input ranges of HIP-RA-X, the
   thermodynamic sign hypotheses on the water properties, and "scaled by k".  Definitions only. *)
From Coq Require Import QArith Qabs Qminmax List ZArith Bool.
From Verif Require Import Base.Flat Model.HipRa.
Import ListNotations.
Open Scope Q_scope.

(* declared [Min, Max] of the HIP-RA-X inputs (hip_ra_x.py __init__); density / heat capacity of the fluid and
   depth / pressure have a "derive it" sentinel and are constrained where a theorem needs them *)
Definition in_range_b (i : hin) : bool :=
  Qleb 50 (i_Tres i) && Qleb (i_Tres i) 1000 && Qleb (1#10) (i_Trej i) && Qleb (i_Trej i) 200 &&
  Qleb 0 (i_por i) && Qleb (i_por i) 100 && Qleb 0 (i_area i) && Qleb (i_area i) 10000 &&
  Qleb 0 (i_thick i) && Qleb (i_thick i) 10000 && Qleb 1 (i_life i) && Qleb (i_life i) 100 &&
  Qleb 0 (i_rhc i) && Qleb (i_rhc i) (100000000000000#1) &&
  Qleb (100000000000#1) (i_rdens i) && Qleb (i_rdens i) (10000000000000#1) &&
  Qleb 0 (i_rff i) && Qleb (i_rff i) 1 && Qleb 0 (i_rrh i) && Qleb (i_rrh i) 1.
Definition in_range (i : hin) : Prop := in_range_b i = true.

(* what thermodynamics says of liquid water / steam between two temperatures at one pressure, and a density >= 0:
   assumed of the CoolProp values (sampled on every run), premises of C17_cascade_partial *)
Definition water_signs (W : water) (i : hin) : Prop :=
  0 < c_hnet W i /\ 0 <= c_snet W i /\ 0 <= c_exergy W i /\ 0 <= c_fdens W i.

(* every result of run [o'] is the result of run [o] multiplied by k if extensive, unchanged if intensive;
   per-area results are unchanged when the area is scaled ([per_area = false]) and scale with the thickness *)
Record scaled (k : Q) (per_area : bool) (o o' : hout) : Prop := {
  sc_volume : o_volume o' == k * o_volume o;
  sc_vol_rock : o_vol_rock o' == k * o_vol_rock o;
  sc_vol_fluid : o_vol_fluid o' == k * o_vol_fluid o;
  sc_mass_rock : o_mass_rock o' == k * o_mass_rock o;
  sc_mass_fluid : o_mass_fluid o' == k * o_mass_fluid o;
  sc_mass_total : o_mass_total o' == k * o_mass_total o;
  sc_stored_rock : o_stored_rock o' == k * o_stored_rock o;
  sc_stored_fluid : o_stored_fluid o' == k * o_stored_fluid o;
  sc_stored : o_stored o' == k * o_stored o;
  sc_avail : o_avail o' == k * o_avail o;
  sc_prod : o_prod o' == k * o_prod o;
  sc_elec : o_elec o' == k * o_elec o;
  (* per area *)
  sc_elec_area : o_elec_area o' == (if per_area then k else 1) * o_elec_area o;
  sc_heat_area : o_heat_area o' == (if per_area then k else 1) * o_heat_area o;
  sc_elec_area_fluid : o_elec_area_fluid o' == (if per_area then k else 1) * o_elec_area_fluid o;
  (* per volume, percentages, specific quantities, derived state *)
  sc_elec_vol : o_elec_vol o' == o_elec_vol o;
  sc_heat_vol : o_heat_vol o' == o_heat_vol o;
  sc_recovery : o_recovery o' == o_recovery o;
  sc_enth_rock : o_enth_rock o' == o_enth_rock o;
  sc_enth_fluid : o_enth_fluid o' == o_enth_fluid o;
  sc_enth_res : o_enth_res o' == o_enth_res o;
  sc_depth : o_depth o' == o_depth o;
  sc_pres : o_pres o' == o_pres o;
  sc_fdens : o_fdens o' == o_fdens o;
  sc_fhc : o_fhc o' == o_fhc o
}.

(* table checks used by the UtilEff theorem *)
Fixpoint knots_increasing (x0 : Q) (rest : list (Q * Q)) : bool :=
  match rest with [] => true | (x1, _) :: r => Qltb x0 x1 && knots_increasing x1 r end.
Definition values_within (lo hi : Q) (tbl : list (Q * Q)) : bool :=
  forallb (fun p => Qleb lo (snd p) && Qleb (snd p) hi) tbl.
Definition table_ok (lo hi : Q) (tbl : list (Q * Q)) : bool :=
  match tbl with [] => false | (x0, _) :: r => knots_increasing x0 r && values_within lo hi tbl end.

(* what a passed tolerance comparison means *)
Definition within (tol a b : Q) : Prop := Qabs (a - b) <= tol * Qmax3 1 (Qabs a) (Qabs b).
