(* Proofs/FmtGenProofs.v - the value of a '{:w.pg}' field: trailing zeros removed from a fraction do not change its value,
   digits are recovered from their value, the positional and the exponent layout of P significant digits both read back
   as m * 10^(x-P+1). *)
From Coq Require Import String Ascii QArith Qabs Qround ZArith List Bool Lia Lqa.
From Verif Require Import Model.Fmt Proofs.FmtProofs Proofs.FmtSciProofs.
Import ListNotations.
Open Scope Z_scope.
Local Arguments digit_char : simpl never.
Local Arguments is_digit : simpl never.
Local Arguments digit_val : simpl never.
Local Opaque digit_char.

(* ---------- trailing zeros ---------- *)
Lemma strip0_rev_spec l : exists k, l = repeat 0 k ++ strip0_rev l.
Proof.
  induction l as [|d l IH]; [exists 0%nat; reflexivity|].
  destruct (Z.eq_dec d 0) as [->|N].
  - destruct IH as (k & E). exists (S k). simpl. rewrite <- E. reflexivity.
  - exists 0%nat. simpl. destruct d; try reflexivity. congruence.
Qed.

Lemma rev_repeat0 k : rev (repeat 0 k) = repeat 0 k.
Proof.
  induction k; [reflexivity|]. simpl. rewrite IHk. clear IHk.
  induction k; [reflexivity|]. simpl. rewrite IHk. reflexivity.
Qed.

Lemma strip0_spec ds : exists k, ds = strip0 ds ++ repeat 0 k.
Proof.
  unfold strip0. destruct (strip0_rev_spec (rev ds)) as (k & E). exists k.
  rewrite <- (rev_involutive ds) at 1. rewrite E at 1. rewrite rev_app_distr, rev_repeat0. reflexivity.
Qed.

Lemma dval_zeros k : dval (repeat 0 k) = 0.
Proof. induction k; [reflexivity|]. change (repeat 0 (S k)) with ([0] ++ repeat 0 k). rewrite dval_app, IHk. unfold dval. simpl. lia. Qed.

Lemma dval_app_zeros l k : dval (l ++ repeat 0 k) = dval l * 10 ^ Z.of_nat k.
Proof. rewrite dval_app, dval_zeros, repeat_length. lia. Qed.

Lemma dval_zeros_app k l : dval (repeat 0 k ++ l) = dval l.
Proof. rewrite dval_app, dval_zeros. lia. Qed.

Lemma Forall_digit_zeros k : Forall digit (repeat 0 k).
Proof. induction k; constructor; [unfold digit; lia|assumption]. Qed.

Lemma strip0_digits ds : Forall digit ds -> Forall digit (strip0 ds).
Proof. intros H. destruct (strip0_spec ds) as (k & E). rewrite E in H. apply Forall_app in H. tauto. Qed.

(* value of "ip . fp" when fp loses its trailing zeros *)
Lemma frac_strip ip fp : let fp' := strip0 fp in
  (inject_Z (dval (ip ++ fp')) / inject_Z (pow10 (length fp')) == inject_Z (dval (ip ++ fp)) / inject_Z (pow10 (length fp)))%Q.
Proof.
  intros fp'. destruct (strip0_spec fp) as (k & E). fold fp' in E.
  assert (L : length fp = (length fp' + k)%nat) by (rewrite E at 1; rewrite app_length, repeat_length; reflexivity).
  assert (V : dval (ip ++ fp) = dval (ip ++ fp') * 10 ^ Z.of_nat k).
  { rewrite E at 1. rewrite app_assoc. apply dval_app_zeros. }
  rewrite V, L. unfold pow10. rewrite Nat2Z.inj_add, Z.pow_add_r by lia. rewrite !inject_Z_mult.
  assert (0 < inject_Z (10 ^ Z.of_nat (length fp')))%Q by (change 0%Q with (inject_Z 0); rewrite <- Zlt_Qlt; apply Z.pow_pos_nonneg; lia).
  assert (0 < inject_Z (10 ^ Z.of_nat k))%Q by (change 0%Q with (inject_Z 0); rewrite <- Zlt_Qlt; apply Z.pow_pos_nonneg; lia).
  field. split; lra.
Qed.

(* digits are recovered from their value *)
Lemma fixdigs_acc_dval l : Forall digit l -> forall acc, fixdigs_acc (length l) (dval l) acc = l ++ acc.
Proof.
  induction l as [|d l IH] using rev_ind; intros F acc; [reflexivity|].
  apply Forall_app in F. destruct F as [F1 F2]. pose proof (Forall_inv F2) as Hd. unfold digit in Hd.
  rewrite app_length. simpl length. replace (length l + 1)%nat with (S (length l)) by lia.
  cbn [fixdigs_acc]. rewrite dval_snoc.
  replace ((dval l * 10 + d) / 10) with (dval l) by (apply Z.div_unique with d; lia).
  replace ((dval l * 10 + d) mod 10) with d by (apply Z.mod_unique with (dval l); lia).
  rewrite IH by exact F1. rewrite <- app_assoc. reflexivity.
Qed.

Lemma fixdigs_dval l : Forall digit l -> fixdigs (length l) (dval l) = l.
Proof. intros F. unfold fixdigs. rewrite fixdigs_acc_dval by exact F. apply app_nil_r. Qed.

(* the two conclusions about the decimal z = +-(m * 10^(x-n+1)) a field shows for q *)
Lemma sig_value_bounds q n m x : ~ (q == 0)%Q -> (1 <= n)%nat -> sig_round q n = (m, x) ->
  forall z, (z == (if qneg q then -(1) else 1) * (inject_Z m * Qpow10 (x - Z.of_nat n + 1)))%Q ->
  (Qabs (z - q) <= (1#2) * Qpow10 (x - Z.of_nat n + 1))%Q /\ (Qpow10 x <= Qabs z /\ Qabs z < Qpow10 (x + 1))%Q.
Proof.
  intros Hq Hn SR z Ez. destruct (sig_round_spec q n Hq Hn m x SR) as ([M1 M2] & C).
  set (u := Qpow10 (x - Z.of_nat n + 1)) in *. assert (Pu : (0 < u)%Q) by apply Qpow10_pos.
  pose proof (pow10_pos (n - 1)) as Pp.
  pose proof (Qabs_of_sign q) as As.
  assert (Mq1 : (inject_Z (pow10 (n - 1)) <= inject_Z m)%Q) by (rewrite <- Zle_Qle; exact M1).
  assert (Mq2 : (inject_Z m < inject_Z (pow10 n))%Q) by (rewrite <- Zlt_Qlt; exact M2).
  assert (Ex : (Qpow10 x == inject_Z (pow10 (n - 1)) * u)%Q).
  { unfold u. rewrite pow10_Qpow10. rewrite <- (Qpow10_split x (Z.of_nat (n - 1)) (x - Z.of_nat n + 1)) by lia. reflexivity. }
  assert (Ex1 : (Qpow10 (x + 1) == inject_Z (pow10 n) * u)%Q).
  { unfold u. rewrite pow10_Qpow10. rewrite <- (Qpow10_split (x + 1) (Z.of_nat n) (x - Z.of_nat n + 1)) by lia. reflexivity. }
  apply Qabs_Qle_condition in C. destruct C as [C1 C2].
  assert (Pm : (0 < inject_Z m)%Q). { assert (0 < inject_Z (pow10 (n - 1)))%Q by (change 0%Q with (inject_Z 0); rewrite <- Zlt_Qlt; exact Pp). lra. }
  rewrite Ez. destruct (qneg q).
  - setoid_replace (- (1) * (inject_Z m * u))%Q with (- (inject_Z m * u))%Q by ring. split.
    + apply Qabs_Qle_condition. split; lra.
    + rewrite Qabs_opp, Qabs_pos by nra. rewrite Ex, Ex1. split; nra.
  - setoid_replace (1 * (inject_Z m * u))%Q with (inject_Z m * u)%Q by ring. split.
    + apply Qabs_Qle_condition. split; lra.
    + rewrite Qabs_pos by nra. rewrite Ex, Ex1. split; nra.
Qed.

(* exponent form of 'g': first digit, the other digits without trailing zeros, exponent *)
Lemma gen_sci_parse (neg : bool) m x prec k : (1 <= prec)%nat -> pow10 (prec - 1) <= m < pow10 prec ->
  let ds := fixdigs prec m in
  parse_sci_chars (repeat sp k ++ (if neg then ["-"%char] else [])
       ++ match ds with
          | d :: r => digit_char d :: match strip0 r with [] => [] | r' => "."%char :: dchars r' end
          | [] => []
          end ++ exp_chars false x)
  = Some ((if neg then -(1) else 1) * (inject_Z (dval (match ds with d :: r => d :: strip0 r | [] => [] end))
                                       / inject_Z (pow10 (length (match ds with d :: r => strip0 r | [] => [] end)))) * Qpow10 x)%Q.
Proof.
  intros Hp Hm ds. destruct (fixdigs_spec prec m) as (F1 & F2 & F3). fold ds in F1, F2, F3.
  destruct ds as [|d r] eqn:E; [simpl in F1; lia|].
  pose proof (Forall_inv F3) as Hd. pose proof (Forall_inv_tail F3) as Hr.
  set (r' := strip0 r). pose proof (strip0_digits r Hr) as Hr'. fold r' in Hr'.
  assert (Fd : Forall digit (d :: r')) by (constructor; assumption).
  pose proof (dval_bounds _ Fd) as B.
  pose proof (sci_body_parse false neg (dval (d :: r')) x (length r') k) as P.
  assert (Hb : 0 <= dval (d :: r') < pow10 (S (length r'))) by (unfold pow10; simpl length in B; exact B).
  specialize (P Hb). unfold sci_body in P.
  change (S (length r')) with (length (d :: r')) in P. rewrite (fixdigs_dval _ Fd) in P.
  rewrite <- P. f_equal. f_equal. f_equal. f_equal.
  destruct r'; reflexivity.
Qed.

Lemma Forall_firstn_skipn {A} (P : A -> Prop) k l : Forall P l -> Forall P (firstn k l) /\ Forall P (skipn k l).
Proof. intros H. rewrite <- (firstn_skipn k l) in H. apply Forall_app in H. exact H. Qed.

Lemma positional_spec ds x : Forall digit ds -> ds <> [] -> x < Z.of_nat (length ds) ->
  let '(ip, fp) := positional ds x in
  Forall digit ip /\ ip <> [] /\ Forall digit fp /\
  (inject_Z (dval (ip ++ fp)) / inject_Z (pow10 (length fp)) == inject_Z (dval ds) * Qpow10 (x - Z.of_nat (length ds) + 1))%Q.
Proof.
  intros F NE Hx. unfold positional. destruct (x <? 0) eqn:Ex.
  - apply Z.ltb_lt in Ex. split; [constructor; [unfold digit; lia|constructor]|]. split; [discriminate|].
    split; [apply Forall_app; split; [apply Forall_digit_zeros|exact F]|].
    change ([0] ++ repeat 0 (Z.to_nat (- x - 1)) ++ ds) with ((0 :: repeat 0 (Z.to_nat (- x - 1))) ++ ds).
    change (0 :: repeat 0 (Z.to_nat (- x - 1))) with (repeat 0 (S (Z.to_nat (- x - 1)))).
    rewrite dval_zeros_app, app_length, repeat_length.
    rewrite pow10_Qpow10, Nat2Z.inj_add, Z2Nat.id by lia.
    rewrite (Qpow10_split (x - Z.of_nat (length ds) + 1) 0 (- (- x - 1 + Z.of_nat (length ds)))) by lia.
    rewrite Qpow10_inv. change (Qpow10 0) with 1%Q.
    pose proof (Qpow10_pos (- x - 1 + Z.of_nat (length ds))). field. lra.
  - apply Z.ltb_ge in Ex. set (k := Z.to_nat (x + 1)).
    assert (Hk : (1 <= k <= length ds)%nat) by (unfold k; lia).
    replace (k - length ds)%nat with 0%nat by lia. simpl repeat. rewrite app_nil_r.
    split; [apply (Forall_firstn_skipn digit k ds F)|]. split.
    { destruct ds as [|d ds']; [congruence|]. destruct k; [lia|]. simpl. discriminate. }
    split; [apply (Forall_firstn_skipn digit k ds F)|].
    rewrite firstn_skipn, skipn_length.
    rewrite pow10_Qpow10. replace (Z.of_nat (length ds - k)) with (Z.of_nat (length ds) - Z.of_nat k) by lia.
    replace (Z.of_nat k) with (x + 1) by (unfold k; lia).
    rewrite (Qpow10_split (x - Z.of_nat (length ds) + 1) 0 (- (Z.of_nat (length ds) - (x + 1)))) by lia.
    rewrite Qpow10_inv. change (Qpow10 0) with 1%Q.
    pose proof (Qpow10_pos (Z.of_nat (length ds) - (x + 1))). field. lra.
Qed.

(* format(q, 'w.pg') for q <> 0 (P = max p 1 significant digits, trailing zeros removed, positional for -4 <= x < P and
   exponent form otherwise): the text reads back - as a plain decimal or as d.ddde+xx - as a decimal z with
   10^x <= |z| < 10^(x+1) within half a unit of its P-th significant digit of q *)
Theorem fmt_g_value q w p : ~ (q == 0)%Q ->
  let prec := match p with O => 1%nat | _ => p end in
  exists z x, (parse_dec (fmt_g (Fin q) w p) = Some z \/ parse_sci (fmt_g (Fin q) w p) = Some z) /\
    (Qabs (z - q) <= (1#2) * Qpow10 (x - Z.of_nat prec + 1))%Q /\ (Qpow10 x <= Qabs z /\ Qabs z < Qpow10 (x + 1))%Q.
Proof.
  intros Hq prec. assert (Hp : (1 <= prec)%nat) by (unfold prec; destruct p; lia).
  unfold parse_dec, parse_sci, fmt_g, chars. rewrite list_ascii_of_string_of_list_ascii.
  unfold fmt_g_chars, lpad. fold prec.
  assert (E0 : Qeq_bool q 0 = false). { destruct (Qeq_bool q 0) eqn:E; [apply Qeq_bool_iff in E; contradiction|reflexivity]. }
  rewrite E0. destruct (sig_round q prec) as [m x] eqn:SR.
  destruct (sig_round_spec q prec Hq Hp m x SR) as ([M1 M2] & _).
  set (k := (w - length (gen_body (qneg q) m x prec))%nat). clearbody k.
  destruct (fixdigs_spec prec m) as (F1 & F2 & F3).
  rewrite Z.mod_small in F2 by (pose proof (pow10_pos (prec - 1)); lia).
  set (u := Qpow10 (x - Z.of_nat prec + 1)).
  unfold gen_body. set (ds := fixdigs prec m) in *.
  destruct ((x <? -4) || (Z.of_nat prec <=? x)) eqn:Br.
  - (* exponent form *)
    pose proof (gen_sci_parse (qneg q) m x prec k Hp (conj M1 M2)) as P. cbv zeta in P. fold ds in P.
    destruct ds as [|d r] eqn:Eds; [simpl in F1; lia|].
    eexists. exists x. split; [right; exact P|].
    apply (sig_value_bounds q prec m x Hq Hp SR).
    pose proof (frac_strip [d] r) as FS. cbv zeta in FS. change ([d] ++ strip0 r) with (d :: strip0 r) in FS.
    change ([d] ++ r) with (d :: r) in FS. rewrite F2 in FS. rewrite FS.
    simpl length in F1. replace (length r) with (prec - 1)%nat by lia.
    rewrite pow10_Qpow10. rewrite (Qpow10_split (x - Z.of_nat prec + 1) x (- Z.of_nat (prec - 1))) by lia. rewrite Qpow10_inv.
    pose proof (Qpow10_pos (Z.of_nat (prec - 1))). field. lra.
  - (* positional *)
    apply orb_false_iff in Br. destruct Br as [_ Br2]. apply Z.leb_gt in Br2.
    assert (NE : ds <> []) by (intros E; rewrite E in F1; simpl in F1; lia).
    pose proof (positional_spec ds x F3 NE ltac:(rewrite F1; exact Br2)) as PS.
    destruct (positional ds x) as [ip fp]. destruct PS as (Fi & Ni & Ff & Val).
    set (fp' := strip0 fp). pose proof (strip0_digits fp Ff) as Ff'. fold fp' in Ff'.
    assert (Hhead : exists c r, dchars ip = c :: r /\ Ascii.eqb c sp = false /\ Ascii.eqb c "-"%char = false).
    { destruct ip as [|d0 ip']; [congruence|]. pose proof (Forall_inv Fi) as Hd0.
      destruct (digit_char_facts d0 Hd0) as (_ & _ & A & B). exists (digit_char d0), (dchars ip'). auto. }
    pose proof (parse_body_generic false (qneg q) (dchars ip) ip fp'
                  (dval (ip ++ match length fp' with O => [] | S _ => fp' end)) (length fp') k Fi Ni Ff' eq_refl
                  (fun rest R => span_digits_dchars false ip rest Fi
                     (match rest as l return (match l with [] => True | x :: _ => is_digit x = false /\ Ascii.eqb x ","%char = false end
                                              -> match l with [] => True | x :: _ => is_digit x = false /\ (false && Ascii.eqb x ","%char = false) end)
                      with [] => fun _ => I | _ :: _ => fun H => conj (proj1 H) eq_refl end R))
                  Hhead eq_refl) as P.
    assert (Etext : match length fp' with O => [] | S _ => "."%char :: dchars fp' end
                    = match fp' with [] => [] | z0 :: l0 => "."%char :: dchars (z0 :: l0) end) by (destruct fp'; reflexivity).
    rewrite Etext in P.
    eexists. exists x. split; [left; exact P|].
    apply (sig_value_bounds q prec m x Hq Hp SR).
    assert (Es : match length fp' with O => [] | S _ => fp' end = fp') by (destruct fp'; reflexivity).
    rewrite Es. pose proof (frac_strip ip fp) as FS. cbv zeta in FS. fold fp' in FS. rewrite FS, Val, F2, F1. reflexivity.
Qed.
