(* Proofs/MonoProofs.v - outputs respond monotonically where the model says they must (C18). *)
From Coq Require Import QArith Qabs Qminmax Qpower Qfield List ZArith Bool Lia Lqa.
From Verif Require Import Base.Flat Model.CashFlow Model.Lcoe Model.Costs Model.Gradient Model.Drawdown Model.Ramey
     Proofs.FlatFacts Proofs.CashFlowProofs Proofs.LcoeProofs Proofs.CostsProofs Proofs.ScalingProofs
     Proofs.GradientProofs Proofs.DrawdownProofs.
Import ListNotations.
Open Scope Q_scope.

(* ---------- bottom-hole temperature: depth and gradients ---------- *)

(* same layering (thicknesses), every gradient at least as large *)
Inductive grads_le : list (Q * Q) -> list (Q * Q) -> Prop :=
| gle_nil : grads_le [] []
| gle_cons g g' th r r' : g <= g' -> grads_le r r' -> grads_le ((g, th) :: r) ((g', th) :: r').

Lemma Tprofile_mono_grad : forall upper upper', grads_le upper upper' ->
  Forall (fun p => 0 <= snd p) upper ->
  forall gb gb' Ts Ts' d, gb <= gb' -> Ts <= Ts' -> 0 <= d ->
  Tprofile Ts upper gb d <= Tprofile Ts' upper' gb' d.
Proof.
  intros upper upper' H. induction H as [|g g' th r r' Hg _ IH]; intros HF gb gb' Ts Ts' d Hgb HT Hd; cbn [Tprofile].
  - nra.
  - inversion HF as [|? ? Hth HF']; subst. cbn in Hth.
    destruct (Qlt_le_dec th d).
    + apply IH; try assumption; nra.
    + nra.
Qed.

Lemma Qmin_mono a a' b : a <= a' -> Qmin a b <= Qmin a' b.
Proof. intros H. apply Q.min_le_compat_r. exact H. Qed.

(* bottom-hole temperature = min(profile at depth, Tmax) does not decrease when the depth increases ... *)
Theorem trock_mono_depth Ts Tmax upper gb d1 d2 : Gradient.wf upper gb -> Ts <= Tmax -> d1 <= d2 ->
  trock Ts Tmax upper gb d1 <= trock Ts Tmax upper gb d2.
Proof.
  intros Hwf HT Hd. rewrite !trock_is_min by assumption. apply Qmin_mono. now apply Tprofile_mono.
Qed.

(* ... nor when any (normalised) gradient increases *)
Theorem trock_mono_gradient Ts Tmax upper upper' gb gb' d : Gradient.wf upper gb -> Gradient.wf upper' gb' -> Ts <= Tmax -> 0 <= d ->
  grads_le upper upper' -> gb <= gb' ->
  trock Ts Tmax upper gb d <= trock Ts Tmax upper' gb' d.
Proof.
  intros Hwf Hwf' HT Hd Hg Hgb. rewrite !trock_is_min by assumption. apply Qmin_mono.
  apply Tprofile_mono_grad; try assumption; try apply Qle_refl.
  destruct Hwf as [_ HF]. clear -HF. induction HF as [|[g th] r [_ Hth] _ IH]; constructor; auto. cbn in *. lra.
Qed.

(* ---------- percentage drawdown: a larger drawdown rate never gives a higher temperature ---------- *)
Theorem tdp_mono_rate Trock Tinj dd dd' t : Tinj <= Trock -> 0 <= t -> dd <= dd' ->
  tdp_T Trock Tinj dd' t <= tdp_T Trock Tinj dd t.
Proof. intros. unfold tdp_T. assert (0 <= (dd' - dd) * t) by nra. nra. Qed.

Theorem tdp_series_mono_rate Trock Tinj dd dd' ts : Tinj <= Trock -> Forall (fun t => 0 <= t) ts -> dd <= dd' ->
  Forall2 Qle (tdp_series Trock Tinj dd' ts) (tdp_series Trock Tinj dd ts).
Proof.
  intros HT Hts Hdd. unfold tdp_series. induction Hts; simpl; constructor; auto. now apply tdp_mono_rate.
Qed.

(* ---------- Ramey: initial production temperature vs flow rate ---------- *)
Lemma ramey_drop0_E (E : Q -> Q) g depth A ex : ex == 1 - E (depth / A) ->
  ramey_drop0 g depth A ex == drop0_E E g depth A.
Proof. intros H. unfold ramey_drop0, ramey_drop, drop0_E. rewrite H. ring. Qed.

Section RameyFlow.
Variable E : Q -> Q.                      (* x |-> 1 - exp(-x) *)
(* concavity of E with E 0 = 0, in chord form: the chord slope E x / x does not increase *)
Hypothesis chord : forall x y, 0 < x -> x <= y -> x * E y <= y * E x.

Lemma A_E_mono depth A1 A2 : 0 < depth -> 0 < A1 -> A1 <= A2 -> A1 * E (depth / A1) <= A2 * E (depth / A2).
Proof.
  intros Hd H1 H12. assert (H2 : 0 < A2) by lra.
  assert (Hx2 : 0 < depth / A2) by (apply Qlt_shift_div_l; lra).
  assert (Hle : depth / A2 <= depth / A1).
  { assert (Heq : depth / A1 - depth / A2 == depth * (A2 - A1) / (A1 * A2)) by (field; lra).
    assert (0 <= depth * (A2 - A1) / (A1 * A2)) by (apply Qle_shift_div_l; nra).
    lra. }
  pose proof (chord (depth / A2) (depth / A1) Hx2 Hle) as Hc.
  (* multiply by A1*A2/depth *)
  assert (Hk : 0 < A1 * A2 / depth) by (apply Qlt_shift_div_l; nra).
  assert (E1 : A1 * A2 / depth * (depth / A2 * E (depth / A1)) == A1 * E (depth / A1)) by (field; lra).
  assert (E2 : A1 * A2 / depth * (depth / A1 * E (depth / A2)) == A2 * E (depth / A2)) by (field; lra).
  rewrite <- E1, <- E2. apply Qmult_le_l; assumption.
Qed.

(* a larger Ramey coefficient A (A is proportional to the flow rate) gives a smaller initial temperature drop *)
Theorem drop0_antitone g depth A1 A2 : 0 <= g -> 0 < depth -> 0 < A1 -> A1 <= A2 ->
  drop0_E E g depth A2 <= drop0_E E g depth A1.
Proof.
  intros Hg Hd H1 H12. unfold drop0_E. pose proof (A_E_mono depth A1 A2 Hd H1 H12). nra.
Qed.
End RameyFlow.

Lemma ramey_A_mono flow flow' cpw f pi krock : 0 < cpw -> 0 < f -> 0 < pi -> 0 < krock -> flow <= flow' ->
  ramey_A flow cpw f pi krock <= ramey_A flow' cpw f pi krock.
Proof.
  intros Hc Hf Hp Hk Hfl. unfold ramey_A, Qdiv.
  assert (Hip : 0 < / pi) by now apply Qinv_lt_0_compat. assert (Hik : 0 < / krock) by now apply Qinv_lt_0_compat.
  assert (H2 : 0 < / 2) by reflexivity.
  set (K := cpw * f * / 2 * / pi * / krock).
  assert (HK : 0 <= K) by (unfold K; repeat apply Qmult_le_0_compat; apply Qlt_le_weak; assumption).
  assert (E1 : flow * cpw * f * / 2 * / pi * / krock == flow * K) by (unfold K; ring).
  assert (E2 : flow' * cpw * f * / 2 * / pi * / krock == flow' * K) by (unfold K; ring).
  rewrite E1, E2. now apply Qmult_le_compat_r.
Qed.

(* initial production temperature = bottom-hole temperature - initial drop: does not decrease with the flow rate *)
Theorem initial_production_temperature_mono (E : Q -> Q) Trock g depth A1 A2 :
  (forall x y, 0 < x -> x <= y -> x * E y <= y * E x) -> 0 <= g -> 0 < depth -> 0 < A1 -> A1 <= A2 ->
  produced_temperature Trock (drop0_E E g depth A1) <= produced_temperature Trock (drop0_E E g depth A2).
Proof. intros Hc Hg Hd H1 H12. unfold produced_temperature. pose proof (drop0_antitone E Hc g depth A1 A2 Hg Hd H1 H12). lra. Qed.

(* ---------- well cost vs depth over the regenerated correlation table ---------- *)
Definition max_depth_m : Q := 15000.
Definition mono_ok (row : Z * bool * (Q * Q * Q)) : bool :=
  let '(_, _, (c2, c1, _)) := row in
  Qle_bool 0 (2 * c2 * 500 + c1) && Qle_bool 0 (2 * c2 * max_depth_m + c1).

Lemma quad_mono c2 c1 c0 d1 d2 :
  0 <= 2 * c2 * 500 + c1 -> 0 <= 2 * c2 * max_depth_m + c1 -> 500 <= d1 -> d1 <= d2 -> d2 <= max_depth_m ->
  quad_cost (c2, c1, c0) d1 <= quad_cost (c2, c1, c0) d2.
Proof.
  unfold quad_cost, max_depth_m. intros Hlo Hhi H1 H12 H2.
  assert (Hs : 0 <= c2 * (d1 + d2) + c1).
  { destruct (Qlt_le_dec c2 0); nra. }
  assert (Hdiff : (c2 * d2 * d2 + c1 * d2 + c0) - (c2 * d1 * d1 + c1 * d1 + c0) == (d2 - d1) * (c2 * (d1 + d2) + c1)) by ring.
  assert (0 <= (d2 - d1) * (c2 * (d1 + d2) + c1)) by (apply Qmult_le_0_compat; lra).
  unfold Qdiv. apply Qmult_le_compat_r; [lra | discriminate].
Qed.

Lemma mono_ok_row row d1 d2 : mono_ok row = true -> 500 <= d1 -> d1 <= d2 -> d2 <= max_depth_m ->
  quad_cost (snd row) d1 <= quad_cost (snd row) d2.
Proof.
  destruct row as [[i s] [[c2 c1] c0]]. unfold mono_ok. intros H. apply andb_prop in H. destruct H as [Ha Hb].
  apply Qle_bool_iff in Ha. apply Qle_bool_iff in Hb. simpl. now apply quad_mono.
Qed.

(* adjusted cost of one vertical well, correlation branch and per-metre branch *)
Lemma one_vertical_well_mono simple coef d1 d2 per_m adj : 0 <= adj -> 0 <= per_m ->
  (forall a b, 500 <= a -> a <= b -> b <= max_depth_m -> quad_cost coef a <= quad_cost coef b) ->
  500 <= d1 -> d1 <= d2 -> d2 <= max_depth_m ->
  one_vertical_well simple coef d1 per_m adj <= one_vertical_well simple coef d2 per_m adj.
Proof.
  intros Hadj Hpm Hq H1 H12 H2. unfold one_vertical_well.
  assert (E1 : Qltb d1 500 = false) by (destruct (Qltb d1 500) eqn:E; [apply Qltb_true in E; lra | reflexivity]).
  assert (E2 : Qltb d2 500 = false) by (destruct (Qltb d2 500) eqn:E; [apply Qltb_true in E; lra | reflexivity]).
  rewrite E1, E2, !orb_false_r. destruct simple.
  - assert (per_m * d1 / 1000000 <= per_m * d2 / 1000000).
    { unfold Qdiv. apply Qmult_le_compat_r; [nra | discriminate]. }
    nra.
  - pose proof (Hq d1 d2 H1 H12 H2). nra.
Qed.

(* ---------- NPV and levelized cost vs capital and O&M cost ---------- *)
Definition with_costs (c : cf_in) (ccap coam : Q) : cf_in :=
  {| ci_kind := ci_kind c; ci_cy := ci_cy c; ci_ccap := ccap; ci_coam := coam; ci_carbon := ci_carbon c;
     ci_gi := ci_gi c; ci_ni := ci_ni c; ci_eE := ci_eE c; ci_eH := ci_eH c; ci_eC := ci_eC c;
     ci_pE := ci_pE c; ci_pH := ci_pH c; ci_pC := ci_pC c; ci_pCarb := ci_pCarb c |}.

Lemma F2le_repeat x y n : x <= y -> Forall2 Qle (repeat x n) (repeat y n).
Proof. intros H. induction n; simpl; constructor; auto. Qed.

Lemma cashflow_antitone_in_costs c ccap ccap' coam coam' : (1 <= ci_cy c)%nat -> ccap <= ccap' -> coam <= coam' ->
  Forall2 Qle (total_cashflow (with_costs c ccap' coam')) (total_cashflow (with_costs c ccap coam)).
Proof.
  intros Hcy Hc Ho. unfold total_cashflow. apply F2le_app.
  - cbn [with_costs ci_cy]. apply F2le_repeat. unfold capex_year. cbn [with_costs ci_cy ci_ccap].
    assert (0 < natQ (ci_cy c)).
    { unfold natQ. change 0 with (inject_Z 0). rewrite <- Zlt_Qlt. lia. }
    assert (ccap / natQ (ci_cy c) <= ccap' / natQ (ci_cy c)).
    { unfold Qdiv. apply Qmult_le_compat_r; [assumption|]. apply Qlt_le_weak. now apply Qinv_lt_0_compat. }
    lra.
  - unfold total_ops. cbn [with_costs ci_kind ci_eE ci_eH ci_eC ci_pE ci_pH ci_pC ci_carbon ci_gi ci_ni ci_pCarb ci_coam].
    generalize (if ci_carbon c
                then map2 Qplus (product_rev_ops (ci_kind c) (ci_eE c) (ci_eH c) (ci_eC c) (ci_pE c) (ci_pH c) (ci_pC c))
                                (carbon_rev_ops (ci_kind c) (ci_gi c) (ci_ni c) (ci_eE c) (ci_eH c) (ci_pCarb c))
                else product_rev_ops (ci_kind c) (ci_eE c) (ci_eH c) (ci_eC c) (ci_pE c) (ci_pH c) (ci_pC c)).
    intros l. induction l; simpl; constructor; auto. lra.
Qed.

(* NPV does not increase when capital cost or O&M cost increase *)
Theorem npv_antitone_in_costs r c ccap ccap' coam coam' : 0 < 1 + r -> (1 <= ci_cy c)%nat -> ccap <= ccap' -> coam <= coam' ->
  npv r (total_cashflow (with_costs c ccap' coam')) <= npv r (total_cashflow (with_costs c ccap coam)).
Proof. intros Hr Hcy Hc Ho. apply npv_mono; [assumption|]. now apply cashflow_antitone_in_costs. Qed.

(* levelized cost: monotone in capital share, O&M share and the other annual cost streams *)
Lemma geo0_mono q : 0 <= q -> forall l l', Forall2 Qle l l' -> geo0 q l <= geo0 q l'.
Proof. intros Hq l l' H. induction H as [|x y l l' Hxy _ IH]; simpl; [lra | nra]. Qed.
Lemma geo1_mono q l l' : 0 <= q -> Forall2 Qle l l' -> geo1 q l <= geo1 q l'.
Proof. intros Hq H. unfold geo1. pose proof (geo0_mono q Hq l l' H). nra. Qed.

(* BICYCLE numerator is (1 + g) * (cap * K + present value of the annual costs) *)
Definition bic_cap_coeff (c : lc_in) : Q :=
  let i1 := 1 + l_inflc c in let A := geo1 (bic_qd c) (ones (l_life c)) in let G := geo1 (bic_qg c) (ones (l_life c)) in
  i1 * crf c * A + i1 * l_ptr c * G + l_ctr c / (1 - l_ctr c) * (i1 * crf c - / natQ (l_life c)) * A
  - i1 * l_ritc c / (1 - l_ctr c).
Lemma bic_num_linear c cap annual :
  bic_num_spec c cap annual == (1 + l_gtr c / (1 - l_gtr c)) * (cap * bic_cap_coeff c + geo1 (bic_qg c) annual).
Proof. unfold bic_num_spec, bic_combine, bic_it_coeff, bic_cap_coeff. cbv zeta. unfold Qdiv. ring. Qed.

(* conditions under which each model's levelized cost is monotone in its cost arguments *)
Definition lev_mono_conditions (c : lc_in) (avgE : Q) (energy : list Q) (unit : Q) : Prop :=
  0 <= unit /\
  (l_econ c = 1%Z -> 0 <= l_fcr c * (1 + l_inflc c) /\ 0 < avgE) /\
  (l_econ c = 2%Z -> 0 <= 1 + l_inflc c /\ 0 <= / (1 + l_disc c) /\ 0 < std_den_spec c energy) /\
  (l_econ c <> 1%Z -> l_econ c <> 2%Z ->
     0 <= 1 + l_gtr c / (1 - l_gtr c) /\ 0 <= bic_cap_coeff c /\ 0 <= bic_qg c /\ 0 < bic_den_spec c energy).

Theorem lev_mono c cap cap' om om' xs xs' a_std a_std' a_bic a_bic' avgE energy unit :
  lev_mono_conditions c avgE energy unit ->
  cap <= cap' -> om <= om' -> xs <= xs' -> Forall2 Qle a_std a_std' -> Forall2 Qle a_bic a_bic' ->
  lev spec_levelizers c cap om xs a_std a_bic avgE energy unit <= lev spec_levelizers c cap' om' xs' a_std' a_bic' avgE energy unit.
Proof.
  intros (Hu & H1 & H2 & H3) Hc Ho Hx Hs Hb. unfold lev.
  destruct (Z.eqb (l_econ c) 1) eqn:E1.
  - apply Z.eqb_eq in E1. destruct (H1 E1) as [Hf Hav]. unfold fcr_num.
    apply Qmult_le_compat_r; [|assumption]. unfold Qdiv. apply Qmult_le_compat_r; [nra|].
    apply Qlt_le_weak. now apply Qinv_lt_0_compat.
  - destruct (Z.eqb (l_econ c) 2) eqn:E2; cbn [L_std_num L_std_den L_bic_num L_bic_den spec_levelizers].
    + apply Z.eqb_eq in E2. destruct (H2 E2) as (Hi & Hq & Hden).
      apply Qmult_le_compat_r; [|assumption]. unfold Qdiv. apply Qmult_le_compat_r.
      * unfold std_num_spec. pose proof (geo0_mono _ Hq _ _ Hs). nra.
      * apply Qlt_le_weak. now apply Qinv_lt_0_compat.
    + apply Z.eqb_neq in E1. apply Z.eqb_neq in E2. destruct (H3 E1 E2) as (Hg & Hk & Hq & Hden).
      apply Qmult_le_compat_r; [|assumption]. unfold Qdiv. apply Qmult_le_compat_r.
      * rewrite !bic_num_linear. pose proof (geo1_mono _ _ _ Hq Hb).
        assert (cap * bic_cap_coeff c <= cap' * bic_cap_coeff c) by nra. nra.
      * apply Qlt_le_weak. now apply Qinv_lt_0_compat.
Qed.

(* capital cost is monotone in every component when the credit rate is at most 100 % *)
Lemma ccap_mono_in_pre k pre pre' : k_ritc k <= 1 -> pre <= pre' ->
  (pre - (if k_ritc_provided k then k_ritc k * pre else 0) + k_flat k - k_other k - k_grant k)
  <= (pre' - (if k_ritc_provided k then k_ritc k * pre' else 0) + k_flat k - k_other k - k_grant k).
Proof. intros Hr Hp. destruct (k_ritc_provided k); nra. Qed.

(* adjustment factors: each correlated component is its factor times a non-negative base *)
Lemma cstim_mono_adj k adj adj' : k_stim_valid k = false -> 0 <= k_ninj k -> adj <= adj' ->
  q105 * q115 * adj * k_ninj k * q125 <= q105 * q115 * adj' * k_ninj k * q125.
Proof. intros _ Hn Ha. unfold q105, q115, q125. nra. Qed.

(* the whole roll-up: capital cost and O&M are monotone in every reported component *)
Lemma ccap_mono_components k k' : k_total_valid k = false -> k_total_valid k' = false ->
  k_ritc_provided k' = k_ritc_provided k -> k_ritc k' == k_ritc k -> k_ritc k <= 1 ->
  k_flat k' == k_flat k -> k_other k' == k_other k -> k_grant k' == k_grant k ->
  components_sum k <= components_sum k' -> ccap k <= ccap k'.
Proof.
  intros Hv Hv' Hp Hr Hr1 Hf Ho Hg Hs. unfold ccap, ritc_value, ccap_pre. rewrite Hv, Hv', Hp.
  destruct (k_ritc_provided k); rewrite ?Hr, Hf, Ho, Hg; nra.
Qed.

(* correlated components are (adjustment factor) x (non-negative base) *)
Lemma adj_component_mono base adj adj' : 0 <= base -> adj <= adj' -> adj * base <= adj' * base.
Proof. intros. nra. Qed.

(* the magnitude heuristic of the reader (a gradient > 1 is read as degC/km) is not monotone across 1.0 *)
Lemma gradient_heuristic_not_monotone : exists g g' : Q, g <= g' /\ norm_gradient g' < norm_gradient g.
Proof. exists (9 # 10), (11 # 10). split; [unfold Qle; simpl; lia | vm_compute; reflexivity]. Qed.

Lemma table_row_mono (table : list (Z * bool * (Q * Q * Q))) : forallb mono_ok table = true ->
  forall row d1 d2, In row table -> 500 <= d1 -> d1 <= d2 -> d2 <= max_depth_m ->
  quad_cost (snd row) d1 <= quad_cost (snd row) d2.
Proof.
  intros Hall row d1 d2 Hin. apply mono_ok_row. exact (proj1 (forallb_forall mono_ok table) Hall row Hin).
Qed.

(* ... but it is monotone on each side of the heuristic: for inputs both above 1 (read as degC/km) or both at most 1
   (read as degC/m) a larger input gradient gives a larger (or equal) normalised gradient *)
Lemma Qltb_false a b : Qltb a b = false -> b <= a.
Proof. intros H. destruct (Qlt_le_dec a b) as [Hlt|Hge]; [apply Qltb_true in Hlt; congruence | assumption]. Qed.

Lemma norm_gradient_mono_same_side g g' : g <= g' -> (1 < g \/ g' <= 1) -> norm_gradient g <= norm_gradient g'.
Proof.
  intros Hle Hside. unfold norm_gradient, tiny_gradient. cbv zeta.
  destruct Hside as [H1 | H1].
  - assert (E1 : Qltb 1 g = true) by (apply Qltb_true; assumption).
    assert (E2 : Qltb 1 g' = true) by (apply Qltb_true; lra).
    rewrite E1, E2.
    assert (Hd : g / 1000 <= g' / 1000) by (unfold Qdiv; apply Qmult_le_compat_r; [assumption | discriminate]).
    destruct (Qltb (g / 1000) (1 # 1000000)) eqn:A; destruct (Qltb (g' / 1000) (1 # 1000000)) eqn:B;
      try (apply Qltb_true in A); try (apply Qltb_true in B); try (apply Qltb_false in A); try (apply Qltb_false in B); lra.
  - assert (E1 : Qltb 1 g = false) by (destruct (Qltb 1 g) eqn:A; [apply Qltb_true in A; lra | reflexivity]).
    assert (E2 : Qltb 1 g' = false) by (destruct (Qltb 1 g') eqn:A; [apply Qltb_true in A; lra | reflexivity]).
    rewrite E1, E2.
    destruct (Qltb g (1 # 1000000)) eqn:A; destruct (Qltb g' (1 # 1000000)) eqn:B;
      try (apply Qltb_true in A); try (apply Qltb_true in B); try (apply Qltb_false in A); try (apply Qltb_false in B); lra.
Qed.
