(* Proofs/ProcessProofs.v - lemmas about Model/Process.v (C08): every statement is for ALL histories
   (lists of operations of any length), all starting states, any simulation oracle [run], any [hash]. *)
From Coq Require Import List ZArith Bool Arith Lia.
From Verif Require Import Model.Process.
Import ListNotations.

(* ---------- decidable equalities used by the reflective checkers ---------- *)
Lemma dir_eqb_eq a b : dir_eqb a b = true -> a = b.
Proof. destruct a, b; simpl; try discriminate; auto; intros H; apply Nat.eqb_eq in H; now subst. Qed.

Lemma arg_eqb_eq a b : arg_eqb a b = true -> a = b.
Proof.
  destruct a, b; simpl; try discriminate; auto; intros H.
  - apply Nat.eqb_eq in H. now subst.
  - apply Z.eqb_eq in H. now subst.
  - apply Nat.eqb_eq in H. now subst.
Qed.

Lemma list_eqb_eq {A} (e : A -> A -> bool) :
  (forall x y, e x y = true -> x = y) -> forall a b, list_eqb e a b = true -> a = b.
Proof.
  intros He a. induction a as [|x a IH]; destruct b as [|y b]; simpl; try discriminate; auto.
  intros H. apply andb_true_iff in H as [H1 H2]. f_equal; auto.
Qed.

Section ProcessProofs.
  Variables C R : Type.
  Variable run : C -> option R.
  Variable hash : nat -> Z.
  Variable resolve : dir -> nat -> nat.
  Variable opendir : dir -> dir -> dir.
  Variable runh : nat -> C -> option R.
  Variable K : Type.
  Variable keq : K -> K -> bool.
  Variable keyof : nat -> option C -> K.

  Notation state := (state C R K).
  Notation event := (event C R K).
  Notation client_get := (client_get C R run hash resolve opendir K keq keyof).
  Notation cli_run := (cli_run C R run hash resolve K).
  Notation hip_get := (hip_get C R resolve opendir runh K).
  Notation step := (step C R run hash resolve opendir runh K keq keyof).
  Notation trace := (trace C R run hash resolve opendir runh K keq keyof).
  Notation srcdir st := (opendir DSrc (cwd st)).
  Notation expected := (expected C R run).
  Notation expected_with := (expected_with C R).
  Notation key p st := (keyof p (fs_lookup (resolve (cwd st) p) (files st))).

  (* every way a client call can go; the file that is RUN is the one the path names in the source directory *)
  Lemma client_get_cases fixed st ci p :
    (nth_error (clients st) ci = None /\ client_get fixed st ci p = (st, NoSuchClient))
    \/ (exists cl r, nth_error (clients st) ci = Some cl /\ caching cl = true
                     /\ cache_lookup keq (key p st) (cache cl) = Some r /\ client_get fixed st ci p = (st, Returned r true))
    \/ (exists cl, nth_error (clients st) ci = Some cl
                   /\ (caching cl = true -> cache_lookup keq (key p st) (cache cl) = None)
                   /\ ((expected (files st) (resolve (srcdir st) p) = None
                        /\ client_get fixed st ci p =
                           (if fixed then st else mkState DSrc [AEmpty; AIn p; AOut (hash p)] (files st) (clients st), Raised))
                       \/ (exists r, expected (files st) (resolve (srcdir st) p) = Some r
                            /\ client_get fixed st ci p =
                               (mkState (cwd st) (argv st) (files st)
                                  (replace_nth ci (if caching cl then mkClient true ((key p st, r) :: cache cl) else cl)
                                     (clients st)),
                                Returned r false)))).
  Proof.
    unfold client_get. destruct (nth_error (clients st) ci) as [cl|] eqn:Hn.
    2:{ left. auto. }
    right. destruct (caching cl) eqn:Hc.
    - destruct (cache_lookup keq (key p st) (cache cl)) as [r|] eqn:Hl.
      + left. exists cl, r. auto.
      + right. exists cl. split; [reflexivity|]. split; [auto|].
        unfold Process.main_run, Process.prog_run. simpl. fold (expected (files st) (resolve (srcdir st) p)).
        destruct (expected (files st) (resolve (srcdir st) p)) as [r|] eqn:He.
        * right. exists r. split; [reflexivity|]. destruct st; simpl in *; rewrite ?Hc; reflexivity.
        * left. split; [reflexivity|]. destruct fixed; destruct st; reflexivity.
    - right. exists cl. split; [reflexivity|]. split; [intros X; congruence|].
      unfold Process.main_run, Process.prog_run. simpl. fold (expected (files st) (resolve (srcdir st) p)).
      destruct (expected (files st) (resolve (srcdir st) p)) as [r|] eqn:He.
      + right. exists r. split; [reflexivity|]. destruct st; simpl in *; rewrite ?Hc; reflexivity.
      + left. split; [reflexivity|]. destruct fixed; destruct st; reflexivity.
  Qed.

  Lemma cli_run_spec st p :
    cli_run st p =
      (mkState (cwd st) [AUser 0; AIn p; AOut (hash p)] (files st) (clients st),
       match expected (files st) (resolve (cwd st) p) with Some r => Returned r false | None => Raised end).
  Proof. unfold Process.cli_run. destruct st; reflexivity. Qed.

  (* a HIP-RA request leaves the whole state as it was, whether it returns or raises *)
  Lemma hip_get_spec st k p :
    hip_get st k p =
      (st, match expected_with (runh k) (files st) (resolve (opendir (DPkg k) (cwd st)) p) with Some r => Returned r false | None => Raised end).
  Proof. unfold Process.hip_get, Process.prog_run. simpl. destruct st; reflexivity. Qed.

  (* ---------- RESTORE ---------- *)
  Definition restored (e : event) : Prop :=
    cwd (after e) = cwd (before e) /\ argv (after e) = argv (before e).

  Lemma client_get_restore st ci p :
    cwd (fst (client_get true st ci p)) = cwd st /\ argv (fst (client_get true st ci p)) = argv st.
  Proof.
    destruct (client_get_cases true st ci p) as [[_ E]|[(cl & r & _ & _ & _ & E)|(cl & _ & _ & [[_ E]|(r & _ & E)])]];
      rewrite E; simpl; auto.
  Qed.

  (* the pinned client restores exactly when it does not raise *)
  Lemma client_get_pinned_restore st ci p :
    snd (client_get false st ci p) <> Raised ->
    cwd (fst (client_get false st ci p)) = cwd st /\ argv (fst (client_get false st ci p)) = argv st.
  Proof.
    destruct (client_get_cases false st ci p) as [[_ E]|[(cl & r & _ & _ & _ & E)|(cl & _ & _ & [[_ E]|(r & _ & E)])]];
      rewrite E; simpl; auto. intros H. now elim H.
  Qed.

  Lemma trace_cons fixed st o ops :
    trace fixed st (o :: ops) =
      mkEvent st o (fst (step fixed st o)) (snd (step fixed st o)) :: trace fixed (fst (step fixed st o)) ops.
  Proof. simpl. destruct (step fixed st o); reflexivity. Qed.

  Definition is_client_run (o : op C) : bool := match o with Get _ _ | HipGet _ _ => true | _ => false end.

  (* every request through a GEOPHIRES or a HIP-RA client, hit, success or failure *)
  Theorem trace_restore : forall ops st,
    Forall (fun e => is_client_run (eop e) = true -> restored e) (trace true st ops).
  Proof.
    induction ops as [|o ops IH]; intros st; [constructor|].
    rewrite trace_cons. constructor; [|apply IH].
    unfold restored. destruct o as [ci p|p c|p|d|a|b|p|k p]; cbn [eop after before is_client_run]; try discriminate; intros _.
    - change (step true st (Get ci p)) with (client_get true st ci p). apply client_get_restore.
    - change (step true st (HipGet k p)) with (hip_get st k p). rewrite hip_get_spec. simpl. auto.
  Qed.

  Theorem trace_restore_pinned_partial : forall ops st,
    Forall (fun e => is_get (eop e) = true -> eout e <> Raised -> restored e) (trace false st ops).
  Proof.
    induction ops as [|o ops IH]; intros st; [constructor|].
    rewrite trace_cons. constructor; [|apply IH].
    unfold restored; simpl. destruct o; simpl; try discriminate. intros _. apply client_get_pinned_restore.
  Qed.

  (* the HIP-RA clients (restore in a `finally` in the pinned tree already): nothing at all changes *)
  Theorem trace_hip_frame : forall fixed ops st,
    Forall (fun e => forall k p, eop e = HipGet k p -> after e = before e) (trace fixed st ops).
  Proof.
    induction ops as [|o ops IH]; intros st; [constructor|].
    rewrite trace_cons. constructor; [|apply IH].
    simpl. intros k p E. subst o. change (step fixed st (HipGet k p)) with (hip_get st k p).
    rewrite hip_get_spec. reflexivity.
  Qed.

  (* the command line entry point gives the working directory back on both paths, and does not touch argv *)
  Theorem trace_cli_restore : forall fixed ops st,
    Forall (fun e => forall p, eop e = Cli p ->
                     cwd (after e) = cwd (before e) /\ argv (after e) = [AUser 0; AIn p; AOut (hash p)])
           (trace fixed st ops).
  Proof.
    induction ops as [|o ops IH]; intros st; [constructor|].
    rewrite trace_cons. constructor; [|apply IH].
    simpl. intros p E. subst o. change (step fixed st (Cli p)) with (cli_run st p). rewrite cli_run_spec. simpl. auto.
  Qed.

  (* consequence for whole histories: if nobody but runs touches cwd/argv they are the same at the end *)
  Definition only_runs_and_files (o : op C) : bool :=
    match o with Get _ _ | HipGet _ _ | Write _ _ | Delete _ | NewClient _ => true | _ => false end.

  Theorem final_restore : forall ops st,
    forallb only_runs_and_files ops = true ->
    cwd (final C R run hash resolve opendir runh K keq keyof true st ops) = cwd st
    /\ argv (final C R run hash resolve opendir runh K keq keyof true st ops) = argv st.
  Proof.
    unfold final. induction ops as [|o ops IH]; intros st H; simpl; [auto|].
    simpl in H. apply andb_true_iff in H as [Ho H].
    destruct (IH (fst (step true st o)) H) as [E1 E2]. rewrite E1, E2.
    destruct o as [ci p|p c|p|d|a|b|p|k p]; simpl in Ho; try discriminate;
      [|simpl; auto|simpl; auto|simpl; auto|].
    - change (step true st (Get ci p)) with (client_get true st ci p). apply client_get_restore.
    - change (step true st (HipGet k p)) with (hip_get st k p). rewrite hip_get_spec. simpl. auto.
  Qed.

  (* ---------- Monte-Carlo work packages ---------- *)
  Notation final := (final C R run hash resolve opendir runh K keq keyof).
  Definition outs (fixed : bool) (st : state) (ops : list (op C)) : list (outcome R) := map (@eout C R K) (trace fixed st ops).

  Lemma final_cons fixed st o ops : final fixed st (o :: ops) = final fixed (fst (step fixed st o)) ops.
  Proof. reflexivity. Qed.

  Lemma final_app fixed : forall a st b, final fixed st (a ++ b) = final fixed (final fixed st a) b.
  Proof. unfold Process.final. intros a st b. apply fold_left_app. Qed.

  Lemma outs_cons fixed st o ops : outs fixed st (o :: ops) = snd (step fixed st o) :: outs fixed (fst (step fixed st o)) ops.
  Proof. unfold outs. rewrite trace_cons. reflexivity. Qed.

  Lemma outs_app fixed : forall a st b, outs fixed st (a ++ b) = outs fixed st a ++ outs fixed (final fixed st a) b.
  Proof.
    induction a as [|o a IH]; intros st b; [reflexivity|].
    rewrite <- app_comm_cons, !outs_cons, final_cons, IH. reflexivity.
  Qed.

  Lemma replace_nth_last {A} (l : list A) x y : replace_nth (length l) x (l ++ [y]) = l ++ [x].
  Proof. induction l as [|h t IH]; simpl; [reflexivity|]. now rewrite IH. Qed.

  Lemma nth_error_last {A} (l : list A) y : nth_error (l ++ [y]) (length l) = Some y.
  Proof. induction l as [|h t IH]; simpl; auto. Qed.

  Definition mc_outcome (c : C) : outcome R := match run c with Some r => Returned r false | None => Raised end.

  (* one iteration: the embedded client is new, so the request always RUNS the iteration's own content *)
  Lemma mc_iter_spec st p c :
    (forall d, resolve d p = p) ->
    outs true st (mc_iter (length (clients st)) p c) = [Done; Done; mc_outcome c; Done]
    /\ exists cl, final true st (mc_iter (length (clients st)) p c)
                  = mkState (cwd st) (argv st) ((p, None) :: (p, Some c) :: files st) (clients st ++ [cl]).
  Proof.
    intros Ha. unfold mc_iter, mc_outcome.
    rewrite !outs_cons. rewrite !final_cons. cbn [step Process.step fst snd].
    set (st1 := Process.set_files C R K st ((p, Some c) :: files st)).
    set (st2 := Process.set_clients C R K st1 (clients st1 ++ [mkClient true []])).
    assert (Hn : nth_error (clients st2) (length (clients st)) = Some (mkClient true [])).
    { subst st2 st1. simpl. apply nth_error_last. }
    assert (He : expected (files st2) (resolve (srcdir st2) p) = run c).
    { subst st2 st1. rewrite Ha. unfold Process.expected, Process.expected_with. simpl. now rewrite Nat.eqb_refl. }
    destruct (client_get_cases true st2 (length (clients st)) p)
      as [[Hx _]|[(cl & r & Hx & _ & Hl & _)|(cl & Hx & _ & [[Hr E]|(r & Hr & E)])]].
    - rewrite Hn in Hx. discriminate.
    - rewrite Hn in Hx. inversion Hx; subst cl. simpl in Hl. discriminate.
    - rewrite E. rewrite He in Hr. rewrite Hr. split; [reflexivity|].
      exists (mkClient true []). subst st2 st1. destruct st; reflexivity.
    - rewrite E. rewrite He in Hr. rewrite Hr. split; [reflexivity|].
      rewrite Hn in Hx. inversion Hx; subst cl.
      exists (mkClient true [(keyof p (fs_lookup (resolve (cwd st) p) ((p, Some c) :: files st)), r)]).
      subst st2 st1. destruct st as [d a f cs]. simpl. unfold Process.set_files. simpl.
      rewrite replace_nth_last. reflexivity.
  Qed.

  (* a whole work package, from any state (other clients with anything in their caches, any files): cwd and argv
     are unchanged at the end, every embedded request gives the run of the iteration content (or fails when that
     content does not run), the clients that existed before are untouched *)
  Theorem mc_package_spec : forall ps st c,
    (forall p, In p ps -> forall d, resolve d p = p) ->
    let st' := final true st (mc_package (length (clients st)) ps c) in
    cwd st' = cwd st /\ argv st' = argv st
    /\ firstn (length (clients st)) (clients st') = clients st
    /\ filter (fun o => match o with Done => false | _ => true end)
              (outs true st (mc_package (length (clients st)) ps c)) = repeat (mc_outcome c) (length ps).
  Proof.
    induction ps as [|p ps IH]; intros st c Ha.
    - simpl. repeat split; auto. apply firstn_all.
    - cbn [mc_package length repeat]. cbv zeta.
      destruct (mc_iter_spec st p c (Ha p (or_introl eq_refl))) as [Ho [cl Hf]].
      rewrite final_app, outs_app, Hf, Ho.
      set (st1 := mkState (cwd st) (argv st) ((p, None) :: (p, Some c) :: files st) (clients st ++ [cl])).
      assert (Hl : S (length (clients st)) = length (clients st1)).
      { subst st1. simpl. rewrite app_length. simpl. lia. }
      rewrite Hl. destruct (IH st1 c (fun q Hq => Ha q (or_intror Hq))) as (E1 & E2 & E3 & E4).
      rewrite E1, E2. repeat split; auto.
      + apply (f_equal (firstn (length (clients st)))) in E3. rewrite firstn_firstn in E3.
        rewrite Nat.min_l in E3 by lia. rewrite E3. subst st1. simpl.
        rewrite firstn_app, firstn_all, Nat.sub_diag. simpl. apply app_nil_r.
      + rewrite filter_app, E4. unfold mc_outcome. simpl. destruct (run c); reflexivity.
  Qed.

  (* ---------- FRAME: a request changes nothing but the cache of the client it went through ---------- *)
  Lemma replace_nth_length {A} n (x : A) l : length (replace_nth n x l) = length l.
  Proof. revert n. induction l as [|h t IH]; intros [|n]; simpl; auto. Qed.

  Lemma replace_nth_other {A} n (x : A) l j : j <> n -> nth_error (replace_nth n x l) j = nth_error l j.
  Proof.
    revert n j. induction l as [|h t IH]; intros [|n] [|j] H; simpl; auto; try congruence.
  Qed.

  Lemma replace_nth_In {A} n (x y : A) l : In y (replace_nth n x l) -> y = x \/ In y l.
  Proof.
    revert n. induction l as [|h t IH]; intros [|n]; simpl; auto.
    - intros [E|H]; auto.
    - intros [E|H]; auto. destruct (IH _ H); auto.
  Qed.

  Theorem get_frame st ci p :
    let st' := fst (client_get true st ci p) in
    cwd st' = cwd st /\ argv st' = argv st /\ files st' = files st
    /\ length (clients st') = length (clients st)
    /\ forall j, j <> ci -> nth_error (clients st') j = nth_error (clients st) j.
  Proof.
    simpl.
    destruct (client_get_cases true st ci p) as [[_ E]|[(cl & r & _ & _ & _ & E)|(cl & _ & _ & [[_ E]|(r & _ & E)])]];
      rewrite E; simpl; repeat split; auto.
    - apply replace_nth_length.
    - intros j Hj. now apply replace_nth_other.
  Qed.

  (* ---------- REFINEMENT: a returned result is the run of the content that the file the request names AS THE
     CALLER SEES IT (resolved against the caller's working directory at request time) has at request time ------ *)
  Definition request (o : op C) : option ((C -> option R) * nat) :=
    match o with
    | Get _ p | Cli p => Some (run, p)
    | HipGet k p => Some (runh k, p)
    | _ => None
    end.
  Definition wpath (o : op C) : option nat :=
    match o with Write p _ | Delete p => Some p | _ => None end.

  Definition refines_event (e : event) : Prop :=
    forall orc p r h, request (eop e) = Some (orc, p) -> eout e = Returned r h ->
    expected_with orc (files (before e)) (resolve (cwd (before e)) p) = Some r.

  (* the request path names the same file for the caller and for the program (which chdirs to its own directory
     before opening it): true of every absolute path *)
  Definition resolves_same (e : event) : Prop :=
    (forall ci p, eop e = Get ci p -> resolve (cwd (before e)) p = resolve (opendir DSrc (cwd (before e))) p)
    /\ (forall k p, eop e = HipGet k p -> resolve (cwd (before e)) p = resolve (opendir (DPkg k) (cwd (before e))) p).

  Lemma cli_refines st p :
    refines_event (mkEvent st (Cli p) (fst (cli_run st p)) (snd (cli_run st p))).
  Proof.
    rewrite cli_run_spec. intros orc q r h Hq H. simpl in Hq, H |- *. inversion Hq; subst orc q.
    fold (expected (files st) (resolve (cwd st) p)).
    destruct (expected (files st) (resolve (cwd st) p)) as [r0|] eqn:He; inversion H; subst; reflexivity.
  Qed.

  Lemma hip_refines st k p :
    resolve (cwd st) p = resolve (opendir (DPkg k) (cwd st)) p ->
    refines_event (mkEvent st (HipGet k p) (fst (hip_get st k p)) (snd (hip_get st k p))).
  Proof.
    intros Hrs. rewrite hip_get_spec. intros orc q r h Hq H. simpl in Hq, H |- *. inversion Hq; subst orc q.
    rewrite Hrs.
    destruct (expected_with (runh k) (files st) (resolve (opendir (DPkg k) (cwd st)) p)) as [r0|] eqn:He; inversion H; subst; reflexivity.
  Qed.

  (* with caching off there is nothing to go stale: no hypothesis on writes, none on the key *)
  Definition nocache (st : state) : Prop := forall cl, In cl (clients st) -> caching cl = false.

  Lemma step_refines_nocache fixed st o :
    nocache st -> (forall b, o = NewClient b -> b = false) ->
    resolves_same (mkEvent st o (fst (step fixed st o)) (snd (step fixed st o))) ->
    refines_event (mkEvent st o (fst (step fixed st o)) (snd (step fixed st o)))
    /\ nocache (fst (step fixed st o)).
  Proof.
    intros Hnc Hb [Hrg Hrh]. simpl in Hrg, Hrh. destruct o as [ci p|p c|p|d|a|b|p|k p];
      [simpl|simpl|simpl|simpl|simpl|simpl|change (step fixed st (Cli p)) with (cli_run st p)
       |change (step fixed st (HipGet k p)) with (hip_get st k p)];
      try (split; [intros orc q r h H; discriminate|exact Hnc]).
    - specialize (Hrg ci p eq_refl).
      destruct (client_get_cases fixed st ci p)
        as [[_ E]|[(cl & r & Hn & Hc & Hl & E)|(cl & Hn & Hmiss & [[He E]|(r & He & E)])]]; rewrite E; simpl.
      + split; [|exact Hnc]. intros orc q r h _ H. discriminate.
      + rewrite (Hnc cl (nth_error_In _ _ Hn)) in Hc. discriminate.
      + split; [intros orc q r h _ H; discriminate|]. destruct fixed; exact Hnc.
      + split.
        * intros orc q r' h Hq H. simpl in Hq, H |- *. inversion Hq; subst orc q. inversion H; subst r'.
          rewrite Hrg. exact He.
        * intros cl0 Hin0. simpl in Hin0. apply replace_nth_In in Hin0 as [E0|Hin0]; [|auto].
          rewrite (Hnc cl (nth_error_In _ _ Hn)) in E0. subst cl0. apply (Hnc cl (nth_error_In _ _ Hn)).
    - split; [intros orc q r h H; discriminate|].
      intros cl Hcl. simpl in Hcl. apply in_app_or in Hcl as [Hcl|[E|[]]]; [auto|]. subst cl. simpl. now apply Hb.
    - split; [apply cli_refines|]. rewrite cli_run_spec. exact Hnc.
    - split; [apply hip_refines; now apply Hrh|]. rewrite hip_get_spec. exact Hnc.
  Qed.

  Theorem trace_refines_nocache fixed : forall ops st,
    nocache st -> (forall b, In (NewClient b) ops -> b = false) ->
    Forall resolves_same (trace fixed st ops) ->
    Forall refines_event (trace fixed st ops).
  Proof.
    induction ops as [|o ops IH]; intros st Hnc Hb Hrs; [constructor|].
    rewrite trace_cons in *. inversion Hrs as [|e l Hr1 Hr2]; subst.
    destruct (step_refines_nocache fixed st o Hnc) as [H1 H2]; auto.
    - intros b ->. apply Hb. now left.
    - constructor; [exact H1|]. apply IH; auto. intros b H. apply Hb. now right.
  Qed.

  (* ---------- a cache whose key determines the run is sound, for every history, files rewritten at will ---------- *)
  Definition run_opt (c : option C) : option R := match c with Some x => run x | None => None end.

  Definition key_sound : Prop :=
    forall p c p' c', keq (keyof p c) (keyof p' c') = true -> run_opt c = run_opt c'.

  (* invariant: every cached entry is the run of the content its key was made from *)
  Definition entries_ok (st : state) : Prop :=
    forall cl, In cl (clients st) -> caching cl = true ->
    forall k r, In (k, r) (cache cl) -> exists p c, k = keyof p c /\ run_opt c = Some r.

  Lemma cache_lookup_some k (l : list (K * R)) r :
    cache_lookup keq k l = Some r -> exists k', In (k', r) l /\ keq k k' = true.
  Proof.
    induction l as [|[k' r'] t IH]; simpl; [discriminate|].
    destruct (keq k k') eqn:E.
    - intros H. inversion H; subst. exists k'. auto.
    - intros H. destruct (IH H) as (k2 & Hi & Hk). exists k2. auto.
  Qed.

  Lemma entries_ok_same st st' : clients st' = clients st -> entries_ok st -> entries_ok st'.
  Proof. unfold entries_ok. intros E H. rewrite E. exact H. Qed.

  Lemma step_refines_sound_key fixed st o :
    key_sound -> entries_ok st ->
    resolves_same (mkEvent st o (fst (step fixed st o)) (snd (step fixed st o))) ->
    refines_event (mkEvent st o (fst (step fixed st o)) (snd (step fixed st o)))
    /\ entries_ok (fst (step fixed st o)).
  Proof.
    intros Hks Hok [Hrg Hrh]. simpl in Hrg, Hrh. destruct o as [ci p|p c|p|d|a|b|p|k p];
      [simpl|simpl|simpl|simpl|simpl|simpl|change (step fixed st (Cli p)) with (cli_run st p)
       |change (step fixed st (HipGet k p)) with (hip_get st k p)];
      try (split; [intros orc q r h H; discriminate|eapply entries_ok_same; [|exact Hok]; reflexivity]).
    - specialize (Hrg ci p eq_refl).
      destruct (client_get_cases fixed st ci p)
        as [[_ E]|[(cl & r & Hn & Hc & Hl & E)|(cl & Hn & Hmiss & [[He E]|(r & He & E)])]]; rewrite E; simpl.
      + split; [|exact Hok]. intros orc q r h _ H. discriminate.
      + split; [|exact Hok]. intros orc q r' h Hq H. simpl in Hq, H |- *. inversion Hq; subst orc q. inversion H; subst r'.
        destruct (cache_lookup_some _ _ _ Hl) as (k' & Hi & Hk).
        destruct (Hok cl (nth_error_In _ _ Hn) Hc k' r Hi) as (p' & c' & -> & Hr).
        change (run_opt (fs_lookup (resolve (cwd st) p) (files st)) = Some r).
        rewrite (Hks _ _ _ _ Hk). exact Hr.
      + split; [intros orc q r h _ H; discriminate|].
        destruct fixed; [exact Hok|]. eapply entries_ok_same; [|exact Hok]; reflexivity.
      + split.
        * intros orc q r' h Hq H. simpl in Hq, H |- *. inversion Hq; subst orc q. inversion H; subst r'.
          rewrite Hrg. exact He.
        * intros cl0 Hin0 Hc0 k r0 Hi0. simpl in Hin0.
          apply replace_nth_In in Hin0 as [E0|Hin0]; [|exact (Hok cl0 Hin0 Hc0 k r0 Hi0)].
          destruct (caching cl) eqn:Hc.
          -- subst cl0. simpl in Hi0. destruct Hi0 as [Hi0|Hi0].
             ++ inversion Hi0; subst. exists p, (fs_lookup (resolve (cwd st) p) (files st)). split; [reflexivity|].
                rewrite Hrg. exact He.
             ++ exact (Hok cl (nth_error_In _ _ Hn) Hc k r0 Hi0).
          -- subst cl0. congruence.
    - split; [intros orc q r h H; discriminate|].
      intros cl Hcl Hc k r Hi. simpl in Hcl. apply in_app_or in Hcl as [Hcl|[E|[]]].
      + exact (Hok cl Hcl Hc k r Hi).
      + subst cl. destruct Hi.
    - split; [apply cli_refines|]. rewrite cli_run_spec. eapply entries_ok_same; [|exact Hok]; reflexivity.
    - split; [apply hip_refines; now apply Hrh|]. rewrite hip_get_spec. exact Hok.
  Qed.

  Theorem trace_refines_sound_key fixed : key_sound -> forall ops st,
    entries_ok st -> Forall resolves_same (trace fixed st ops) -> Forall refines_event (trace fixed st ops).
  Proof.
    intros Hks. induction ops as [|o ops IH]; intros st Hok Hrs; [constructor|].
    rewrite trace_cons in *. inversion Hrs as [|e l Hr1 Hr2]; subst.
    destruct (step_refines_sound_key fixed st o Hks Hok Hr1) as [H1 H2].
    constructor; [exact H1|]. now apply IH.
  Qed.

  Lemma init_entries_ok d a f : entries_ok (init d a f).
  Proof. intros cl []. Qed.

  Theorem trace_refines_sound_key_init fixed : key_sound -> forall ops d a f,
    Forall resolves_same (trace fixed (init d a f) ops) -> Forall refines_event (trace fixed (init d a f) ops).
  Proof. intros Hks ops d a f. apply trace_refines_sound_key; [exact Hks|apply init_entries_ok]. Qed.

  (* opening the request path against the caller's directory => the same, whatever the paths *)
  Lemma caller_dir_resolves_same fixed : (forall pkg d, opendir pkg d = d) -> forall ops st,
    Forall resolves_same (trace fixed st ops).
  Proof.
    intros Ho. induction ops as [|o ops IH]; intros st; [constructor|].
    rewrite trace_cons. constructor; [|apply IH].
    split; intros; rewrite Ho; reflexivity.
  Qed.

  (* hence, for clients that open the request path in the caller's directory, no path hypothesis is needed *)
  Theorem trace_refines_nocache_caller fixed : (forall pkg d, opendir pkg d = d) -> forall ops st,
    nocache st -> (forall b, In (NewClient b) ops -> b = false) -> Forall refines_event (trace fixed st ops).
  Proof. intros Ho ops st Hn Hb. apply trace_refines_nocache; auto. now apply caller_dir_resolves_same. Qed.

  Theorem trace_refines_sound_key_caller fixed : (forall pkg d, opendir pkg d = d) -> key_sound -> forall ops d a f,
    Forall refines_event (trace fixed (init d a f) ops).
  Proof. intros Ho Hk ops d a f. apply trace_refines_sound_key_init; auto. now apply caller_dir_resolves_same. Qed.

  (* every path absolute => every event resolves the same for caller and program *)
  Lemma absolute_resolves_same fixed : (forall d p, resolve d p = p) -> forall ops st,
    Forall resolves_same (trace fixed st ops).
  Proof.
    intros Ha. induction ops as [|o ops IH]; intros st; [constructor|].
    rewrite trace_cons. constructor; [|apply IH].
    split; intros; rewrite !Ha; reflexivity.
  Qed.
End ProcessProofs.

(* the repaired cache key (path hash AND content) is sound whenever content equality is *)
Lemma content_key_sound C R (run : C -> option R) hash (ceq : C -> C -> bool) :
  (forall a b, ceq a b = true -> a = b) ->
  key_sound C R run (Z * option C) (content_keq ceq) (content_key hash).
Proof.
  intros Hc p c p' c' H. unfold content_keq, content_key in H. simpl in H.
  apply andb_true_iff in H as [_ H]. destruct c as [x|], c' as [y|]; try discriminate; auto.
  now rewrite (Hc x y H).
Qed.

Theorem trace_refines_content_key C R (run : C -> option R) hash resolve opendir runh (ceq : C -> C -> bool) fixed :
  (forall a b, ceq a b = true -> a = b) -> forall ops d a f,
  Forall (resolves_same C R resolve opendir (Z * option C))
         (trace C R run hash resolve opendir runh (Z * option C) (content_keq ceq) (content_key hash) fixed (init d a f) ops) ->
  Forall (refines_event C R run resolve runh (Z * option C))
         (trace C R run hash resolve opendir runh (Z * option C) (content_keq ceq) (content_key hash) fixed (init d a f) ops).
Proof.
  intros Hc ops d a f. apply trace_refines_sound_key; [now apply content_key_sound|apply init_entries_ok].
Qed.

(* the current clients: request path opened in the caller's directory *)
Definition trace_refines_nocache_current C R run hash resolve runh K keq keyof fixed :=
  trace_refines_nocache_caller C R run hash resolve caller_opendir runh K keq keyof fixed (fun _ _ => eq_refl).
Definition trace_refines_sound_key_current C R run hash resolve runh K keq keyof fixed :=
  trace_refines_sound_key_caller C R run hash resolve caller_opendir runh K keq keyof fixed (fun _ _ => eq_refl).

Theorem trace_refines_content_key_caller C R (run : C -> option R) hash resolve runh (ceq : C -> C -> bool) fixed :
  (forall a b, ceq a b = true -> a = b) -> forall ops d a f,
  Forall (refines_event C R run resolve runh (Z * option C))
         (trace C R run hash resolve caller_opendir runh (Z * option C) (content_keq ceq) (content_key hash) fixed (init d a f) ops).
Proof.
  intros Hc ops d a f. apply trace_refines_content_key; auto. apply caller_dir_resolves_same. reflexivity.
Qed.

(* ---------- the path-keyed cache of the code under test (request paths opened in the caller's directory) ---------- *)
Section PathKeyed.
  Variables C R : Type.
  Variable run : C -> option R.
  Variable hash : nat -> Z.
  Variable resolve : dir -> nat -> nat.
  Variable runh : nat -> C -> option R.

  Notation state := (state C R Z).
  Notation event := (event C R Z).
  Notation step := (step C R run hash resolve caller_opendir runh Z Z.eqb (path_key hash)).
  Notation trace := (trace C R run hash resolve caller_opendir runh Z Z.eqb (path_key hash)).
  Notation expected := (expected C R run).
  Notation refines_event := (refines_event C R run resolve runh Z).
  Notation resolves_same := (resolves_same C R resolve caller_opendir Z).
  Notation cli_run := (cli_run C R run hash resolve Z).
  Notation hip_get := (hip_get C R resolve caller_opendir runh Z).

  (* no file is written or deleted while a caching client holds a result under the key of a path that names it *)
  Definition write_safe (e : event) : Prop :=
    forall f, wpath C (eop e) = Some f -> forall p, resolve DSrc p = f ->
    forall cl, In cl (clients (before e)) -> caching cl = true -> cache_lookup Z.eqb (hash p) (cache cl) = None.

  (* invariant: every cached entry is the run of the current content of a file with that key *)
  Definition fresh (ps : list nat) (st : state) : Prop :=
    forall cl, In cl (clients st) -> caching cl = true ->
    forall k r, cache_lookup Z.eqb k (cache cl) = Some r ->
    exists p, In p ps /\ hash p = k /\ expected (files st) (resolve DSrc p) = Some r.

  Definition inj_on (ps : list nat) : Prop :=
    forall p q, In p ps -> In q ps -> hash p = hash q -> p = q.

  Lemma fresh_same ps st st' :
    files st' = files st -> clients st' = clients st -> fresh ps st -> fresh ps st'.
  Proof. unfold fresh. intros E1 E2 H. rewrite E1, E2. exact H. Qed.

  Lemma expected_write f p c q : q <> p -> expected ((p, c) :: f) q = expected f q.
  Proof.
    intros H. unfold Process.expected, Process.expected_with. simpl.
    destruct (Nat.eqb_spec q p); [contradiction|reflexivity].
  Qed.

  (* the requested paths name the same file from every directory (true of absolute paths): the cache key is the
     path AS GIVEN, so a relative name cached in one directory would be served in another *)
  Definition cwd_independent (ps : list nat) : Prop := forall p, In p ps -> forall d, resolve d p = resolve DSrc p.

  Lemma step_refines ps fixed st o :
    inj_on ps -> cwd_independent ps -> fresh ps st -> (forall ci p, o = Get ci p -> In p ps) ->
    write_safe (mkEvent st o (fst (step fixed st o)) (snd (step fixed st o))) ->
    refines_event (mkEvent st o (fst (step fixed st o)) (snd (step fixed st o)))
    /\ fresh ps (fst (step fixed st o)).
  Proof.
    intros Hinj Hci Hfr Hin Hws.
    assert (Hrg : forall ci p, o = Get ci p -> resolve (cwd st) p = resolve DSrc p) by (intros ci p E; apply Hci; eapply Hin; eauto).
    assert (Hrh : forall k p, o = HipGet k p -> resolve (cwd st) p = resolve (cwd st) p) by reflexivity.
    destruct o as [ci p|p c|p|d|a|b|p|k p];
      [simpl|simpl|simpl|simpl|simpl|simpl|change (step fixed st (Cli p)) with (cli_run st p)
       |change (step fixed st (HipGet k p)) with (hip_get st k p)].
    - (* Get *)
      specialize (Hin ci p eq_refl). specialize (Hrg ci p eq_refl).
      destruct (client_get_cases C R run hash resolve caller_opendir Z Z.eqb (path_key hash) fixed st ci p)
        as [[_ E]|[(cl & r & Hn & Hc & Hl & E)|(cl & Hn & Hmiss & [[He E]|(r & He & E)])]];
        unfold path_key, caller_opendir in *; rewrite E; simpl.
      + split; [|exact Hfr]. intros orc q r h _ H. discriminate.
      + split; [|exact Hfr]. intros orc q r' h Hq H. simpl in Hq, H |- *. inversion Hq; subst orc q. inversion H; subst r'.
        destruct (Hfr cl (nth_error_In _ _ Hn) Hc _ _ Hl) as (p' & Hp' & Hh & Hex).
        rewrite Hrg. rewrite <- (Hinj p' p Hp' Hin Hh). exact Hex.
      + split; [intros orc q r h _ H; discriminate|].
        destruct fixed; [exact Hfr|]. eapply fresh_same; [| |exact Hfr]; reflexivity.
      + split.
        * intros orc q r' h Hq H. simpl in Hq, H |- *. inversion Hq; subst orc q. inversion H; subst r'.
          exact He.
        * intros cl0 Hin0 Hc0 k r0 Hl0. simpl in Hin0 |- *.
          apply replace_nth_In in Hin0 as [E0|Hin0].
          -- destruct (caching cl) eqn:Hc.
             ++ subst cl0. simpl in Hl0. destruct (Z.eqb_spec k (hash p)) as [Ek|Nk].
                ** inversion Hl0; subst r0. exists p. repeat split; auto. rewrite <- Hrg. exact He.
                ** exact (Hfr cl (nth_error_In _ _ Hn) Hc k r0 Hl0).
             ++ subst cl0. congruence.
          -- exact (Hfr cl0 Hin0 Hc0 k r0 Hl0).
    - (* Write *)
      split; [intros orc q r h H; discriminate|].
      intros cl Hcl Hc k r Hl. simpl in Hcl |- *.
      destruct (Hfr cl Hcl Hc k r Hl) as (p' & Hp' & Hh & Hex). exists p'. split; [auto|]. split; [auto|].
      rewrite expected_write; [exact Hex|]. intros E.
      specialize (Hws p eq_refl p' E cl Hcl Hc). simpl in Hws. rewrite <- Hh in Hl. congruence.
    - (* Delete *)
      split; [intros orc q r h H; discriminate|].
      intros cl Hcl Hc k r Hl. simpl in Hcl |- *.
      destruct (Hfr cl Hcl Hc k r Hl) as (p' & Hp' & Hh & Hex). exists p'. split; [auto|]. split; [auto|].
      rewrite expected_write; [exact Hex|]. intros E.
      specialize (Hws p eq_refl p' E cl Hcl Hc). simpl in Hws. rewrite <- Hh in Hl. congruence.
    - split; [intros orc q r h H; discriminate|]. eapply fresh_same; [| |exact Hfr]; reflexivity.
    - split; [intros orc q r h H; discriminate|]. eapply fresh_same; [| |exact Hfr]; reflexivity.
    - (* NewClient *)
      split; [intros orc q r h H; discriminate|].
      intros cl Hcl Hc k r Hl. simpl in Hcl |- *. apply in_app_or in Hcl as [Hcl|[E|[]]].
      + exact (Hfr cl Hcl Hc k r Hl).
      + subst cl. simpl in Hl. discriminate.
    - (* Cli *)
      split; [apply cli_refines|]. rewrite cli_run_spec. eapply fresh_same; [| |exact Hfr]; reflexivity.
    - (* HipGet *)
      split; [apply hip_refines; reflexivity|]. rewrite hip_get_spec. exact Hfr.
  Qed.

  Theorem trace_refines ps fixed : inj_on ps -> cwd_independent ps -> forall ops st,
    fresh ps st -> (forall ci p, In (Get ci p) ops -> In p ps) ->
    Forall write_safe (trace fixed st ops) ->
    Forall refines_event (trace fixed st ops).
  Proof.
    intros Hinj Hci. induction ops as [|o ops IH]; intros st Hfr Hin Hws; [constructor|].
    rewrite trace_cons in *. inversion Hws as [|e l Hw1 Hw2]; subst.
    destruct (step_refines ps fixed st o Hinj Hci Hfr) as [H1 H2]; auto.
    - intros ci p ->. apply (Hin ci p). now left.
    - constructor; [exact H1|]. apply IH; auto. intros ci p H. apply (Hin ci p). now right.
  Qed.

  Lemma init_fresh ps d a f : fresh ps (init d a f).
  Proof. intros cl []. Qed.

  Theorem trace_refines_init ps fixed : inj_on ps -> cwd_independent ps -> forall ops d a f,
    (forall ci p, In (Get ci p) ops -> In p ps) ->
    Forall write_safe (trace fixed (init d a f) ops) ->
    Forall refines_event (trace fixed (init d a f) ops).
  Proof. intros Hinj Hci ops d a f. apply trace_refines; auto. apply init_fresh. Qed.

  (* ---------- the result is a function of the content, whatever the history ---------- *)
  Definition safe_history (fixed : bool) (ps : list nat) (st : state) (ops : list (op C)) : Prop :=
    inj_on ps /\ cwd_independent ps /\ fresh ps st /\ (forall ci p, In (Get ci p) ops -> In p ps)
    /\ Forall write_safe (trace fixed st ops).

  Theorem result_function_of_content fixed1 fixed2 ps1 ps2 st1 st2 ops1 ops2 e1 e2 orc p1 p2 r1 r2 h1 h2 :
    safe_history fixed1 ps1 st1 ops1 -> safe_history fixed2 ps2 st2 ops2 ->
    In e1 (trace fixed1 st1 ops1) -> In e2 (trace fixed2 st2 ops2) ->
    request C R run runh (eop e1) = Some (orc, p1) -> request C R run runh (eop e2) = Some (orc, p2) ->
    eout e1 = Returned r1 h1 -> eout e2 = Returned r2 h2 ->
    fs_lookup (resolve (cwd (before e1)) p1) (files (before e1))
      = fs_lookup (resolve (cwd (before e2)) p2) (files (before e2)) ->
    r1 = r2.
  Proof.
    intros (I1 & S1 & F1 & G1 & W1) (I2 & S2 & F2 & G2 & W2) In1 In2 Q1 Q2 O1 O2 Hf.
    pose proof (trace_refines ps1 fixed1 I1 S1 ops1 st1 F1 G1 W1) as T1.
    pose proof (trace_refines ps2 fixed2 I2 S2 ops2 st2 F2 G2 W2) as T2.
    rewrite Forall_forall in T1, T2.
    pose proof (T1 e1 In1 orc p1 r1 h1 Q1 O1) as E1. pose proof (T2 e2 In2 orc p2 r2 h2 Q2 O2) as E2.
    unfold Process.expected_with in E1, E2. rewrite Hf in E1. rewrite E1 in E2. now inversion E2.
  Qed.
End PathKeyed.

(* ---------- witnesses: what the faithful model of the PINNED client / of the path-keyed cache does ---------- *)

(* [Get of a missing file] on the pinned client: the caller is left in the source directory with argv rewritten *)
Definition witness_fail : list (op nat) := [NewClient true; Get 0 7].

Lemma restore_pinned_refuted :
  exists e, In e (ptrace (plain_cfg [0]) false (DUser 0) [AUser 0; AUser 1] witness_fail)
            /\ is_get (eop e) = true
            /\ cwd (after e) = DSrc /\ cwd (before e) = DUser 0
            /\ argv (after e) = [AEmpty; AIn 7; AOut 7%Z] /\ argv (before e) = [AUser 0; AUser 1].
Proof.
  eexists. split; [right; left; reflexivity|]. vm_compute. repeat split.
Qed.

(* the same history on the current client restores (instance of trace_restore, kept as a computed check) *)
Lemma restore_fixed_witness :
  forallb (fun e => negb (is_get (eop e)) || (dir_eqb (cwd (after e)) (cwd (before e))
                                              && list_eqb arg_eqb (argv (after e)) (argv (before e))))
          (ptrace (plain_cfg [0]) true (DUser 0) [AUser 0; AUser 1] witness_fail) = true.
Proof. vm_compute. reflexivity. Qed.

(* [write c0; get; write c1; get] on one caching client: the second result is the run of c0, not of c1 *)
Definition witness_stale : list (op nat) := [NewClient true; Write 0 0; Get 0 0; Write 0 1; Get 0 0].

Lemma cache_refines_refuted : forall fixed,
  exists e p r h, In e (ptrace (plain_cfg [0; 1]) fixed (DUser 0) [] witness_stale)
            /\ eop e = Get 0 p /\ eout e = Returned r h
            /\ expected nat nat (crun [0; 1]) (files (before e)) p = Some 1 /\ r = 0.
Proof.
  intros fixed. eexists. exists 0, 0, true. split.
  - do 4 right. left. reflexivity.
  - destruct fixed; vm_compute; repeat split.
Qed.

(* a hash collision between two requested paths has the same effect (why [inj_on] is a hypothesis) *)
Lemma cache_collision_witness :
  exists e p r h, In e (trace nat nat (crun [0; 1]) (fun _ => 0%Z) (cresolve []) caller_opendir (crunh []) Z Z.eqb (path_key (fun _ => 0%Z))
                          true (init (DUser 0) [] [])
                          [NewClient true; Write 0 0; Write 1 1; Get 0 0; Get 0 1])
            /\ eop e = Get 0 p /\ eout e = Returned r h
            /\ expected nat nat (crun [0; 1]) (files (before e)) p = Some 1 /\ r = 0.
Proof.
  eexists. exists 1, 0, true. split.
  - do 4 right. left. reflexivity.
  - vm_compute. repeat split.
Qed.

(* RELATIVE REQUEST PATH: the caller sits in directory 0 where the name 100 is file 60 (content 0); the program
   chdirs to its own directory, where the same name is file 90 (content 1): with caching OFF the client returns the
   run of content 1 although the request, as the caller (and GeophiresInputParameters.as_text) sees it, is content 0 *)
Definition rel_cfg : cfg :=
  mkCfg [0; 1] [] [(DUser 0, 100, 60); (DSrc, 100, 90)] [(90, Some 1)].
Definition witness_rel : list (op nat) := [NewClient false; Write 60 0; Get 0 100].

Lemma relative_request_refuted : forall fixed,
  exists e r h, In e (ptrace_with pinned_opendir rel_cfg fixed (DUser 0) [] witness_rel)
            /\ eop e = Get 0 100 /\ eout e = Returned r h
            /\ expected nat nat (crun [0; 1]) (files (before e)) (cresolve (g_rt rel_cfg) (cwd (before e)) 100) = Some 0
            /\ r = 1.
Proof.
  intros fixed. eexists. exists 1, false. split.
  - do 2 right. left. reflexivity.
  - destruct fixed; vm_compute; repeat split.
Qed.

(* the current clients (path opened in the caller's directory) give the caller's content on that history *)
Lemma relative_request_current :
  map (@eout nat nat Z) (ptrace rel_cfg true (DUser 0) [] witness_rel) = [Done; Done; Returned 0 false].
Proof. vm_compute. reflexivity. Qed.

(* ... but the cache key is still the path AS GIVEN: the same relative name requested from two directories through one
   caching client is served from the cache in the second directory (why [cwd_independent] is a hypothesis) *)
Definition witness_rel_shared : list (op nat) :=
  [NewClient true; Write 60 0; Write 61 1; Get 0 100; Chdir (DUser 1); Get 0 100].
Definition rel2_cfg : cfg := mkCfg [0; 1] [] [(DUser 0, 100, 60); (DUser 1, 100, 61)] [].

Lemma cache_relative_shared_refuted : forall fixed,
  exists e r h, In e (ptrace rel2_cfg fixed (DUser 0) [] witness_rel_shared)
            /\ eop e = Get 0 100 /\ eout e = Returned r h /\ cwd (before e) = DUser 1
            /\ expected nat nat (crun [0; 1]) (files (before e)) (cresolve (g_rt rel2_cfg) (cwd (before e)) 100) = Some 1
            /\ r = 0.
Proof.
  intros fixed. eexists. exists 0, true. split.
  - do 5 right. left. reflexivity.
  - destruct fixed; vm_compute; repeat split.
Qed.

(* ---------- soundness of the reflective checkers run on the implementation's observations ---------- *)
Lemma check_restore_step_sound o b :
  check_restore_step o b = true -> is_run o = true ->
  o_cwd_after b = o_cwd_before b /\ o_argv_after b = o_argv_before b.
Proof.
  unfold check_restore_step. intros H Hr. rewrite Hr in H. apply andb_true_iff in H as [H1 H2].
  split; [now apply dir_eqb_eq|]. apply (list_eqb_eq arg_eqb arg_eqb_eq); exact H2.
Qed.

Lemma check_refines_step_sound g f o b orc p :
  check_refines_step g f o b = true -> request_of g o = Some (orc, p) ->
  (forall r h, o_out b = Returned r h ->
     expected_with nat nat orc f (cresolve (g_rt g) (o_cwd_before b) p) = Some r)
  /\ (o_out b = Raised -> expected_with nat nat orc f (cresolve (g_rt g) (o_cwd_before b) p) = None).
Proof.
  unfold check_refines_step. intros H Hq. rewrite Hq in H. split.
  - intros r h Ho. rewrite Ho in H.
    destruct (expected_with nat nat orc f (cresolve (g_rt g) (o_cwd_before b) p)); [|discriminate].
    apply Nat.eqb_eq in H. now subst.
  - intros Ho. rewrite Ho in H.
    destruct (expected_with nat nat orc f (cresolve (g_rt g) (o_cwd_before b) p)); [discriminate|reflexivity].
Qed.

(* the whole session checker: no code reported => every step passed the three per-step checks *)
Fixpoint steps_ok {K : Type} (g : cfg) (f : fs nat) (evs : list (event nat nat K)) (os : list obs) : Prop :=
  match evs, os with
  | e :: evs', b :: os' =>
      obs_matches e b = true /\ check_restore_step (eop e) b = true /\ check_refines_step g f (eop e) b = true
      /\ steps_ok g (files_step f (eop e)) evs' os'
  | [], [] => True
  | _, _ => False
  end.

Lemma session_codes_nil {K : Type} g : forall (evs : list (event nat nat K)) os i f,
  session_codes g i f evs os = [] -> steps_ok g f evs os.
Proof.
  induction evs as [|e evs IH]; destruct os as [|b os]; simpl; intros i f H; auto; try discriminate.
  destruct (obs_matches e b); [|discriminate].
  destruct (check_restore_step (eop e) b); [|discriminate].
  destruct (check_refines_step g f (eop e) b); [|discriminate].
  simpl in H. repeat split; auto. eapply IH; eauto.
Qed.

Lemma session_check_sound fixed g d a ops os :
  session_check fixed g d a ops os = [] ->
  steps_ok g (g_files g) (ptrace g fixed d a ops) os.
Proof. apply session_codes_nil. Qed.
