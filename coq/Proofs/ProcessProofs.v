(* Proofs/ProcessProofs.v - lemmas about Model/Process.v (C08): every statement is for ALL histories
   (lists of operations of any length), all starting states, any simulation oracle [run], any [hash]. *)
From Coq Require Import List ZArith Bool Arith Lia.
From Verif Require Import Model.Process.
Import ListNotations.

(* ---------- decidable equalities used by the reflective checkers ---------- *)
Lemma dir_eqb_eq a b : dir_eqb a b = true -> a = b.
Proof. destruct a, b; simpl; try discriminate; auto. intros H. apply Nat.eqb_eq in H. now subst. Qed.

Lemma arg_eqb_eq a b : arg_eqb a b = true -> a = b.
Proof.
  destruct a, b; simpl; try discriminate; auto; intros H.
  - apply Nat.eqb_eq in H. now subst.
  - apply Z.eqb_eq in H. now subst.
  - apply Nat.eqb_eq in H. now subst.
Qed.

Lemma list_eqb_eq {A} (e : A -> A -> bool) :
  (forall x y, e x y = true -> x = y) -> forall a b, list_eqb e a b = true -> a = b.
Proof.
  intros He a. induction a as [|x a IH]; destruct b as [|y b]; simpl; try discriminate; auto.
  intros H. apply andb_true_iff in H as [H1 H2]. f_equal; auto.
Qed.

Section ProcessProofs.
  Variables C R : Type.
  Variable run : C -> option R.
  Variable hash : nat -> Z.
  Variable K : Type.
  Variable keq : K -> K -> bool.
  Variable keyof : nat -> option C -> K.

  Notation state := (state C R K).
  Notation event := (event C R K).
  Notation client_get := (client_get C R run hash K keq keyof).
  Notation cli_run := (cli_run C R run hash K).
  Notation main_run := (main_run C R run K).
  Notation step := (step C R run hash K keq keyof).
  Notation trace := (trace C R run hash K keq keyof).
  Notation expected := (expected C R run).
  Notation key p st := (keyof p (fs_lookup p (files st))).

  (* ---------- shape of one client call ---------- *)
  Lemma nth1_client_argv p k : nth_error [AEmpty; AIn p; AOut k] 1 = Some (AIn p).
  Proof. reflexivity. Qed.

  (* every way a client call can go *)
  Lemma client_get_cases fixed st ci p :
    (nth_error (clients st) ci = None /\ client_get fixed st ci p = (st, NoSuchClient))
    \/ (exists cl r, nth_error (clients st) ci = Some cl /\ caching cl = true
                     /\ cache_lookup keq (key p st) (cache cl) = Some r /\ client_get fixed st ci p = (st, Returned r true))
    \/ (exists cl, nth_error (clients st) ci = Some cl
                   /\ (caching cl = true -> cache_lookup keq (key p st) (cache cl) = None)
                   /\ ((expected (files st) p = None
                        /\ client_get fixed st ci p =
                           (if fixed then st else mkState DSrc [AEmpty; AIn p; AOut (hash p)] (files st) (clients st), Raised))
                       \/ (exists r, expected (files st) p = Some r
                            /\ client_get fixed st ci p =
                               (mkState (cwd st) (argv st) (files st)
                                  (replace_nth ci (if caching cl then mkClient true ((key p st, r) :: cache cl) else cl)
                                     (clients st)),
                                Returned r false)))).
  Proof.
    unfold client_get. destruct (nth_error (clients st) ci) as [cl|] eqn:Hn.
    2:{ left. auto. }
    right. destruct (caching cl) eqn:Hc.
    - destruct (cache_lookup keq (key p st) (cache cl)) as [r|] eqn:Hl.
      + left. exists cl, r. auto.
      + right. exists cl. split; [reflexivity|]. split; [auto|].
        unfold Process.main_run. simpl. destruct (expected (files st) p) as [r|] eqn:He.
        * right. exists r. split; [reflexivity|]. destruct st; simpl in *; rewrite ?Hc; reflexivity.
        * left. split; [reflexivity|]. destruct fixed; destruct st; reflexivity.
    - right. exists cl. split; [reflexivity|]. split; [intros X; congruence|].
      unfold Process.main_run. simpl. destruct (expected (files st) p) as [r|] eqn:He.
      + right. exists r. split; [reflexivity|]. destruct st; simpl in *; rewrite ?Hc; reflexivity.
      + left. split; [reflexivity|]. destruct fixed; destruct st; reflexivity.
  Qed.

  Lemma cli_run_spec st p :
    cli_run st p =
      (mkState (cwd st) [AUser 0; AIn p; AOut (hash p)] (files st) (clients st),
       match expected (files st) p with Some r => Returned r false | None => Raised end).
  Proof. unfold Process.cli_run, Process.main_run. simpl. destruct st; reflexivity. Qed.

  (* ---------- RESTORE ---------- *)
  Definition restored (e : event) : Prop :=
    cwd (after e) = cwd (before e) /\ argv (after e) = argv (before e).

  Lemma client_get_restore st ci p :
    cwd (fst (client_get true st ci p)) = cwd st /\ argv (fst (client_get true st ci p)) = argv st.
  Proof.
    destruct (client_get_cases true st ci p) as [[_ E]|[(cl & r & _ & _ & _ & E)|(cl & _ & _ & [[_ E]|(r & _ & E)])]];
      rewrite E; simpl; auto.
  Qed.

  (* the pinned client restores exactly when it does not raise *)
  Lemma client_get_pinned_restore st ci p :
    snd (client_get false st ci p) <> Raised ->
    cwd (fst (client_get false st ci p)) = cwd st /\ argv (fst (client_get false st ci p)) = argv st.
  Proof.
    destruct (client_get_cases false st ci p) as [[_ E]|[(cl & r & _ & _ & _ & E)|(cl & _ & _ & [[_ E]|(r & _ & E)])]];
      rewrite E; simpl; auto. intros H. now elim H.
  Qed.

  Lemma trace_cons fixed st o ops :
    trace fixed st (o :: ops) =
      mkEvent st o (fst (step fixed st o)) (snd (step fixed st o)) :: trace fixed (fst (step fixed st o)) ops.
  Proof. simpl. destruct (step fixed st o); reflexivity. Qed.

  Theorem trace_restore : forall ops st,
    Forall (fun e => is_get (eop e) = true -> restored e) (trace true st ops).
  Proof.
    induction ops as [|o ops IH]; intros st; [constructor|].
    rewrite trace_cons. constructor; [|apply IH].
    unfold restored; simpl. destruct o; simpl; try discriminate. intros _. apply client_get_restore.
  Qed.

  Theorem trace_restore_pinned_partial : forall ops st,
    Forall (fun e => is_get (eop e) = true -> eout e <> Raised -> restored e) (trace false st ops).
  Proof.
    induction ops as [|o ops IH]; intros st; [constructor|].
    rewrite trace_cons. constructor; [|apply IH].
    unfold restored; simpl. destruct o; simpl; try discriminate. intros _. apply client_get_pinned_restore.
  Qed.

  (* the command line entry point gives the working directory back on both paths, and does not touch argv *)
  Theorem trace_cli_restore : forall fixed ops st,
    Forall (fun e => forall p, eop e = Cli p ->
                     cwd (after e) = cwd (before e) /\ argv (after e) = [AUser 0; AIn p; AOut (hash p)])
           (trace fixed st ops).
  Proof.
    induction ops as [|o ops IH]; intros st; [constructor|].
    rewrite trace_cons. constructor; [|apply IH].
    simpl. intros p E. subst o. change (step fixed st (Cli p)) with (cli_run st p). rewrite cli_run_spec. simpl. auto.
  Qed.

  (* consequence for whole histories: if nobody but runs touches cwd/argv they are the same at the end *)
  Definition only_runs_and_files (o : op C) : bool :=
    match o with Get _ _ | Write _ _ | Delete _ | NewClient _ => true | _ => false end.

  Theorem final_restore : forall ops st,
    forallb only_runs_and_files ops = true ->
    cwd (final C R run hash K keq keyof true st ops) = cwd st /\ argv (final C R run hash K keq keyof true st ops) = argv st.
  Proof.
    unfold final. induction ops as [|o ops IH]; intros st H; simpl; [auto|].
    simpl in H. apply andb_true_iff in H as [Ho H].
    destruct (IH (fst (step true st o)) H) as [E1 E2]. rewrite E1, E2.
    destruct o; simpl in Ho; try discriminate; simpl; auto. apply client_get_restore.
  Qed.

  (* ---------- FRAME: a request changes nothing but the cache of the client it went through ---------- *)
  Lemma replace_nth_length {A} n (x : A) l : length (replace_nth n x l) = length l.
  Proof. revert n. induction l as [|h t IH]; intros [|n]; simpl; auto. Qed.

  Lemma replace_nth_other {A} n (x : A) l j : j <> n -> nth_error (replace_nth n x l) j = nth_error l j.
  Proof.
    revert n j. induction l as [|h t IH]; intros [|n] [|j] H; simpl; auto; try congruence.
  Qed.

  Lemma replace_nth_In {A} n (x y : A) l : In y (replace_nth n x l) -> y = x \/ In y l.
  Proof.
    revert n. induction l as [|h t IH]; intros [|n]; simpl; auto.
    - intros [E|H]; auto.
    - intros [E|H]; auto. destruct (IH _ H); auto.
  Qed.

  Theorem get_frame st ci p :
    let st' := fst (client_get true st ci p) in
    cwd st' = cwd st /\ argv st' = argv st /\ files st' = files st
    /\ length (clients st') = length (clients st)
    /\ forall j, j <> ci -> nth_error (clients st') j = nth_error (clients st) j.
  Proof.
    simpl.
    destruct (client_get_cases true st ci p) as [[_ E]|[(cl & r & _ & _ & _ & E)|(cl & _ & _ & [[_ E]|(r & _ & E)])]];
      rewrite E; simpl; repeat split; auto.
    - apply replace_nth_length.
    - intros j Hj. now apply replace_nth_other.
  Qed.

  (* ---------- REFINEMENT: a returned result is the run of the content the file has at request time ---------- *)
  Definition req_path (o : op C) : option nat :=
    match o with Get _ p | Cli p => Some p | _ => None end.
  Definition wpath (o : op C) : option nat :=
    match o with Write p _ | Delete p => Some p | _ => None end.

  Definition refines_event (e : event) : Prop :=
    forall p r h, req_path (eop e) = Some p -> eout e = Returned r h -> expected (files (before e)) p = Some r.

  Lemma cli_refines st p :
    refines_event (mkEvent st (Cli p) (fst (cli_run st p)) (snd (cli_run st p))).
  Proof.
    rewrite cli_run_spec. intros q r h Hq H. simpl in Hq, H |- *. inversion Hq; subst q.
    destruct (expected (files st) p) as [r0|] eqn:He; inversion H; subst; reflexivity.
  Qed.

  (* with caching off there is nothing to go stale: no hypothesis on writes, none on the key *)
  Definition nocache (st : state) : Prop := forall cl, In cl (clients st) -> caching cl = false.

  Lemma step_refines_nocache fixed st o :
    nocache st -> (forall b, o = NewClient b -> b = false) ->
    refines_event (mkEvent st o (fst (step fixed st o)) (snd (step fixed st o)))
    /\ nocache (fst (step fixed st o)).
  Proof.
    intros Hnc Hb. destruct o as [ci p|p c|p|d|a|b|p];
      [simpl|simpl|simpl|simpl|simpl|simpl|change (step fixed st (Cli p)) with (cli_run st p)];
      try (split; [intros q r h H; discriminate|exact Hnc]).
    - destruct (client_get_cases fixed st ci p)
        as [[_ E]|[(cl & r & Hn & Hc & Hl & E)|(cl & Hn & Hmiss & [[He E]|(r & He & E)])]]; rewrite E; simpl.
      + split; [|exact Hnc]. intros q r h _ H. discriminate.
      + rewrite (Hnc cl (nth_error_In _ _ Hn)) in Hc. discriminate.
      + split; [intros q r h _ H; discriminate|]. destruct fixed; exact Hnc.
      + split.
        * intros q r' h Hq H. simpl in Hq, H. inversion Hq; subst q. inversion H; subst r'. exact He.
        * intros cl0 Hin0. simpl in Hin0. apply replace_nth_In in Hin0 as [E0|Hin0]; [|auto].
          rewrite (Hnc cl (nth_error_In _ _ Hn)) in E0. subst cl0. apply (Hnc cl (nth_error_In _ _ Hn)).
    - split; [intros q r h H; discriminate|].
      intros cl Hcl. simpl in Hcl. apply in_app_or in Hcl as [Hcl|[E|[]]]; [auto|]. subst cl. simpl. now apply Hb.
    - split; [apply cli_refines|]. rewrite cli_run_spec. exact Hnc.
  Qed.

  Theorem trace_refines_nocache fixed : forall ops st,
    nocache st -> (forall b, In (NewClient b) ops -> b = false) ->
    Forall refines_event (trace fixed st ops).
  Proof.
    induction ops as [|o ops IH]; intros st Hnc Hb; [constructor|].
    rewrite trace_cons. destruct (step_refines_nocache fixed st o Hnc) as [H1 H2].
    - intros b ->. apply Hb. now left.
    - constructor; [exact H1|]. apply IH; auto. intros b H. apply Hb. now right.
  Qed.

  (* ---------- a cache whose key determines the run is sound, for every history, files rewritten at will ---------- *)
  Definition run_opt (c : option C) : option R := match c with Some x => run x | None => None end.

  Definition key_sound : Prop :=
    forall p c p' c', keq (keyof p c) (keyof p' c') = true -> run_opt c = run_opt c'.

  (* invariant: every cached entry is the run of the content its key was made from *)
  Definition entries_ok (st : state) : Prop :=
    forall cl, In cl (clients st) -> caching cl = true ->
    forall k r, In (k, r) (cache cl) -> exists p c, k = keyof p c /\ run_opt c = Some r.

  Lemma cache_lookup_some k (l : list (K * R)) r :
    cache_lookup keq k l = Some r -> exists k', In (k', r) l /\ keq k k' = true.
  Proof.
    induction l as [|[k' r'] t IH]; simpl; [discriminate|].
    destruct (keq k k') eqn:E.
    - intros H. inversion H; subst. exists k'. auto.
    - intros H. destruct (IH H) as (k2 & Hi & Hk). exists k2. auto.
  Qed.

  Lemma entries_ok_same st st' : clients st' = clients st -> entries_ok st -> entries_ok st'.
  Proof. unfold entries_ok. intros E H. rewrite E. exact H. Qed.

  Lemma step_refines_sound_key fixed st o :
    key_sound -> entries_ok st ->
    refines_event (mkEvent st o (fst (step fixed st o)) (snd (step fixed st o)))
    /\ entries_ok (fst (step fixed st o)).
  Proof.
    intros Hks Hok. destruct o as [ci p|p c|p|d|a|b|p];
      [simpl|simpl|simpl|simpl|simpl|simpl|change (step fixed st (Cli p)) with (cli_run st p)];
      try (split; [intros q r h H; discriminate|eapply entries_ok_same; [|exact Hok]; reflexivity]).
    - destruct (client_get_cases fixed st ci p)
        as [[_ E]|[(cl & r & Hn & Hc & Hl & E)|(cl & Hn & Hmiss & [[He E]|(r & He & E)])]]; rewrite E; simpl.
      + split; [|exact Hok]. intros q r h _ H. discriminate.
      + split; [|exact Hok]. intros q r' h Hq H. simpl in Hq, H. inversion Hq; subst q. inversion H; subst r'.
        destruct (cache_lookup_some _ _ _ Hl) as (k' & Hi & Hk).
        destruct (Hok cl (nth_error_In _ _ Hn) Hc k' r Hi) as (p' & c' & -> & Hr).
        unfold Process.expected. change (run_opt (fs_lookup p (files st)) = Some r).
        rewrite (Hks _ _ _ _ Hk). exact Hr.
      + split; [intros q r h _ H; discriminate|].
        destruct fixed; [exact Hok|]. eapply entries_ok_same; [|exact Hok]; reflexivity.
      + split.
        * intros q r' h Hq H. simpl in Hq, H. inversion Hq; subst q. inversion H; subst r'. exact He.
        * intros cl0 Hin0 Hc0 k r0 Hi0. simpl in Hin0.
          apply replace_nth_In in Hin0 as [E0|Hin0]; [|exact (Hok cl0 Hin0 Hc0 k r0 Hi0)].
          destruct (caching cl) eqn:Hc.
          -- subst cl0. simpl in Hi0. destruct Hi0 as [Hi0|Hi0].
             ++ inversion Hi0; subst. exists p, (fs_lookup p (files st)). split; [reflexivity|exact He].
             ++ exact (Hok cl (nth_error_In _ _ Hn) Hc k r0 Hi0).
          -- subst cl0. congruence.
    - split; [intros q r h H; discriminate|].
      intros cl Hcl Hc k r Hi. simpl in Hcl. apply in_app_or in Hcl as [Hcl|[E|[]]].
      + exact (Hok cl Hcl Hc k r Hi).
      + subst cl. destruct Hi.
    - split; [apply cli_refines|]. rewrite cli_run_spec. eapply entries_ok_same; [|exact Hok]; reflexivity.
  Qed.

  Theorem trace_refines_sound_key fixed : key_sound -> forall ops st,
    entries_ok st -> Forall refines_event (trace fixed st ops).
  Proof.
    intros Hks. induction ops as [|o ops IH]; intros st Hok; [constructor|].
    rewrite trace_cons. destruct (step_refines_sound_key fixed st o Hks Hok) as [H1 H2].
    constructor; [exact H1|]. now apply IH.
  Qed.

  Lemma init_entries_ok d a f : entries_ok (init d a f).
  Proof. intros cl []. Qed.

  Theorem trace_refines_sound_key_init fixed : key_sound -> forall ops d a f,
    Forall refines_event (trace fixed (init d a f) ops).
  Proof. intros Hks ops d a f. apply trace_refines_sound_key; [exact Hks|apply init_entries_ok]. Qed.
End ProcessProofs.

(* the repaired cache key (path hash AND content) is sound whenever content equality is *)
Lemma content_key_sound C R (run : C -> option R) hash (ceq : C -> C -> bool) :
  (forall a b, ceq a b = true -> a = b) ->
  key_sound C R run (Z * option C) (content_keq ceq) (content_key hash).
Proof.
  intros Hc p c p' c' H. unfold content_keq, content_key in H. simpl in H.
  apply andb_true_iff in H as [_ H]. destruct c as [x|], c' as [y|]; try discriminate; auto.
  now rewrite (Hc x y H).
Qed.

Theorem trace_refines_content_key C R (run : C -> option R) hash (ceq : C -> C -> bool) fixed :
  (forall a b, ceq a b = true -> a = b) -> forall ops d a f,
  Forall (refines_event C R run (Z * option C))
         (trace C R run hash (Z * option C) (content_keq ceq) (content_key hash) fixed (init d a f) ops).
Proof.
  intros Hc ops d a f. apply trace_refines_sound_key; [now apply content_key_sound|apply init_entries_ok].
Qed.

(* ---------- the path-keyed cache of the code under test ---------- *)
Section PathKeyed.
  Variables C R : Type.
  Variable run : C -> option R.
  Variable hash : nat -> Z.

  Notation state := (state C R Z).
  Notation event := (event C R Z).
  Notation step := (step C R run hash Z Z.eqb (path_key hash)).
  Notation trace := (trace C R run hash Z Z.eqb (path_key hash)).
  Notation expected := (expected C R run).
  Notation refines_event := (refines_event C R run Z).
  Notation cli_run := (cli_run C R run hash Z).

  (* no file is written or deleted while a caching client holds a result under that file's key *)
  Definition write_safe (e : event) : Prop :=
    forall p, wpath C (eop e) = Some p ->
    forall cl, In cl (clients (before e)) -> caching cl = true -> cache_lookup Z.eqb (hash p) (cache cl) = None.

  (* invariant: every cached entry is the run of the current content of a file with that key *)
  Definition fresh (ps : list nat) (st : state) : Prop :=
    forall cl, In cl (clients st) -> caching cl = true ->
    forall k r, cache_lookup Z.eqb k (cache cl) = Some r ->
    exists p, In p ps /\ hash p = k /\ expected (files st) p = Some r.

  Definition inj_on (ps : list nat) : Prop :=
    forall p q, In p ps -> In q ps -> hash p = hash q -> p = q.

  Lemma fresh_same ps st st' :
    files st' = files st -> clients st' = clients st -> fresh ps st -> fresh ps st'.
  Proof. unfold fresh. intros E1 E2 H. rewrite E1, E2. exact H. Qed.

  Lemma expected_write f p c q : q <> p -> expected ((p, c) :: f) q = expected f q.
  Proof.
    intros H. unfold Process.expected. simpl. destruct (Nat.eqb_spec q p); [contradiction|reflexivity].
  Qed.

  Lemma step_refines ps fixed st o :
    inj_on ps -> fresh ps st -> (forall ci p, o = Get ci p -> In p ps) ->
    write_safe (mkEvent st o (fst (step fixed st o)) (snd (step fixed st o))) ->
    refines_event (mkEvent st o (fst (step fixed st o)) (snd (step fixed st o)))
    /\ fresh ps (fst (step fixed st o)).
  Proof.
    intros Hinj Hfr Hin Hws. destruct o as [ci p|p c|p|d|a|b|p];
      [simpl|simpl|simpl|simpl|simpl|simpl|change (step fixed st (Cli p)) with (cli_run st p)].
    - (* Get *)
      specialize (Hin ci p eq_refl).
      destruct (client_get_cases C R run hash Z Z.eqb (path_key hash) fixed st ci p)
        as [[_ E]|[(cl & r & Hn & Hc & Hl & E)|(cl & Hn & Hmiss & [[He E]|(r & He & E)])]];
        unfold path_key in *; rewrite E; simpl.
      + split; [|exact Hfr]. intros q r h _ H. discriminate.
      + split; [|exact Hfr]. intros q r' h Hq H. simpl in Hq, H. inversion Hq; subst q. inversion H; subst r'.
        destruct (Hfr cl (nth_error_In _ _ Hn) Hc _ _ Hl) as (p' & Hp' & Hh & Hex).
        rewrite <- (Hinj p' p Hp' Hin Hh). exact Hex.
      + split; [intros q r h _ H; discriminate|].
        destruct fixed; [exact Hfr|]. eapply fresh_same; [| |exact Hfr]; reflexivity.
      + split.
        * intros q r' h Hq H. simpl in Hq, H. inversion Hq; subst q. inversion H; subst r'. exact He.
        * intros cl0 Hin0 Hc0 k r0 Hl0. simpl in Hin0 |- *.
          apply replace_nth_In in Hin0 as [E0|Hin0].
          -- destruct (caching cl) eqn:Hc.
             ++ subst cl0. simpl in Hl0. destruct (Z.eqb_spec k (hash p)) as [Ek|Nk].
                ** inversion Hl0; subst r0. exists p. auto.
                ** exact (Hfr cl (nth_error_In _ _ Hn) Hc k r0 Hl0).
             ++ subst cl0. congruence.
          -- exact (Hfr cl0 Hin0 Hc0 k r0 Hl0).
    - (* Write *)
      split; [intros q r h H; discriminate|].
      intros cl Hcl Hc k r Hl. simpl in Hcl |- *.
      destruct (Hfr cl Hcl Hc k r Hl) as (p' & Hp' & Hh & Hex). exists p'. split; [auto|]. split; [auto|].
      rewrite expected_write; [exact Hex|]. intros ->.
      specialize (Hws p eq_refl cl Hcl Hc). simpl in Hws. rewrite <- Hh in Hl. congruence.
    - (* Delete *)
      split; [intros q r h H; discriminate|].
      intros cl Hcl Hc k r Hl. simpl in Hcl |- *.
      destruct (Hfr cl Hcl Hc k r Hl) as (p' & Hp' & Hh & Hex). exists p'. split; [auto|]. split; [auto|].
      rewrite expected_write; [exact Hex|]. intros ->.
      specialize (Hws p eq_refl cl Hcl Hc). simpl in Hws. rewrite <- Hh in Hl. congruence.
    - split; [intros q r h H; discriminate|]. eapply fresh_same; [| |exact Hfr]; reflexivity.
    - split; [intros q r h H; discriminate|]. eapply fresh_same; [| |exact Hfr]; reflexivity.
    - (* NewClient *)
      split; [intros q r h H; discriminate|].
      intros cl Hcl Hc k r Hl. simpl in Hcl |- *. apply in_app_or in Hcl as [Hcl|[E|[]]].
      + exact (Hfr cl Hcl Hc k r Hl).
      + subst cl. simpl in Hl. discriminate.
    - (* Cli *)
      split; [apply cli_refines|]. rewrite cli_run_spec. eapply fresh_same; [| |exact Hfr]; reflexivity.
  Qed.

  Theorem trace_refines ps fixed : inj_on ps -> forall ops st,
    fresh ps st -> (forall ci p, In (Get ci p) ops -> In p ps) ->
    Forall write_safe (trace fixed st ops) -> Forall refines_event (trace fixed st ops).
  Proof.
    intros Hinj. induction ops as [|o ops IH]; intros st Hfr Hin Hws; [constructor|].
    rewrite trace_cons in *. inversion Hws as [|e l Hw1 Hw2]; subst.
    destruct (step_refines ps fixed st o Hinj Hfr) as [H1 H2]; auto.
    - intros ci p ->. apply (Hin ci p). now left.
    - constructor; [exact H1|]. apply IH; auto. intros ci p H. apply (Hin ci p). now right.
  Qed.

  Lemma init_fresh ps d a f : fresh ps (init d a f).
  Proof. intros cl []. Qed.

  Theorem trace_refines_init ps fixed : inj_on ps -> forall ops d a f,
    (forall ci p, In (Get ci p) ops -> In p ps) ->
    Forall write_safe (trace fixed (init d a f) ops) -> Forall refines_event (trace fixed (init d a f) ops).
  Proof. intros Hinj ops d a f. apply trace_refines; auto. apply init_fresh. Qed.

  (* ---------- the result is a function of the content, whatever the history ---------- *)
  Definition safe_history (fixed : bool) (ps : list nat) (st : state) (ops : list (op C)) : Prop :=
    inj_on ps /\ fresh ps st /\ (forall ci p, In (Get ci p) ops -> In p ps) /\ Forall write_safe (trace fixed st ops).

  Theorem result_function_of_content fixed1 fixed2 ps1 ps2 st1 st2 ops1 ops2 e1 e2 p1 p2 r1 r2 h1 h2 :
    safe_history fixed1 ps1 st1 ops1 -> safe_history fixed2 ps2 st2 ops2 ->
    In e1 (trace fixed1 st1 ops1) -> In e2 (trace fixed2 st2 ops2) ->
    req_path C (eop e1) = Some p1 -> req_path C (eop e2) = Some p2 ->
    eout e1 = Returned r1 h1 -> eout e2 = Returned r2 h2 ->
    fs_lookup p1 (files (before e1)) = fs_lookup p2 (files (before e2)) ->
    r1 = r2.
  Proof.
    intros (I1 & F1 & G1 & W1) (I2 & F2 & G2 & W2) In1 In2 Q1 Q2 O1 O2 Hf.
    pose proof (trace_refines ps1 fixed1 I1 ops1 st1 F1 G1 W1) as T1.
    pose proof (trace_refines ps2 fixed2 I2 ops2 st2 F2 G2 W2) as T2.
    rewrite Forall_forall in T1, T2.
    pose proof (T1 e1 In1 p1 r1 h1 Q1 O1) as E1. pose proof (T2 e2 In2 p2 r2 h2 Q2 O2) as E2.
    unfold Process.expected in E1, E2. rewrite Hf in E1. rewrite E1 in E2. now inversion E2.
  Qed.
End PathKeyed.

(* ---------- witnesses: what the faithful model of the PINNED client / of the path-keyed cache does ---------- *)

(* [Get of a missing file] on the pinned client: the caller is left in the source directory with argv rewritten *)
Definition witness_fail : list (op nat) := [NewClient true; Get 0 7].

Lemma restore_pinned_refuted :
  exists e, In e (ptrace [0] false (DUser 0) [AUser 0; AUser 1] witness_fail)
            /\ is_get (eop e) = true
            /\ cwd (after e) = DSrc /\ cwd (before e) = DUser 0
            /\ argv (after e) = [AEmpty; AIn 7; AOut 7%Z] /\ argv (before e) = [AUser 0; AUser 1].
Proof.
  eexists. split; [right; left; reflexivity|]. vm_compute. repeat split.
Qed.

(* the same history on the current client restores (instance of trace_restore, kept as a computed check) *)
Lemma restore_fixed_witness :
  forallb (fun e => negb (is_get (eop e)) || (dir_eqb (cwd (after e)) (cwd (before e))
                                              && list_eqb arg_eqb (argv (after e)) (argv (before e))))
          (ptrace [0] true (DUser 0) [AUser 0; AUser 1] witness_fail) = true.
Proof. vm_compute. reflexivity. Qed.

(* [write c0; get; write c1; get] on one caching client: the second result is the run of c0, not of c1 *)
Definition witness_stale : list (op nat) := [NewClient true; Write 0 0; Get 0 0; Write 0 1; Get 0 0].

Lemma cache_refines_refuted : forall fixed,
  exists e p r h, In e (ptrace [0; 1] fixed (DUser 0) [] witness_stale)
            /\ eop e = Get 0 p /\ eout e = Returned r h
            /\ expected nat nat (crun [0; 1]) (files (before e)) p = Some 1 /\ r = 0.
Proof.
  intros fixed. eexists. exists 0, 0, true. split.
  - do 4 right. left. reflexivity.
  - destruct fixed; vm_compute; repeat split.
Qed.

(* a hash collision between two requested paths has the same effect (why [inj_on] is a hypothesis) *)
Lemma cache_collision_witness :
  exists e p r h, In e (trace nat nat (crun [0; 1]) (fun _ => 0%Z) Z Z.eqb (path_key (fun _ => 0%Z)) true (init (DUser 0) [] [])
                          [NewClient true; Write 0 0; Write 1 1; Get 0 0; Get 0 1])
            /\ eop e = Get 0 p /\ eout e = Returned r h
            /\ expected nat nat (crun [0; 1]) (files (before e)) p = Some 1 /\ r = 0.
Proof.
  eexists. exists 1, 0, true. split.
  - do 4 right. left. reflexivity.
  - vm_compute. repeat split.
Qed.

(* ---------- soundness of the reflective checkers run on the implementation's observations ---------- *)
Lemma check_restore_step_sound o b :
  check_restore_step o b = true -> is_run o = true ->
  o_cwd_after b = o_cwd_before b /\ o_argv_after b = o_argv_before b.
Proof.
  unfold check_restore_step. intros H Hr. rewrite Hr in H. apply andb_true_iff in H as [H1 H2].
  split; [now apply dir_eqb_eq|]. apply (list_eqb_eq arg_eqb arg_eqb_eq); exact H2.
Qed.

Lemma check_refines_step_sound okc f o b p :
  check_refines_step okc f o b = true -> req_path nat o = Some p ->
  (forall r h, o_out b = Returned r h -> expected nat nat (crun okc) f p = Some r)
  /\ (o_out b = Raised -> expected nat nat (crun okc) f p = None).
Proof.
  unfold check_refines_step. intros H Hq.
  assert (E : match o_out b, expected nat nat (crun okc) f p with
              | Returned r _, Some e => Nat.eqb r e
              | Returned _ _, None => false
              | Raised, Some _ => false
              | _, _ => true end = true).
  { destruct o; simpl in Hq; inversion Hq; subst; exact H. }
  clear H. split.
  - intros r h Ho. rewrite Ho in E. destruct (expected nat nat (crun okc) f p); [|discriminate].
    apply Nat.eqb_eq in E. now subst.
  - intros Ho. rewrite Ho in E. destruct (expected nat nat (crun okc) f p); [discriminate|reflexivity].
Qed.

(* the whole session checker: no code reported => every step passed the three per-step checks *)
Fixpoint steps_ok {K : Type} (okc : list nat) (f : fs nat) (evs : list (event nat nat K)) (os : list obs) : Prop :=
  match evs, os with
  | e :: evs', b :: os' =>
      obs_matches e b = true /\ check_restore_step (eop e) b = true /\ check_refines_step okc f (eop e) b = true
      /\ steps_ok okc (files_step f (eop e)) evs' os'
  | [], [] => True
  | _, _ => False
  end.

Lemma session_codes_nil {K : Type} okc : forall (evs : list (event nat nat K)) os i f, session_codes okc i f evs os = [] -> steps_ok okc f evs os.
Proof.
  induction evs as [|e evs IH]; destruct os as [|b os]; simpl; intros i f H; auto; try discriminate.
  destruct (obs_matches e b); [|discriminate].
  destruct (check_restore_step (eop e) b); [|discriminate].
  destruct (check_refines_step okc f (eop e) b); [|discriminate].
  simpl in H. repeat split; auto. eapply IH; eauto.
Qed.

Lemma session_check_sound fixed okc d a ops os :
  session_check fixed okc d a ops os = [] ->
  steps_ok okc [] (ptrace okc fixed d a ops) os.
Proof. apply session_codes_nil. Qed.
