(* Proofs/HipRaProofs.v - lemmas about the HIP-RA-X model (Model/HipRa.v) for property C17. *)
From Coq Require Import QArith Qabs Qminmax Qround List ZArith Bool String Lia Lqa Setoid.
From Verif Require Import Base.Flat Proofs.FlatFacts Gen.HipTables Model.HipRa Spec.HipRaSpec.
Import ListNotations.
Open Scope Q_scope.

(* ------------------------------------------------------------------------------------------ *)
(* small facts                                                                                *)
(* ------------------------------------------------------------------------------------------ *)

Lemma Qeqb_false a b : Qeqb a b = false <-> ~ a == b.
Proof.
  unfold Qeqb. split; intros H.
  - intros E. apply Qeq_bool_iff in E. congruence.
  - destruct (Qeq_bool a b) eqn:E; [|reflexivity]. apply Qeq_bool_iff in E. contradiction.
Qed.

Lemma Qeqb_comp a a' b b' : a == a' -> b == b' -> Qeqb a b = Qeqb a' b'.
Proof.
  intros Ha Hb. destruct (Qeqb a b) eqn:E1, (Qeqb a' b') eqn:E2; try reflexivity.
  - apply Qeqb_true in E1. apply Qeqb_false in E2. exfalso. apply E2. rewrite <- Ha, <- Hb. exact E1.
  - apply Qeqb_true in E2. apply Qeqb_false in E1. exfalso. apply E1. rewrite Ha, Hb. exact E2.
Qed.

Lemma Qeqb_scale0 k a a' : ~ k == 0 -> a' == k * a -> Qeqb a' 0 = Qeqb a 0.
Proof.
  intros Hk H. destruct (Qeqb a 0) eqn:E.
  - apply Qeqb_true in E. apply Qeqb_true. rewrite H, E. ring.
  - apply Qeqb_false in E. apply Qeqb_false. intros Z. rewrite H in Z.
    apply Qmult_integral in Z. tauto.
Qed.

Lemma Qmult_neq0 a b : ~ a * b == 0 -> ~ a == 0 /\ ~ b == 0.
Proof. intros H. split; intros Z; apply H; rewrite Z; ring. Qed.

(* ------------------------------------------------------------------------------------------ *)
(* volumes, additivity, closed forms                                                          *)
(* ------------------------------------------------------------------------------------------ *)

Lemma volumes W i :
  let o := hip_out W i in
  o_volume o == i_area i * i_thick i /\
  o_vol_rock o == (1 - i_por i / 100) * o_volume o /\
  o_vol_fluid o == (i_por i / 100) * i_rff i * o_volume o /\
  (0 <= i_por i <= 100 -> 0 <= i_rff i <= 1 -> 0 <= o_volume o ->
   0 <= o_vol_rock o /\ 0 <= o_vol_fluid o /\ o_vol_rock o + o_vol_fluid o <= o_volume o).
Proof.
  cbn [hip_out o_volume o_vol_rock o_vol_fluid]. unfold c_vol_rock, c_vol_fluid, c_volume.
  set (V := i_area i * i_thick i). set (p := i_por i). set (r := i_rff i).
  split; [reflexivity|]. split; [field|]. split; [field|].
  intros [Hp0 Hp1] [Hr0 Hr1] HV.
  assert (Hq : 0 <= p / 100 <= 1) by (split; [apply Qle_shift_div_l|apply Qle_shift_div_r]; lra).
  set (q := p / 100) in *. destruct Hq as [Hq0 Hq1].
  assert (H1 : 0 <= V * (1 - q)) by (apply Qmult_le_0_compat; lra).
  assert (H2 : 0 <= V * q) by (apply Qmult_le_0_compat; lra).
  assert (H3 : 0 <= V * q * r) by (apply Qmult_le_0_compat; lra).
  assert (H4 : 0 <= V * q * (1 - r)) by (apply Qmult_le_0_compat; lra).
  split; [exact H1|]. split; [exact H3|].
  setoid_replace V with (V * (1 - q) + V * q * r + V * q * (1 - r)) at 3 by ring. lra.
Qed.

Lemma stored_sum W i :
  let o := hip_out W i in
  o_stored o == o_stored_rock o + o_stored_fluid o /\
  o_enth_res o == o_enth_rock o + o_enth_fluid o /\
  o_mass_total o == o_mass_rock o + o_vol_fluid o * o_fdens o /\
  (hip_err W i = None ->
   o_stored_rock o == i_rrh i * (i_rhc i * (i_Tres i - i_Trej i) * o_vol_rock o) /\
   o_stored_fluid o == (w_h W (i_Tres i) (o_pres o) - w_h W (i_Trej i) (o_pres o)) * (o_vol_fluid o * o_fdens o)).
Proof.
  cbn [hip_out o_stored o_stored_rock o_stored_fluid o_enth_res o_enth_rock o_enth_fluid o_mass_total o_mass_rock
       o_vol_fluid o_fdens o_vol_rock o_pres].
  split; [reflexivity|]. split; [reflexivity|]. split; [reflexivity|].
  intros He. unfold hip_err in He.
  destruct (c_fhc_derived i && _); [discriminate|].
  destruct (Qeqb (c_mass_rock i) 0) eqn:Em; [discriminate|]. apply Qeqb_false in Em.
  split.
  - unfold c_stored_rock, c_enth_rock, c_dT, c_TrejK, celsius_to_kelvin.
    set (m := c_mass_rock i) in *. field. exact Em.
  - unfold c_stored_fluid, c_mass_fluid0, c_hnet. reflexivity.
Qed.

(* ------------------------------------------------------------------------------------------ *)
(* RecoverableHeat and UtilEff ranges                                                         *)
(* ------------------------------------------------------------------------------------------ *)

Lemma recoverable_range T : (427#1000) <= recoverable_heat T <= (66#100).
Proof.
  unfold recoverable_heat.
  destruct (Qleb_spec T 90); [lra|]. destruct (Qleb_spec 150 T); [lra|]. lra.
Qed.

Lemma segment_within lo hi x0 x1 y0 y1 t :
  x0 < x1 -> x0 <= t <= x1 -> lo <= y0 <= hi -> lo <= y1 <= hi ->
  lo <= (y1 - y0) / (x1 - x0) * (t - x0) + y0 <= hi.
Proof.
  intros Hx [Ht0 Ht1] [Hy0 Hy0'] [Hy1 Hy1'].
  assert (Hd : 0 < x1 - x0) by lra.
  assert (Hdn : ~ x1 - x0 == 0) by lra.
  split.
  - assert (E : (y1 - y0) / (x1 - x0) * (t - x0) + y0 - lo
                == ((y1 - lo) * (t - x0) + (y0 - lo) * (x1 - t)) / (x1 - x0)) by (field; exact Hdn).
    assert (N : 0 <= (y1 - lo) * (t - x0) + (y0 - lo) * (x1 - t)).
    { assert (0 <= (y1 - lo) * (t - x0)) by (apply Qmult_le_0_compat; lra).
      assert (0 <= (y0 - lo) * (x1 - t)) by (apply Qmult_le_0_compat; lra). lra. }
    assert (0 <= ((y1 - lo) * (t - x0) + (y0 - lo) * (x1 - t)) / (x1 - x0))
      by (apply Qle_shift_div_l; [exact Hd | lra]).
    lra.
  - assert (E : hi - ((y1 - y0) / (x1 - x0) * (t - x0) + y0)
                == ((hi - y1) * (t - x0) + (hi - y0) * (x1 - t)) / (x1 - x0)) by (field; exact Hdn).
    assert (N : 0 <= (hi - y1) * (t - x0) + (hi - y0) * (x1 - t)).
    { assert (0 <= (hi - y1) * (t - x0)) by (apply Qmult_le_0_compat; lra).
      assert (0 <= (hi - y0) * (x1 - t)) by (apply Qmult_le_0_compat; lra). lra. }
    assert (0 <= ((hi - y1) * (t - x0) + (hi - y0) * (x1 - t)) / (x1 - x0))
      by (apply Qle_shift_div_l; [exact Hd | lra]).
    lra.
Qed.

Lemma last_default_irrelevant (A : Type) (a : A) l d d' : last (a :: l) d = last (a :: l) d'.
Proof. revert a. induction l as [|b l IH]; intros a; [reflexivity|]. cbn [last] in *. apply IH. Qed.

Lemma interp_within lo hi t : forall rest x0 y0,
  knots_increasing x0 rest = true -> values_within lo hi ((x0, y0) :: rest) = true ->
  x0 <= t -> t <= last_x ((x0, y0) :: rest) x0 ->
  lo <= interp_from t x0 y0 rest <= hi.
Proof.
  induction rest as [|[x1 y1] r IH]; intros x0 y0 Hk Hv Ht0 Ht1.
  - cbn in *. rewrite andb_true_r in Hv. apply andb_true_iff in Hv. destruct Hv as [A B].
    apply Qleb_true in A, B. split; assumption.
  - cbn [knots_increasing] in Hk. apply andb_true_iff in Hk. destruct Hk as [Hx Hk]. apply Qltb_true in Hx.
    unfold values_within in Hv. cbn [forallb snd] in Hv.
    apply andb_true_iff in Hv. destruct Hv as [Hy0 Hv].
    assert (Hv' := Hv). apply andb_true_iff in Hv'. destruct Hv' as [Hy1 _].
    apply andb_true_iff in Hy0, Hy1. destruct Hy0 as [A0 B0], Hy1 as [A1 B1].
    apply Qleb_true in A0, B0, A1, B1.
    cbn [interp_from]. destruct r as [|p r'].
    + apply segment_within; try (split; assumption); try assumption.
    + destruct (Qleb_spec t x1) as [Hle|Hgt].
      * apply segment_within; try (split; assumption); assumption.
      * apply IH; [exact Hk | exact Hv | lra |].
        assert (EL : last ((x1, y1) :: p :: r') (x1, 0) = last ((x0, y0) :: (x1, y1) :: p :: r') (x0, 0)).
        { change (last ((x0, y0) :: (x1, y1) :: p :: r') (x0, 0)) with (last ((x1, y1) :: p :: r') (x0, 0)).
          apply last_default_irrelevant. }
        unfold last_x in *. rewrite EL. exact Ht1.
Qed.

Lemma util_eff_on_within lo hi tbl t u :
  table_ok lo hi tbl = true -> util_eff_on tbl t = Some u -> lo <= u <= hi.
Proof.
  destruct tbl as [|[x0 y0] r]; [discriminate|]. cbn [table_ok util_eff_on].
  intros Hok H. apply andb_true_iff in Hok. destruct Hok as [Hk Hv].
  destruct (Qltb t x0 || Qltb (last_x ((x0, y0) :: r) x0) t) eqn:E; [discriminate|].
  apply orb_false_iff in E. destruct E as [E1 E2]. apply Qltb_false in E1, E2.
  inversion H; subst. apply interp_within; assumption.
Qed.

Lemma util_table_ok : table_ok 0 1 util_eff_table = true.
Proof. vm_compute. reflexivity. Qed.

Lemma util_eff_range t u : util_eff t = Some u -> 0 <= u <= 1.
Proof. apply util_eff_on_within. exact util_table_ok. Qed.

(* ------------------------------------------------------------------------------------------ *)
(* the heat cascade                                                                           *)
(* ------------------------------------------------------------------------------------------ *)

Lemma in_range_facts i : in_range i ->
  50 <= i_Tres i /\ (1#10) <= i_Trej i /\ 0 <= i_por i <= 100 /\ 0 <= i_area i /\ 0 <= i_thick i /\
  1 <= i_life i /\ 0 <= i_rhc i /\ 0 <= i_rff i <= 1 /\ 0 <= i_rrh i <= 1.
Proof.
  unfold in_range, in_range_b. intros H.
  repeat (apply andb_true_iff in H; destruct H as [H ?]).
  repeat match goal with X : Qleb _ _ = true |- _ => apply Qleb_true in X end.
  repeat split; assumption.
Qed.

Lemma err_none_facts W i : hip_err W i = None ->
  ~ c_mass_rock i == 0 /\ ~ c_hnet W i == 0 /\ ~ c_stored W i == 0 /\ ~ c_life_s i == 0 /\
  ~ i_area i == 0 /\ ~ c_volume i == 0 /\ exists u, util_eff (i_Tres i) = Some u.
Proof.
  unfold hip_err. intros He.
  destruct (c_fhc_derived i && _); [discriminate|].
  destruct (Qeqb (c_mass_rock i) 0) eqn:E1; [discriminate|].
  destruct (Qeqb (c_hnet W i) 0) eqn:E2; [discriminate|].
  destruct (Qeqb (c_stored W i) 0) eqn:E3; [discriminate|].
  destruct (Qeqb (c_life_s i) 0) eqn:E4; [discriminate|].
  destruct (util_eff (i_Tres i)) as [u|] eqn:E5; [|discriminate].
  destruct (Qeqb (i_area i) 0) eqn:E6; [discriminate|].
  destruct (Qeqb (c_volume i) 0) eqn:E7; [discriminate|].
  apply Qeqb_false in E1, E2, E3, E4, E6, E7.
  repeat split; try assumption. exists u. reflexivity.
Qed.

Lemma cascade_gen W i :
  in_range i -> i_Trej i < i_Tres i -> water_signs W i -> ~ c_mass_rock i == 0 ->
  let o := hip_out W i in
  o_avail o <= o_stored o /\ o_prod o <= o_avail o /\ 0 <= o_prod o /\ 0 <= o_stored o.
Proof.
  intros Hr HT [Hh [Hs [Hx Hd]]] Hm.
  destruct (in_range_facts i Hr) as [_ [HTrej [[Hp0 Hp1] [Ha [Ht [_ [Hrhc [[Hf0 _] [Hrr0 _]]]]]]]]].
  assert (Hhn : ~ c_hnet W i == 0) by lra.
  cbn [hip_out o_avail o_stored o_prod].
  (* stored = rrh*rhc*dT*Vr + hnet*mf0 >= 0 *)
  assert (HVr : 0 <= c_vol_rock i).
  { unfold c_vol_rock, c_volume. apply Qmult_le_0_compat; [apply Qmult_le_0_compat; assumption|].
    assert (i_por i / 100 <= 1) by (apply Qle_shift_div_r; lra). lra. }
  assert (HVf : 0 <= c_vol_fluid i).
  { unfold c_vol_fluid, c_volume. apply Qmult_le_0_compat; [|assumption].
    apply Qmult_le_0_compat; [apply Qmult_le_0_compat; assumption|]. apply Qle_shift_div_l; lra. }
  assert (HdT : 0 <= c_dT i) by (unfold c_dT, c_TrejK, celsius_to_kelvin; lra).
  assert (Hsr : c_stored_rock i == i_rrh i * (i_rhc i * c_dT i * c_vol_rock i)).
  { unfold c_stored_rock, c_enth_rock. set (m := c_mass_rock i) in *. field. exact Hm. }
  assert (Hsr0 : 0 <= c_stored_rock i).
  { rewrite Hsr. apply Qmult_le_0_compat; [assumption|]. apply Qmult_le_0_compat; [|assumption].
    apply Qmult_le_0_compat; assumption. }
  assert (Hmf : 0 <= c_mass_fluid0 W i) by (unfold c_mass_fluid0; apply Qmult_le_0_compat; assumption).
  assert (Hsf0 : 0 <= c_stored_fluid W i) by (unfold c_stored_fluid; apply Qmult_le_0_compat; lra).
  assert (Hst : 0 <= c_stored W i) by (unfold c_stored; lra).
  assert (HK : 0 <= c_TrejK i * c_snet W i).
  { apply Qmult_le_0_compat; [unfold c_TrejK, celsius_to_kelvin; lra | assumption]. }
  (* avail = stored * (exergy / hnet), 0 <= exergy <= hnet *)
  set (S := c_stored W i) in *. set (h := c_hnet W i) in *. set (x := c_exergy W i) in *.
  assert (Hxh : x <= h) by (unfold x, c_exergy; fold h; lra).
  assert (Hq : 0 <= x / h <= 1) by (split; [apply Qle_shift_div_l | apply Qle_shift_div_r]; lra).
  assert (Hav : c_avail W i == S * (x / h)) by (unfold c_avail, c_amount; fold S h x; field; lra).
  set (q := x / h) in *. destruct Hq as [Hq0 Hq1].
  assert (Hav0 : 0 <= S * q) by (apply Qmult_le_0_compat; assumption).
  assert (Hav1 : 0 <= S * (1 - q)) by (apply Qmult_le_0_compat; lra).
  destruct (recoverable_range (i_Tres i)) as [Hr0 Hr1].
  set (r := recoverable_heat (i_Tres i)) in *.
  assert (Hp : c_prod W i == (S * q) * r) by (unfold c_prod; fold r; rewrite Hav; reflexivity).
  assert (HP0 : 0 <= (S * q) * r) by (apply Qmult_le_0_compat; lra).
  assert (HP1 : 0 <= (S * q) * (1 - r)) by (apply Qmult_le_0_compat; lra).
  rewrite Hp, Hav. split; [|split; [|split]]; lra.
Qed.

Lemma cascade W i :
  in_range i -> i_Trej i < i_Tres i -> water_signs W i -> hip_err W i = None ->
  let o := hip_out W i in
  o_avail o <= o_stored o /\ o_prod o <= o_avail o /\ 0 <= o_prod o /\ 0 <= o_stored o.
Proof.
  intros Hr HT Hw He. destruct (err_none_facts W i He) as [Hm _]. exact (cascade_gen W i Hr HT Hw Hm).
Qed.

(* the unrestricted clause fails: reservoir colder than the rejection temperature (both in range).
   Witness: Tres 60 C, Trej 100 C, the other inputs of tests/hip_ra_x_tests/examples/HIP-RA-X_example1.txt, water
   properties = CoolProp at 14.71 MPa to 6 digits.  stored = -1.17e15 kJ, available = +6.7e13 kJ. *)
Definition refuting_input : hin :=
  {| i_Tres := 60; i_Trej := 100; i_por := 10; i_area := 55; i_thick := 1#4; i_life := 25;
     i_rhc := 2840000000000#1; i_fhc := -1#1; i_fdens := -1#1; i_rdens := 2550000000000#1; i_rff := 1#2; i_rrh := 3#4;
     i_depth_given := false; i_depth := -1#1; i_pres_given := false; i_pres := -1#1;
     i_fdens_min := 100000000000#1; i_fhc_min := 3 |}.
Definition refuting_water : water :=
  water_of_data 60 (989481#1000) (415382#100) (263495#1000) (430170#1000) (823551#1000000) (1295994#1000000).

Lemma cascade_refuted :
  exists W i, in_range i /\ hip_err W i = None /\ i_Tres i < i_Trej i /\
              w_h W (i_Tres i) (c_pres i) < w_h W (i_Trej i) (c_pres i) /\
              w_s W (i_Tres i) (c_pres i) < w_s W (i_Trej i) (c_pres i) /\
              0 <= c_exergy W i /\
              o_stored (hip_out W i) < 0 /\ 0 < o_avail (hip_out W i).
Proof.
  exists refuting_water, refuting_input.
  split; [vm_compute; reflexivity|]. split; [vm_compute; reflexivity|].
  repeat split; vm_compute; (reflexivity || discriminate).
Qed.

(* electric energy over the life cycle never exceeds the available heat *)
Lemma electricity_bounded W i :
  hip_err W i = None -> 0 <= o_avail (hip_out W i) -> 0 < i_life i ->
  0 <= o_elec (hip_out W i) /\ o_elec (hip_out W i) * 1000 * c_life_s i <= o_avail (hip_out W i).
Proof.
  intros He Hav Hlife. destruct (err_none_facts W i He) as [_ [_ [_ [Hl [_ [_ [u Hu]]]]]]].
  cbn [hip_out o_elec o_avail] in *. unfold c_elec, c_maxpow_kW, c_util. rewrite Hu.
  destruct (util_eff_range _ _ Hu) as [Hu0 Hu1].
  assert (HL : 0 < c_life_s i) by (unfold c_life_s; lra).
  set (A := c_avail W i) in *. set (L := c_life_s i) in *.
  assert (E : u * (A / L) / 1000 * 1000 * L == u * A) by (field; exact Hl).
  assert (0 <= u * A) by (apply Qmult_le_0_compat; assumption).
  assert (0 <= (1 - u) * A) by (apply Qmult_le_0_compat; lra).
  split; [|rewrite E; lra].
  assert (0 <= A / L) by (apply Qle_shift_div_l; lra).
  assert (0 <= u * (A / L)) by (apply Qmult_le_0_compat; assumption).
  apply Qle_shift_div_l; lra.
Qed.

(* ------------------------------------------------------------------------------------------ *)
(* homogeneity in area and thickness                                                          *)
(* ------------------------------------------------------------------------------------------ *)

(* i' = i with area a and thickness t; the volume is multiplied by k <> 0 *)
Section Scaling.
Variable W : water.
Variable i : hin.
Variables a t k : Q.
Let i' := with_thick t (with_area a i).
Hypothesis Hk : ~ k == 0.
Hypothesis HV : a * t == k * (i_area i * i_thick i).

Lemma s_volume : c_volume i' == k * c_volume i.
Proof. unfold c_volume. cbn. exact HV. Qed.
Lemma s_vol_rock : c_vol_rock i' == k * c_vol_rock i.
Proof. unfold c_vol_rock. rewrite s_volume. cbn. ring. Qed.
Lemma s_vol_fluid : c_vol_fluid i' == k * c_vol_fluid i.
Proof. unfold c_vol_fluid. rewrite s_volume. cbn. ring. Qed.
Lemma s_depth : c_depth i' = c_depth i. Proof. reflexivity. Qed.
Lemma s_pres : c_pres i' = c_pres i. Proof. reflexivity. Qed.
Lemma s_fdens : c_fdens W i' = c_fdens W i. Proof. reflexivity. Qed.
Lemma s_fhc : c_fhc W i' = c_fhc W i. Proof. reflexivity. Qed.
Lemma s_hnet : c_hnet W i' = c_hnet W i. Proof. reflexivity. Qed.
Lemma s_exergy : c_exergy W i' = c_exergy W i. Proof. reflexivity. Qed.
Lemma s_dT : c_dT i' = c_dT i. Proof. reflexivity. Qed.
Lemma s_life : c_life_s i' = c_life_s i. Proof. reflexivity. Qed.
Lemma s_util : c_util i' = c_util i. Proof. reflexivity. Qed.
Lemma s_mass_rock : c_mass_rock i' == k * c_mass_rock i.
Proof. unfold c_mass_rock. rewrite s_vol_rock. cbn. ring. Qed.
Lemma s_mass_fluid0 : c_mass_fluid0 W i' == k * c_mass_fluid0 W i.
Proof. unfold c_mass_fluid0. rewrite s_vol_fluid, s_fdens. ring. Qed.
Lemma s_mass_total : c_mass_total W i' == k * c_mass_total W i.
Proof. unfold c_mass_total. rewrite s_mass_rock, s_mass_fluid0. ring. Qed.

Lemma s_enth_rock : ~ c_mass_rock i == 0 -> c_enth_rock i' == c_enth_rock i.
Proof.
  intros Hm. unfold c_enth_rock. rewrite s_vol_rock, s_mass_rock, s_dT.
  change (i_rhc i') with (i_rhc i). set (m := c_mass_rock i) in *. field. split; assumption.
Qed.
Lemma s_stored_rock : ~ c_mass_rock i == 0 -> c_stored_rock i' == k * c_stored_rock i.
Proof.
  intros Hm. unfold c_stored_rock. rewrite (s_enth_rock Hm), s_mass_rock.
  change (i_rrh i') with (i_rrh i). ring.
Qed.
Lemma s_stored_fluid : c_stored_fluid W i' == k * c_stored_fluid W i.
Proof. unfold c_stored_fluid. rewrite s_mass_fluid0, s_hnet. ring. Qed.
Lemma s_stored : ~ c_mass_rock i == 0 -> c_stored W i' == k * c_stored W i.
Proof. intros Hm. unfold c_stored. rewrite (s_stored_rock Hm), s_stored_fluid. ring. Qed.
Lemma s_amount : ~ c_mass_rock i == 0 -> c_amount W i' == k * c_amount W i.
Proof. intros Hm. unfold c_amount. rewrite (s_stored Hm), s_hnet. unfold Qdiv. ring. Qed.
Lemma s_avail : ~ c_mass_rock i == 0 -> c_avail W i' == k * c_avail W i.
Proof. intros Hm. unfold c_avail. rewrite (s_amount Hm), s_exergy. ring. Qed.
Lemma s_prod : ~ c_mass_rock i == 0 -> c_prod W i' == k * c_prod W i.
Proof.
  intros Hm. unfold c_prod. rewrite (s_avail Hm). change (i_Tres i') with (i_Tres i). ring.
Qed.
Lemma s_recovery : ~ c_mass_rock i == 0 -> ~ c_stored W i == 0 -> c_recovery W i' == c_recovery W i.
Proof.
  intros Hm Hs. unfold c_recovery. rewrite (s_prod Hm), (s_stored Hm).
  set (S := c_stored W i) in *. field. split; assumption.
Qed.
Lemma s_elec : ~ c_mass_rock i == 0 -> c_elec W i' == k * c_elec W i.
Proof.
  intros Hm. unfold c_elec, c_maxpow_kW. rewrite (s_avail Hm), s_life, s_util. unfold Qdiv. ring.
Qed.

Lemma s_err : Qeqb (i_area i') 0 = Qeqb (i_area i) 0 -> hip_err W i' = hip_err W i.
Proof.
  intros Ha. unfold hip_err.
  change (c_fhc_derived i') with (c_fhc_derived i). change (i_Tres i') with (i_Tres i).
  destruct (c_fhc_derived i && _); [reflexivity|].
  rewrite (Qeqb_scale0 k _ _ Hk s_mass_rock).
  destruct (Qeqb (c_mass_rock i) 0) eqn:Em; [reflexivity|]. apply Qeqb_false in Em.
  rewrite s_hnet. destruct (Qeqb (c_hnet W i) 0); [reflexivity|].
  rewrite (Qeqb_scale0 k _ _ Hk (s_stored Em)). destruct (Qeqb (c_stored W i) 0); [reflexivity|].
  rewrite s_life. destruct (Qeqb (c_life_s i) 0); [reflexivity|].
  destruct (util_eff (i_Tres i)); [|reflexivity].
  rewrite Ha. destruct (Qeqb (i_area i) 0); [reflexivity|].
  rewrite (Qeqb_scale0 k _ _ Hk s_volume). reflexivity.
Qed.
End Scaling.

Lemma area_homogeneous W i k : ~ k == 0 ->
  let i' := with_area (k * i_area i) i in
  hip_err W i' = hip_err W i /\
  (hip_err W i = None -> scaled k false (hip_out W i) (hip_out W i')).
Proof.
  intros Hk i'.
  assert (HV : (k * i_area i) * i_thick i == k * (i_area i * i_thick i)) by ring.
  assert (Ha : Qeqb (i_area (with_thick (i_thick i) (with_area (k * i_area i) i))) 0 = Qeqb (i_area i) 0).
  { cbn. apply (Qeqb_scale0 k); [exact Hk | reflexivity]. }
  split.
  - exact (s_err W i (k * i_area i) (i_thick i) k Hk HV Ha).
  - intros He. destruct (err_none_facts W i He) as [Hm [_ [Hs [_ [Har [Hvol _]]]]]].
    pose proof (s_volume i _ _ k HV) as E0. pose proof (s_vol_rock i _ _ k HV) as E1.
    pose proof (s_vol_fluid i _ _ k HV) as E2. pose proof (s_mass_rock i _ _ k HV) as E3.
    pose proof (s_amount W i _ _ k Hk HV Hm) as E4. pose proof (s_mass_total W i _ _ k HV) as E5.
    pose proof (s_stored_rock i _ _ k Hk HV Hm) as E6. pose proof (s_stored_fluid W i _ _ k HV) as E7.
    pose proof (s_stored W i _ _ k Hk HV Hm) as E8. pose proof (s_avail W i _ _ k Hk HV Hm) as E9.
    pose proof (s_prod W i _ _ k Hk HV Hm) as E10. pose proof (s_elec W i _ _ k Hk HV Hm) as E11.
    pose proof (s_recovery W i _ _ k Hk HV Hm Hs) as E12. pose proof (s_enth_rock i _ _ k Hk HV Hm) as E13.
    change (scaled k false (hip_out W i) (hip_out W (with_thick (i_thick i) (with_area (k * i_area i) i)))).
    set (j := with_thick (i_thick i) (with_area (k * i_area i) i)) in *.
    constructor; cbn [hip_out o_volume o_vol_rock o_vol_fluid o_mass_rock o_mass_fluid o_mass_total o_stored_rock
                      o_stored_fluid o_stored o_avail o_prod o_elec o_elec_area o_heat_area o_elec_area_fluid
                      o_elec_vol o_heat_vol o_recovery o_enth_rock o_enth_fluid o_enth_res o_depth o_pres o_fdens o_fhc];
      try assumption; try reflexivity.
    + change (c_elec W j / (k * i_area i) == 1 * (c_elec W i / i_area i)). rewrite E11. field. split; assumption.
    + change (c_prod W j / (k * i_area i) == 1 * (c_prod W i / i_area i)). rewrite E10. field. split; assumption.
    + rewrite E11, E0. field. split; assumption.
    + rewrite E10, E0. field. split; assumption.
    + change (c_enth_rock j + c_exergy W i == c_enth_rock i + c_exergy W i). rewrite E13. reflexivity.
Qed.

Lemma thickness_homogeneous W i k : ~ k == 0 ->
  let i' := with_thick (k * i_thick i) i in
  hip_err W i' = hip_err W i /\
  (hip_err W i = None -> scaled k true (hip_out W i) (hip_out W i')).
Proof.
  intros Hk i'.
  assert (HV : i_area i * (k * i_thick i) == k * (i_area i * i_thick i)) by ring.
  assert (Ha : Qeqb (i_area (with_thick (k * i_thick i) (with_area (i_area i) i))) 0 = Qeqb (i_area i) 0) by reflexivity.
  split.
  - exact (s_err W i (i_area i) (k * i_thick i) k Hk HV Ha).
  - intros He. destruct (err_none_facts W i He) as [Hm [_ [Hs [_ [Har [Hvol _]]]]]].
    pose proof (s_volume i _ _ k HV) as E0. pose proof (s_vol_rock i _ _ k HV) as E1.
    pose proof (s_vol_fluid i _ _ k HV) as E2. pose proof (s_mass_rock i _ _ k HV) as E3.
    pose proof (s_amount W i _ _ k Hk HV Hm) as E4. pose proof (s_mass_total W i _ _ k HV) as E5.
    pose proof (s_stored_rock i _ _ k Hk HV Hm) as E6. pose proof (s_stored_fluid W i _ _ k HV) as E7.
    pose proof (s_stored W i _ _ k Hk HV Hm) as E8. pose proof (s_avail W i _ _ k Hk HV Hm) as E9.
    pose proof (s_prod W i _ _ k Hk HV Hm) as E10. pose proof (s_elec W i _ _ k Hk HV Hm) as E11.
    pose proof (s_recovery W i _ _ k Hk HV Hm Hs) as E12. pose proof (s_enth_rock i _ _ k Hk HV Hm) as E13.
    change (scaled k true (hip_out W i) (hip_out W (with_thick (k * i_thick i) (with_area (i_area i) i)))).
    set (j := with_thick (k * i_thick i) (with_area (i_area i) i)) in *.
    constructor; cbn [hip_out o_volume o_vol_rock o_vol_fluid o_mass_rock o_mass_fluid o_mass_total o_stored_rock
                      o_stored_fluid o_stored o_avail o_prod o_elec o_elec_area o_heat_area o_elec_area_fluid
                      o_elec_vol o_heat_vol o_recovery o_enth_rock o_enth_fluid o_enth_res o_depth o_pres o_fdens o_fhc];
      try assumption; try reflexivity.
    + change (c_elec W j / i_area i == k * (c_elec W i / i_area i)). rewrite E11. unfold Qdiv. ring.
    + change (c_prod W j / i_area i == k * (c_prod W i / i_area i)). rewrite E10. unfold Qdiv. ring.
    + change (0 / i_area i == k * (0 / i_area i)). unfold Qdiv. ring.
    + rewrite E11, E0. field. split; assumption.
    + rewrite E10, E0. field. split; assumption.
    + change (c_enth_rock j + c_exergy W i == c_enth_rock i + c_exergy W i). rewrite E13. reflexivity.
Qed.

(* ------------------------------------------------------------------------------------------ *)
(* units                                                                                      *)
(* ------------------------------------------------------------------------------------------ *)

Lemma read_write f o x : ~ f == 0 -> read_value f o (write_value f o x) = read_value 1 0 x.
Proof.
  intros Hf. unfold read_value, write_value. apply Qred_complete. field. exact Hf.
Qed.

Lemma read_value_eq f o v : read_value f o v == f * v + o.
Proof. unfold read_value. apply Qred_correct. Qed.

Lemma unit_table_ok : forallb unit_row_ok hip_unit_table = true.
Proof. vm_compute. reflexivity. Qed.

Lemma units_same_results name unit f o :
  In (name, unit, f, o) hip_unit_table ->
  forall W i x,
    hip_calc_reading W name f o (write_value f o x) i = hip_calc_reading W name 1 0 x i /\
    exists r, hip_calc_reading W name 1 0 x i = Some r.
Proof.
  intros Hin W i x.
  pose proof (proj1 (forallb_forall _ _) unit_table_ok _ Hin) as Hok. cbn [unit_row_ok] in Hok.
  apply andb_true_iff in Hok. destruct Hok as [Hf Hn].
  apply negb_true_iff in Hf. apply Qeqb_false in Hf.
  unfold hip_calc_reading, set_param.
  destruct (param_index name) as [n|]; [|discriminate].
  rewrite (read_write f o x Hf). split; [reflexivity|]. eexists. reflexivity.
Qed.

(* ------------------------------------------------------------------------------------------ *)
(* the checkers evaluated on implementation outputs mean what they say                        *)
(* ------------------------------------------------------------------------------------------ *)

Lemma close_within tol a b : close tol a b = true -> within tol a b.
Proof. unfold close, within. apply Qle_bool_iff. Qed.

Lemma le_tol_sound tol a b : le_tol tol a b = true -> a <= b + tol * Qmax3 1 (Qabs a) (Qabs b).
Proof. unfold le_tol. apply Qle_bool_iff. Qed.

Lemma chk_scaled_sound tol k : forall mask base scaled',
  chk_scaled tol k mask base scaled' = true ->
  List.length base = List.length mask /\ List.length scaled' = List.length mask /\
  forall j, (j < List.length mask)%nat ->
    within tol (nth j scaled' 0) (if nth j mask false then k * nth j base 0 else nth j base 0).
Proof.
  induction mask as [|m mr IH]; intros base sc H.
  - destruct base, sc; try discriminate. repeat split; try reflexivity. intros j Hj. inversion Hj.
  - destruct base as [|b br], sc as [|s sr]; try discriminate.
    cbn [chk_scaled] in H. apply andb_true_iff in H. destruct H as [H1 H2].
    destruct (IH _ _ H2) as [L1 [L2 Hn]]. cbn [List.length]. repeat split; try congruence.
    intros [|j] Hj; cbn [nth].
    + apply close_within. exact H1.
    + apply Hn. lia.
Qed.

Lemma chk_clauses_sound tol por area thick rff o :
  (chk_volume tol area thick o = true -> within tol (nth 0 o 0) (area * thick)) /\
  (chk_vol_rock tol por o = true -> within tol (nth 1 o 0) (nth 0 o 0 * (1 - por / 100))) /\
  (chk_vol_fluid tol por rff o = true -> within tol (nth 2 o 0) (nth 0 o 0 * (por / 100) * rff)) /\
  (chk_stored_sum tol o = true -> within tol (nth 15 o 0) (nth 13 o 0 + nth 14 o 0)) /\
  (chk_avail_le_stored tol o = true ->
     nth 16 o 0 <= nth 15 o 0 + tol * Qmax3 1 (Qabs (nth 16 o 0)) (Qabs (nth 15 o 0))) /\
  (chk_prod_le_avail tol o = true ->
     nth 17 o 0 <= nth 16 o 0 + tol * Qmax3 1 (Qabs (nth 17 o 0)) (Qabs (nth 16 o 0))).
Proof.
  repeat split; intros H; first [apply close_within; exact H | apply le_tol_sound; exact H].
Qed.

(* the positions the checkers read are the named results *)
Lemma hout_positions o :
  nth 0 (hout_list o) 0 = o_volume o /\ nth 1 (hout_list o) 0 = o_vol_rock o /\ nth 2 (hout_list o) 0 = o_vol_fluid o /\
  nth 13 (hout_list o) 0 = o_stored_rock o /\ nth 14 (hout_list o) 0 = o_stored_fluid o /\
  nth 15 (hout_list o) 0 = o_stored o /\ nth 16 (hout_list o) 0 = o_avail o /\ nth 17 (hout_list o) 0 = o_prod o /\
  List.length (hout_list o) = List.length area_mask /\ List.length (hout_list o) = List.length thick_mask.
Proof. repeat split; reflexivity. Qed.
