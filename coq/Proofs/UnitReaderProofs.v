(* Proofs/UnitReaderProofs.v - lemmas about Model/UnitReader.v (C06) *)
From Coq Require Import QArith Qabs Qround List ZArith Bool String Ascii Lia Lqa.
From Verif Require Import Base.Flat Proofs.FlatFacts Model.UnitAlg Proofs.UnitAlgProofs Model.UnitReader.
Import ListNotations.
Open Scope string_scope.
Open Scope Q_scope.

(* ------------------------------------------------------------------------------------------------------------ *)
(* vocabulary of the statements                                                                                  *)
(* ------------------------------------------------------------------------------------------------------------ *)

(* one long registry name, one meaning *)
Definition table_wf (T : tables) : Prop :=
  forall s1 s2 p1 p2, t_parse T s1 = Some p1 -> t_parse T s2 = Some p2 ->
                      pu_canon p1 = pu_canon p2 -> pu_same p1 p2 = true.

(* the pair (value, remembered unit) denotes the quantity q (q in registry base units) *)
Definition denotes (T : tables) (cur : uref) (v q : Q) : Prop :=
  exists c, parse_uref T cur = Some c /\ to_base c v == q.

(* the conditional restore of ConvertUnits succeeds and restores exactly the text [c]:
   LookupUnits recognises the long name pint reports for the unit the value was converted to *)
Definition restores (T : tables) (c : string) (o : punit) : Prop :=
  exists b, t_lookup T (pu_canon o) = LItem c b.

(* equality of reader results up to == on the value *)
Definition state_equiv (a b : pstate) : Prop :=
  p_value a == p_value b /\ p_cur a = p_cur b /\ p_provided a = p_provided b.
Definition rres_equiv (a b : rres pstate) : Prop :=
  match a, b with
  | ROk x, ROk y => state_equiv x y
  | RErr c, RErr d => c = d
  | _, _ => False
  end.

(* ------------------------------------------------------------------------------------------------------------ *)
(* LookupUnits                                                                                                    *)
(* ------------------------------------------------------------------------------------------------------------ *)

Lemma lookup_units_catalogue scan sym fuel s c :
  scan_find s scan = Some c -> lookup_units scan sym fuel s = LItem s c.
Proof. intros H. destruct fuel; cbn [lookup_units]; rewrite H; reflexivity. Qed.

(* whatever LookupUnits returns is a member of the catalogue (for every symbol table and recursion depth) *)
Lemma lookup_units_item scan sym : forall fuel s t c,
  lookup_units scan sym fuel s = LItem t c -> scan_find t scan = Some c.
Proof.
  induction fuel as [|f IH]; intros s t c H; cbn [lookup_units] in H.
  - destruct (scan_find s scan) eqn:E; [|discriminate]. inversion H; subst. exact E.
  - destruct (scan_find s scan) eqn:E.
    + inversion H; subst. exact E.
    + destruct (assoc_str s sym) as [[y|]|]; try discriminate.
      destruct (String.eqb y s); [discriminate|]. eapply IH. exact H.
Qed.

(* ------------------------------------------------------------------------------------------------------------ *)
(* ConvertUnits, pint branch                                                                                      *)
(* ------------------------------------------------------------------------------------------------------------ *)

Lemma String_eqb_true a b : String.eqb a b = true -> a = b.
Proof. apply String.eqb_eq. Qed.

(* When the restore succeeds (or the units were the same to begin with) the value is the user's value converted to
   the unit the parameter was in, the remembered unit is again that unit, and the pair denotes what the user wrote. *)
Lemma convert_units_pint_sound T c u x o n v cur' :
  table_wf T ->
  t_parse T c = Some o -> t_parse T u = Some n -> ~ pu_fac o == 0 ->
  (pu_canon o = pu_canon n \/ restores T c o) ->
  convert_units_pint T (UEnum c) x u = ROk (v, cur') ->
  v == convert n o x /\ cur' = UEnum c /\ denotes T cur' v (to_base n x).
Proof.
  intros WF Po Pn Ho Hres H. unfold convert_units_pint in H. rewrite Po, Pn in H.
  destruct (String.eqb (pu_canon o) (pu_canon n)) eqn:Ec.
  - inversion H; subst v cur'. apply String_eqb_true in Ec.
    pose proof (WF _ _ _ _ Po Pn Ec) as S.
    split; [|split].
    + rewrite <- (convert_same_source o n o x S). symmetry. apply convert_id. exact Ho.
    + reflexivity.
    + exists o. split. cbn. exact Po. apply to_base_same. exact S.
  - destruct Hres as [Hc|[b Hl]].
    + rewrite Hc, String.eqb_refl in Ec. discriminate.
    + destruct (t_lookup T u) eqn:L1; try discriminate;
      (destruct (negb (same_dim o n)); [discriminate|]);
      rewrite Hl in H; inversion H; subst v cur';
      (split; [reflexivity|split; [reflexivity|]]);
      exists o; (split; [cbn; exact Po|apply convert_denote; exact Ho]).
Qed.

(* it does not raise when both lookups do not raise and the dimensions agree *)
Lemma convert_units_pint_total T c u x o n :
  t_parse T c = Some o -> t_parse T u = Some n -> same_dim o n = true ->
  (pu_canon o = pu_canon n \/ (t_lookup T u <> LRaise /\ t_lookup T (pu_canon o) <> LRaise)) ->
  exists r, convert_units_pint T (UEnum c) x u = ROk r.
Proof.
  intros Po Pn D H. unfold convert_units_pint. rewrite Po, Pn.
  destruct (String.eqb (pu_canon o) (pu_canon n)) eqn:Ec; [eexists; reflexivity|].
  destruct H as [Hc|[L1 L2]].
  - rewrite Hc, String.eqb_refl in Ec. discriminate.
  - rewrite D. cbn [negb].
    destruct (t_lookup T u); try congruence;
    destruct (t_lookup T (pu_canon o)); try congruence; eexists; reflexivity.
Qed.

(* without the restore the remembered unit is what LookupUnits made of the user's text: value right, unit stale *)
Lemma convert_units_pint_stale T c u x o n s b :
  t_parse T c = Some o -> t_parse T u = Some n -> pu_canon o <> pu_canon n -> same_dim o n = true ->
  t_lookup T u = LItem s b -> t_lookup T (pu_canon o) = LNone ->
  convert_units_pint T (UEnum c) x u = ROk (convert n o x, UEnum s).
Proof.
  intros Po Pn Hc D L1 L2. unfold convert_units_pint. rewrite Po, Pn.
  destruct (String.eqb (pu_canon o) (pu_canon n)) eqn:Ec; [apply String_eqb_true in Ec; contradiction|].
  rewrite L1, D, L2. reflexivity.
Qed.

(* ------------------------------------------------------------------------------------------------------------ *)
(* ReadParameter: compatibility of the validation step with ==, and "any unit == the default unit"               *)
(* ------------------------------------------------------------------------------------------------------------ *)

Lemma Qeq_bool_compat a b c : a == b -> Qeq_bool a c = Qeq_bool b c.
Proof.
  intros E. destruct (Qeq_bool a c) eqn:A; destruct (Qeq_bool b c) eqn:B; try reflexivity.
  - apply Qeq_bool_iff in A. assert (X : b == c) by (rewrite <- E; exact A). apply Qeq_bool_iff in X. congruence.
  - apply Qeq_bool_iff in B. assert (X : a == c) by (rewrite E; exact B). apply Qeq_bool_iff in X. congruence.
Qed.

Lemma Qle_bool_compat a b c d : a == b -> c == d -> Qle_bool a c = Qle_bool b d.
Proof.
  intros E F. destruct (Qle_bool a c) eqn:A; destruct (Qle_bool b d) eqn:B; try reflexivity.
  - apply Qle_bool_iff in A. assert (X : b <= d) by (rewrite <- E, <- F; exact A). apply Qle_bool_iff in X. congruence.
  - apply Qle_bool_iff in B. assert (X : a <= c) by (rewrite E, F; exact B). apply Qle_bool_iff in X. congruence.
Qed.

Lemma Qltb_compat a b c d : a == b -> c == d -> Qltb a c = Qltb b d.
Proof. intros E F. unfold Qltb. rewrite (Qle_bool_compat c d a b F E). reflexivity. Qed.

Lemma Qtrunc_compat a b : a == b -> Qtrunc a = Qtrunc b.
Proof.
  intros E. unfold Qtrunc. rewrite (Qle_bool_compat 0 0 a b (Qeq_refl 0) E).
  destruct (Qle_bool 0 b).
  - apply Qfloor_comp. exact E.
  - apply Qceiling_comp. exact E.
Qed.

Lemma accept_compat sp st v w cur : v == w -> rres_equiv (accept sp st v cur) (accept sp st w cur).
Proof.
  intros E. unfold accept. destruct (s_kind sp).
  - rewrite (Qeq_bool_compat v w (s_default sp) E), (Qeq_bool_compat v w (p_value st) E).
    rewrite (Qltb_compat v w (s_min sp) (s_min sp) E (Qeq_refl _)).
    rewrite (Qltb_compat (s_max sp) (s_max sp) v w (Qeq_refl _) E).
    destruct (Qeq_bool w (p_value st)).
    + cbn. unfold state_equiv; cbn. repeat split; reflexivity.
    + destruct (Qltb w (s_min sp) || Qltb (s_max sp) w); cbn; [reflexivity|].
      unfold state_equiv; cbn. repeat split; try reflexivity. exact E.
  - rewrite (Qtrunc_compat v w E).
    destruct (Qeq_bool (inject_Z (Qtrunc w)) (s_default sp)); [cbn; unfold state_equiv; cbn; repeat split; reflexivity|].
    destruct (Qeq_bool (inject_Z (Qtrunc w)) (p_value st)); [cbn; unfold state_equiv; cbn; repeat split; reflexivity|].
    destruct (negb (existsb (Z.eqb (Qtrunc w)) (s_allow sp))); cbn; [reflexivity|].
    unfold state_equiv; cbn. repeat split; reflexivity.
Qed.

(* THE reader-level statement of the property: writing "x u" has exactly the effect of writing the equivalent
   value y in the unit the parameter is held in (same value up to ==, same remembered unit, same flags, same error) *)
Lemma read_any_unit_as_default T sp st c u x y o n :
  table_wf T -> s_currency sp = false -> p_cur st = UEnum c ->
  t_parse T c = Some o -> t_parse T u = Some n -> ~ pu_fac o == 0 -> same_dim o n = true ->
  (pu_canon o = pu_canon n \/ (restores T c o /\ t_lookup T u <> LRaise)) ->
  y == convert n o x ->
  rres_equiv (read_param T sp st x (Some u)) (read_param T sp st y None).
Proof.
  intros WF Hc Hcur Po Pn Ho D Hres Hy.
  unfold read_param, convert_units. rewrite Hc, Hcur.
  assert (Htot : exists r, convert_units_pint T (UEnum c) x u = ROk r).
  { apply (convert_units_pint_total T c u x o n Po Pn D).
    destruct Hres as [E|[[b R] L]]; [left; exact E|right]. split; [exact L|]. rewrite R. discriminate. }
  destruct Htot as [[v cur'] Hr]. rewrite Hr.
  assert (Hres' : pu_canon o = pu_canon n \/ restores T c o) by (destruct Hres as [E|[R _]]; auto).
  destruct (convert_units_pint_sound T c u x o n v cur' WF Po Pn Ho Hres' Hr) as [Hv [Hcu _]].
  subst cur'. apply accept_compat. rewrite Hv, Hy. reflexivity.
Qed.

(* and the state it leaves denotes the quantity the user wrote (when the entry is accepted as a new float value) *)
Lemma read_denotes T sp st c u x o n st' :
  table_wf T -> s_currency sp = false -> s_kind sp = KFloat -> p_cur st = UEnum c ->
  t_parse T c = Some o -> t_parse T u = Some n -> ~ pu_fac o == 0 ->
  (pu_canon o = pu_canon n \/ restores T c o) ->
  read_param T sp st x (Some u) = ROk st' ->
  ~ convert n o x == p_value st ->
  p_value st' == convert n o x /\ p_cur st' = UEnum c /\ denotes T (p_cur st') (p_value st') (to_base n x).
Proof.
  intros WF Hc Hk Hcur Po Pn Ho Hres H Hne.
  unfold read_param, convert_units in H. rewrite Hc, Hcur in H.
  destruct (convert_units_pint T (UEnum c) x u) as [[v cur']|] eqn:Hr; [|discriminate].
  destruct (convert_units_pint_sound T c u x o n v cur' WF Po Pn Ho Hres Hr) as [Hv [Hcu [c' [Pc Hd]]]].
  unfold accept in H. rewrite Hk in H.
  destruct (Qeq_bool v (p_value st)) eqn:Eq.
  - apply Qeq_bool_iff in Eq. exfalso. apply Hne. rewrite <- Hv. exact Eq.
  - destruct (Qltb v (s_min sp) || Qltb (s_max sp) v); [discriminate|].
    inversion H; subst st'; cbn. split; [exact Hv|]. split; [exact Hcu|]. exists c'. split; assumption.
Qed.

(* ------------------------------------------------------------------------------------------------------------ *)
(* the echo: Outputs._convert_units / ConvertUnitsBack                                                            *)
(* ------------------------------------------------------------------------------------------------------------ *)

Lemma units_match_enum pref cur : units_match pref cur = true -> exists s, (cur = UEnum s \/ cur = UStr s) /\ pref = s.
Proof.
  destruct cur as [s|s|]; cbn; intros H; try discriminate; apply String_eqb_true in H; exists s; auto.
Qed.

(* if the state denotes q, the echoed pair denotes q *)
Lemma echo_denotes T sp st q p :
  denotes T (p_cur st) (p_value st) q ->
  t_parse T (s_pref sp) = Some p -> ~ pu_fac p == 0 ->
  (forall c, parse_uref T (p_cur st) = Some c -> same_dim c p = true) ->
  exists st', echo_state T sp st = ROk st' /\ denotes T (p_cur st') (p_value st') q.
Proof.
  intros [c [Pc Hq]] Pp Hp Hd. unfold echo_state.
  destruct (units_match (s_pref sp) (p_cur st)) eqn:M.
  - exists st. split; [reflexivity|]. exists c. split; assumption.
  - unfold convert_units_back. rewrite Pc, Pp, (Hd c Pc).
    eexists. split; [reflexivity|]. cbn. exists p. split; [exact Pp|].
    rewrite convert_denote by exact Hp. exact Hq.
Qed.

(* ------------------------------------------------------------------------------------------------------------ *)
(* output units                                                                                                   *)
(* ------------------------------------------------------------------------------------------------------------ *)

Lemma convert_output_units_sound T o c nu ncur a b :
  o_cur o = UEnum c -> t_parse T c = Some a -> t_parse T nu = Some b -> same_dim a b = true ->
  convert_output_units T o (LItem nu ncur) = ROk (mkO (map (convert a b) (o_vals o)) (UEnum nu) (o_pref o)).
Proof. intros Hc Pa Pb D. unfold convert_output_units. rewrite Hc, Pa, Pb, D. reflexivity. Qed.

(* every element, for every series length: same quantity, and for offset-free units exactly the conversion factor *)
Lemma map_convert_nth a b : forall (l : list Q) i, (i < List.length l)%nat ->
  nth i (map (convert a b) l) 0 = convert a b (nth i l 0).
Proof.
  induction l as [|x r IH]; intros i Hi; cbn in *; [lia|]. destruct i; [reflexivity|]. apply IH. lia.
Qed.

Lemma output_factor a b l i :
  (i < List.length l)%nat -> ~ pu_fac b == 0 ->
  to_base b (nth i (map (convert a b) l) 0) == to_base a (nth i l 0) /\
  (linear a = true -> linear b = true -> nth i (map (convert a b) l) 0 == nth i l 0 * conv_factor a b).
Proof.
  intros Hi Hb. rewrite (map_convert_nth a b l i Hi). split.
  - apply convert_denote. exact Hb.
  - intros La Lb. apply convert_linear; [apply linear_true; exact La|apply linear_true; exact Lb|exact Hb].
Qed.

(* the dictionary loop: same keys in the same order; an output that is not requested and is in its preferred unit
   is not touched - for every dictionary length *)
Lemma convert_outputs_keys T reqs : forall outs r,
  convert_outputs T reqs outs = ROk r -> map fst r = map fst outs.
Proof.
  induction outs as [|[k o] rest IH]; intros r H; cbn [convert_outputs] in H.
  - inversion H. reflexivity.
  - destruct (output_step T (assoc_str k reqs) o) as [o'|]; [|discriminate].
    destruct (convert_outputs T reqs rest) as [r'|] eqn:E; [|discriminate].
    inversion H; subst r. cbn. f_equal. apply IH. reflexivity.
Qed.

Lemma convert_outputs_frame T reqs : forall outs r k o,
  convert_outputs T reqs outs = ROk r -> In (k, o) outs ->
  assoc_str k reqs = None -> units_match (o_pref o) (o_cur o) = true -> In (k, o) r.
Proof.
  induction outs as [|[k0 o0] rest IH]; intros r k o H Hin Hreq Hm; cbn [convert_outputs] in H.
  - destruct Hin.
  - destruct (output_step T (assoc_str k0 reqs) o0) as [o'|] eqn:Es; [|discriminate].
    destruct (convert_outputs T reqs rest) as [r'|] eqn:E; [|discriminate].
    inversion H; subst r. destruct Hin as [Heq|Hin].
    + inversion Heq; subst k0 o0. unfold output_step in Es. rewrite Hreq, Hm in Es. inversion Es; subst o'. left. reflexivity.
    + right. eapply IH; eauto.
Qed.

(* a requested output: converted by [convert], relabelled with the requested unit *)
Lemma output_step_requested T o c nu ncur a b :
  o_cur o = UEnum c -> String.eqb nu c = false ->
  t_parse T c = Some a -> t_parse T nu = Some b -> same_dim a b = true ->
  output_step T (Some (LItem nu ncur)) o = ROk (mkO (map (convert a b) (o_vals o)) (UEnum nu) (o_pref o)).
Proof.
  intros Hc Hne Pa Pb D. unfold output_step. rewrite Hc. cbn [units_match]. rewrite Hne.
  apply (convert_output_units_sound T o c nu ncur a b); assumption.
Qed.

(* ------------------------------------------------------------------------------------------------------------ *)
(* post-read heuristic of 'Reservoir Depth'                                                                       *)
(* ------------------------------------------------------------------------------------------------------------ *)

Lemma post_depth_denotes T st km m q :
  t_parse T "kilometer" = Some km -> t_parse T "meter" = Some m ->
  pu_fac km == 1000 * pu_fac m -> pu_off km == pu_off m ->
  to_base km (p_value st) == q ->
  denotes T (p_cur (post_depth st)) (p_value (post_depth st)) q.
Proof.
  intros Pk Pm F O H. exists m. split; [cbn; exact Pm|].
  cbn. rewrite <- H. unfold to_base. rewrite F, O. ring.
Qed.

(* ------------------------------------------------------------------------------------------------------------ *)
(* round trips: ConvertUnitsBack against ConvertUnits, and against the post-read heuristics                      *)
(* ------------------------------------------------------------------------------------------------------------ *)

Lemma same_dim_sym a b : same_dim a b = same_dim b a.
Proof. unfold same_dim. apply Nat.eqb_sym. Qed.

(* ConvertUnitsBack and ConvertUnits implement ONE affine map: giving ConvertUnitsBack the user's pair (x, u) yields the
   value ConvertUnits stores for the text "x u" *)
Lemma back_agrees_with_convert T sp pref u x o n v c' b :
  table_wf T -> s_pref sp = pref ->
  t_parse T pref = Some o -> t_parse T u = Some n -> same_dim o n = true -> ~ pu_fac o == 0 ->
  convert_units_pint T (UEnum pref) x u = ROk (v, c') ->
  exists st', convert_units_back T sp (mkP x (UEnum u) b) = ROk st' /\ p_value st' == v /\ p_cur st' = UEnum pref.
Proof.
  intros WF Hp Po Pn D Ho H.
  unfold convert_units_back. cbn [p_cur p_value p_provided parse_uref]. rewrite Hp, Pn, Po, (same_dim_sym n o), D.
  eexists. split; [reflexivity|]. cbn [p_value p_cur]. split; [|reflexivity].
  unfold convert_units_pint in H. rewrite Po, Pn in H.
  destruct (String.eqb (pu_canon o) (pu_canon n)) eqn:Ec.
  - inversion H; subst v c'. apply String_eqb_true in Ec. pose proof (WF _ _ _ _ Po Pn Ec) as S.
    rewrite <- (convert_same_source o n o x S). apply convert_id. exact Ho.
  - destruct (t_lookup T u); try discriminate; rewrite D in H; cbn [negb] in H;
    destruct (t_lookup T (pu_canon o)); try discriminate; inversion H; reflexivity.
Qed.

(* a value re-expressed in any unit of the catalogue and converted back is the value (what the echo relies on) *)
Lemma back_reexpress_roundtrip T sp c v a p b :
  t_parse T (s_pref sp) = Some p -> t_parse T c = Some a -> same_dim a p = true ->
  ~ pu_fac a == 0 -> ~ pu_fac p == 0 ->
  exists st', convert_units_back T sp (mkP (convert p a v) (UEnum c) b) = ROk st' /\
              p_value st' == v /\ p_cur st' = UEnum (s_pref sp).
Proof.
  intros Pp Pa D Ha Hp. unfold convert_units_back. cbn [p_cur p_value p_provided parse_uref]. rewrite Pa, Pp, D.
  eexists. split; [reflexivity|]. cbn [p_value p_cur]. split; [|reflexivity].
  apply convert_roundtrip; assumption.
Qed.

(* well diameters: "anything > 2 must be inches" -> value * 0.0254, CurrentUnits = METERS.  Whatever the branch, the pair
   still denotes the diameter read in inches ... *)
Lemma post_diameter_denotes T st i m :
  t_parse T "in" = Some i -> t_parse T "meter" = Some m ->
  pu_fac i == (254 # 10000) * pu_fac m -> pu_off i == 0 -> pu_off m == 0 ->
  p_cur st = UEnum "in" ->
  denotes T (p_cur (post_diameter st)) (p_value (post_diameter st)) (to_base i (p_value st)).
Proof.
  intros Pi Pm F Oi Om Hc. unfold post_diameter. destruct (Qltb 2 (p_value st)).
  - exists m. split; [cbn; exact Pm|]. cbn. unfold to_base. rewrite F, Oi, Om. ring.
  - exists i. split; [rewrite Hc; cbn; exact Pi|]. reflexivity.
Qed.

(* ... and Outputs._convert_units gives back exactly the number that was read, in inches *)
Lemma post_diameter_echo_roundtrip T sp st i m :
  s_pref sp = "in" -> t_parse T "in" = Some i -> t_parse T "meter" = Some m -> same_dim m i = true ->
  pu_fac i == (254 # 10000) * pu_fac m -> pu_off i == 0 -> pu_off m == 0 -> ~ pu_fac m == 0 ->
  p_cur st = UEnum "in" ->
  exists st', echo_state T sp (post_diameter st) = ROk st' /\ p_value st' == p_value st /\ units_match "in" (p_cur st') = true.
Proof.
  intros Hp Pi Pm D F Oi Om Hm Hc. unfold post_diameter. destruct (Qltb 2 (p_value st)).
  - unfold echo_state. rewrite Hp. cbn [p_cur units_match]. replace (String.eqb "in" "meter") with false by reflexivity.
    unfold convert_units_back. cbn [p_cur p_value p_provided parse_uref]. rewrite Hp, Pm, Pi, D.
    eexists. split; [reflexivity|]. cbn [p_value p_cur]. split; [|reflexivity].
    unfold convert, to_base, from_base. rewrite F, Oi, Om. field. exact Hm.
  - exists st. unfold echo_state. rewrite Hp, Hc. cbn. split; [reflexivity|]. split; reflexivity.
Qed.

(* 'Reservoir Depth': the echo gives back the kilometres that were read *)
Lemma post_depth_echo_roundtrip T sp st km m :
  s_pref sp = "kilometer" -> t_parse T "kilometer" = Some km -> t_parse T "meter" = Some m -> same_dim m km = true ->
  pu_fac km == 1000 * pu_fac m -> pu_off km == 0 -> pu_off m == 0 -> ~ pu_fac m == 0 ->
  exists st', echo_state T sp (post_depth st) = ROk st' /\ p_value st' == p_value st /\ p_cur st' = UEnum "kilometer".
Proof.
  intros Hp Pk Pm D F Ok Om Hm. unfold echo_state, post_depth. rewrite Hp. cbn [p_cur units_match].
  replace (String.eqb "kilometer" "meter") with false by reflexivity.
  unfold convert_units_back. cbn [p_cur p_value p_provided parse_uref]. rewrite Hp, Pm, Pk, D.
  eexists. split; [reflexivity|]. cbn [p_value p_cur]. split; [|reflexivity].
  unfold convert, to_base, from_base. rewrite F, Ok, Om. field. exact Hm.
Qed.

(* Economics.Calculate puts a depth > 500 m back into kilometres: in both branches the pair still denotes the depth *)
Lemma post_depth_back_denotes T st km m q :
  t_parse T "kilometer" = Some km -> t_parse T "meter" = Some m ->
  pu_fac km == 1000 * pu_fac m -> pu_off km == 0 -> pu_off m == 0 ->
  p_cur st = UEnum "meter" -> to_base m (p_value st) == q ->
  denotes T (p_cur (post_depth_back st)) (p_value (post_depth_back st)) q.
Proof.
  intros Pk Pm F Ok Om Hc H. unfold post_depth_back. destruct (Qltb 500 (p_value st)).
  - exists km. split; [cbn; exact Pk|]. cbn. rewrite <- H. unfold to_base. rewrite F, Ok, Om. field.
  - exists m. split; [rewrite Hc; cbn; exact Pm|]. exact H.
Qed.

(* read, x1000, and (when deeper than 500 m) back: the kilometres that were read *)
Lemma post_depth_there_and_back st :
  Qltb 500 (p_value st * 1000) = true ->
  p_value (post_depth_back (post_depth st)) == p_value st /\ p_cur (post_depth_back (post_depth st)) = UEnum "kilometer".
Proof.
  intros H. unfold post_depth_back, post_depth. cbn [p_value p_cur p_provided]. rewrite H. cbn. split; [field|reflexivity].
Qed.

(* 'Reservoir Impedance' x 1000: the unit is kept, so the stored pair is 1000 times the quantity read; the report line
   (value / 1000 next to CurrentUnits) undoes exactly that *)
Lemma post_impedance_echo st :
  p_value (post_impedance st) / 1000 == p_value st /\ p_cur (post_impedance st) = p_cur st.
Proof. unfold post_impedance. cbn. split; [field|reflexivity]. Qed.

Lemma post_impedance_denotation T st c :
  parse_uref T (p_cur st) = Some c -> pu_off c == 0 ->
  to_base c (p_value (post_impedance st)) == 1000 * to_base c (p_value st).
Proof. intros _ O. unfold post_impedance, to_base. cbn. rewrite O. ring. Qed.

(* ------------------------------------------------------------------------------------------------------------ *)
(* one-line list parameters                                                                                      *)
(* ------------------------------------------------------------------------------------------------------------ *)

(* a line on which any element carries a unit suffix never changes the list: it raises, or (first element out of range)
   is ignored with a warning *)
Lemma read_list_line_units_never_read T sp o x u raw r :
  existsb snd raw = true -> read_list_line T sp o x u raw = ROk r -> o_vals r = o_vals o.
Proof.
  intros Hs H. unfold read_list_line in H.
  destruct (match u with None => ROk (x, o_cur o) | Some ut => convert_units T sp (o_cur o) x ut end) as [[v cur]|]; [|discriminate].
  destruct (Qltb v (s_min sp) || Qltb (s_max sp) v).
  - inversion H. reflexivity.
  - rewrite Hs in H. discriminate.
Qed.

(* without suffixes (and the first element in range) the list is exactly the numbers of the line *)
Lemma read_list_line_plain T sp o x raw :
  existsb snd raw = false -> Qltb x (s_min sp) || Qltb (s_max sp) x = false ->
  read_list_line T sp o x None raw = ROk (mkO (map fst raw) (o_cur o) (o_pref o)).
Proof. intros Hs Hr. unfold read_list_line. rewrite Hr, Hs. reflexivity. Qed.

(* ------------------------------------------------------------------------------------------------------------ *)
(* well-formedness of a generated registry table                                                                  *)
(* ------------------------------------------------------------------------------------------------------------ *)

Lemma assoc_str_in {A} k : forall (l : list (string * A)) v, assoc_str k l = Some v -> In (k, v) l.
Proof.
  induction l as [|[k' v'] r IH]; intros v H; cbn in H; [discriminate|].
  destruct (String.eqb k k') eqn:E.
  - apply String_eqb_true in E. inversion H; subst. left. reflexivity.
  - right. apply IH. exact H.
Qed.

Lemma wf_pint_against_in c : forall l s d,
  wf_pint_against c l = true -> In (s, Some d) l -> pu_canon c = pu_canon d -> pu_same c d = true.
Proof.
  induction l as [|[s0 [d0|]] r IH]; intros s d H Hin Hc; cbn in H.
  - destruct Hin.
  - apply andb_true_iff in H. destruct H as [H1 H2]. destruct Hin as [E|Hin].
    + inversion E; subst. apply orb_true_iff in H1. destruct H1 as [H1|H1]; [|exact H1].
      rewrite Hc, String.eqb_refl in H1. discriminate.
    + eapply IH; eauto.
  - destruct Hin as [E|Hin]; [discriminate|]. eapply IH; eauto.
Qed.

Lemma wf_pint_from_in all : forall l s c,
  wf_pint_from l all = true -> In (s, Some c) l -> wf_pint_against c all = true /\ ~ pu_fac c == 0.
Proof.
  induction l as [|[s0 [c0|]] r IH]; intros s c H Hin; cbn in H.
  - destruct Hin.
  - apply andb_true_iff in H. destruct H as [H H3]. apply andb_true_iff in H. destruct H as [H1 H2].
    destruct Hin as [E|Hin].
    + inversion E; subst. split; [exact H2|]. intros Z. apply Qeq_bool_iff in Z. rewrite Z in H1. discriminate.
    + eapply IH; eauto.
  - destruct Hin as [E|Hin]; [discriminate|]. eapply IH; eauto.
Qed.

Lemma mk_tables_parse pint scan sym cc s p :
  t_parse (mk_tables pint scan sym cc) s = Some p -> In (s, Some p) pint.
Proof.
  cbn. destruct (assoc_str s pint) as [r|] eqn:E; [|discriminate]. intros H; subst r. apply assoc_str_in. exact E.
Qed.

Lemma wf_pint_sound pint scan sym cc :
  wf_pint pint = true -> table_wf (mk_tables pint scan sym cc).
Proof.
  intros W s1 s2 p1 p2 H1 H2 Hc. apply mk_tables_parse in H1. apply mk_tables_parse in H2.
  destruct (wf_pint_from_in pint pint s1 p1 W H1) as [A _].
  eapply wf_pint_against_in; eauto.
Qed.

Lemma wf_pint_nonzero pint scan sym cc s p :
  wf_pint pint = true -> t_parse (mk_tables pint scan sym cc) s = Some p -> ~ pu_fac p == 0.
Proof. intros W H. apply mk_tables_parse in H. destruct (wf_pint_from_in pint pint s p W H) as [_ B]. exact B. Qed.

(* ------------------------------------------------------------------------------------------------------------ *)
(* decidable sufficient condition used on the generated catalogue                                                 *)
(* ------------------------------------------------------------------------------------------------------------ *)

Definition is_raise (l : lres) : bool := match l with LRaise => true | _ => false end.
Definition restores_b (T : tables) (c : string) (o : punit) : bool :=
  match t_lookup T (pu_canon o) with LItem s _ => String.eqb s c | _ => false end.

(* [pair_good T pref u]: reading a value in unit u into a parameter held in unit pref provably works *)
Definition pair_good (T : tables) (pref u : string) : bool :=
  match t_parse T pref, t_parse T u with
  | Some o, Some n =>
      same_dim o n &&
      (String.eqb (pu_canon o) (pu_canon n) || (restores_b T pref o && negb (is_raise (t_lookup T u))))
  | _, _ => false
  end.

Lemma restores_b_true T c o : restores_b T c o = true -> restores T c o.
Proof.
  unfold restores_b, restores. destruct (t_lookup T (pu_canon o)) as [s b| |]; try discriminate.
  intros H. apply String_eqb_true in H. subst. eexists; reflexivity.
Qed.

Lemma pair_good_reads T sp st pref u x y :
  table_wf T -> (forall s p, t_parse T s = Some p -> ~ pu_fac p == 0) ->
  s_currency sp = false -> p_cur st = UEnum pref ->
  pair_good T pref u = true ->
  exists o n, t_parse T pref = Some o /\ t_parse T u = Some n /\
    (y == convert n o x -> rres_equiv (read_param T sp st x (Some u)) (read_param T sp st y None)).
Proof.
  intros WF NZ Hc Hcur G. unfold pair_good in G.
  destruct (t_parse T pref) as [o|] eqn:Po; [|discriminate].
  destruct (t_parse T u) as [n|] eqn:Pn; [|discriminate].
  apply andb_true_iff in G. destruct G as [D G].
  exists o, n. split; [reflexivity|]. split; [reflexivity|]. intros Hy.
  apply (read_any_unit_as_default T sp st pref u x y o n WF Hc Hcur Po Pn (NZ _ _ Po) D); [|exact Hy].
  apply orb_true_iff in G. destruct G as [G|G].
  - left. apply String_eqb_true. exact G.
  - right. apply andb_true_iff in G. destruct G as [R L]. split; [apply restores_b_true; exact R|].
    intros E. rewrite E in L. discriminate.
Qed.

(* ------------------------------------------------------------------------------------------------------------ *)
(* the pinned reader REFUTES the unrestricted clauses (witnesses on the pinned registry fragment)                 *)
(* ------------------------------------------------------------------------------------------------------------ *)

Definition st_temperature : pstate := mkP 70 (UEnum "degC") false.

(* "Injection Temperature, 122 degF": accepted, held as 50 (degC) but remembered as degF *)
Lemma witness_122_degF :
  read_param pin_tables spec_temperature st_temperature 122 (Some "degF") = ROk (mkP (convert pin_degF pin_degC 122) (UEnum "degF") true)
  /\ convert pin_degF pin_degC 122 == 50.
Proof. split; [vm_compute; reflexivity|vm_compute; reflexivity]. Qed.

Lemma stale_denotation_witness :
  exists x u n st' c',
    in_domain pin_tables (s_pref spec_temperature) u = true /\ t_parse pin_tables u = Some n /\
    read_param pin_tables spec_temperature st_temperature x (Some u) = ROk st' /\
    parse_uref pin_tables (p_cur st') = Some c' /\
    p_value st' == convert n pin_degC x /\            (* the computation sees the right number ... *)
    ~ to_base c' (p_value st') == to_base n x.        (* ... but (value, CurrentUnits) is another temperature *)
Proof.
  exists 122, "degF", pin_degF, (mkP (convert pin_degF pin_degC 122) (UEnum "degF") true), pin_degF.
  repeat split; try (vm_compute; reflexivity).
  vm_compute. discriminate.
Qed.

(* ... and the report echoes 10 degC for a user who wrote 122 degF (= 50 degC) *)
Lemma stale_echo_witness :
  exists st st',
    read_param pin_tables spec_temperature st_temperature 122 (Some "degF") = ROk st /\
    echo_state pin_tables spec_temperature st = ROk st' /\
    p_cur st' = UEnum "degC" /\ p_value st' == 10 /\ convert pin_degF pin_degC 122 == 50.
Proof.
  eexists. eexists. split; [vm_compute; reflexivity|]. split; [vm_compute; reflexivity|].
  split; [reflexivity|]. split; vm_compute; reflexivity.
Qed.

(* "Fracture Area, 5000 cm**2": a catalogue unit, dimensionally convertible, and the reader raises *)
Lemma lookup_raises_witness :
  exists x u, in_domain pin_tables (s_pref spec_area) u = true /\
    read_param pin_tables spec_area (mkP 250000 (UEnum "m**2") false) x (Some u) = RErr E_UNDEF.
Proof. exists 5000, "cm**2". split; vm_compute; reflexivity. Qed.

(* "..., 0.005 KUSD" into a MUSD parameter: multiplied by 1000 instead of divided by 1000 *)
Lemma currency_factor_witness :
  exists x st' k m,
    t_parse pin_tables "KUSD" = Some k /\ t_parse pin_tables "MUSD" = Some m /\
    read_param pin_tables spec_cost (mkP (-1) (UEnum "MUSD") false) x (Some "KUSD") = ROk st' /\
    p_value st' == x * 1000 /\ convert k m x == x / 1000 /\ ~ p_value st' == convert k m x.
Proof.
  exists (5 # 1000). eexists. eexists. eexists.
  split; [vm_compute; reflexivity|]. split; [vm_compute; reflexivity|]. split; [vm_compute; reflexivity|].
  split; [vm_compute; reflexivity|]. split; [vm_compute; reflexivity|]. vm_compute. discriminate.
Qed.

(* the currency branch is right exactly in the trivial case: the user's text is the preferred unit itself *)
Lemma currency_same_unit T pref x : convert_units_currency T pref x pref = ROk (x, UStr pref).
Proof. unfold convert_units_currency. rewrite String.eqb_refl. reflexivity. Qed.
