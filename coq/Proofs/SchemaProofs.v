(* Proofs/SchemaProofs.v - soundness of the reflective checkers of Model/Schema.v and the link between
   "what the schema allows" and "what the reader accepts" (C19).  The two lists of names at the end are a
   literal copy of the pinned tree (accepted input names / names in the committed request schema). *)
From Coq Require Import QArith ZArith List String Bool Lia Lqa.
From Verif Require Import Base.Flat Base.ParamRec Proofs.FlatFacts Model.RangeReader Proofs.RangeReaderProofs Model.Schema.
Import ListNotations.
Open Scope Q_scope.

Lemma mem_str_In x l : mem_str x l = true <-> In x l.
Proof.
  unfold mem_str. rewrite existsb_exists. split.
  - intros [y [Hy E]]. apply String.eqb_eq in E. subst. exact Hy.
  - intros H. exists x. split; [exact H | apply String.eqb_refl].
Qed.

Lemma memZ_In n l : memZ n l = true <-> In n l.
Proof.
  unfold memZ. rewrite existsb_exists. split.
  - intros [y [Hy E]]. apply Z.eqb_eq in E. subst. exact Hy.
  - intros H. exists n. split; [exact H | apply Z.eqb_refl].
Qed.

(* ---------- names ---------- *)
Lemma names_sound t sch :
  names_ok t sch = true -> forall n, In n (pnames t) <-> In n (snames sch).
Proof.
  unfold names_ok. rewrite andb_true_iff, !forallb_forall. intros [A B] n. split; intros H.
  - unfold pnames in H. apply in_map_iff in H. destruct H as [p [<- Hp]]. apply mem_str_In. apply (A p Hp).
  - unfold snames in H. apply in_map_iff in H. destruct H as [s [<- Hs]]. apply mem_str_In. apply (B s Hs).
Qed.

Lemma rows_of_In classes t p : In p (rows_of classes t) <-> In p t /\ In (p_module p) classes.
Proof. unfold rows_of. rewrite filter_In, mem_str_In. reflexivity. Qed.

(* ---------- fields ---------- *)
Lemma find_name_In n t p : find_name n t = Some p -> In p t /\ p_name p = n.
Proof.
  induction t as [|q r IH]; cbn; [discriminate|].
  destruct (String.eqb (p_name q) n) eqn:E.
  - intros H. injection H as <-. apply String.eqb_eq in E. auto.
  - intros H. destruct (IH H). auto.
Qed.

Lemma consistent_same t p q :
  consistent t p = true -> In q t -> p_name q = p_name p -> same_decl p q = true.
Proof.
  unfold consistent. rewrite forallb_forall. intros H Hq Hn. specialize (H q Hq).
  rewrite Hn, String.eqb_refl in H. exact H.
Qed.

Lemma fields_sound t sch :
  fields_ok t sch = true ->
  forall s p, In s sch -> find_name (s_name s) t = Some p -> consistent t p = true -> fields_match p s = true.
Proof.
  unfold fields_ok. rewrite forallb_forall. intros H s p Hs Hf Hc.
  specialize (H s Hs). unfold entry_ok in H. rewrite Hf, Hc in H. exact H.
Qed.

Lemma oQ_eqb_Some a y : oQ_eqb a (Some y) = true -> exists x, a = Some x /\ x == y.
Proof. destruct a as [x|]; cbn; intros H; [|discriminate]. exists x. split; [reflexivity|]. now apply Qeq_bool_iff. Qed.

Lemma Qleb_compat a b c d : a == b -> c == d -> Qleb a c = Qleb b d.
Proof.
  intros H1 H2. destruct (Qleb a c) eqn:E1, (Qleb b d) eqn:E2; try reflexivity; exfalso.
  - apply Qleb_true in E1. apply Qleb_false in E2. lra.
  - apply Qleb_false in E1. apply Qleb_true in E2. lra.
Qed.

Lemma fields_match_parts p s :
  fields_match p s = true ->
  f_type p s = true /\ f_units p s = true /\ f_min p s = true /\ f_max p s = true /\ f_default p s = true /\ f_enum p s = true.
Proof. unfold fields_match. rewrite !andb_true_iff. tauto. Qed.

(* what equality of the published fields means, spelled out *)
Lemma fields_match_meaning p s :
  fields_match p s = true ->
  s_type s = p_jtype p /\ s_units s = p_units p /\
  (p_kind p = KFloat -> exists a b, s_min s = Some a /\ a == p_min p /\ s_max s = Some b /\ b == p_max p) /\
  (p_kind p = KInt -> oQ_eqb (s_min s) (option_map inject_Z (runs_min (p_range p))) = true /\
                      oQ_eqb (s_max s) (option_map inject_Z (runs_max (p_range p))) = true /\
                      oQ_eqb (s_default s) (p_default p) = true).
Proof.
  intros H. destruct (fields_match_parts _ _ H) as [Ht [Hu [Hmin [Hmax [Hd _]]]]].
  unfold f_type in Ht. apply andb_true_iff in Ht. destruct Ht as [Ht _]. apply String.eqb_eq in Ht.
  unfold f_units in Hu. apply String.eqb_eq in Hu.
  repeat split; auto.
  - intros Hk. unfold f_min, f_max, lo_bound, hi_bound in *. rewrite Hk in *.
    destruct (oQ_eqb_Some _ _ Hmin) as [a [Ha Ea]]. destruct (oQ_eqb_Some _ _ Hmax) as [b [Hb Eb]].
    exists a, b. auto.
  - unfold f_min, lo_bound in Hmin. rewrite H0 in Hmin. exact Hmin.
  - unfold f_max, hi_bound in Hmax. rewrite H0 in Hmax. exact Hmax.
  - unfold f_default in Hd. rewrite H0 in Hd. exact Hd.
Qed.

(* ---------- schema-allowed <-> reader-accepted ---------- *)
Lemma number_type p s : p_kind p = KFloat -> f_type p s = true -> s_type s = "number"%string.
Proof.
  unfold f_type, kind_jtype. intros Hk H. rewrite Hk in H. apply andb_true_iff in H. destruct H as [A B].
  apply String.eqb_eq in A. apply String.eqb_eq in B. congruence.
Qed.

Lemma integer_type p s : p_kind p = KInt -> f_type p s = true -> s_type s = "integer"%string.
Proof.
  unfold f_type, kind_jtype. intros Hk H. rewrite Hk in H. apply andb_true_iff in H. destruct H as [A B].
  apply String.eqb_eq in A. apply String.eqb_eq in B. congruence.
Qed.

Lemma enforced_float p s :
  p_kind p = KFloat -> fields_match p s = true -> forall v, schema_allows s v = in_domain p v.
Proof.
  intros Hk H v. destruct (fields_match_meaning _ _ H) as [_ [_ [Hb _]]].
  destruct (Hb Hk) as [a [b [Ha [Ea [Hb' Eb]]]]].
  destruct (fields_match_parts _ _ H) as [Ht _].
  unfold schema_allows, in_domain. rewrite (number_type _ _ Hk Ht), Hk, Ha, Hb'. cbn.
  rewrite (Qleb_compat a (p_min p) v v Ea (Qeq_refl v)), (Qleb_compat v v b (p_max p) (Qeq_refl v) Eb). reflexivity.
Qed.

Lemma enforced_float_reader p s v :
  p_kind p = KFloat -> fields_match p s = true -> is_sentinel p v = false ->
  (schema_allows s v = true -> final_is p (read_param p v) v) /\
  (schema_allows s v = false -> read_param p v = Reject (p_name p)).
Proof.
  intros Hk H Hs. rewrite (enforced_float p s Hk H v). split; intros Hd.
  - apply accept_in_domain; auto.
    + unfold is_numeric. now rewrite Hk.
    + intros E. rewrite Hk in E. discriminate.
    + unfold no_shadow. now rewrite Hk.
  - apply reject_out_of_domain; auto.
    + unfold is_numeric. now rewrite Hk.
    + intros E. rewrite Hk in E. discriminate.
Qed.

Lemma in_expand_run r n : In n (expand_run r) <-> (fst r <= n <= snd r)%Z.
Proof.
  unfold expand_run. rewrite in_map_iff. split.
  - intros [k [<- Hk]]. apply in_seq in Hk. lia.
  - intros H. exists (Z.to_nat (n - fst r)). split; [lia|]. apply in_seq. lia.
Qed.

Lemma in_runs_expand n rs : in_runs n rs = true <-> In n (flat_map expand_run rs).
Proof.
  unfold in_runs. rewrite existsb_exists, in_flat_map. split.
  - intros [r [Hr H]]. exists r. split; [exact Hr|]. apply in_expand_run.
    apply andb_true_iff in H. destruct H as [A B]. apply Z.leb_le in A. apply Z.leb_le in B. lia.
  - intros [r [Hr H]]. exists r. split; [exact Hr|]. apply in_expand_run in H.
    apply andb_true_iff. split; apply Z.leb_le; lia.
Qed.

Lemma enum_exact p s n :
  s_enum s <> [] -> f_enum p s = true -> memZ n (s_enum s) = in_runs n (p_range p).
Proof.
  unfold f_enum. intros Hne H. destruct (s_enum s) as [|e0 e] eqn:E; [congruence|].
  apply andb_true_iff in H. destruct H as [A B]. rewrite forallb_forall in A, B.
  destruct (in_runs n (p_range p)) eqn:R.
  - apply B. apply in_runs_expand. exact R.
  - destruct (memZ n (e0 :: e)) eqn:M; [|reflexivity].
    apply memZ_In in M. rewrite (A n M) in R. discriminate.
Qed.

Lemma Qleb_inject a v : integral v = true -> Qleb (inject_Z a) v = (a <=? trunc v)%Z.
Proof.
  intros Hi. pose proof (integral_eq _ Hi) as Hq.
  rewrite (Qleb_compat (inject_Z a) (inject_Z a) v (inject_Z (trunc v)) (Qeq_refl _) (Qeq_sym _ _ Hq)).
  destruct (Z.leb_spec a (trunc v)) as [L|L].
  - apply Qleb_true. rewrite <- Zle_Qle. exact L.
  - apply Qleb_false. rewrite <- Zlt_Qlt. exact L.
Qed.

Lemma Qleb_inject_r a v : integral v = true -> Qleb v (inject_Z a) = (trunc v <=? a)%Z.
Proof.
  intros Hi. pose proof (integral_eq _ Hi) as Hq.
  rewrite (Qleb_compat v (inject_Z (trunc v)) (inject_Z a) (inject_Z a) (Qeq_sym _ _ Hq) (Qeq_refl _)).
  destruct (Z.leb_spec (trunc v) a) as [L|L].
  - apply Qleb_true. rewrite <- Zle_Qle. exact L.
  - apply Qleb_false. rewrite <- Zlt_Qlt. exact L.
Qed.

Lemma oQ_eqb_inject a m : oQ_eqb a (option_map inject_Z (Some m)) = true -> exists x, a = Some x /\ x == inject_Z m.
Proof. cbn. apply oQ_eqb_Some. Qed.

(* everything an int parameter accepts is allowed by its schema entry *)
Lemma enforced_int_sound p s v :
  p_kind p = KInt -> fields_match p s = true -> in_domain p v = true -> schema_allows s v = true.
Proof.
  intros Hk H Hd. destruct (fields_match_parts _ _ H) as [Ht [_ [Hmin [Hmax [_ He]]]]].
  unfold in_domain in Hd. rewrite Hk in Hd. apply andb_true_iff in Hd. destruct Hd as [Hi Hr].
  unfold schema_allows. rewrite (integer_type _ _ Hk Ht). cbn. rewrite Hi. cbn.
  destruct (s_enum s) as [|e0 e] eqn:E.
  - unfold f_min, f_max, lo_bound, hi_bound in *. rewrite Hk in *.
    destruct (runs_min (p_range p)) as [lo|] eqn:Elo.
    2:{ exfalso. destruct (p_range p) as [|[a b] r]; cbn in *; [discriminate|]. destruct (runs_min r); discriminate. }
    destruct (runs_max (p_range p)) as [hi|] eqn:Ehi.
    2:{ exfalso. destruct (p_range p) as [|[a b] r]; cbn in *; [discriminate|]. destruct (runs_max r); discriminate. }
    destruct (oQ_eqb_inject _ _ Hmin) as [x [Hx Ex]]. destruct (oQ_eqb_inject _ _ Hmax) as [y [Hy Ey]].
    rewrite Hx, Hy. cbn.
    rewrite (Qleb_compat x (inject_Z lo) v v Ex (Qeq_refl v)), (Qleb_compat v v y (inject_Z hi) (Qeq_refl v) Ey).
    rewrite (Qleb_inject lo v Hi), (Qleb_inject_r hi v Hi).
    pose proof (in_runs_ge_min _ _ _ Hr Elo). pose proof (in_runs_le_max _ _ _ Hr Ehi).
    apply andb_true_iff. split; apply Z.leb_le; lia.
  - change (memZ (trunc v) (e0 :: e) = true). rewrite <- E.
    rewrite (enum_exact p s (trunc v)); [exact Hr | rewrite E; discriminate | exact He].
Qed.

(* and conversely when the option list is published, or the AllowableRange is one interval *)
Lemma enforced_int_exact p s :
  p_kind p = KInt -> fields_match p s = true -> runs_wf (p_range p) = true -> int_exact p s = true ->
  forall v, schema_allows s v = in_domain p v.
Proof.
  intros Hk H Hw Hx v. destruct (fields_match_parts _ _ H) as [Ht [_ [Hmin [Hmax [_ He]]]]].
  unfold schema_allows, in_domain. rewrite (integer_type _ _ Hk Ht), Hk. cbn.
  destruct (integral v) eqn:Hi; [|reflexivity]. cbn.
  unfold int_exact in Hx. destruct (s_enum s) as [|e0 e] eqn:E.
  - destruct (p_range p) as [|[lo hi] [|r2 r]] eqn:R; cbn in Hx; try discriminate.
    unfold f_min, f_max, lo_bound, hi_bound in *. rewrite Hk, R in *. cbn in Hmin, Hmax.
    destruct (oQ_eqb_Some _ _ Hmin) as [x [Hx' Ex]]. destruct (oQ_eqb_Some _ _ Hmax) as [y [Hy Ey]].
    rewrite Hx', Hy. cbn.
    rewrite (Qleb_compat x (inject_Z lo) v v Ex (Qeq_refl v)), (Qleb_compat v v y (inject_Z hi) (Qeq_refl v) Ey).
    rewrite (Qleb_inject lo v Hi), (Qleb_inject_r hi v Hi). now rewrite orb_false_r.
  - change (memZ (trunc v) (e0 :: e) = in_runs (trunc v) (p_range p)). rewrite <- E.
    apply enum_exact; [rewrite E; discriminate | exact He].
Qed.

(* ---------- the generated parameter reference (.rst) ---------- *)
Lemma rst_sound t sch :
  rst_ok t sch = true ->
  forall s p, In s sch -> find_name (s_name s) t = Some p -> consistent t p = true -> rst_match p s = true.
Proof.
  unfold rst_ok. rewrite forallb_forall. intros H s p Hs Hf Hc.
  specialize (H s Hs). unfold entry_ok in H. rewrite Hf, Hc in H. exact H.
Qed.

Lemma rst_match_parts p s :
  rst_match p s = true -> f_type p s = true /\ f_pref p s = true /\ f_min p s = true /\ f_max p s = true /\ f_default p s = true.
Proof. unfold rst_match. rewrite !andb_true_iff. tauto. Qed.

Lemma rst_match_meaning p s :
  rst_match p s = true ->
  s_type s = p_jtype p /\ s_units s = p_pref p /\
  (p_kind p = KFloat -> exists a b, s_min s = Some a /\ a == p_min p /\ s_max s = Some b /\ b == p_max p).
Proof.
  intros H. destruct (rst_match_parts _ _ H) as [Ht [Hu [Hmin [Hmax _]]]].
  unfold f_type in Ht. apply andb_true_iff in Ht. destruct Ht as [Ht _]. apply String.eqb_eq in Ht.
  unfold f_pref in Hu. apply String.eqb_eq in Hu. repeat split; auto.
  intros Hk. unfold f_min, f_max, lo_bound, hi_bound in *. rewrite Hk in *.
  destruct (oQ_eqb_Some _ _ Hmin) as [a [Ha Ea]]. destruct (oQ_eqb_Some _ _ Hmax) as [b [Hb Eb]]. exists a, b. auto.
Qed.

(* the Min / Max columns are the range the reader enforces, for every value *)
Lemma rst_enforced_float p s :
  p_kind p = KFloat -> rst_match p s = true -> forall v, schema_allows s v = in_domain p v.
Proof.
  intros Hk H v. destruct (rst_match_meaning _ _ H) as [_ [_ Hb]]. destruct (Hb Hk) as [a [b [Ha [Ea [Hb' Eb]]]]].
  destruct (rst_match_parts _ _ H) as [Ht _].
  unfold schema_allows, in_domain. rewrite (number_type _ _ Hk Ht), Hk, Ha, Hb'. cbn.
  rewrite (Qleb_compat a (p_min p) v v Ea (Qeq_refl v)), (Qleb_compat v v b (p_max p) (Qeq_refl v) Eb). reflexivity.
Qed.

(* ---------- array parameters read through ReadParameter ---------- *)
Lemma list_bounds p s :
  p_kind p = KList -> fields_match p s = true ->
  exists a b, s_min s = Some a /\ a == p_min p /\ s_max s = Some b /\ b == p_max p.
Proof.
  intros Hk H. destruct (fields_match_parts _ _ H) as [_ [_ [Hmin [Hmax _]]]].
  unfold f_min, f_max in *. rewrite Hk in *.
  destruct (oQ_eqb_Some _ _ Hmin) as [a [Ha Ea]]. destruct (oQ_eqb_Some _ _ Hmax) as [b [Hb Eb]].
  exists a, b. auto.
Qed.

(* for every first element and whatever follows it: allowed by the schema entry <-> the reader stores the list *)
Lemma enforced_list_first p s :
  p_kind p = KList -> fields_match p s = true ->
  forall v rest, lstored (read_list p v rest) = schema_allows_elem s v.
Proof.
  intros Hk H v rest. destruct (list_bounds p s Hk H) as [a [b [Ha [Ea [Hb Eb]]]]].
  unfold schema_allows_elem, read_list. rewrite Ha, Hb. cbn [ole oge].
  rewrite (Qleb_compat a (p_min p) v v Ea (Qeq_refl v)), (Qleb_compat v v b (p_max p) (Qeq_refl v) Eb).
  destruct (Qltb_spec v (p_min p)) as [H1|H1]; cbn [orb].
  - apply Qleb_false in H1. rewrite H1. reflexivity.
  - apply Qnot_lt_le in H1. apply Qleb_true in H1. rewrite H1. cbn [andb].
    destruct (Qltb_spec (p_max p) v) as [H2|H2].
    + apply Qleb_false in H2. rewrite H2. reflexivity.
    + apply Qnot_lt_le in H2. apply Qleb_true in H2. rewrite H2. reflexivity.
Qed.

Lemma enforced_list_stored p s v rest :
  p_kind p = KList -> fields_match p s = true ->
  (schema_allows_elem s v = true -> read_list p v rest = LStore (v :: rest)) /\
  (schema_allows_elem s v = false -> read_list p v rest = LKeep).
Proof.
  intros Hk H. pose proof (enforced_list_first p s Hk H v rest) as E. unfold read_list in *.
  destruct (Qltb v (p_min p) || Qltb (p_max p) v); cbn in E; rewrite <- E; split; intros; try discriminate; reflexivity.
Qed.

(* the other elements are never checked: the element-wise reading of the published bounds is refuted *)
Definition w_gradients : param :=
  mkParam "Reservoir" "Gradients" KList None None 0 (500#1) [] "degC/m" "degC/m" "TEMP_GRADIENT" false "array" "[1/20,0/1,0/1,0/1]".
Definition w_gradients_entry : sentry :=
  mkS "Gradients" "array" "degC/m" "Reservoir" None "[1/20,0/1,0/1,0/1]" (Some 0) (Some (500#1)) [] "d".

Lemma list_rest_refuted :
  exists p s v w, p_kind p = KList /\ f_min p s = true /\ f_max p s = true /\ schema_allows_elem s v = true /\
                  schema_allows_elem s w = false /\ read_list p v [w] = LStore [v; w].
Proof. exists w_gradients, w_gradients_entry, (50#1), (9999#1). repeat split; vm_compute; reflexivity. Qed.

(* ---------- committed = generated, result fields ---------- *)
Lemma same_entries_sound a b :
  same_entries a b = true ->
  (forall e, In e a -> exists e', In e' b /\ s_name e' = s_name e /\ s_digest e' = s_digest e) /\
  (forall e, In e b -> exists e', In e' a /\ s_name e' = s_name e /\ s_digest e' = s_digest e).
Proof.
  unfold same_entries. rewrite andb_true_iff, !forallb_forall. intros [A B].
  split; intros e He; [specialize (A e He) | specialize (B e He)]; unfold entry_in in *;
    [apply existsb_exists in A; destruct A as [x [Hx E]] | apply existsb_exists in B; destruct B as [x [Hx E]]];
    apply andb_true_iff in E; destruct E as [E1 E2]; apply String.eqb_eq in E1; apply String.eqb_eq in E2;
    exists x; auto.
Qed.

Lemma same_strings_sound a b : same_strings a b = true -> forall x, In x a <-> In x b.
Proof.
  unfold same_strings, str_in. rewrite andb_true_iff, !forallb_forall. intros [A B] x.
  split; intros H; apply mem_str_In; auto.
Qed.

Lemma rfield_eqb_eq x y : rfield_eqb x y = true -> x = y.
Proof.
  destruct x as [[a b] c], y as [[d e] f]. cbn. rewrite !andb_true_iff. intros [[A B] C].
  apply String.eqb_eq in A. apply String.eqb_eq in B. apply String.eqb_eq in C. congruence.
Qed.

Lemma same_rfields_sound a b : same_rfields a b = true -> forall x, In x a <-> In x b.
Proof.
  unfold same_rfields, rfield_in. rewrite andb_true_iff, !forallb_forall. intros [A B] x.
  split; intros H; [specialize (A x H) | specialize (B x H)];
    [apply existsb_exists in A; destruct A as [y [Hy E]] | apply existsb_exists in B; destruct B as [y [Hy E]]];
    apply rfield_eqb_eq in E; subst; exact Hy.
Qed.

Lemma result_fields_sound client sch :
  result_fields_ok client sch = true -> forall c n d, In (c, n, d) sch -> In (c, n) client.
Proof.
  unfold result_fields_ok. rewrite forallb_forall. intros H c n d Hin. specialize (H _ Hin). cbn in H.
  apply existsb_exists in H. destruct H as [[c' n'] [Hx E]]. cbn in E. apply andb_true_iff in E. destruct E as [E1 E2].
  apply String.eqb_eq in E1. apply String.eqb_eq in E2. subst. exact Hx.
Qed.

Lemma pair_in_In l c n : pair_in l c n = true <-> In (c, n) l.
Proof.
  unfold pair_in. rewrite existsb_exists. split.
  - intros [[c' n'] [Hx E]]. cbn in E. apply andb_true_iff in E. destruct E as [E1 E2].
    apply String.eqb_eq in E1. apply String.eqb_eq in E2. subst. exact Hx.
  - intros H. exists (c, n). split; [exact H|]. cbn. now rewrite !String.eqb_refl.
Qed.

Lemma report_sound sch printed extracted :
  report_ok sch printed extracted = true ->
  forall c n d, In (c, n, d) sch -> In (c, n) printed -> In (c, n) extracted.
Proof.
  unfold report_ok. rewrite forallb_forall. intros H c n d Hs Hp. specialize (H _ Hs). cbn in H.
  apply pair_in_In in Hp. rewrite Hp in H. cbn in H. apply pair_in_In. exact H.
Qed.

Lemma string_enforced p e :
  p_kind p = KStr -> f_type p e = true -> String.eqb (p_jtype p) "string" = true ->
  forall s, schema_allows_string e s = true /\ read_string p s = Some s.
Proof.
  intros Hk Ht Hj s. unfold schema_allows_string, read_string. rewrite Hk. split; [|reflexivity].
  unfold f_type in Ht. apply andb_true_iff in Ht. destruct Ht as [Ht _]. apply String.eqb_eq in Ht. rewrite Ht. exact Hj.
Qed.

(* ---------- the pinned tree ---------- *)
Open Scope string_scope.
Definition pinned_accepted_names : list string := [
 "Economic Model"; "Reservoir Stimulation Capital Cost"; 
 "Reservoir Stimulation Capital Cost Adjustment Factor"; "Exploration Capital Cost"; 
 "Exploration Capital Cost Adjustment Factor"; "Well Drilling and Completion Capital Cost"; 
 "Injection Well Drilling and Completion Capital Cost"; 
 "Well Drilling and Completion Capital Cost Adjustment Factor"; 
 "Injection Well Drilling and Completion Capital Cost Adjustment Factor"; "Wellfield O&M Cost"; 
 "Wellfield O&M Cost Adjustment Factor"; "Surface Plant Capital Cost"; 
 "Surface Plant Capital Cost Adjustment Factor"; "Field Gathering System Capital Cost"; 
 "Field Gathering System Capital Cost Adjustment Factor"; "Surface Plant O&M Cost"; 
 "Surface Plant O&M Cost Adjustment Factor"; "Water Cost"; "Water Cost Adjustment Factor"; 
 "Total Capital Cost"; "Total O&M Cost"; "Time steps per year"; "Fixed Charge Rate"; "Discount Rate"; 
 "Discount Initial Year Cashflow"; "Fraction of Investment in Bonds"; "Inflated Bond Interest Rate"; 
 "Inflated Equity Interest Rate"; "Inflation Rate"; "Combined Income Tax Rate"; "Gross Revenue Tax Rate"; 
 "Investment Tax Credit Rate"; "Property Tax Rate"; "Inflation Rate During Construction"; 
 "Well Drilling Cost Correlation"; "Do AddOn Calculations"; "Do Carbon Price Calculations"; 
 "Do S-DAC-GT Calculations"; "All-in Vertical Drilling Costs"; "All-in Nonvertical Drilling Costs"; 
 "Absorption Chiller Capital Cost"; "Absorption Chiller O&M Cost"; "Heat Pump Capital Cost"; 
 "Peaking Fuel Cost Rate"; "Peaking Boiler Efficiency"; "District Heating Piping Cost Rate"; 
 "Total District Heating Network Cost"; "District Heating O&M Cost"; "District Heating Network Piping Length"; 
 "District Heating Road Length"; "District Heating Land Area"; "District Heating Population"; 
 "Starting Heat Sale Price"; "Ending Heat Sale Price"; "Heat Escalation Start Year"; 
 "Heat Escalation Rate Per Year"; "Starting Electricity Sale Price"; "Ending Electricity Sale Price"; 
 "Electricity Escalation Start Year"; "Electricity Escalation Rate Per Year"; "Starting Cooling Sale Price"; 
 "Ending Cooling Sale Price"; "Cooling Escalation Start Year"; "Cooling Escalation Rate Per Year"; 
 "Starting Carbon Credit Value"; "Ending Carbon Credit Value"; "Carbon Escalation Start Year"; 
 "Carbon Escalation Rate Per Year"; "Current Grid CO2 production"; "CO2 produced by Natural Gas"; 
 "Annual License Fees Etc"; "One-time Flat License Fees Etc"; "Other Incentives"; "Tax Relief Per Year"; 
 "One-time Grants Etc"; "Fixed Internal Rate"; "CHP Electrical Plant Cost Allocation Ratio"; 
 "Production Tax Credit Electricity"; "Production Tax Credit Heat"; "Production Tax Credit Cooling"; 
 "Production Tax Credit Duration"; "Production Tax Credit Inflation Adjusted"; 
 "Estimated Jobs Created per MW of Electricity Produced"; "Operation & Maintenance Cost of Surface Plant"; 
 "Capital Cost for Surface Plant for Direct-use System"; 
 "Capital Cost for Power Plant for Electricity Generation"; "Improved Text Output File"; "HTML Output File"; 
 "Print Output to Console"; "Number of Production Wells"; "Number of Injection Wells"; 
 "Production Well Diameter"; "Injection Well Diameter"; "Ramey Production Wellbore Model"; 
 "Production Wellbore Temperature Drop"; "Injection Wellbore Temperature Gain"; 
 "Production Flow Rate per Well"; "Reservoir Impedance"; "Well Separation"; "Injection Temperature"; 
 "Reservoir Hydrostatic Pressure"; "Production Wellhead Pressure"; "Injectivity Index"; "Productivity Index"; 
 "Maximum Drawdown"; "Is AGS"; "Overpressure Percentage"; "Overpressure Depletion Rate"; 
 "Injection Reservoir Temperature"; "Injection Reservoir Depth"; "Injection Reservoir Initial Pressure"; 
 "Injection Reservoir Inflation Rate"; "Closed-loop Configuration"; "Well Geometry Configuration"; 
 "Water Thermal Conductivity"; "Heat Transfer Fluid"; "Nonvertical Length per Multilateral Section"; 
 "Nonvertical Wellbore Diameter"; "Number of Multilateral Sections"; "Multilaterals Cased"; 
 "Closed Loop Calculation Start Year"; "Reservoir Model"; "Reservoir Depth"; "Maximum Temperature"; 
 "Number of Segments"; "Gradients"; "Gradient 1"; "Gradient 2"; "Gradient 3"; "Gradient 4"; "Thicknesses"; 
 "Thickness 1"; "Thickness 2"; "Thickness 3"; "Thickness 4"; "Reservoir Volume Option"; "Fracture Shape"; 
 "Fracture Area"; "Fracture Height"; "Fracture Width"; "Number of Fractures"; "Fracture Separation"; 
 "Reservoir Volume"; "Water Loss Fraction"; "Reservoir Heat Capacity"; "Reservoir Density"; 
 "Reservoir Thermal Conductivity"; "Reservoir Permeability"; "Reservoir Porosity"; "Surface Temperature"; 
 "Cylindrical Reservoir Input Depth"; "Cylindrical Reservoir Output Depth"; "Cylindrical Reservoir Length"; 
 "Cylindrical Reservoir Radius of Effect"; "Cylindrical Reservoir Radius of Effect Factor"; "Drilled length"; 
 "AddOn Nickname"; "AddOn CAPEX"; "AddOn OPEX"; "AddOn Electricity Gained"; "AddOn Heat Gained"; 
 "AddOn Profit Gained"; "WACC"; "S-DAC-GT CAPEX"; "S-DAC-GT OPEX"; "S-DAC-GT Electrical Energy"; 
 "S-DAC-GT Thermal Energy"; "S-DAC-GT Natural Gas Price"; "S-DAC-GT CO2 Intensity of Electricity"; 
 "S-DAC-GT CO2 Intensity of Natural Gas"; "S-DAC-GT Natural Gas Energy Density"; "S-DAC-GT CAPEX Multiplier"; 
 "S-DAC-GT OPEX Multiplier"; "S-DAC-GT Thermal Energy Multiplier"; "S-DAC-GT CO2 Transportation Cost"; 
 "S-DAC-GT CO2 Storage Cost"; "S-DAC-GT CO2 Percent Energy Devoted To Process"; "Flowrate Model"; 
 "Flowrate File"; "Injection Temperature Model"; "Injection Temperature File"; "SBT Accuracy Desired"; 
 "SBT Percent Implicit Euler Scheme"; "SBT Initial Timestep Count"; "SBT Final Timestep Count"; 
 "SBT Initial to Final Timestep Transition"; "SBT Generate Wireframe Graphics"; "Vertical Section Length"; 
 "Vertical Wellbore Spacing"; "Lateral Spacing"; "Lateral Inclination Angle"; "Discretization Length"; 
 "Junction Depth"; "Lateral Endpoint Depth"; "Drawdown Parameter"; "SUTRA Annual Heat File Name"; 
 "SUTRA Heat Budget File Name"; "SUTRA Balance and Storage Well Output File Name"; "End-Use Option"; 
 "Power Plant Type"; "Circulation Pump Efficiency"; "Utilization Factor"; "End-Use Efficiency Factor"; 
 "CHP Fraction"; "CHP Bottoming Entering Temperature"; "Ambient Temperature"; "Plant Lifetime"; 
 "Surface Piping Length"; "Plant Outlet Pressure"; "Electricity Rate"; "Heat Rate"; "Construction Years"; 
 "Working Fluid Heat Capacity"; "Working Fluid Density"; "Working Fluid Thermal Conductivity"; 
 "Working Fluid Dynamic Viscosity"; "Dead-state Pressure"; "Isentropic Efficiency for CO2 Turbine"; 
 "Generator Conversion Efficiency"; "Isentropic Efficiency for CO2 Compressor"; 
 "CO2 Temperature Decline with Cooling"; "CO2 Turbine Outlet Pressure"; "Absorption Chiller COP"; 
 "District Heating Demand Option"; "District Heating Demand File Name"; 
 "District Heating Demand Data Time Resolution"; "District Heating Demand Data Column Number"; 
 "Temperature File Name"; "Temperature Data Column Number"; "Number of Housing Units"; 
 "Constant Anchor Demand"; "US Census Division"; "Heat Pump COP"; "TOUGH2 Executable Path"; 
 "TOUGH2 Model/File Name"; "Reservoir Thickness"; "Reservoir Width"; "Reservoir Output File Name"].

Definition pinned_schema_names : list string := [
 "Reservoir Model"; "Reservoir Depth"; "Maximum Temperature"; "Number of Segments"; "Gradients"; "Gradient 1"; 
 "Gradient 2"; "Gradient 3"; "Gradient 4"; "Thicknesses"; "Thickness 1"; "Thickness 2"; "Thickness 3"; 
 "Thickness 4"; "Reservoir Volume Option"; "Fracture Shape"; "Fracture Area"; "Fracture Height"; 
 "Fracture Width"; "Number of Fractures"; "Fracture Separation"; "Reservoir Volume"; "Water Loss Fraction"; 
 "Reservoir Heat Capacity"; "Reservoir Density"; "Reservoir Thermal Conductivity"; "Reservoir Permeability"; 
 "Reservoir Porosity"; "Surface Temperature"; "Drawdown Parameter"; "Cylindrical Reservoir Input Depth"; 
 "Cylindrical Reservoir Output Depth"; "Cylindrical Reservoir Length"; 
 "Cylindrical Reservoir Radius of Effect"; "Cylindrical Reservoir Radius of Effect Factor"; "Drilled length"; 
 "Flowrate Model"; "Flowrate File"; "Injection Temperature Model"; "Injection Temperature File"; 
 "SBT Accuracy Desired"; "SBT Percent Implicit Euler Scheme"; "SBT Initial Timestep Count"; 
 "SBT Final Timestep Count"; "SBT Initial to Final Timestep Transition"; "SBT Generate Wireframe Graphics"; 
 "SUTRA Annual Heat File Name"; "SUTRA Heat Budget File Name"; 
 "SUTRA Balance and Storage Well Output File Name"; "TOUGH2 Executable Path"; "TOUGH2 Model/File Name"; 
 "Reservoir Thickness"; "Reservoir Width"; "Number of Production Wells"; "Number of Injection Wells"; 
 "Production Well Diameter"; "Injection Well Diameter"; "Ramey Production Wellbore Model"; 
 "Production Wellbore Temperature Drop"; "Injection Wellbore Temperature Gain"; 
 "Production Flow Rate per Well"; "Reservoir Impedance"; "Well Separation"; "Injection Temperature"; 
 "Reservoir Hydrostatic Pressure"; "Production Wellhead Pressure"; "Injectivity Index"; "Productivity Index"; 
 "Maximum Drawdown"; "Is AGS"; "Overpressure Percentage"; "Overpressure Depletion Rate"; 
 "Injection Reservoir Temperature"; "Injection Reservoir Depth"; "Injection Reservoir Initial Pressure"; 
 "Injection Reservoir Inflation Rate"; "Closed-loop Configuration"; "Well Geometry Configuration"; 
 "Water Thermal Conductivity"; "Heat Transfer Fluid"; "Nonvertical Length per Multilateral Section"; 
 "Nonvertical Wellbore Diameter"; "Number of Multilateral Sections"; "Multilaterals Cased"; 
 "Closed Loop Calculation Start Year"; "Vertical Section Length"; "Vertical Wellbore Spacing"; 
 "Lateral Spacing"; "Lateral Inclination Angle"; "Discretization Length"; "Junction Depth"; 
 "Lateral Endpoint Depth"; "End-Use Option"; "Power Plant Type"; "Circulation Pump Efficiency"; 
 "Utilization Factor"; "End-Use Efficiency Factor"; "CHP Fraction"; "CHP Bottoming Entering Temperature"; 
 "Ambient Temperature"; "Plant Lifetime"; "Surface Piping Length"; "Plant Outlet Pressure"; 
 "Electricity Rate"; "Heat Rate"; "Construction Years"; "Working Fluid Heat Capacity"; 
 "Working Fluid Density"; "Working Fluid Thermal Conductivity"; "Working Fluid Dynamic Viscosity"; 
 "Dead-state Pressure"; "Isentropic Efficiency for CO2 Turbine"; "Generator Conversion Efficiency"; 
 "Isentropic Efficiency for CO2 Compressor"; "CO2 Temperature Decline with Cooling"; 
 "CO2 Turbine Outlet Pressure"; "Economic Model"; "Reservoir Stimulation Capital Cost"; 
 "Reservoir Stimulation Capital Cost Adjustment Factor"; "Exploration Capital Cost"; 
 "Exploration Capital Cost Adjustment Factor"; "Well Drilling and Completion Capital Cost"; 
 "Injection Well Drilling and Completion Capital Cost"; 
 "Well Drilling and Completion Capital Cost Adjustment Factor"; 
 "Injection Well Drilling and Completion Capital Cost Adjustment Factor"; "Wellfield O&M Cost"; 
 "Wellfield O&M Cost Adjustment Factor"; "Surface Plant Capital Cost"; 
 "Surface Plant Capital Cost Adjustment Factor"; "Field Gathering System Capital Cost"; 
 "Field Gathering System Capital Cost Adjustment Factor"; "Surface Plant O&M Cost"; 
 "Surface Plant O&M Cost Adjustment Factor"; "Water Cost"; "Water Cost Adjustment Factor"; 
 "Total Capital Cost"; "Total O&M Cost"; "Time steps per year"; "Fixed Charge Rate"; "Discount Rate"; 
 "Discount Initial Year Cashflow"; "Fraction of Investment in Bonds"; "Inflated Bond Interest Rate"; 
 "Inflated Equity Interest Rate"; "Inflation Rate"; "Combined Income Tax Rate"; "Gross Revenue Tax Rate"; 
 "Investment Tax Credit Rate"; "Property Tax Rate"; "Inflation Rate During Construction"; 
 "Well Drilling Cost Correlation"; "Do AddOn Calculations"; "Do Carbon Price Calculations"; 
 "Do S-DAC-GT Calculations"; "All-in Vertical Drilling Costs"; "All-in Nonvertical Drilling Costs"; 
 "Absorption Chiller Capital Cost"; "Absorption Chiller O&M Cost"; "Heat Pump Capital Cost"; 
 "Peaking Fuel Cost Rate"; "Peaking Boiler Efficiency"; "District Heating Piping Cost Rate"; 
 "Total District Heating Network Cost"; "District Heating O&M Cost"; "District Heating Network Piping Length"; 
 "District Heating Road Length"; "District Heating Land Area"; "District Heating Population"; 
 "Starting Heat Sale Price"; "Ending Heat Sale Price"; "Heat Escalation Start Year"; 
 "Heat Escalation Rate Per Year"; "Starting Electricity Sale Price"; "Ending Electricity Sale Price"; 
 "Electricity Escalation Start Year"; "Electricity Escalation Rate Per Year"; "Starting Cooling Sale Price"; 
 "Ending Cooling Sale Price"; "Cooling Escalation Start Year"; "Cooling Escalation Rate Per Year"; 
 "Starting Carbon Credit Value"; "Ending Carbon Credit Value"; "Carbon Escalation Start Year"; 
 "Carbon Escalation Rate Per Year"; "Current Grid CO2 production"; "CO2 produced by Natural Gas"; 
 "Annual License Fees Etc"; "One-time Flat License Fees Etc"; "Other Incentives"; "Tax Relief Per Year"; 
 "One-time Grants Etc"; "Fixed Internal Rate"; "CHP Electrical Plant Cost Allocation Ratio"; 
 "Production Tax Credit Electricity"; "Production Tax Credit Heat"; "Production Tax Credit Cooling"; 
 "Production Tax Credit Duration"; "Production Tax Credit Inflation Adjusted"; 
 "Estimated Jobs Created per MW of Electricity Produced"; "Operation & Maintenance Cost of Surface Plant"; 
 "Capital Cost for Surface Plant for Direct-use System"; 
 "Capital Cost for Power Plant for Electricity Generation"; "AddOn Nickname"; "AddOn CAPEX"; "AddOn OPEX"; 
 "AddOn Electricity Gained"; "AddOn Heat Gained"; "AddOn Profit Gained"].

(* 30 names the simulator accepts are not in the committed (= generated) request schema; nothing is extra *)
Lemma pinned_names_refuted :
  (exists n, In n pinned_accepted_names /\ ~ In n pinned_schema_names) /\
  List.length (filter (fun n => negb (mem_str n pinned_schema_names)) pinned_accepted_names) = 30%nat /\
  forallb (fun n => mem_str n pinned_accepted_names) pinned_schema_names = true.
Proof.
  split; [|split; vm_compute; reflexivity].
  exists "Heat Pump COP"%string. split.
  - apply mem_str_In. vm_compute. reflexivity.
  - intros H. apply mem_str_In in H. vm_compute in H. discriminate.
Qed.

(* 'Maximum Drawdown': the reader enforces Max = 1.000001 (binary64), the schema publishes "1.0" *)
Definition w_maxdrawdown : param :=
  mkParam "WellBores" "Maximum Drawdown" KFloat (Some 1) (Some 1) 0 (4503604130970123 # 4503599627370496) []
          "" "" "PERCENT" false "number" "1/1".
Definition w_maxdrawdown_entry : sentry :=
  mkS "Maximum Drawdown" "number" "" "Well Bores" (Some 1) "1/1" (Some 0) (Some 1) [] "8a32d1010bcee2f3".

Lemma pinned_bound_refuted :
  exists p s v, s_name s = p_name p /\ f_max p s = false /\ schema_allows s v = false /\ read_param p v = Accept v.
Proof.
  exists w_maxdrawdown, w_maxdrawdown_entry, (10000005 # 10000000). repeat split; vm_compute; reflexivity.
Qed.
