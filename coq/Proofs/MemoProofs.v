(* Proofs/MemoProofs.v - lemmas about Model/Memo.v (C08): memoisation is unobservable, for every call sequence,
   every maxsize and every starting table that is consistent with the function. *)
From Coq Require Import List Bool Arith NArith String Lia.
From Verif Require Import Model.Memo Gen.C08MemoTable Gen.C08StateTable.
Import ListNotations.

Section MemoProofs.
  Variables K V : Type.
  Variable keq : K -> K -> bool.
  Variable f : K -> V.

  Lemma find_entry_some x (t : list (K * V)) k v :
    find_entry keq x t = Some (k, v) -> In (k, v) t /\ keq x k = true.
  Proof.
    induction t as [|[k' v'] r IH]; simpl; [discriminate|].
    destruct (keq x k') eqn:E.
    - intros H. inversion H; subst. auto.
    - intros H. destruct (IH H). auto.
  Qed.

  Lemma find_entry_none x (t : list (K * V)) :
    (forall k v, In (k, v) t -> keq x k = false) -> find_entry keq x t = None.
  Proof.
    induction t as [|[k' v'] r IH]; simpl; intros H; [reflexivity|].
    rewrite (H k' v') by auto. apply IH. intros k v Hi. apply (H k v). auto.
  Qed.

  Lemma remove_entry_incl x (t : list (K * V)) e : In e (remove_entry keq x t) -> In e t.
  Proof.
    induction t as [|[k' v'] r IH]; simpl; auto.
    destruct (keq x k'); simpl; intuition.
  Qed.

  Lemma firstn_incl {A} n (l : list A) e : In e (firstn n l) -> In e l.
  Proof. revert n. induction l as [|h t IH]; intros [|n]; simpl; intuition eauto. Qed.

  Lemma trim_incl m (t : list (K * V)) e : In e (trim m t) -> In e t.
  Proof. destruct m; simpl; auto. apply firstn_incl. Qed.

  (* every entry holds the value of the function at its key *)
  Definition consistent (t : list (K * V)) : Prop := forall k v, In (k, v) t -> v = f k.

  (* the function does not distinguish arguments that Python's key equality identifies *)
  Definition respects : Prop := forall a b, keq a b = true -> f a = f b.

  Lemma memo_call_pure m (t : list (K * V)) x : respects -> consistent t ->
    fst (fst (memo_call keq f m t x)) = f x /\ consistent (snd (memo_call keq f m t x)).
  Proof.
    intros Hr Hc. unfold memo_call. destruct (find_entry keq x t) as [[k v]|] eqn:E; simpl.
    - destruct (find_entry_some _ _ _ _ E) as [Hi Hk]. split.
      + rewrite (Hc k v Hi). symmetry. now apply Hr.
      + intros k' v' [H|H]; [inversion H; subst; now apply Hc|]. apply Hc. eapply remove_entry_incl; eauto.
    - split; [reflexivity|]. intros k' v' H. apply trim_incl in H as [H|H]; [now inversion H|now apply Hc].
  Qed.

  Theorem memo_calls_pure m : respects -> forall xs t, consistent t ->
    map fst (fst (memo_calls keq f m t xs)) = map f xs.
  Proof.
    intros Hr. induction xs as [|x r IH]; intros t Hc; simpl; [reflexivity|].
    destruct (memo_call_pure m t x Hr Hc) as [E1 E2].
    destruct (memo_call keq f m t x) as [[v h] t'] eqn:Ec. simpl in E1, E2.
    specialize (IH t' E2). destruct (memo_calls keq f m t' r) as [vs t'']. simpl in *. now rewrite E1, IH.
  Qed.

  Theorem memo_pure m xs : respects -> map fst (fst (memo_calls keq f m [] xs)) = map f xs.
  Proof. intros Hr. apply memo_calls_pure; auto. intros k v []. Qed.

  (* keys that are pairwise different never hit, whatever the function does (no [respects] needed) *)
  Theorem memo_calls_distinct m : forall xs t,
    (forall x, In x xs -> forall k v, In (k, v) t -> keq x k = false) ->
    ForallOrdPairs (fun a b => keq b a = false) xs ->
    fst (memo_calls keq f m t xs) = map (fun x => (f x, false)) xs.
  Proof.
    induction xs as [|x r IH]; intros t Ht Hp; simpl; [reflexivity|].
    inversion Hp as [|a l Hx Hr]; subst.
    unfold memo_call. rewrite (find_entry_none x t) by (apply Ht; now left).
    specialize (IH (trim m ((x, f x) :: t))).
    destruct (memo_calls keq f m (trim m ((x, f x) :: t)) r) as [vs t''] eqn:E. simpl in *.
    f_equal. apply IH; [|exact Hr].
    intros y Hy k v Hi. apply trim_incl in Hi as [Hi|Hi].
    - inversion Hi; subst. rewrite Forall_forall in Hx. now apply Hx.
    - exact (Ht y (or_intror Hy) k v Hi).
  Qed.
End MemoProofs.

Lemma nodup_fst_pairs {S} (l : list (nat * S)) :
  NoDup (map fst l) -> ForallOrdPairs (fun a b => id_keq b a = false) l.
Proof.
  induction l as [|a l IH]; simpl; intros H; [constructor|].
  inversion H as [|x xs Hn Hd]; subst. constructor; [|auto].
  rewrite Forall_forall. intros b Hb. unfold id_keq. apply Nat.eqb_neq. intros E.
  apply Hn. rewrite <- E. now apply in_map.
Qed.

(* identity-keyed table: objects with distinct identities never hit, so the body runs on each object's own state *)
Theorem identity_memo_never_hits {S V} (body : S -> V) m (calls : list (nat * S)) :
  NoDup (map fst calls) -> id_calls body m calls = map (fun c => (body (snd c), false)) calls.
Proof.
  intros H. unfold id_calls. apply memo_calls_distinct.
  - intros x _ k v [].
  - now apply nodup_fst_pairs.
Qed.

(* why distinct identities matter: were an identity reused for an object in another state, the old value would
   come back (this cannot happen while the table holds a strong reference to its keys) *)
Lemma identity_reuse_witness :
  id_calls (fun s : nat => s) None [(1, 10); (1, 20)] = [(10, false); (10, true)].
Proof. vm_compute. reflexivity. Qed.

(* the memoised callables found in the source tree are all of a transparent kind *)
Lemma memo_table_ok : forallb entry_ok c08_memo_table = true.
Proof. vm_compute. reflexivity. Qed.

Lemma memo_table_ok_forall : forall e, In e c08_memo_table -> entry_ok e = true.
Proof. apply forallb_forall. exact memo_table_ok. Qed.

(* no parameter of the current source takes its default from an object shared between runs; every container that
   outlives a run is never written or is a keyed memo *)
Lemma param_defaults_fresh : forallb default_ok c08_param_defaults = true.
Proof. vm_compute. reflexivity. Qed.

Lemma param_defaults_fresh_forall : forall d, In d c08_param_defaults -> pd_kind d <> DShared /\ pd_kind d <> DOther.
Proof.
  intros d H. pose proof (proj1 (forallb_forall _ _) param_defaults_fresh d H) as E.
  unfold default_ok in E. destruct (pd_kind d); split; congruence.
Qed.

Lemma state_table_ok : forallb state_ok c08_state_table = true.
Proof. vm_compute. reflexivity. Qed.

Lemma state_table_ok_forall : forall e, In e c08_state_table -> se_mutated e = true -> se_keyed_memo e = true.
Proof.
  intros e H Hm. pose proof (proj1 (forallb_forall _ _) state_table_ok e H) as E.
  unfold state_ok in E. rewrite Hm in E. exact E.
Qed.

(* no loop of the current source walks a set: parameter reading and the calculations do not depend on the hash seed
   through an iteration order *)
Lemma iterations_ok : forallb iteration_ok c08_iterations = true.
Proof. vm_compute. reflexivity. Qed.

Lemma iterations_ok_forall : forall i, In i c08_iterations -> it_kind i <> ISet.
Proof.
  intros i H. pose proof (proj1 (forallb_forall _ _) iterations_ok i H) as E.
  unfold iteration_ok in E. destruct (it_kind i); congruence.
Qed.
