(* Proofs/MCRowsProofs.v - lemmas about Model/MCRows.v, and the append / failure clauses of C14 *)
From Coq Require Import List Arith Bool String Ascii Permutation Lia.
From Verif Require Import Model.MonteCarlo Proofs.MonteCarloProofs Model.MCRows.
Import ListNotations.
Open Scope string_scope.

(* ---------------------------------------------------------------- strings *)
Lemma app_assoc_s a b c : (a ++ b) ++ c = a ++ (b ++ c).
Proof. induction a as [|x a IH]; cbn; [reflexivity | rewrite IH; reflexivity]. Qed.

Lemma app_nil_r_s a : a ++ "" = a.
Proof. induction a as [|x a IH]; cbn; [reflexivity | rewrite IH; reflexivity]. Qed.

Lemma all_chars_app f a b : all_chars f (a ++ b) = all_chars f a && all_chars f b.
Proof. induction a as [|x a IH]; cbn; [reflexivity | rewrite IH, andb_assoc; reflexivity]. Qed.

Lemma all_chars_impl (f g : ascii -> bool) s : (forall c, f c = true -> g c = true) -> all_chars f s = true -> all_chars g s = true.
Proof.
  intros H. induction s as [|x s IH]; cbn; [reflexivity|]. intros E. apply andb_true_iff in E. destruct E as [E1 E2].
  rewrite (H _ E1), (IH E2). reflexivity.
Qed.

Lemma clean_char_spec c : clean_char c = true ->
  is_ws c = false /\ c <> ","%char /\ c <> "("%char /\ c <> ")"%char.
Proof.
  unfold clean_char. intros H. repeat (apply andb_true_iff in H; destruct H as [H ?]).
  repeat match goal with E : negb _ = true |- _ => apply negb_true_iff in E end.
  repeat split; try assumption; apply Ascii.eqb_neq; assumption.
Qed.

(* strip *)
Lemma lstrip_by_head f c r : f c = false -> lstrip_by f (String c r) = String c r.
Proof. intros H. cbn. rewrite H. reflexivity. Qed.

Lemma rstrip_by_app_last f s c : f c = false -> rstrip_by f (s ++ String c "") = s ++ String c "".
Proof.
  intros H. induction s as [|x s IH]; cbn [append rstrip_by].
  - rewrite H. reflexivity.
  - rewrite IH. destruct s; reflexivity.
Qed.

Lemma rstrip_by_all f w : all_chars f w = true -> rstrip_by f w = "".
Proof.
  induction w as [|x w IH]; cbn; [reflexivity|]. intros E. apply andb_true_iff in E. destruct E as [E1 E2].
  rewrite (IH E2), E1. reflexivity.
Qed.

Lemma rstrip_by_app_ws f s w : all_chars f w = true -> rstrip_by f (s ++ w) = rstrip_by f s.
Proof.
  intros H. induction s as [|x s IH]; cbn [append rstrip_by]; [apply rstrip_by_all; exact H | rewrite IH; reflexivity].
Qed.

Lemma rstrip_by_none f s : all_chars (fun c => negb (f c)) s = true -> rstrip_by f s = s.
Proof.
  induction s as [|x s IH]; cbn; [reflexivity|]. intros E. apply andb_true_iff in E. destruct E as [E1 E2].
  apply negb_true_iff in E1. rewrite (IH E2). destruct s; [rewrite E1|]; reflexivity.
Qed.

(* tokens *)
Definition no_ws (s : string) : bool := all_chars (fun c => negb (is_ws c)) s.

Lemma clean_token_chars t : clean_token t = true -> t <> "" /\ all_chars clean_char t = true.
Proof. destruct t; cbn [clean_token]; [discriminate|]. intros H. split; [discriminate | exact H]. Qed.

Lemma clean_no_ws t : all_chars clean_char t = true -> no_ws t = true.
Proof. apply all_chars_impl. intros c H. apply clean_char_spec in H. destruct H as [H _]. rewrite H. reflexivity. Qed.

Lemma strip_clean t : clean_token t = true -> strip t = t.
Proof.
  intros H. destruct (clean_token_chars t H) as [Hn Hc]. destruct t as [|c r]; [congruence|].
  cbn [all_chars] in Hc. pose proof Hc as Hc'. apply andb_true_iff in Hc'. destruct Hc' as [Hc1 _].
  apply clean_char_spec in Hc1. destruct Hc1 as [Hw _].
  unfold strip, strip_by. rewrite lstrip_by_head by exact Hw. apply rstrip_by_none.
  apply (clean_no_ws (String c r)). exact Hc.
Qed.

Lemma strip_space_clean t : clean_token t = true -> strip (" " ++ t) = t.
Proof.
  intros H. unfold strip, strip_by. change (" " ++ t) with (String " " t). cbn [lstrip_by].
  change (is_ws " ") with true. cbv iota. apply (strip_clean t H).
Qed.

(* joins *)
Fixpoint join_with (sep : string) (l : list string) : string :=
  match l with
  | [] => ""
  | [t] => t
  | t :: r => t ++ sep ++ join_with sep r
  end.

Lemma join_suffix_cons suffix t r : join_suffix suffix (t :: r) = t ++ suffix ++ join_suffix suffix r.
Proof.
  unfold join_suffix. cbn [map]. destruct r as [|t' r'].
  - cbn [map concat]. change (suffix ++ "") with (suffix ++ EmptyString). rewrite app_nil_r_s. reflexivity.
  - change (concat "" ((t ++ suffix) :: map (fun x => x ++ suffix) (t' :: r')))
      with ((t ++ suffix) ++ "" ++ concat "" (map (fun x => x ++ suffix) (t' :: r'))).
    cbn [append]. rewrite app_assoc_s. reflexivity.
Qed.

(* before ", (" *)
Lemma before_sep_clean t s : all_chars clean_char t = true -> before_sep ", (" (t ++ s) = t ++ before_sep ", (" s.
Proof.
  induction t as [|c t IH]; cbn [append all_chars]; [reflexivity|]. intros H. apply andb_true_iff in H. destruct H as [H1 H2].
  apply clean_char_spec in H1. destruct H1 as (_ & Hc & _).
  cbn [before_sep prefix]. destruct (ascii_dec "," c) as [E|E]; [congruence|]. rewrite IH by exact H2. reflexivity.
Qed.

Lemma before_sep_rows : forall toks rest, toks <> [] -> forallb clean_token toks = true ->
  before_sep ", (" (join_suffix ", " toks ++ "(" ++ rest) = join_with ", " toks.
Proof.
  induction toks as [|t r IH]; intros rest Hne Hc; [congruence|].
  cbn [forallb] in Hc. apply andb_true_iff in Hc. destruct Hc as [Ht Hr].
  destruct (clean_token_chars t Ht) as [_ Hct].
  rewrite join_suffix_cons, !app_assoc_s, before_sep_clean by exact Hct.
  destruct r as [|t' r'].
  - destruct rest; cbn; rewrite app_nil_r_s; reflexivity.
  - cbn [forallb] in Hr. pose proof Hr as Hr'. apply andb_true_iff in Hr'. destruct Hr' as [Ht' _].
    destruct (clean_token_chars t' Ht') as [Hn' Hct'].
    specialize (IH rest ltac:(discriminate) Hr).
    change (join_with ", " (t :: t' :: r')) with (t ++ ", " ++ join_with ", " (t' :: r')).
    rewrite <- IH. f_equal.
    rewrite join_suffix_cons. destruct t' as [|c' t'']; [congruence|].
    cbn [all_chars] in Hct'. apply andb_true_iff in Hct'. destruct Hct' as [Hc' _].
    apply clean_char_spec in Hc'. destruct Hc' as (_ & _ & Hp & _).
    cbn [append before_sep prefix].
    destruct (ascii_dec "," ","); [|congruence]. destruct (ascii_dec " " " "); [|congruence].
    destruct (ascii_dec "(" c') as [E|E]; [congruence|].
    destruct (ascii_dec "," " ") as [E'|E']; [discriminate|]. reflexivity.
Qed.

(* no parentheses to remove *)
Lemma remove_char_none c s : all_chars (fun a => negb (Ascii.eqb a c)) s = true -> remove_char c s = s.
Proof.
  induction s as [|x s IH]; cbn; [reflexivity|]. intros E. apply andb_true_iff in E. destruct E as [E1 E2].
  apply negb_true_iff in E1. rewrite E1, (IH E2). reflexivity.
Qed.

Definition no_par (s : string) : bool := all_chars (fun a => negb (Ascii.eqb a "(") && negb (Ascii.eqb a ")")) s.

Lemma clean_no_par t : all_chars clean_char t = true -> no_par t = true.
Proof.
  apply all_chars_impl. intros c H. unfold clean_char in H. repeat (apply andb_true_iff in H; destruct H as [H ?]).
  apply andb_true_iff. split; assumption.
Qed.

Lemma join_with_no_par : forall toks, forallb clean_token toks = true -> no_par (join_with ", " toks) = true.
Proof.
  induction toks as [|t r IH]; intros H; [reflexivity|].
  cbn [forallb] in H. apply andb_true_iff in H. destruct H as [Ht Hr].
  destruct (clean_token_chars t Ht) as [_ Hct]. destruct r as [|t' r'].
  - cbn [join_with]. apply clean_no_par. exact Hct.
  - change (join_with ", " (t :: t' :: r')) with (t ++ ", " ++ join_with ", " (t' :: r')).
    unfold no_par. rewrite !all_chars_app. fold (no_par t). fold (no_par (join_with ", " (t' :: r'))).
    rewrite (clean_no_par t Hct), (IH Hr). reflexivity.
Qed.

Lemma remove_pars s : no_par s = true -> remove_char ")" (remove_char "(" s) = s.
Proof.
  intros H. rewrite (remove_char_none "(" s), (remove_char_none ")" s); [reflexivity | |];
    revert H; apply all_chars_impl; intros c E; apply andb_true_iff in E; tauto.
Qed.

(* split on the comma *)
Lemma split_char_nonempty c s : split_char c s <> [].
Proof.
  induction s as [|a s IH]; cbn [split_char]; [discriminate|].
  destruct (Ascii.eqb a c); [discriminate|]. destruct (split_char c s); [congruence | discriminate].
Qed.

Lemma split_char_prefix c t s x xs : all_chars (fun a => negb (Ascii.eqb a c)) t = true ->
  split_char c s = x :: xs -> split_char c (t ++ s) = (t ++ x) :: xs.
Proof.
  intros H E. induction t as [|a t IH]; cbn [append all_chars] in *; [exact E|].
  apply andb_true_iff in H. destruct H as [H1 H2]. apply negb_true_iff in H1.
  cbn [split_char]. rewrite H1, (IH H2). reflexivity.
Qed.

Lemma clean_no_comma t : all_chars clean_char t = true -> all_chars (fun a => negb (Ascii.eqb a ",")) t = true.
Proof.
  apply all_chars_impl. intros c H. unfold clean_char in H. repeat (apply andb_true_iff in H; destruct H as [H ?]). assumption.
Qed.

Lemma split_join : forall toks, toks <> [] -> forallb clean_token toks = true ->
  map strip (split_char "," (join_with ", " toks)) = toks.
Proof.
  induction toks as [|t r IH]; intros Hne H; [congruence|].
  cbn [forallb] in H. apply andb_true_iff in H. destruct H as [Ht Hr].
  destruct (clean_token_chars t Ht) as [_ Hct]. destruct r as [|t' r'].
  - cbn [join_with]. rewrite <- (app_nil_r_s t) at 1.
    rewrite (split_char_prefix "," t "" "" []) by (try apply clean_no_comma; try exact Hct; reflexivity).
    cbn [map]. rewrite app_nil_r_s, (strip_clean t Ht). reflexivity.
  - change (join_with ", " (t :: t' :: r')) with (t ++ ", " ++ join_with ", " (t' :: r')).
    specialize (IH ltac:(discriminate) Hr).
    destruct (split_char "," (join_with ", " (t' :: r'))) as [|x xs] eqn:E; [apply split_char_nonempty in E; contradiction|].
    assert (E2 : split_char "," (", " ++ join_with ", " (t' :: r')) = "" :: (String " " x) :: xs).
    { change (", " ++ join_with ", " (t' :: r')) with (String "," (String " " (join_with ", " (t' :: r')))).
      cbn [split_char]. change (Ascii.eqb "," ",") with true. change (Ascii.eqb " " ",") with false. cbv iota.
      rewrite E. reflexivity. }
    rewrite (split_char_prefix "," t _ _ _ (clean_no_comma t Hct) E2).
    cbn [map] in IH |- *. rewrite app_nil_r_s, (strip_clean t Ht). f_equal.
    inversion IH as [[E3 E4]]. reflexivity.
Qed.

(* what a row made of clean tokens looks like, and that re-reading it returns the tokens *)
Definition NL : string := String (ascii_of_nat 10) "".

Lemma assemble_row_clean toks etext : toks <> [] -> forallb clean_token toks = true ->
  assemble_row toks etext = (join_suffix ", " toks ++ "(" ++ etext ++ ")") ++ NL
  /\ strip (assemble_row toks etext) = join_suffix ", " toks ++ "(" ++ etext ++ ")".
Proof.
  intros Hne H. destruct toks as [|t r]; [congruence|].
  pose proof H as H'. cbn [forallb] in H'. apply andb_true_iff in H'. destruct H' as [Ht _].
  destruct (clean_token_chars t Ht) as [Hn Hct]. destruct t as [|c t']; [congruence|].
  cbn [all_chars] in Hct. apply andb_true_iff in Hct. destruct Hct as [Hc _].
  apply clean_char_spec in Hc. destruct Hc as (Hw & Hcomma & _ & _).
  assert (Hsp : Ascii.eqb " " c = false).
  { apply Ascii.eqb_neq. intros <-. cbv in Hw. discriminate. }
  assert (Hcm : Ascii.eqb "," c = false) by (apply Ascii.eqb_neq; congruence).
  set (body := join_suffix ", " (String c t' :: r) ++ "(" ++ etext ++ ")").
  assert (Eb : exists s0, body = String c s0 /\ body = (String c s0 ++ "") /\ exists s1, body = s1 ++ ")").
  { unfold body. rewrite join_suffix_cons. cbn [append]. eexists. split; [reflexivity|]. split; [rewrite app_nil_r_s; reflexivity|].
    exists (String c (t' ++ ", " ++ join_suffix ", " r) ++ "(" ++ etext).
    cbn [append]. rewrite !app_assoc_s. reflexivity. }
  destruct Eb as (s0 & E0 & _ & s1 & E1).
  assert (S1 : strip_char " " body = body).
  { unfold strip_char, strip_by. rewrite E0, lstrip_by_head by exact Hsp. rewrite <- E0, E1.
    apply rstrip_by_app_last. reflexivity. }
  assert (S2 : strip_char "," body = body).
  { unfold strip_char, strip_by. rewrite E0, lstrip_by_head by exact Hcm. rewrite <- E0, E1.
    apply rstrip_by_app_last. reflexivity. }
  unfold assemble_row. fold body. rewrite S1, S2. fold NL. split; [reflexivity|].
  unfold strip, strip_by. rewrite E0. cbn [append]. rewrite lstrip_by_head by exact Hw.
  change (String c (s0 ++ NL)) with (String c s0 ++ NL). rewrite <- E0.
  rewrite rstrip_by_app_ws by reflexivity. rewrite E1. apply rstrip_by_app_last. reflexivity.
Qed.

Lemma row_roundtrip toks etext :
  toks <> [] -> forallb clean_token toks = true ->
  contains "-9999.0" (assemble_row toks etext) = false ->
  10 < String.length (strip (assemble_row toks etext)) ->
  parse_row (assemble_row toks etext) = Some toks.
Proof.
  intros Hne Hc Hs Hl. unfold parse_row. rewrite Hs.
  destruct (Nat.leb_spec (String.length (strip (assemble_row toks etext))) 10) as [H|_]; [lia|].
  destruct (assemble_row_clean toks etext Hne Hc) as [_ ->].
  rewrite before_sep_rows by assumption.
  rewrite remove_pars by (apply join_with_no_par; exact Hc).
  rewrite split_join by assumption. reflexivity.
Qed.

(* ---------------------------------------------------------------- length of a row (one buffered write + flush) *)
Lemma length_app_s a b : String.length (a ++ b) = String.length a + String.length b.
Proof. induction a as [|x a IH]; cbn; [reflexivity | rewrite IH; reflexivity]. Qed.

Lemma lstrip_by_length f s : String.length (lstrip_by f s) <= String.length s.
Proof. induction s as [|x s IH]; cbn; [lia|]. destruct (f x); cbn; lia. Qed.

Lemma rstrip_by_length f s : String.length (rstrip_by f s) <= String.length s.
Proof.
  induction s as [|x s IH]; cbn [rstrip_by]; [cbn; lia|].
  destruct (rstrip_by f s) eqn:E; [destruct (f x); cbn; lia | cbn in *; lia].
Qed.

Lemma strip_by_length f s : String.length (strip_by f s) <= String.length s.
Proof. unfold strip_by. eapply Nat.le_trans; [apply rstrip_by_length | apply lstrip_by_length]. Qed.

Lemma assemble_row_length toks etext :
  String.length (assemble_row toks etext) <= String.length (join_suffix ", " toks) + String.length etext + 3.
Proof.
  unfold assemble_row, strip_char. rewrite length_app_s. cbn [String.length].
  eapply Nat.le_trans; [apply Nat.add_le_mono_r; eapply Nat.le_trans; [apply strip_by_length | apply strip_by_length]|].
  rewrite !length_app_s. cbn [String.length]. lia.
Qed.

(* ---------------------------------------------------------------- input file of an iteration *)
Lemma split_char_app_sep c a b : split_char c (a ++ String c b) = (split_char c a ++ split_char c b)%list.
Proof.
  induction a as [|x a IH]; cbn [append split_char].
  - rewrite Ascii.eqb_refl. reflexivity.
  - destruct (Ascii.eqb x c); [rewrite IH; reflexivity|].
    rewrite IH. destruct (split_char c a) as [|y ys] eqn:E; [apply split_char_nonempty in E; contradiction | reflexivity].
Qed.

Lemma split_char_none c s : all_chars (fun a => negb (Ascii.eqb a c)) s = true -> split_char c s = [s].
Proof.
  intros H. rewrite <- (app_nil_r_s s) at 1. rewrite (split_char_prefix c s "" "" []) by (try exact H; reflexivity).
  rewrite app_nil_r_s. reflexivity.
Qed.

Definition no_nl (s : string) : bool := all_chars (fun a => negb (Ascii.eqb a NLc)) s.

Lemma split_entries : forall entries, forallb (fun e => no_nl (entry_line e)) entries = true ->
  file_lines (entries_lines entries) = (map entry_line entries ++ [""])%list.
Proof.
  unfold file_lines, entries_lines. induction entries as [|e r IH]; intros H; [reflexivity|].
  cbn [forallb] in H. apply andb_true_iff in H. destruct H as [He Hr].
  cbn [map]. rewrite join_suffix_cons. change (String NLc "" ++ ?x) with (String NLc x).
  rewrite split_char_app_sep, (split_char_none NLc _ He), (IH Hr). reflexivity.
Qed.

(* current code: every sampled input is a line of its own in the iteration's input file, whatever the base file *)
Lemma input_file_lines base entries e :
  forallb (fun e => no_nl (entry_line e)) entries = true -> In e entries ->
  In (entry_line e) (file_lines (input_file base entries)).
Proof.
  intros H Hin. unfold input_file, file_lines.
  rewrite split_char_app_sep. apply in_or_app. right.
  change (split_char NLc (entries_lines entries)) with (file_lines (entries_lines entries)).
  rewrite (split_entries entries H). apply in_or_app. left. apply in_map. exact Hin.
Qed.

(* ... and the lines of the base file are untouched (a blank line separates them when the base ends with a new line) *)
Lemma input_file_base_lines base entries :
  forallb (fun e => no_nl (entry_line e)) entries = true ->
  file_lines (input_file base entries) = (file_lines base ++ map entry_line entries ++ [""])%list.
Proof.
  intros H. unfold input_file, file_lines. rewrite split_char_app_sep.
  change (split_char NLc (entries_lines entries)) with (file_lines (entries_lines entries)).
  rewrite (split_entries entries H). reflexivity.
Qed.

(* code before db0b708: the same holds only when the base file ends with a new line ... *)
Lemma input_file_pinned_lines b0 entries e :
  forallb (fun e => no_nl (entry_line e)) entries = true -> In e entries ->
  In (entry_line e) (file_lines (input_file_pinned (b0 ++ String NLc "") entries)).
Proof.
  intros H Hin. unfold input_file_pinned. rewrite app_assoc_s. change (String NLc "" ++ ?x) with (String NLc x).
  apply (input_file_lines b0 entries e H Hin).
Qed.

(* ... otherwise the first sampled input is glued to the last line of the base file *)
Lemma input_file_pinned_glued :
  exists base entries e, In e entries /\ ~ In (entry_line e) (file_lines (input_file_pinned base entries))
    /\ file_lines (input_file_pinned base entries) = ["Reservoir Life Cycle, 25, yearsReservoir Area, 81.5"; ""].
Proof.
  exists "Reservoir Life Cycle, 25, years", [("Reservoir Area", "81.5")], ("Reservoir Area", "81.5").
  split; [left; reflexivity|]. split; [|vm_compute; reflexivity].
  vm_compute. intros [H|[H|[]]]; discriminate.
Qed.

(* ---------------------------------------------------------------- alignment *)
Definition found (lines : list string) (o : string) : bool :=
  match find_output o lines with Some _ => true | None => false end.
Definition value_of (lines : list string) (o : string) : string :=
  match find_output o lines with Some t => t | None => "" end.

Lemma row_tokens_found outputs lines : forallb (found lines) outputs = true ->
  row_tokens outputs lines = map (value_of lines) outputs.
Proof.
  unfold row_tokens. induction outputs as [|o r IH]; cbn [forallb flat_map map]; [reflexivity|].
  intros H. apply andb_true_iff in H. destruct H as [Ho Hr]. rewrite (IH Hr).
  unfold found, value_of in *. destruct (find_output o lines); [reflexivity | discriminate].
Qed.

Lemma row_tokens_length outputs lines :
  List.length (row_tokens outputs lines) <= List.length outputs /\
  (List.length (row_tokens outputs lines) = List.length outputs <-> forallb (found lines) outputs = true).
Proof.
  unfold row_tokens. induction outputs as [|o r [IH1 IH2]]; cbn [forallb flat_map List.length].
  - split; [lia | tauto].
  - rewrite app_length. unfold found at 1. destruct (find_output o lines); cbn [List.length andb].
    + split; [lia|]. rewrite <- IH2. lia.
    + split; [lia|]. split; [lia | discriminate].
Qed.

Lemma alignment_shift :
  exists outputs lines i, i < List.length (row_tokens outputs lines) /\ found lines (nth i outputs "") = true /\
    nth i (row_tokens outputs lines) "" <> value_of lines (nth i outputs "").
Proof.
  exists ["Missing"; "B"; "C"], ["  B: 1 u"; "  C: 2 u"], 1. vm_compute. repeat split; [lia | discriminate].
Qed.

(* ---------------------------------------------------------------- appends and failures *)
(* atomic appends in any order give a permutation of the rows *)
Lemma interleave_perm {A} (row : nat -> A) tasks order : Permutation tasks order ->
  Permutation (map row tasks) (map row order).
Proof. apply Permutation_map. Qed.

(* under the lock protocol of the current code the file holds exactly the finished work packages, in some order, for
   every interleaving without time-out (no mutual exclusion needed: C13_row_count_partial) *)
Lemma lock_file_perm sched tasks : Forall (fun s => snd s = Step) sched -> NoDup tasks ->
  (forall t, In t tasks <-> finished (phases (lrun linit sched) t) = true) ->
  Permutation tasks (file (lrun linit sched)).
Proof.
  intros F ND H. destruct (lock_file_sound true sched) as [NDf Hf]. fold (lrun linit sched) in NDf, Hf.
  apply NoDup_Permutation; [exact ND | exact NDf|]. intros t. split; intros Ht.
  - apply (flush_no_loss sched F). apply H. exact Ht.
  - apply H. apply Hf in Ht. rewrite Ht. reflexivity.
Qed.

(* the result file as a function of which iterations succeed: a failing iteration removes its own row only *)
Definition result_rows {A} (sim : nat -> option A) (order : list nat) : list (nat * A) :=
  flat_map (fun t => match sim t with Some r => [(t, r)] | None => [] end) order.

Lemma failure_local {A} (sim : nat -> option A) t0 order :
  result_rows (fun t => if Nat.eqb t t0 then None else sim t) order
  = filter (fun p => negb (Nat.eqb (fst p) t0)) (result_rows sim order).
Proof.
  unfold result_rows. induction order as [|t r IH]; cbn [flat_map]; [reflexivity|].
  rewrite filter_app, <- IH. f_equal. destruct (Nat.eqb t t0) eqn:E.
  - destruct (sim t); cbn; [rewrite E|]; reflexivity.
  - destruct (sim t); cbn; [rewrite E|]; reflexivity.
Qed.
