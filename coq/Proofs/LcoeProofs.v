(* Proofs/LcoeProofs.v - the numpy-vector transcription of the levelized-cost code equals the documented
   closed forms, for every lifetime and every series (C01); homogeneity and monotonicity (C11, C18) build on it. *)
From Coq Require Import QArith Qabs Qpower Qfield List ZArith Bool Lia Lqa Setoid Morphisms.
From Verif Require Import Base.Flat Model.CashFlow Model.Lcoe Proofs.FlatFacts Proofs.CashFlowProofs.
Import ListNotations.
Open Scope Q_scope.

(* ---------- powers over nat exponents ---------- *)
Lemma qpow_S b t : qpow b (S t) == qpow b t * b.
Proof.
  unfold qpow. rewrite Nat2Z.inj_succ. unfold Z.succ. rewrite Qpower_plus' by lia. simpl. reflexivity.
Qed.
Lemma qpow_0 b : qpow b 0 == 1.
Proof. reflexivity. Qed.
Lemma qpow_1 b : qpow b 1 == b.
Proof. unfold qpow. simpl. reflexivity. Qed.

Lemma inv_qpow_S b t : / qpow b (S t) == / qpow b t * / b.
Proof. rewrite qpow_S. apply Qinv_mult_distr. Qed.

Lemma invvec_powvec b s n : invvec (powvec b s n) = map (fun t => / qpow b t) (seq s n).
Proof. unfold invvec, powvec. now rewrite map_map. Qed.

(* ---------- sums of series against geometric weight vectors ---------- *)
Section Weights.
Variables (h1 h2 : nat -> Q) (q1 q2 : Q).
Hypothesis H1 : forall t, h1 (S t) == h1 t * q1.
Hypothesis H2 : forall t, h2 (S t) == h2 t * q2.

Lemma wsum1 : forall l s n, length l = n ->
  sumQ (vmul l (map h1 (seq s n))) == h1 s * geo0 q1 l.
Proof.
  induction l as [|x l IH]; intros s n Hn; simpl in Hn; subst n.
  - simpl. ring.
  - cbn [seq map vmul map2 sumQ geo0]. fold (vmul l (map h1 (seq (S s) (length l)))).
    rewrite (IH (S s) (length l) eq_refl). rewrite H1. ring.
Qed.

Lemma wsum2 : forall l s n, length l = n ->
  sumQ (vmul (vmul l (map h1 (seq s n))) (map h2 (seq s n))) == h1 s * h2 s * geo0 (q1 * q2) l.
Proof.
  induction l as [|x l IH]; intros s n Hn; simpl in Hn; subst n.
  - simpl. ring.
  - cbn [seq map vmul map2 sumQ geo0].
    fold (vmul l (map h1 (seq (S s) (length l)))).
    fold (vmul (vmul l (map h1 (seq (S s) (length l)))) (map h2 (seq (S s) (length l)))).
    rewrite (IH (S s) (length l) eq_refl). rewrite H1, H2. ring.
Qed.

Lemma wsum_s1 k : forall n s, sumQ (smul k (map h1 (seq s n))) == k * h1 s * geo0 q1 (ones n).
Proof.
  induction n as [|n IH]; intros s.
  - simpl. ring.
  - cbn [seq map smul sumQ ones repeat geo0]. fold (smul k (map h1 (seq (S s) n))). fold (ones n).
    rewrite IH. rewrite H1. ring.
Qed.

Lemma wsum_s2 k : forall n s,
  sumQ (vmul (smul k (map h1 (seq s n))) (map h2 (seq s n))) == k * h1 s * h2 s * geo0 (q1 * q2) (ones n).
Proof.
  induction n as [|n IH]; intros s.
  - simpl. ring.
  - cbn [seq map smul vmul map2 sumQ ones repeat geo0].
    fold (smul k (map h1 (seq (S s) n))). fold (vmul (smul k (map h1 (seq (S s) n))) (map h2 (seq (S s) n))). fold (ones n).
    rewrite IH. rewrite H1, H2. ring.
Qed.
End Weights.

(* ---------- standard levelized cost ---------- *)
Lemma std_sum c l : length l = l_life c ->
  sumQ (vmul l (std_dv c)) == geo0 (/ (1 + l_disc c)) l.
Proof.
  intros Hl. unfold std_dv. rewrite invvec_powvec.
  rewrite (wsum1 (fun t => / qpow (1 + l_disc c) t) (/ (1 + l_disc c)) (fun t => inv_qpow_S _ t) l 0%nat (l_life c) Hl).
  rewrite qpow_0. field.
Qed.

Lemma std_num_eq c cap annual : length annual = l_life c -> std_num c cap annual == std_num_spec c cap annual.
Proof. intros H. unfold std_num, std_num_spec. now rewrite std_sum. Qed.
Lemma std_den_eq c energy : length energy = l_life c -> std_den c energy == std_den_spec c energy.
Proof. intros H. unfold std_den, std_den_spec. now apply std_sum. Qed.

(* ---------- BICYCLE ---------- *)
Lemma bic_infl_eq c : bic_infl c = map (qpow (1 + l_rinfl c)) (seq 1 (l_life c)).
Proof. reflexivity. Qed.
Lemma bic_dv_eq c : bic_dv c = map (fun t => / qpow (1 + iave c) t) (seq 1 (l_life c)).
Proof. unfold bic_dv. apply invvec_powvec. Qed.

Lemma bic_disc_sum c k : sumQ (smul k (bic_dv c)) == k * geo1 (bic_qd c) (ones (l_life c)).
Proof.
  rewrite bic_dv_eq.
  rewrite (wsum_s1 (fun t => / qpow (1 + iave c) t) (/ (1 + iave c)) (fun t => inv_qpow_S _ t)).
  unfold geo1, bic_qd. rewrite qpow_1. ring.
Qed.

Lemma bic_infl_disc_sum_const c k :
  sumQ (vmul (smul k (bic_infl c)) (bic_dv c)) == k * geo1 (bic_qg c) (ones (l_life c)).
Proof.
  rewrite bic_dv_eq, bic_infl_eq.
  rewrite (wsum_s2 (qpow (1 + l_rinfl c)) (fun t => / qpow (1 + iave c) t) (1 + l_rinfl c) (/ (1 + iave c))
             (fun t => qpow_S _ t) (fun t => inv_qpow_S _ t)).
  unfold geo1, bic_qg, Qdiv. rewrite !qpow_1. ring.
Qed.

Lemma bic_infl_disc_sum c l : length l = l_life c ->
  sumQ (vmul (vmul l (bic_infl c)) (bic_dv c)) == geo1 (bic_qg c) l.
Proof.
  intros Hl. rewrite bic_dv_eq, bic_infl_eq.
  rewrite (wsum2 (qpow (1 + l_rinfl c)) (fun t => / qpow (1 + iave c) t) (1 + l_rinfl c) (/ (1 + iave c))
             (fun t => qpow_S _ t) (fun t => inv_qpow_S _ t) l 1%nat (l_life c) Hl).
  unfold geo1, bic_qg, Qdiv. rewrite !qpow_1. ring.
Qed.

Lemma bic_num_eq c cap annual : length annual = l_life c -> bic_num c cap annual == bic_num_spec c cap annual.
Proof.
  intros H. unfold bic_num, bic_num_spec, bic_combine. cbv zeta.
  rewrite !bic_disc_sum, bic_infl_disc_sum_const, (bic_infl_disc_sum c annual H). reflexivity.
Qed.
Lemma bic_den_eq c energy : length energy = l_life c -> bic_den c energy == bic_den_spec c energy.
Proof. intros H. unfold bic_den, bic_den_spec. now apply bic_infl_disc_sum. Qed.

(* ---------- the whole function ---------- *)
Definition teq (a b : Q * Q * Q) : Prop :=
  fst (fst a) == fst (fst b) /\ snd (fst a) == snd (fst b) /\ snd a == snd b.

Lemma teq_mk a b c a' b' c' : a == a' -> b == b' -> c == c' -> teq (a, b, c) (a', b', c').
Proof. intros. unfold teq. simpl. auto. Qed.

(* every series the selected branch reads has one entry per year *)
Definition wf_l (c : lc_in) : Prop :=
  let need (l : list Q) := length l = l_life c in
  match classify (l_enduse c) (l_plant c) with
  | LElec => need (l_net c)
  | LHeat => need (l_heat c) /\ need (l_pump c)
  | LCogen => need (l_net c) /\ need (l_heat c) /\ need (l_pump c)
  | LChiller => need (l_cool c) /\ need (l_pump c)
  | LHeatPump => need (l_heat c) /\ need (l_pump c) /\ need (l_hp c)
  | LDistrict => need (l_pump c) /\ need (l_ng c)
  | LNone => True
  end.

Lemma lens_ok_l_wf c : lens_ok_l c = true -> wf_l c.
Proof.
  unfold lens_ok_l, wf_l. destruct (classify (l_enduse c) (l_plant c)); intros H;
    repeat (apply andb_prop in H; destruct H as [H ?]);
    repeat match goal with Hx : Nat.eqb _ _ = true |- _ => apply Nat.eqb_eq in Hx end; auto.
Qed.

(* two sets of levelizers that agree on series of one entry per year give the same levelized costs *)
Definition lev_agree (L1 L2 : levelizers) (c : lc_in) : Prop :=
  (forall cap l, length l = l_life c -> L_std_num L1 c cap l == L_std_num L2 c cap l) /\
  (forall l, length l = l_life c -> L_std_den L1 c l == L_std_den L2 c l) /\
  (forall cap l, length l = l_life c -> L_bic_num L1 c cap l == L_bic_num L2 c cap l) /\
  (forall l, length l = l_life c -> L_bic_den L1 c l == L_bic_den L2 c l).

Lemma const_series_length c x : length (const_series c x) = l_life c.
Proof. apply repeat_length. Qed.
Lemma sadd_length k v : length (sadd k v) = length v.
Proof. apply map_length. Qed.
Lemma cost_series_length c v : length (cost_series c v) = length v.
Proof. apply map_length. Qed.
Lemma vadd_length a b : length a = length b -> length (vadd a b) = length a.
Proof. apply map2_length. Qed.

Ltac len :=
  match goal with
  | |- length (vadd _ _) = _ => rewrite vadd_length; [len | rewrite ?sadd_length, ?cost_series_length; congruence]
  | |- length (sadd _ _) = _ => rewrite sadd_length; len
  | |- length (cost_series _ _) = _ => rewrite cost_series_length; len
  | |- length (const_series _ _) = _ => apply const_series_length
  | _ => congruence
  end.

Lemma lev_ext L1 L2 c cap om xs a_std a_bic avgE energy unit :
  lev_agree L1 L2 c -> length a_std = l_life c -> length a_bic = l_life c -> length energy = l_life c ->
  lev L1 c cap om xs a_std a_bic avgE energy unit == lev L2 c cap om xs a_std a_bic avgE energy unit.
Proof.
  intros (Hsn & Hsd & Hbn & Hbd) H1 H2 H3. unfold lev.
  destruct (Z.eqb (l_econ c) 1); [reflexivity|]. destruct (Z.eqb (l_econ c) 2).
  - now rewrite (Hsn _ _ H1), (Hsd _ H3).
  - now rewrite (Hbn _ _ H2), (Hbd _ H3).
Qed.

Lemma lcoe_gen_ext L1 L2 c : wf_l c -> lev_agree L1 L2 c -> teq (lcoe_gen L1 c) (lcoe_gen L2 c).
Proof.
  intros Hwf Hag. unfold lcoe_gen, wf_l in *. cbv zeta.
  destruct (classify (l_enduse c) (l_plant c)); try (apply teq_mk; reflexivity);
    repeat match goal with H : _ /\ _ |- _ => destruct H end;
    apply teq_mk; try reflexivity; apply lev_ext; try assumption; len.
Qed.

Lemma vec_spec_agree c : lev_agree vec_levelizers spec_levelizers c.
Proof.
  unfold lev_agree. simpl. repeat split; intros.
  - now apply std_num_eq.
  - now apply std_den_eq.
  - now apply bic_num_eq.
  - now apply bic_den_eq.
Qed.

(* C01: what the code computes is the documented formula, for every lifetime and all series *)
Theorem lcoe_code_is_spec c : wf_l c -> teq (lcoe_code c) (lcoe_spec c).
Proof. intros H. apply lcoe_gen_ext; [assumption | apply vec_spec_agree]. Qed.

Lemma exec_spec_agree c : lev_agree exec_levelizers spec_levelizers c.
Proof.
  unfold lev_agree, exec_levelizers, spec_levelizers.
  cbn [L_std_num L_std_den L_bic_num L_bic_den]. repeat split; intros.
  - unfold std_num_spec, geo0r. rewrite !Qred_correct. reflexivity.
  - unfold std_den_spec, geo0r. rewrite Qred_correct. reflexivity.
  - unfold bic_num_spec, geo1r, bic_it_coeff, bic_combine. cbv zeta. rewrite !Qred_correct. reflexivity.
  - unfold bic_den_spec, geo1r. rewrite Qred_correct. reflexivity.
Qed.

Theorem lcoe_exec_is_spec c : wf_l c -> teq (lcoe_exec c) (lcoe_spec c).
Proof. intros H. apply lcoe_gen_ext; [assumption | apply exec_spec_agree]. Qed.

(* ---------- the documented formulas, written out for the electricity end-use ---------- *)
Lemma geo0_const_sigma q x : forall n, geo0 q (repeat x n) == x * geo0 q (ones n).
Proof. induction n as [|n IH]; simpl; [ring|]. fold (ones n). rewrite IH. ring. Qed.


(* ---------- the closed forms are the documented Sigma forms ---------- *)
Lemma geo0_is_discounted_sum d l : geo0 (/ (1 + d)) l == npv d l.
Proof. induction l as [|x l IH]; simpl; [reflexivity|]. rewrite IH. unfold Qdiv. ring. Qed.

Lemma geo0_sigma d l : ~ 1 + d == 0 -> geo0 (/ (1 + d)) l == npv_sigma_from d 0 l.
Proof. intros H. rewrite geo0_is_discounted_sum. now apply npv_is_discounted_sum. Qed.

(* sum_{t=1..n} x_t q^t *)
Fixpoint geo_sigma_from (q : Q) (t : nat) (l : list Q) : Q :=
  match l with [] => 0 | x :: r => x * qpow q t + geo_sigma_from q (S t) r end.
Lemma geo0_sigma_from q : forall l t, geo_sigma_from q t l == qpow q t * geo0 q l.
Proof.
  induction l as [|x l IH]; intros t; simpl; [ring|]. rewrite IH, qpow_S. ring.
Qed.
Lemma geo1_sigma q l : geo1 q l == geo_sigma_from q 1 l.
Proof. rewrite geo0_sigma_from, qpow_1. reflexivity. Qed.

(* ---------- the formulas written out per economic model (electricity end-use) ---------- *)
Lemma spec_fcr_electricity c : l_econ c = 1%Z -> classify (l_enduse c) (l_plant c) = LElec ->
  lcoe_spec c = ((l_fcr c * (1 + l_inflc c) * l_ccap c + l_coam c + 0) / (sumQ (l_net c) / natQ (length (l_net c))) * e8, 0, 0).
Proof. intros He Hk. unfold lcoe_spec, lcoe_gen, lev. cbv zeta. rewrite He, Hk. reflexivity. Qed.

Lemma spec_std_electricity c : l_econ c = 2%Z -> classify (l_enduse c) (l_plant c) = LElec ->
  lcoe_spec c = (((1 + l_inflc c) * l_ccap c + geo0 (/ (1 + l_disc c)) (repeat (l_coam c) (l_life c)))
                 / geo0 (/ (1 + l_disc c)) (l_net c) * e8, 0, 0).
Proof. intros He Hk. unfold lcoe_spec, lcoe_gen, lev. cbv zeta. rewrite He, Hk. reflexivity. Qed.

Lemma spec_std_heat c : l_econ c = 2%Z -> classify (l_enduse c) (l_plant c) = LHeat ->
  lcoe_spec c = (0, ((1 + l_inflc c) * l_ccap c
                     + geo0 (/ (1 + l_disc c)) (map (Qplus (l_coam c)) (map (Qmult (l_elec_buy c / e6)) (l_pump c))))
                    / geo0 (/ (1 + l_disc c)) (l_heat c) * (e8 * mmbtu), 0).
Proof. intros He Hk. unfold lcoe_spec, lcoe_gen, lev. cbv zeta. rewrite He, Hk. reflexivity. Qed.

Lemma spec_bicycle_electricity c : l_econ c <> 1%Z -> l_econ c <> 2%Z -> classify (l_enduse c) (l_plant c) = LElec ->
  lcoe_spec c = (bic_num_spec c (l_ccap c) (repeat (l_coam c) (l_life c)) / geo1 (bic_qg c) (l_net c) * e8, 0, 0).
Proof.
  intros H1 H2 Hk. unfold lcoe_spec, lcoe_gen, lev. cbv zeta.
  apply Z.eqb_neq in H1. apply Z.eqb_neq in H2. rewrite H1, H2, Hk. reflexivity.
Qed.

(* cogeneration: the electricity and heat shares of capital and O&M add up to the totals *)
Lemma cogen_split c : l_ccap c * l_ratio c + l_ccap c * (1 - l_ratio c) == l_ccap c /\
                      l_coam c * l_ratio c + l_coam c * (1 - l_ratio c) == l_coam c.
Proof. split; ring. Qed.

(* the branch selected for every documented end-use option and plant type (finite: 8 x 9 cells) *)
Definition enduses : list Z := [1; 2; 31; 32; 41; 42; 51; 52]%Z.
Definition plants : list Z := [1; 2; 3; 4; 5; 6; 7; 8; 9]%Z.
Definition documented_kind (enduse plant : Z) : lkind :=
  match enduse with
  | 1%Z => LElec
  | 2%Z => match plant with 5%Z => LChiller | 6%Z => LHeatPump | 7%Z => LDistrict | _ => LHeat end
  | _ => LCogen
  end.
Definition lkind_eqb (a b : lkind) : bool :=
  match a, b with
  | LElec, LElec | LHeat, LHeat | LCogen, LCogen | LChiller, LChiller | LHeatPump, LHeatPump | LDistrict, LDistrict | LNone, LNone => true
  | _, _ => false
  end.
Lemma lkind_eqb_eq a b : lkind_eqb a b = true -> a = b.
Proof. destruct a, b; simpl; intros H; try discriminate; reflexivity. Qed.

Lemma branch_table : forall e p, In e enduses -> In p plants -> classify e p = documented_kind e p.
Proof.
  assert (H : forallb (fun e => forallb (fun p => lkind_eqb (classify e p) (documented_kind e p)) plants) enduses = true)
    by (vm_compute; reflexivity).
  intros e p He Hp. rewrite forallb_forall in H. specialize (H e He). rewrite forallb_forall in H.
  apply lkind_eqb_eq. now apply H.
Qed.

(* ---------- what "breakeven price" means ---------- *)
(* Standard model, electricity: selling every year's energy at the levelized cost recovers, in present value at the
   discount rate, exactly the inflated capital cost plus the discounted O&M. *)
Lemma geo0_map_scale q k : forall l, geo0 q (map (fun e => e * k) l) == k * geo0 q l.
Proof. induction l as [|x l IH]; simpl; [ring|]. rewrite IH. ring. Qed.

Theorem breakeven_std_electricity c : l_econ c = 2%Z -> classify (l_enduse c) (l_plant c) = LElec ->
  ~ geo0 (/ (1 + l_disc c)) (l_net c) == 0 ->
  let price_usd_per_kwh := fst (fst (lcoe_spec c)) / 100 in
  geo0 (/ (1 + l_disc c)) (map (fun e => e * (price_usd_per_kwh / 1000000)) (l_net c))
  == (1 + l_inflc c) * l_ccap c + geo0 (/ (1 + l_disc c)) (repeat (l_coam c) (l_life c)).
Proof.
  intros He Hk Hden. cbv zeta. rewrite (spec_std_electricity c He Hk). cbn [fst].
  rewrite geo0_map_scale. unfold e8. field. exact Hden.
Qed.

(* Fixed charge rate model: average yearly revenue at the levelized cost = annualised capital + O&M *)
Theorem breakeven_fcr_electricity c : l_econ c = 1%Z -> classify (l_enduse c) (l_plant c) = LElec ->
  ~ sumQ (l_net c) == 0 -> ~ natQ (length (l_net c)) == 0 ->
  let price_usd_per_kwh := fst (fst (lcoe_spec c)) / 100 in
  avg (l_net c) * (price_usd_per_kwh / 1000000) == l_fcr c * (1 + l_inflc c) * l_ccap c + l_coam c.
Proof.
  intros He Hk Hs Hn. cbv zeta. rewrite (spec_fcr_electricity c He Hk). cbn [fst]. unfold avg, e8. field. split; assumption.
Qed.
