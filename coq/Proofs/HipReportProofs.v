(* Proofs/HipReportProofs.v - the HIP-RA-X report line and its parse by the client (Model/HipReport.v), for C17. *)
From Coq Require Import String Ascii QArith Qabs Qpower ZArith List Bool Lia Lqa.
From Verif Require Import Base.Flat Model.Fmt Proofs.FmtProofs Gen.HipTables Model.HipRa Model.HipReport.
Import ListNotations.
Open Scope Z_scope.

(* ---------------- characters ---------------- *)
Definition plain (c : ascii) : Prop := numclass c = true /\ is_e c = false.

Lemma digit_char_plain d : digit d -> plain (digit_char d).
Proof.
  intros H. apply digit_cases in H. unfold plain.
  repeat (destruct H as [->|H]; [split; reflexivity|]). subst. split; reflexivity.
Qed.

Lemma dchars_plain ds : Forall digit ds -> Forall plain (dchars ds).
Proof. induction 1; cbn [dchars map]; constructor; [apply digit_char_plain; assumption | assumption]. Qed.

Lemma numclass_not_space c : numclass c = true -> Ascii.eqb c sp = false.
Proof.
  intros H. destruct (Ascii.eqb c sp) eqn:E; [|reflexivity].
  apply Ascii.eqb_eq in E. subst. discriminate H.
Qed.

Lemma span_class_body body rest :
  Forall (fun c => numclass c = true) body ->
  match rest with [] => True | c :: _ => numclass c = false end ->
  span_class (body ++ rest) = (body, rest).
Proof.
  intros H R. induction H as [|c l Hc _ IH]; cbn [app span_class].
  - destruct rest as [|c r]; [reflexivity|]. cbn [span_class]. rewrite R. reflexivity.
  - rewrite Hc, IH. reflexivity.
Qed.

Lemma split_at_e_none s : Forall (fun c => is_e c = false) s -> split_at_e s = None.
Proof. induction 1 as [|c l Hc _ IH]; cbn [split_at_e]; [reflexivity|]. rewrite Hc, IH. reflexivity. Qed.

Lemma split_at_e_app a b :
  Forall (fun c => is_e c = false) a -> split_at_e (a ++ "e"%char :: b) = Some (a, b).
Proof. induction 1 as [|c l Hc _ IH]; cbn [app split_at_e]; [reflexivity|]. rewrite Hc, IH. reflexivity. Qed.

(* ---------------- fixed fields ---------------- *)
Lemma fixed_body_chars neg s p : 0 <= s -> Forall plain (fixed_body false neg s p) /\ fixed_body false neg s p <> [].
Proof.
  intros Hs. pose proof (pow10_pos p) as Hp.
  assert (Hi : 0 <= s / pow10 p) by (apply Z.div_pos; lia).
  destruct (zdigits_spec _ Hi) as (_ & I2 & I3).
  destruct (fixdigs_spec p (s mod pow10 p)) as (_ & _ & F3).
  unfold fixed_body. split.
  - apply Forall_app. split; [destruct neg; [constructor; [split; reflexivity|constructor]|constructor]|].
    apply Forall_app. split; [apply dchars_plain; assumption|].
    destruct p; [constructor|]. constructor; [split; reflexivity|apply dchars_plain; assumption].
  - destruct neg; [discriminate|]. cbn [app].
    destruct (zdigits (s / pow10 p)); [congruence|discriminate].
Qed.

Lemma plain_numclass l : Forall plain l -> Forall (fun c => numclass c = true) l.
Proof. apply Forall_impl. intros c [H _]. exact H. Qed.
Lemma plain_not_e l : Forall plain l -> Forall (fun c => is_e c = false) l.
Proof. apply Forall_impl. intros c [_ H]. exact H. Qed.

Lemma parse_num_fixed neg s p : 0 <= s ->
  parse_num (fixed_body false neg s p) = Some ((if neg then -(1) else 1) * (inject_Z s / inject_Z (pow10 p)))%Q.
Proof.
  intros Hs. unfold parse_num.
  rewrite split_at_e_none by (apply plain_not_e, fixed_body_chars; assumption).
  exact (fixed_body_parse neg s p 0 Hs).
Qed.

(* ---------------- scientific fields ---------------- *)
Lemma dval_cons0 ds : dval (0 :: ds) = dval ds.
Proof. reflexivity. Qed.

Lemma exp_parse x : exists c r, exp_chars false x = "e"%char :: c :: r /\ parse_exp (c :: r) = Some x /\ c :: r <> [].
Proof.
  unfold exp_chars.
  assert (Ha : 0 <= Z.abs x) by lia.
  destruct (zdigits_spec _ Ha) as (D1 & D2 & D3).
  set (ds := zdigits (Z.abs x)) in *.
  set (ds' := if (length ds <? 2)%nat then 0 :: ds else ds).
  assert (D' : Forall digit ds' /\ dval ds' = Z.abs x /\ ds' <> []).
  { unfold ds'. destruct (length ds <? 2)%nat.
    - split; [constructor; [unfold digit; lia|assumption]|]. split; [rewrite dval_cons0; exact D1|discriminate].
    - repeat split; assumption. }
  destruct D' as (E1 & E2 & E3).
  eexists. eexists. split; [reflexivity|]. split; [|discriminate].
  assert (Sp : span_digits false (dchars ds') = (ds', [])).
  { rewrite <- (app_nil_r (dchars ds')). apply span_digits_dchars; [exact E1|exact I]. }
  destruct (x <? 0) eqn:Ex; unfold parse_exp.
  - change (Ascii.eqb "-"%char "-"%char) with true. cbv beta iota. rewrite Sp.
    destruct ds' as [|d0 dr]; [congruence|]. f_equal. apply Z.ltb_lt in Ex. lia.
  - change (Ascii.eqb "+"%char "-"%char) with false. change (Ascii.eqb "+"%char "+"%char) with true. cbv beta iota. rewrite Sp.
    destruct ds' as [|d0 dr]; [congruence|]. f_equal. apply Z.ltb_ge in Ex. lia.
Qed.

Lemma mant_parse (neg : bool) d r p : digit d -> Forall digit r -> length r = p ->
  parse_dec_chars false ((if neg then ["-"%char] else []) ++
                         digit_char d :: match p with O => [] | _ => "."%char :: dchars r end)
  = Some ((if neg then -(1) else 1) * (inject_Z (dval (d :: r)) / inject_Z (pow10 p)))%Q.
Proof.
  intros Hd Hr Hl.
  destruct (digit_char_facts d Hd) as (_ & _ & Nsp & Nminus).
  set (tail := match p with O => [] | S _ => "."%char :: dchars r end).
  assert (Etail : span_digits false (digit_char d :: tail) = ([d], tail)).
  { change (digit_char d :: tail) with (dchars [d] ++ tail). apply span_digits_dchars.
    - constructor; [assumption|constructor].
    - unfold tail. destruct p; cbn; auto. }
  assert (Body : forall sgn : bool,
    (let '(ipx, s3) := span_digits false (digit_char d :: tail) in
     match ipx with
     | [] => None
     | _ :: _ =>
       let '(fpx, s4) := match s3 with
                         | c :: r0 => if Ascii.eqb c "."%char then span_digits false r0 else ([], s3)
                         | [] => ([], [])
                         end in
       match s4 with
       | [] => Some ((if sgn then -(1) else 1) * (inject_Z (dval (ipx ++ fpx)) / inject_Z (pow10 (length fpx))))%Q
       | _ :: _ => None
       end
     end) = Some ((if sgn then -(1) else 1) * (inject_Z (dval (d :: r)) / inject_Z (pow10 p)))%Q).
  { intros sgn. rewrite Etail. unfold tail. destruct p as [|p'].
    - destruct r; [|discriminate]. reflexivity.
    - rewrite Ascii.eqb_refl. rewrite <- (app_nil_r (dchars r)).
      rewrite (span_digits_dchars false r [] Hr I). cbn [app]. rewrite Hl. reflexivity. }
  unfold parse_dec_chars. destruct neg.
  - cbn [app]. rewrite skip_spaces_id by reflexivity. change (Ascii.eqb "-" "-") with true. cbv iota. exact (Body true).
  - cbn [app]. rewrite skip_spaces_id by exact Nsp. cbv iota. rewrite Nminus. exact (Body false).
Qed.

Lemma sci_body_parse neg m x p :
  parse_num (sci_body false neg m x p) = Some (sci_value neg m x p) /\
  Forall (fun c => numclass c = true) (sci_body false neg m x p) /\ sci_body false neg m x p <> [].
Proof.
  destruct (fixdigs_spec (S p) m) as (F1 & F2 & F3).
  destruct (fixdigs (S p) m) as [|d r] eqn:Ef; [discriminate|].
  inversion F3 as [|? ? Hd Hr]; subst.
  assert (Hl : length r = p) by (cbn [length] in F1; lia).
  destruct (exp_parse x) as (c & er & Eexp & Pexp & _).
  set (mant := (if neg then ["-"%char] else []) ++ digit_char d :: match p with O => [] | _ => "."%char :: dchars r end).
  assert (Ebody : sci_body false neg m x p = mant ++ "e"%char :: c :: er).
  { unfold sci_body, mant. rewrite Ef, Eexp. rewrite <- app_assoc. reflexivity. }
  assert (Pm : Forall plain mant).
  { unfold mant. apply Forall_app. split; [destruct neg; [constructor; [split; reflexivity|constructor]|constructor]|].
    constructor; [apply digit_char_plain; assumption|].
    destruct p; [constructor|]. constructor; [split; reflexivity|apply dchars_plain; assumption]. }
  split; [|split].
  - rewrite Ebody. unfold parse_num. rewrite split_at_e_app by (apply plain_not_e; exact Pm).
    unfold mant. rewrite (mant_parse neg d r p Hd Hr Hl), Pexp.
    unfold sci_value. rewrite <- F2. reflexivity.
  - rewrite Ebody. apply Forall_app. split; [apply plain_numclass; exact Pm|].
    constructor; [reflexivity|].
    (* the exponent characters: sign and digits *)
    assert (Hx : Forall (fun c0 => numclass c0 = true) (c :: er)).
    { assert (E2 : c :: er = tl (exp_chars false x)) by (rewrite Eexp; reflexivity).
      rewrite E2. unfold exp_chars. cbn [tl].
      assert (Ha : 0 <= Z.abs x) by lia. destruct (zdigits_spec _ Ha) as (_ & D2 & _).
      constructor; [destruct (x <? 0); reflexivity|].
      apply plain_numclass, dchars_plain.
      destruct (length (zdigits (Z.abs x)) <? 2)%nat; [constructor; [unfold digit; lia|assumption]|assumption]. }
    exact Hx.
  - rewrite Ebody. unfold mant. destruct neg; discriminate.
Qed.

(* ---------------- a rendered number: padding + body ---------------- *)
Lemma number_chars_shape k q :
  exists j body, number_chars k (Fin q) = repeat sp j ++ body /\ body <> [] /\
                 Forall (fun c => numclass c = true) body /\ parse_num body = Some (printed k q).
Proof.
  destruct k; cbn [number_chars times100 printed].
  - unfold fmt_f_chars, lpad. eexists. eexists. split; [reflexivity|].
    pose proof (scaled_abs_nonneg q 2) as Hs. destruct (fixed_body_chars (qneg q) _ 2 Hs) as [P N].
    split; [exact N|]. split; [apply plain_numclass; exact P|]. apply parse_num_fixed. exact Hs.
  - unfold fmt_e_chars, lpad, sci_shown. destruct (Qeq_bool q 0).
    + eexists. eexists. split; [reflexivity|]. destruct (sci_body_parse false 0 0 2) as (A & B & C). repeat split; assumption.
    + destruct (sig_round q 3) as [m x]. eexists. eexists. split; [reflexivity|].
      destruct (sci_body_parse (qneg q) m x 2) as (A & B & C). repeat split; assumption.
  - unfold fmt_f_chars, lpad. eexists. eexists. split; [reflexivity|].
    pose proof (scaled_abs_nonneg (100 * q)%Q 2) as Hs. destruct (fixed_body_chars (qneg (100 * q)%Q) _ 2 Hs) as [P N].
    split; [exact N|]. split; [apply plain_numclass; exact P|]. apply parse_num_fixed. exact Hs.
Qed.

(* ---------------- the line ---------------- *)
Lemma parse_scan_prefix a : forall pre_rev rest,
  forallb (fun c => negb (Ascii.eqb c ":"%char)) a = true ->
  parse_scan pre_rev (a ++ rest) = parse_scan (rev a ++ pre_rev) rest.
Proof.
  induction a as [|c a IH]; intros pre_rev rest H; [reflexivity|].
  cbn [forallb] in H. apply andb_true_iff in H. destruct H as [Hc Ha].
  apply negb_true_iff in Hc. cbn [app parse_scan]. rewrite Hc. rewrite IH by exact Ha.
  cbn [rev]. rewrite <- app_assoc. reflexivity.
Qed.

Lemma no_space_skip u : no_space u = true -> skip_spaces u = u.
Proof.
  destruct u as [|c r]; [reflexivity|]. cbn [no_space forallb]. intros H.
  apply andb_true_iff in H. destruct H as [H _]. apply negb_true_iff in H. apply skip_spaces_id. exact H.
Qed.

Lemma strip_label label : label_ok_b label = true -> strip (repeat sp 6 ++ label) = label.
Proof.
  unfold label_ok_b. intros H. apply andb_true_iff in H. destruct H as [H _].
  apply andb_true_iff in H. destruct H as [H1 H2].
  unfold strip. rewrite skip_spaces_repeat.
  destruct label as [|c l]; [discriminate|]. apply negb_true_iff in H1.
  rewrite (skip_spaces_id c l H1).
  destruct (rev (c :: l)) as [|c' l'] eqn:E; [discriminate|]. apply negb_true_iff in H2.
  rewrite (skip_spaces_id c' l' H2). rewrite <- E. apply rev_involutive.
Qed.

Lemma parse_line_general label unit body j n v :
  label_ok_b label = true -> no_space unit = true -> body <> [] ->
  Forall (fun c => numclass c = true) body -> parse_num body = Some v ->
  parse_line (repeat sp 6 ++ label ++ ":"%char :: repeat sp (S n) ++ (repeat sp j ++ body) ++ sp :: unit)
  = Some (label, v, unit_opt unit).
Proof.
  intros Hl Hu Hb Hc Hv.
  assert (Hcol : forallb (fun c => negb (Ascii.eqb c ":"%char)) (repeat sp 6 ++ label) = true).
  { rewrite forallb_app. apply andb_true_iff. split; [reflexivity|].
    unfold label_ok_b in Hl. apply andb_true_iff in Hl. destruct Hl as [_ Hl]. exact Hl. }
  unfold parse_line. rewrite app_assoc. rewrite (parse_scan_prefix _ [] _ Hcol). rewrite app_nil_r.
  cbn [parse_scan]. change (Ascii.eqb ":" ":") with true. cbv iota.
  set (post := repeat sp (S n) ++ (repeat sp j ++ body) ++ sp :: unit).
  assert (Hpost : parse_after_colon post = Some (v, unit_opt unit)).
  { unfold post. cbn [repeat app]. unfold parse_after_colon. change (Ascii.eqb sp sp) with true. cbv iota.
    change (sp :: repeat sp n ++ (repeat sp j ++ body) ++ sp :: unit)
      with (repeat sp (S n) ++ (repeat sp j ++ body) ++ sp :: unit).
    rewrite skip_spaces_repeat. rewrite <- app_assoc. rewrite skip_spaces_repeat.
    destruct body as [|b0 br]; [congruence|]. inversion Hc as [|? ? Hb0 Hbr]; subst.
    cbn [app]. rewrite (skip_spaces_id b0 _ (numclass_not_space b0 Hb0)).
    change (b0 :: br ++ sp :: unit) with ((b0 :: br) ++ sp :: unit).
    rewrite (span_class_body (b0 :: br) (sp :: unit) Hc) by reflexivity.
    change (skip_spaces (sp :: unit)) with (skip_spaces unit). rewrite (no_space_skip unit Hu), Hu, Hv.
    reflexivity. }
  rewrite Hpost.
  destruct (rev (repeat sp 6 ++ label)) as [|c0 l0] eqn:E.
  { exfalso. assert (L : length (rev (repeat sp 6 ++ label)) = O) by (rewrite E; reflexivity).
    rewrite rev_length, app_length in L. cbn in L. lia. }
  rewrite <- E, rev_involutive, (strip_label label Hl). reflexivity.
Qed.

(* every line of a SUMMARY section is parsed by the client as (label, printed value, unit) *)
Lemma hip_line_parses label unit k q :
  label_ok_b label = true -> no_space unit = true ->
  parse_line (hip_line label (render k (Fin q) unit)) = Some (label, printed k q, unit_opt unit).
Proof.
  intros Hl Hu. destruct (number_chars_shape k q) as (j & body & E & Hb & Hc & Hv).
  unfold hip_line, render. rewrite E.
  assert (K : exists n, kv_spaces label ((repeat sp j ++ body) ++ sp :: unit) = S n).
  { unfold kv_spaces. destruct (Nat.max_spec 1 (24 - (length (until_space ((repeat sp j ++ body) ++ sp :: unit)) + length label)))
      as [[Hlt ->]|[_ ->]]; [|exists O; reflexivity].
    destruct (24 - _)%nat eqn:E2; [lia|eexists; reflexivity]. }
  destruct K as [n ->].
  apply parse_line_general; assumption.
Qed.

Lemma section_line_states_value rows names vals k idx kind q :
  nth_error rows k = Some (idx, kind) -> nth idx vals (Fin 0) = Fin q ->
  name_ok_b (nth idx names (EmptyString, EmptyString)) = true ->
  exists line, nth_error (section_lines rows names vals) k = Some line /\
               parse_line line = Some (fst (name_at names idx), printed kind q, unit_opt (snd (name_at names idx))).
Proof.
  intros Hr Hv Hn. unfold section_lines. exists (row_line names vals (idx, kind)).
  split; [apply map_nth_error; exact Hr|].
  unfold row_line, name_at. cbn [fst snd]. rewrite Hv.
  unfold name_ok_b in Hn. apply andb_true_iff in Hn. destruct Hn as [H1 H2].
  apply hip_line_parses; assumption.
Qed.

Lemma out_names_ok : forallb name_ok_b hip_out_names = true /\ length hip_out_names = 25%nat.
Proof. split; vm_compute; reflexivity. Qed.
Lemma in_names_ok : forallb name_ok_b hip_in_names = true /\ length hip_in_names = 14%nat.
Proof. split; vm_compute; reflexivity. Qed.

Lemma names_nth_ok names n idx : forallb name_ok_b names = true -> length names = n -> (idx < n)%nat ->
  name_ok_b (nth idx names (EmptyString, EmptyString)) = true.
Proof.
  intros H L Hi. rewrite forallb_forall in H. apply H. apply nth_In. lia.
Qed.

Lemma rows_in_range dg pg : Forall (fun r => (fst r < 25)%nat) (result_rows dg pg) /\
                            Forall (fun r => (fst r < 14)%nat) (input_rows dg pg).
Proof. destruct dg, pg; split; repeat constructor. Qed.

(* the results section of the report of the CURRENT source (labels and units regenerated from it) *)
Lemma results_section_states_values dg pg vals k idx kind q :
  nth_error (result_rows dg pg) k = Some (idx, kind) -> nth idx vals (Fin 0) = Fin q ->
  exists line, nth_error (section_lines (result_rows dg pg) hip_out_names vals) k = Some line /\
               parse_line line = Some (fst (name_at hip_out_names idx), printed kind q, unit_opt (snd (name_at hip_out_names idx))).
Proof.
  intros Hr Hv. apply (section_line_states_value _ _ _ _ _ _ _ Hr Hv).
  destruct out_names_ok as [A B]. apply (names_nth_ok _ 25 idx A B).
  destruct (rows_in_range dg pg) as [R _]. rewrite Forall_forall in R.
  apply (R (idx, kind)). eapply nth_error_In. exact Hr.
Qed.

Lemma inputs_section_states_values dg pg vals k idx kind q :
  nth_error (input_rows dg pg) k = Some (idx, kind) -> nth idx vals (Fin 0) = Fin q ->
  exists line, nth_error (section_lines (input_rows dg pg) hip_in_names vals) k = Some line /\
               parse_line line = Some (fst (name_at hip_in_names idx), printed kind q, unit_opt (snd (name_at hip_in_names idx))).
Proof.
  intros Hr Hv. apply (section_line_states_value _ _ _ _ _ _ _ Hr Hv).
  destruct in_names_ok as [A B]. apply (names_nth_ok _ 14 idx A B).
  destruct (rows_in_range dg pg) as [_ R]. rewrite Forall_forall in R.
  apply (R (idx, kind)). eapply nth_error_In. exact Hr.
Qed.

(* a fixed field is the value rounded half-even to two decimals (C09's lemma), also for the percentage *)
Lemma printed_fixed_close q : (Qabs (printed KFix q - q) <= (1#2) / inject_Z (pow10 2))%Q /\
                              (Qabs (printed KPct q - 100 * q) <= (1#2) / inject_Z (pow10 2))%Q.
Proof. split; apply shown_within_half_ulp. Qed.

(* ---------------- a '10.2e' field is the value rounded to three significant digits ---------------- *)
Open Scope Q_scope.
Lemma Qpow10_power z : Qpow10 z == (10#1) ^ z.
Proof.
  unfold Qpow10. destruct (z <? 0)%Z eqn:E.
  - apply Z.ltb_lt in E. destruct z as [|p|p]; try lia.
    change (- Z.neg p)%Z with (Z.pos p).
    assert (P : (0 < 10 ^ Z.pos p)%Z) by (apply Z.pow_pos_nonneg; lia).
    change ((10#1) ^ Z.neg p) with (/ ((10#1) ^ Z.pos p)).
    rewrite <- (Zpower_Qpower 10 (Z.pos p)) by lia.
    destruct (10 ^ Z.pos p)%Z as [|n|n] eqn:En; try lia. reflexivity.
  - apply Z.ltb_ge in E. apply Zpower_Qpower. exact E.
Qed.

Lemma Qpow10_pos z : 0 < Qpow10 z.
Proof. rewrite Qpow10_power. apply Qpower_0_lt. reflexivity. Qed.

Lemma Qpow10_add a b : Qpow10 (a + b) == Qpow10 a * Qpow10 b.
Proof. rewrite !Qpow10_power. apply Qpower_plus. discriminate. Qed.

Lemma Qpow10_2 : Qpow10 2 == 100. Proof. reflexivity. Qed.
Lemma Qpow10_3 : Qpow10 3 == 1000. Proof. reflexivity. Qed.

Lemma sign_sq (b : bool) : (if b then -(1) else 1) * (if b then -(1) else 1) == 1.
Proof. destruct b; reflexivity. Qed.

Lemma sci_shown_close q : ~ q == 0 -> sig_ok q = true ->
  Qabs (sci_shown q 2 - q) <= (1#2) * Qpow10 (ilog10 q - 2).
Proof.
  intros Hq Hok. unfold sig_ok in Hok. apply andb_true_iff in Hok. destruct Hok as [Hlo Hhi].
  apply Qle_bool_iff in Hlo. apply negb_true_iff in Hhi.
  assert (Hhi' : Qabs q < Qpow10 (ilog10 q + 1)).
  { apply Qnot_le_lt. intros H. apply Qle_bool_iff in H. congruence. }
  clear Hhi. set (x := ilog10 q) in *.
  unfold sci_shown. destruct (Qeq_bool q 0) eqn:E0; [apply Qeq_bool_iff in E0; contradiction|].
  unfold sig_round. fold x. change (Z.of_nat 3 - 1 - x)%Z with (2 - x)%Z.
  set (y := Qabs q * Qpow10 (2 - x)).
  set (m := round_half_even y).
  pose proof (round_half_even_bound y) as Hb. fold m in Hb.
  pose proof (Qpow10_pos (2 - x)) as P1. pose proof (Qpow10_pos (x - 2)) as P2.
  assert (Inv : Qpow10 (2 - x) * Qpow10 (x - 2) == 1).
  { rewrite <- Qpow10_add. replace (2 - x + (x - 2))%Z with 0%Z by lia. reflexivity. }
  assert (Y1 : 100 <= y).
  { unfold y. rewrite <- Qpow10_2. replace 2%Z with (x + (2 - x))%Z at 1 by lia. rewrite Qpow10_add.
    apply Qmult_le_compat_r; [exact Hlo | apply Qlt_le_weak; exact P1]. }
  assert (Y2 : y < 1000).
  { unfold y. rewrite <- Qpow10_3. replace 3%Z with ((x + 1) + (2 - x))%Z by lia. rewrite Qpow10_add.
    apply Qmult_lt_compat_r; [exact P1 | exact Hhi']. }
  assert (Aq : Qabs q == y * Qpow10 (x - 2)).
  { unfold y. rewrite <- Qmult_assoc, Inv. ring. }
  assert (Sq : q == (if qneg q then -(1) else 1) * Qabs q).
  { rewrite (Qabs_of_sign q). rewrite Qmult_assoc, sign_sq. ring. }
  apply Qabs_Qle_condition in Hb. destruct Hb as [Hb1 Hb2].
  assert (M1 : (100 <= m)%Z).
  { assert (inject_Z 99 < inject_Z m) by (change (inject_Z 99) with 99; lra).
    rewrite <- Zlt_Qlt in H. lia. }
  assert (M2 : (m <= 1000)%Z).
  { assert (inject_Z m < inject_Z 1001) by (change (inject_Z 1001) with 1001; lra).
    rewrite <- Zlt_Qlt in H. lia. }
  (* both branches: the shown value is sign * v * 10^(x-2) with |v - y| <= 1/2 *)
  assert (Core : forall v : Q, Qabs (v - y) <= 1#2 ->
            Qabs ((if qneg q then -(1) else 1) * (v * Qpow10 (x - 2)) - q) <= (1#2) * Qpow10 (x - 2)).
  { intros v Hv. rewrite Sq at 2. rewrite Aq.
    setoid_replace ((if qneg q then -(1) else 1) * (v * Qpow10 (x - 2)) - (if qneg q then -(1) else 1) * (y * Qpow10 (x - 2)))
      with (((if qneg q then -(1) else 1) * Qpow10 (x - 2)) * (v - y)) by ring.
    rewrite Qabs_Qmult, Qabs_Qmult.
    assert (S1 : Qabs (if qneg q then -(1) else 1) == 1) by (destruct (qneg q); reflexivity).
    rewrite S1, (Qabs_pos (Qpow10 (x - 2))) by (apply Qlt_le_weak; exact P2).
    rewrite Qmult_1_l, (Qmult_comm (1#2)). apply Qmult_le_l; [exact P2|exact Hv]. }
  assert (Hm : Qabs (inject_Z m - y) <= 1#2) by (apply Qabs_Qle_condition; split; assumption).
  destruct (m =? pow10 3)%Z eqn:Em.
  - apply Z.eqb_eq in Em. change (pow10 3) with 1000%Z in Em.
    unfold sci_value. change (pow10 (3 - 1) mod pow10 3)%Z with 100%Z. change (inject_Z (pow10 2)) with 100.
    assert (E : (if qneg q then - (1) else 1) * (inject_Z 100 / 100) * Qpow10 (x + 1)
                == (if qneg q then -(1) else 1) * (inject_Z m * Qpow10 (x - 2))).
    { rewrite Em. replace (x + 1)%Z with (3 + (x - 2))%Z by lia. rewrite Qpow10_add, Qpow10_3.
      change (inject_Z 100) with 100. change (inject_Z 1000) with 1000. field. }
    rewrite E. apply Core. exact Hm.
  - apply Z.eqb_neq in Em. change (pow10 3) with 1000%Z in Em.
    unfold sci_value. rewrite Z.mod_small by (change (pow10 3) with 1000%Z; lia).
    change (inject_Z (pow10 2)) with 100.
    assert (E : (if qneg q then - (1) else 1) * (inject_Z m / 100) * Qpow10 x
                == (if qneg q then -(1) else 1) * (inject_Z m * Qpow10 (x - 2))).
    { replace x with (2 + (x - 2))%Z at 1 by lia. rewrite Qpow10_add, Qpow10_2. field. }
    rewrite E. apply Core. exact Hm.
Qed.
