(* Proofs/ReportGenProofs.v - the row templates of the CURRENT writer (Gen/ReportLabels.v, regenerated from
   src/geophires_x/Outputs.py on every run) have the shape the table theorems assume. *)
From Coq Require Import String Ascii List Bool.
From Verif Require Import Model.Report Gen.ReportLabels.
(* loaded by the correspondence shards only; required here so that they are built with the property *)
From Verif Require Gen.ReportLits.
Import ListNotations.

Lemma templates_ok_all : forallb row_template_ok report_templates = true.
Proof. vm_compute. reflexivity. Qed.

Lemma templates_ok : forall t, In t report_templates -> row_template_ok t = true.
Proof. apply forallb_forall. exact templates_ok_all. Qed.
