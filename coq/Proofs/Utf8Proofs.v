(* Proofs/Utf8Proofs.v - lemmas about Model/Utf8.v (C12) *)
From Coq Require Import NArith ZArith List Bool Lia.
From Verif Require Import Base.UStr Model.UTokenizer Model.Utf8.
Import ListNotations.
Open Scope N_scope.

Ltac Zify.zify_post_hook ::= Z.to_euclidean_division_equations.

Ltac btrue := repeat match goal with
  | |- (_ && _) = true => apply andb_true_intro; split
  | |- (_ <=? _) = true => apply N.leb_le; lia
  | |- (_ <? _) = true => apply N.ltb_lt; lia
  | |- negb _ = true => apply negb_true_iff
  | |- (_ && _) = false => apply andb_false_iff
  | |- (_ =? _) = false => apply N.eqb_neq; lia
  | |- (_ <? _) = false => apply N.ltb_ge; lia
  | |- (_ <=? _) = false => apply N.leb_gt; lia
  end.

Lemma decode_enc1 c rest : scalar c = true -> utf8_decode (enc1 c ++ rest) = option_map (cons c) (utf8_decode rest).
Proof.
  intros S. unfold scalar in S. unfold enc1.
  destruct (c <? 128) eqn:E1.
  - cbn [app utf8_decode]. now rewrite E1.
  - apply N.ltb_ge in E1. destruct (c <? 2048) eqn:E2.
    + apply N.ltb_lt in E2. cbn [app utf8_decode].
      assert (A : (192 + c / 64 <? 128) = false) by btrue. rewrite A.
      assert (B : (194 <=? 192 + c / 64) && (192 + c / 64 <=? 223) = true) by btrue. rewrite B.
      assert (C : cont (128 + c mod 64) = true) by (unfold cont; btrue). rewrite C.
      do 2 f_equal. lia.
    + apply N.ltb_ge in E2. destruct (c <? 65536) eqn:E3.
      * apply N.ltb_lt in E3. cbn [app utf8_decode].
        assert (A : (224 + c / 4096 <? 128) = false) by btrue. rewrite A.
        assert (B : (194 <=? 224 + c / 4096) && (224 + c / 4096 <=? 223) = false) by (apply andb_false_iff; right; btrue). rewrite B.
        assert (B' : (224 <=? 224 + c / 4096) && (224 + c / 4096 <=? 239) = true) by btrue. rewrite B'.
        assert (C1 : cont (128 + (c / 64) mod 64) = true) by (unfold cont; btrue).
        assert (C2 : cont (128 + c mod 64) = true) by (unfold cont; btrue). rewrite C1, C2. cbn [andb].
        assert (D1 : negb ((224 + c / 4096 =? 224) && (128 + (c / 64) mod 64 <? 160)) = true).
        { apply negb_true_iff, andb_false_iff. destruct (N.eq_dec (c / 4096) 0); [right | left]; btrue. }
        assert (D2 : negb ((224 + c / 4096 =? 237) && (159 <? 128 + (c / 64) mod 64)) = true).
        { apply negb_true_iff, andb_false_iff. destruct (N.eq_dec (c / 4096) 13); [right | left]; [|btrue].
          apply N.ltb_ge. apply orb_prop in S as [S | S]; [apply N.ltb_lt in S | apply andb_prop in S as [S _]; apply N.ltb_lt in S]; lia. }
        rewrite D1, D2. cbn [andb]. do 2 f_equal. lia.
      * apply N.ltb_ge in E3. cbn [app utf8_decode].
        assert (L : c < 1114112) by (apply orb_prop in S as [S | S]; [apply N.ltb_lt in S; lia | apply andb_prop in S as [_ S]; now apply N.ltb_lt in S]).
        assert (A : (240 + c / 262144 <? 128) = false) by btrue. rewrite A.
        assert (B : (194 <=? 240 + c / 262144) && (240 + c / 262144 <=? 223) = false) by (apply andb_false_iff; right; btrue). rewrite B.
        assert (B' : (224 <=? 240 + c / 262144) && (240 + c / 262144 <=? 239) = false) by (apply andb_false_iff; right; btrue). rewrite B'.
        assert (B'' : (240 <=? 240 + c / 262144) && (240 + c / 262144 <=? 244) = true) by btrue. rewrite B''.
        assert (C1 : cont (128 + (c / 4096) mod 64) = true) by (unfold cont; btrue).
        assert (C2 : cont (128 + (c / 64) mod 64) = true) by (unfold cont; btrue).
        assert (C3 : cont (128 + c mod 64) = true) by (unfold cont; btrue). rewrite C1, C2, C3. cbn [andb].
        assert (D1 : negb ((240 + c / 262144 =? 240) && (128 + (c / 4096) mod 64 <? 144)) = true).
        { apply negb_true_iff, andb_false_iff. destruct (N.eq_dec (c / 262144) 0); [right | left]; btrue. }
        assert (D2 : negb ((240 + c / 262144 =? 244) && (143 <? 128 + (c / 4096) mod 64)) = true).
        { apply negb_true_iff, andb_false_iff. destruct (N.eq_dec (c / 262144) 4); [right | left]; btrue. }
        rewrite D1, D2. cbn [andb]. do 2 f_equal. lia.
Qed.

Lemma decode_encode_app t : forall bytes, forallb scalar t = true ->
  utf8_decode (utf8_encode t ++ bytes) = option_map (app t) (utf8_decode bytes).
Proof.
  induction t as [|c r IH]; intros bytes H; [cbn; now destruct (utf8_decode bytes)|].
  cbn in H. apply andb_prop in H as [Hc Hr]. unfold utf8_encode. cbn [flat_map]. rewrite <- app_assoc.
  rewrite decode_enc1 by assumption. fold (utf8_encode r). rewrite IH by assumption. now destruct (utf8_decode bytes).
Qed.

Lemma decode_encode t : forallb scalar t = true -> utf8_decode (utf8_encode t) = Some t.
Proof. intros H. rewrite <- (app_nil_r (utf8_encode t)), decode_encode_app by assumption. cbn. now rewrite app_nil_r. Qed.

(* a stray continuation byte, or a byte that can start nothing, anywhere after a well-formed prefix: the whole file is an error *)
Lemma decode_error_anywhere t b rest : forallb scalar t = true -> (128 <=? b) && (b <=? 193) || (245 <=? b) = true ->
  read_file (utf8_encode t ++ b :: rest) = DecodeError.
Proof.
  intros H B. unfold read_file. rewrite decode_encode_app by assumption.
  assert (E : utf8_decode (b :: rest) = None).
  { cbn [utf8_decode]. apply orb_prop in B as [B | B].
    - apply andb_prop in B as [B1 B2]. apply N.leb_le in B1, B2.
      assert ((b <? 128) = false) as -> by btrue.
      assert ((194 <=? b) && (b <=? 223) = false) as -> by (apply andb_false_iff; left; btrue).
      assert ((224 <=? b) && (b <=? 239) = false) as -> by (apply andb_false_iff; left; btrue).
      assert ((240 <=? b) && (b <=? 244) = false) as -> by (apply andb_false_iff; left; btrue).
      destruct rest as [|b1 [|b2 [|b3 r3]]]; reflexivity.
    - apply N.leb_le in B.
      assert ((b <? 128) = false) as -> by btrue.
      assert ((194 <=? b) && (b <=? 223) = false) as -> by (apply andb_false_iff; right; btrue).
      assert ((224 <=? b) && (b <=? 239) = false) as -> by (apply andb_false_iff; right; btrue).
      assert ((240 <=? b) && (b <=? 244) = false) as -> by (apply andb_false_iff; right; btrue).
      destruct rest as [|b1 [|b2 [|b3 r3]]]; reflexivity. }
  now rewrite E.
Qed.

Lemma read_file_encoded t : forallb scalar t = true -> read_file (utf8_encode t) = ReadOk (read_text t).
Proof. intros H. unfold read_file. now rewrite decode_encode. Qed.
