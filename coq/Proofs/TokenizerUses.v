(* Proofs/TokenizerUses.v - the table of uses of Model.InputParameters regenerated from the source (C12):
   which uses are insensitive to the order of the dictionary, and the proof that every current use is. *)
From Coq Require Import String List Bool.
From Verif Require Import Gen.InputParamUses.
Import ListNotations.
Open Scope string_scope.

Definition kind_eqb (a b : use_kind) : bool :=
  match a, b with
  | UMember, UMember | ULookup, ULookup | USize, USize | UCreate, UCreate | UPopulate, UPopulate
  | UIterExists, UIterExists | UIterKeyedStore, UIterKeyedStore | UIterOrdered, UIterOrdered
  | UStore, UStore | UDelete, UDelete | UUnknown, UUnknown => true
  | _, _ => false
  end.

(* key lookup, membership test, size, creation, population by read_input_file, "is there a key with prefix p",
   "one keyed slot per key": none of them can see the order of the keys *)
Definition order_blind (k : use_kind) : bool :=
  match k with
  | UMember | ULookup | USize | UCreate | UPopulate | UIterExists | UIterKeyedStore => true
  | _ => false
  end.

(* the two documented exceptions:
   - the add-on block (EconomicsAddOns.read_parameters appends AddOn values in key order; the property keeps
     add-on lines in their own relative order, theorem C12_block_order)
   - WellBores.read_parameters renames the deprecated key 'Total Nonvertical Length' (store + delete of fixed keys) *)
Definition site := (string * string * use_kind)%type.
Definition addon_block (u : site) : bool :=
  let '(f, fn, k) := u in
  kind_eqb k UIterOrdered && String.eqb f "geophires_x/EconomicsAddOns.py" && String.eqb fn "EconomicsAddOns.read_parameters".
Definition deprecated_rename (u : site) : bool :=
  let '(f, fn, k) := u in
  (kind_eqb k UStore || kind_eqb k UDelete) && String.eqb f "geophires_x/WellBores.py" && String.eqb fn "WellBores.read_parameters".
Definition use_ok (u : site) : bool :=
  let '(f, fn, k) := u in order_blind k || addon_block u || deprecated_rename u.

Definition is_population (u : site) : bool :=
  let '(f, fn, k) := u in kind_eqb k UPopulate && String.eqb f "geophires_x/Model.py".
Definition is_module_lookup (u : site) : bool :=
  let '(f, fn, k) := u in kind_eqb k ULookup && String.eqb fn "Economics.read_parameters".

Lemma uses_ok : forall u, In u uses -> use_ok u = true.
Proof. apply forallb_forall. vm_compute. reflexivity. Qed.

Lemma uses_cover : existsb is_population uses = true /\ existsb is_module_lookup uses = true /\ existsb addon_block uses = true.
Proof. repeat split; vm_compute; reflexivity. Qed.
