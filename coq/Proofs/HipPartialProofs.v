(* Proofs/HipPartialProofs.v - C17: (a) what hip_ra_x.main() publishes when Calculate raises still satisfies the
   volume, additivity and cascade clauses; (b) the published mass triple is NOT additive, and what is. *)
From Coq Require Import QArith Qabs Qminmax List ZArith Bool String Lia Lqa Setoid.
From Verif Require Import Base.Flat Proofs.FlatFacts Gen.HipTables Model.Fmt Model.HipRa Model.HipReport
     Spec.HipRaSpec Proofs.HipRaProofs.
Import ListNotations.
Open Scope Q_scope.

(* ---------------- (a) the partial report ---------------- *)
Lemma err_site_none W i : err_site_of W i = None <-> hip_err W i = None.
Proof.
  unfold err_site_of, hip_err.
  destruct (c_fhc_derived i && _); [split; discriminate|].
  destruct (Qeqb (c_mass_rock i) 0); [split; discriminate|].
  destruct (Qeqb (c_hnet W i) 0); [split; discriminate|].
  destruct (Qeqb (c_stored W i) 0); [split; discriminate|].
  destruct (Qeqb (c_life_s i) 0); [split; discriminate|].
  destruct (util_eff (i_Tres i)); [|split; discriminate].
  destruct (Qeqb (i_area i) 0); [split; discriminate|].
  destruct (Qeqb (c_volume i) 0); [split; discriminate|]. tauto.
Qed.

Lemma published_ok W i : hip_err W i = None -> published W i = hout_list (hip_out W i).
Proof. intros H. apply err_site_none in H. unfold published. rewrite H. reflexivity. Qed.

(* an exception is raised exactly when the model says so, and then something IS published (25 figures, no status) *)
Lemma published_length W i : List.length (published W i) = 25%nat.
Proof. unfold published. destruct (err_site_of W i); reflexivity. Qed.

Ltac pv := cbn [nth map seq partial_value existsb assigned_at app Nat.eqb orb hout_list hip_out
                o_volume o_vol_rock o_vol_fluid o_stored o_stored_rock o_stored_fluid o_avail o_prod].

Lemma published_additive W i :
  let p := published W i in
  nth 0 p 0 == i_area i * i_thick i /\
  nth 1 p 0 == (1 - i_por i / 100) * nth 0 p 0 /\
  nth 2 p 0 == (i_por i / 100) * i_rff i * nth 0 p 0 /\
  nth 15 p 0 == nth 13 p 0 + nth 14 p 0.
Proof.
  unfold published. destruct (err_site_of W i) as [s|].
  - destruct s; pv; unfold c_vol_rock, c_vol_fluid, c_volume, c_stored;
      (split; [reflexivity|]); (split; [field|]); (split; [field|]); ring.
  - pv. unfold c_vol_rock, c_vol_fluid, c_volume, c_stored.
    (split; [reflexivity|]); (split; [field|]); (split; [field|]); ring.
Qed.

Lemma site_facts W i s : err_site_of W i = Some s ->
  match s with
  | SiteHeatCapacity | SiteMassRock => True
  | SiteHnet => c_hnet W i == 0
  | _ => ~ c_mass_rock i == 0
  end.
Proof.
  unfold err_site_of.
  destruct (c_fhc_derived i && _); [intros H; inversion H; exact I|].
  destruct (Qeqb (c_mass_rock i) 0) eqn:Em; [intros H; inversion H; exact I|]. apply Qeqb_false in Em.
  destruct (Qeqb (c_hnet W i) 0) eqn:Eh; [intros H; inversion H; apply Qeqb_true; exact Eh|].
  destruct (Qeqb (c_stored W i) 0); [intros H; inversion H; exact Em|].
  destruct (Qeqb (c_life_s i) 0); [intros H; inversion H; exact Em|].
  destruct (util_eff (i_Tres i)); [|intros H; inversion H; exact Em].
  destruct (Qeqb (i_area i) 0); [intros H; inversion H; exact Em|].
  destruct (Qeqb (c_volume i) 0); [intros H; inversion H; exact Em|]. discriminate.
Qed.

Lemma published_cascade W i :
  in_range i -> i_Trej i < i_Tres i -> water_signs W i ->
  let p := published W i in
  (hip_err W i = None \/ ~ c_mass_rock i == 0 \/ nth 15 p 0 == 0) /\
  nth 16 p 0 <= nth 15 p 0 /\ nth 17 p 0 <= nth 16 p 0 /\ 0 <= nth 17 p 0.
Proof.
  intros Hr HT Hw. unfold published. destruct (err_site_of W i) as [s|] eqn:Es.
  - pose proof (site_facts W i s Es) as Hs.
    destruct s; pv; try (split; [right; right; reflexivity|]; repeat split; apply Qle_refl).
    + (* SiteHnet contradicts h_net > 0 *)
      destruct Hw as [Hh _]. rewrite Hs in Hh. exfalso. apply (Qlt_irrefl 0). exact Hh.
    + destruct (cascade_gen W i Hr HT Hw Hs) as (A & B & C & _). split; [right; left; exact Hs|]. repeat split; assumption.
    + destruct (cascade_gen W i Hr HT Hw Hs) as (A & B & C & _). split; [right; left; exact Hs|]. repeat split; assumption.
    + destruct (cascade_gen W i Hr HT Hw Hs) as (A & B & C & _). split; [right; left; exact Hs|]. repeat split; assumption.
    + destruct (cascade_gen W i Hr HT Hw Hs) as (A & B & C & _). split; [right; left; exact Hs|]. repeat split; assumption.
    + destruct (cascade_gen W i Hr HT Hw Hs) as (A & B & C & _). split; [right; left; exact Hs|]. repeat split; assumption.
  - apply err_site_none in Es. destruct (cascade W i Hr HT Hw Es) as (A & B & C & _).
    split; [left; exact Es|]. pv. repeat split; assumption.
Qed.

(* the in-range inputs named in the brief do raise: porosity 100, area 0, temperature above 600 C *)
Lemma raises_porosity_100 W i : i_por i == 100 -> c_fhc_derived i = false \/ (0 <= i_Tres i <= 600) ->
  err_site_of W i = Some SiteMassRock.
Proof.
  intros Hp Hf. unfold err_site_of.
  assert (E1 : c_fhc_derived i && (Qltb (i_Tres i) 0 || Qltb 600 (i_Tres i)) = false).
  { destruct Hf as [->|[H0 H6]]; [reflexivity|].
    apply andb_false_iff. right. apply orb_false_iff. split; apply Qltb_false; assumption. }
  rewrite E1.
  assert (E2 : Qeqb (c_mass_rock i) 0 = true).
  { apply Qeqb_true. unfold c_mass_rock, c_vol_rock. rewrite Hp. field. }
  rewrite E2. reflexivity.
Qed.

Lemma raises_area_0 W i : i_area i == 0 -> c_fhc_derived i = false \/ (0 <= i_Tres i <= 600) ->
  err_site_of W i = Some SiteMassRock.
Proof.
  intros Hp Hf. unfold err_site_of.
  assert (E1 : c_fhc_derived i && (Qltb (i_Tres i) 0 || Qltb 600 (i_Tres i)) = false).
  { destruct Hf as [->|[H0 H6]]; [reflexivity|].
    apply andb_false_iff. right. apply orb_false_iff. split; apply Qltb_false; assumption. }
  rewrite E1.
  assert (E2 : Qeqb (c_mass_rock i) 0 = true).
  { apply Qeqb_true. unfold c_mass_rock, c_vol_rock, c_volume. rewrite Hp. ring. }
  rewrite E2. reflexivity.
Qed.

Lemma raises_above_600 W i : 600 < i_Tres i -> exists s, err_site_of W i = Some s.
Proof.
  intros HT. unfold err_site_of.
  destruct (c_fhc_derived i && _); [eexists; reflexivity|].
  destruct (Qeqb (c_mass_rock i) 0); [eexists; reflexivity|].
  destruct (Qeqb (c_hnet W i) 0); [eexists; reflexivity|].
  destruct (Qeqb (c_stored W i) 0); [eexists; reflexivity|].
  destruct (Qeqb (c_life_s i) 0); [eexists; reflexivity|].
  assert (U : util_eff (i_Tres i) = None).
  { unfold util_eff. destruct util_eff_table as [|[x0 y0] r] eqn:Et; [reflexivity|].
    cbn [util_eff_on].
    assert (L : last_x ((x0, y0) :: r) x0 <= 600).
    { rewrite <- Et. vm_compute. discriminate. }
    assert (B : Qltb (last_x ((x0, y0) :: r) x0) (i_Tres i) = true) by (apply Qltb_true; lra).
    rewrite B, orb_true_r. reflexivity. }
  rewrite U. eexists. reflexivity.
Qed.

(* ---------------- (b) the mass triple ---------------- *)
(* the published fluid mass is the produced mass stored/h_net = fluid volume x density + rock heat / h_net *)
Lemma mass_fluid_published W i : hip_err W i = None ->
  let o := hip_out W i in
  o_mass_fluid o == o_vol_fluid o * o_fdens o + o_stored_rock o / c_hnet W i.
Proof.
  intros He. destruct (err_none_facts W i He) as [_ [Hh _]].
  cbn [hip_out o_mass_fluid o_vol_fluid o_fdens o_stored_rock].
  unfold c_amount, c_stored, c_stored_fluid, c_mass_fluid0.
  set (h := c_hnet W i) in *. set (R := c_stored_rock i). field. exact Hh.
Qed.

Lemma mass_additivity_partial W i : hip_err W i = None ->
  let o := hip_out W i in
  (o_mass_total o == o_mass_rock o + o_mass_fluid o <-> o_stored_rock o == 0).
Proof.
  intros He o. pose proof (mass_fluid_published W i He) as Hm. fold o in Hm.
  destruct (err_none_facts W i He) as [_ [Hh _]].
  assert (Ht : o_mass_total o == o_mass_rock o + o_vol_fluid o * o_fdens o) by reflexivity.
  split; intros H.
  - rewrite Hm in H. rewrite Ht in H.
    assert (Z : o_stored_rock o / c_hnet W i == 0) by lra.
    assert (E : o_stored_rock o == (o_stored_rock o / c_hnet W i) * c_hnet W i) by (field; exact Hh).
    rewrite E, Z. ring.
  - rewrite Hm, Ht, H. unfold Qdiv. ring.
Qed.

Definition mass_witness_input : hin :=
  {| i_Tres := 250; i_Trej := 60; i_por := 10; i_area := 55; i_thick := 1#4; i_life := 25;
     i_rhc := 2840000000000#1; i_fhc := -1#1; i_fdens := -1#1; i_rdens := 2550000000000#1; i_rff := 1#2; i_rrh := 3#4;
     i_depth_given := false; i_depth := -1#1; i_pres_given := false; i_pres := -1#1;
     i_fdens_min := 100000000000#1; i_fhc_min := 3 |}.
Definition mass_witness_water : water :=
  water_of_data 250 (861884#1000) (433556#100) (1103134#1000) (315026#1000) (2659538#1000000) (792175#1000000).

Lemma mass_additivity_refuted :
  exists W i, in_range i /\ hip_err W i = None /\ i_Trej i < i_Tres i /\
              let o := hip_out W i in
              o_mass_rock o + o_mass_fluid o > o_mass_total o /\
              ~ o_mass_total o == o_mass_rock o + o_mass_fluid o.
Proof.
  exists mass_witness_water, mass_witness_input.
  split; [vm_compute; reflexivity|]. split; [vm_compute; reflexivity|]. split; [vm_compute; reflexivity|].
  split; [vm_compute; reflexivity|]. vm_compute. discriminate.
Qed.

(* ---------------- the report of a run (or of its partial outputs) states what main() publishes ---------------- *)
From Verif Require Import Proofs.HipReportProofs.
Open Scope Q_scope.

Lemma report_states_published W i k idx kind :
  nth_error (result_rows (i_depth_given i) (i_pres_given i)) k = Some (idx, kind) ->
  exists line,
    nth_error (section_lines (result_rows (i_depth_given i) (i_pres_given i)) hip_out_names (map Fin (published W i))) k = Some line /\
    parse_line line = Some (fst (name_at hip_out_names idx), printed kind (nth idx (published W i) 0),
                            unit_opt (snd (name_at hip_out_names idx))).
Proof.
  intros Hr. apply (results_section_states_values _ _ _ _ _ _ _ Hr).
  change (Fin 0) with (Fin (0%Q)). apply (map_nth Fin).
Qed.

(* ---------------- legacy HIP_RA: the part of its method that HIP-RA-X shares ---------------- *)
Lemma legacy_common_part W i :
  let l := legacy_common W i in let o := hip_out W i in
  nth 0 l 0 = o_volume o /\ nth 3 l 0 = o_enth_fluid o /\
  (i_rff i == 1 -> nth 1 l 0 == o_vol_fluid o * i_fdens i) /\
  (hip_err W i = None -> i_por i == 0 -> i_rrh i == 1 -> nth 2 l 0 == o_stored_rock o).
Proof.
  cbn [legacy_common nth hip_out o_volume o_enth_fluid o_vol_fluid o_stored_rock].
  split; [reflexivity|]. split; [reflexivity|]. split.
  - intros Hr. unfold c_vol_fluid. rewrite Hr. ring.
  - intros He Hp Hrr. destruct (err_none_facts W i He) as [Hm _].
    unfold c_stored_rock, c_enth_rock, c_dT, c_TrejK, celsius_to_kelvin.
    assert (Ev : c_vol_rock i == c_volume i) by (unfold c_vol_rock; rewrite Hp; field).
    rewrite Hrr. set (m := c_mass_rock i) in *. rewrite Ev. field. exact Hm.
Qed.
