(* Proofs/PumpingProofs.v - lemmas about Model/Pumping.v *)
From Coq Require Import QArith Qabs List ZArith Bool Lia Lqa.
From Verif Require Import Base.Flat Proofs.FlatFacts Model.Pumping.
Import ListNotations.
Open Scope Q_scope.

Lemma clamp0_nonneg x : 0 <= clamp0 x.
Proof. unfold clamp0. destruct (Qltb x 0) eqn:E; [lra|]. apply Qltb_false in E. exact E. Qed.

Lemma clamp0_id x : 0 <= x -> clamp0 x = x.
Proof. intros H. unfold clamp0. destruct (Qltb x 0) eqn:E; [|reflexivity]. apply Qltb_true in E. lra. Qed.

Lemma clamp0_neg x : x < 0 -> clamp0 x = 0.
Proof. intros H. unfold clamp0. destruct (Qltb x 0) eqn:E; [reflexivity|]. apply Qltb_false in E. lra. Qed.

(* zipQ: shape and pointwise content *)
Lemma zipQ_spec f : forall a b l, zipQ f a b = Some l ->
  length l = length a /\ length l = length b /\
  forall i, (i < length l)%nat -> nth i l 0 = f (nth i a 0) (nth i b 0).
Proof.
  induction a as [|x a IH]; intros b l H; destruct b as [|y b]; cbn [zipQ] in H; try discriminate.
  - inversion H. repeat split. intros i Hi. cbn in Hi. lia.
  - destruct (zipQ f a b) as [r|] eqn:E; [|discriminate]. inversion H. subst l.
    destruct (IH b r E) as (La & Lb & Hn). cbn [length]. repeat split; try lia.
    intros i Hi. destruct i as [|j]; [reflexivity|]. cbn [nth]. apply Hn. cbn in Hi. lia.
Qed.

Lemma zipQ_defined f : forall a b, length a = length b -> exists l, zipQ f a b = Some l.
Proof.
  induction a as [|x a IH]; intros b H; destruct b as [|y b]; cbn in H; try discriminate.
  - exists []. reflexivity.
  - destruct (IH b) as [r E]; [lia|]. exists (f x y :: r). cbn [zipQ]. now rewrite E.
Qed.

Lemma zipQ_mismatch f : forall a b, length a <> length b -> zipQ f a b = None.
Proof.
  induction a as [|x a IH]; intros b H; destruct b as [|y b]; cbn in H |- *; try reflexivity; try lia.
  rewrite IH by lia. reflexivity.
Qed.

Lemma zipQ_all (P : Q -> Prop) f : (forall x y, P (f x y)) ->
  forall a b l, zipQ f a b = Some l -> forall i, (i < length l)%nat -> P (nth i l 0).
Proof.
  intros Hf a b l H i Hi. destruct (zipQ_spec f a b l H) as (_ & _ & Hn). rewrite Hn by exact Hi. apply Hf.
Qed.

(* ---- never negative, whatever the pressure drop, density, efficiency or well count ---- *)
Lemma imp_power_nonneg ninj q wl eff dp rho : 0 <= imp_power ninj q wl eff dp rho.
Proof. apply clamp0_nonneg. Qed.
Lemma prod_power_nonneg pumping nprod q eff dp rho : 0 <= prod_power pumping nprod q eff dp rho.
Proof. unfold prod_power. destruct pumping; [apply clamp0_nonneg|lra]. Qed.
Lemma inj_power_nonneg nprod q wl eff dp rho : 0 <= inj_power nprod q wl eff dp rho.
Proof. apply clamp0_nonneg. Qed.

Lemma imp_series_nonneg ninj q wl eff dp rho l :
  imp_power_series ninj q wl eff dp rho = Some l ->
  length l = length dp /\ forall i, (i < length l)%nat -> 0 <= nth i l 0.
Proof.
  intros H. split; [apply (zipQ_spec _ _ _ _ H)|].
  apply (zipQ_all (fun x => 0 <= x) _ (imp_power_nonneg ninj q wl eff) _ _ _ H).
Qed.

Lemma total_power_spec pumping inj prod t :
  total_power pumping inj prod = Some t ->
  length t = length inj /\
  forall i, (i < length t)%nat ->
    nth i t 0 = clamp0 (if pumping then nth i inj 0 + nth i prod 0 else nth i inj 0).
Proof.
  unfold total_power. destruct pumping; intros H.
  - destruct (zipQ_spec _ _ _ _ H) as (La & _ & Hn). split; [exact La|exact Hn].
  - injection H as <-. rewrite map_length. split; [reflexivity|]. intros i Hi.
    rewrite (nth_indep _ 0 (clamp0 0)) by (rewrite map_length; exact Hi). apply map_nth.
Qed.

(* the whole index-model stage: all three series are non-negative at every time step, for every length;
   with production pumps the total is exactly the sum of the two, without them it is the injection power *)
Lemma index_stage pumping nprod q wl eff dpp dpi rhop rhoi pp pi t :
  prod_power_series pumping nprod q eff dpp rhop = Some pp ->
  inj_power_series nprod q wl eff dpi rhoi = Some pi ->
  total_power pumping pi pp = Some t ->
  length t = length pi /\
  (forall i, (i < length pp)%nat -> 0 <= nth i pp 0) /\
  (forall i, (i < length pi)%nat -> 0 <= nth i pi 0) /\
  (forall i, (i < length t)%nat -> 0 <= nth i t 0) /\
  (forall i, (i < length t)%nat ->
     nth i t 0 == if pumping then nth i pi 0 + nth i pp 0 else nth i pi 0).
Proof.
  intros Hpp Hpi Ht.
  pose proof (zipQ_all (fun x => 0 <= x) _ (prod_power_nonneg pumping nprod q eff) _ _ _ Hpp) as Npp.
  pose proof (zipQ_all (fun x => 0 <= x) _ (inj_power_nonneg nprod q wl eff) _ _ _ Hpi) as Npi.
  cbv beta in Npp, Npi.
  destruct (total_power_spec _ _ _ _ Ht) as (Lt & Hn).
  split; [exact Lt|]. split; [exact Npp|]. split; [exact Npi|]. split.
  - intros i Hi. rewrite Hn by exact Hi. apply clamp0_nonneg.
  - intros i Hi. rewrite Hn by exact Hi.
    assert (Hipi : (i < length pi)%nat) by lia.
    destruct pumping.
    + assert (Lpp : length t = length pp).
      { unfold total_power in Ht. destruct (zipQ_spec _ _ _ _ Ht) as (_ & Lb & _). exact Lb. }
      assert (Hipp : (i < length pp)%nat) by lia.
      pose proof (Npp i Hipp). pose proof (Npi i Hipi). rewrite clamp0_id by lra. reflexivity.
    + rewrite clamp0_id by (apply Npi; exact Hipi). reflexivity.
Qed.

(* the total exists exactly when both series have the same number of time steps *)
Lemma total_power_defined inj prod : length inj = length prod -> exists t, total_power true inj prod = Some t.
Proof. intros H. unfold total_power. apply zipQ_defined. exact H. Qed.

(* without production pumps the production series is identically zero *)
Lemma prod_power_off nprod q eff dp rho : prod_power false nprod q eff dp rho = 0.
Proof. reflexivity. Qed.

(* the clamp is what makes it so: a self-flowing (negative pressure demand) step gives exactly zero, a positive
   demand is passed through unchanged *)
Lemma imp_power_cases ninj q wl eff dp rho :
  (imp_power_raw ninj q wl eff dp rho < 0 -> imp_power ninj q wl eff dp rho = 0) /\
  (0 <= imp_power_raw ninj q wl eff dp rho -> imp_power ninj q wl eff dp rho = imp_power_raw ninj q wl eff dp rho).
Proof. split; intros H; unfold imp_power; [apply clamp0_neg|apply clamp0_id]; exact H. Qed.

(* soundness of the checkers run on implementation output *)
Lemma all_nonneg_sound l : all_nonneg l = true -> forall i, (i < length l)%nat -> 0 <= nth i l 0.
Proof.
  unfold all_nonneg. intros H i Hi. rewrite forallb_forall in H. apply Qleb_true. apply H. apply nth_In. exact Hi.
Qed.

Lemma sum_ok_exact : forall t a b, sum_ok 0 t a b = true ->
  length t = length a /\ length t = length b /\ forall i, (i < length t)%nat -> nth i t 0 == nth i a 0 + nth i b 0.
Proof.
  induction t as [|x t IH]; intros a b H; destruct a as [|y a]; destruct b as [|z b]; cbn [sum_ok] in H; try discriminate.
  - repeat split. intros i Hi. cbn in Hi. lia.
  - apply andb_true_iff in H. destruct H as [Hc Hr]. apply close_0_eq in Hc.
    destruct (IH a b Hr) as (La & Lb & Hn). cbn [length]. repeat split; try lia.
    intros i Hi. destruct i as [|j]; [exact Hc|]. cbn [nth]. apply Hn. cbn in Hi. lia.
Qed.
