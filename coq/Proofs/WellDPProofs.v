(* Proofs/WellDPProofs.v - the friction term enters every pump pressure with a plus sign, so pump pressure and pumping
   power never grow when only the diameter grows (given the growth premise on the friction factor). *)
From Coq Require Import QArith Qabs List ZArith Bool Lia Lqa.
From Verif Require Import Base.Flat Proofs.FlatFacts Model.Friction Model.Pumping Model.WellDP
     Proofs.PumpingProofs Proofs.FrictionProofs.
Import ListNotations.
Open Scope Q_scope.

Lemma dp_prod_index_split pwh phyd q pikpa rho depth fric :
  dp_prod_index pwh phyd q pikpa rho depth fric == dp_prod_index pwh phyd q pikpa rho depth 0 + fric.
Proof. unfold dp_prod_index. ring. Qed.

Lemma dp_inj_index_split phyd q wl nprod ninj iikpa rho depth fric pout :
  dp_inj_index phyd q wl nprod ninj iikpa rho depth fric pout == dp_inj_index phyd q wl nprod ninj iikpa rho depth 0 pout + fric.
Proof. unfold dp_inj_index. ring. Qed.

Lemma imp_overall_split imp nprod q rhores rhop rhoi depth dpp dpi :
  dp_overall (dp_reserv imp nprod q rhores) dpp (dp_buoyancy rhop rhoi depth) dpi ==
  dp_overall (dp_reserv imp nprod q rhores) 0 (dp_buoyancy rhop rhoi depth) 0 + dpp + dpi.
Proof. unfold dp_overall. ring. Qed.

Lemma clamp0_mono x y : x <= y -> clamp0 x <= clamp0 y.
Proof.
  intros H. unfold clamp0. destruct (Qltb x 0) eqn:Ex; destruct (Qltb y 0) eqn:Ey;
    try apply Qltb_true in Ex; try apply Qltb_false in Ex; try apply Qltb_true in Ey; try apply Qltb_false in Ey; lra.
Qed.

Lemma scale_mono a b c : 0 <= c -> a <= b -> a * c <= b * c.
Proof. intros. nra. Qed.

Lemma Qdiv_mono a b c : 0 < c -> a <= b -> a / c <= b / c.
Proof.
  intros Hc H. apply Qle_shift_div_l; [exact Hc|].
  setoid_replace (a / c * c) with a by (field; lra). exact H.
Qed.

Lemma prod_power_mono nprod q eff rho dp1 dp2 :
  0 <= nprod -> 0 <= q -> 0 < rho -> 0 < eff -> dp2 <= dp1 ->
  prod_power true nprod q eff dp2 rho <= prod_power true nprod q eff dp1 rho.
Proof.
  intros Hn Hq Hr He H. unfold prod_power, prod_power_raw. apply clamp0_mono.
  repeat apply Qdiv_mono; try lra.
  apply scale_mono; [exact Hq|]. apply scale_mono; assumption.
Qed.

Lemma inj_power_mono nprod q wl eff rho dp1 dp2 :
  0 <= nprod -> 0 <= q -> 0 <= 1 + wl -> 0 < rho -> 0 < eff -> dp2 <= dp1 ->
  inj_power nprod q wl eff dp2 rho <= inj_power nprod q wl eff dp1 rho.
Proof.
  intros Hn Hq Hw Hr He H. unfold inj_power, inj_power_raw. apply clamp0_mono.
  repeat apply Qdiv_mono; try lra.
  apply scale_mono; [exact Hw|]. apply scale_mono; [exact Hq|]. apply scale_mono; assumption.
Qed.

Lemma imp_power_mono ninj q wl eff rho dp1 dp2 :
  0 <= ninj -> 0 <= q -> 0 <= 1 + wl -> 0 < rho -> 0 < eff -> dp2 <= dp1 ->
  imp_power ninj q wl eff dp2 rho <= imp_power ninj q wl eff dp1 rho.
Proof.
  intros Hn Hq Hw Hr He H. unfold imp_power, imp_power_raw. apply clamp0_mono.
  repeat apply Qdiv_mono; try lra.
  apply scale_mono; [exact Hw|]. apply scale_mono; [exact Hq|]. apply scale_mono; assumption.
Qed.

(* production side of the index model against the diameter: same flow, density, pressures, depth; friction factors
   f1 at d1 and f2 at d2 >= d1 under the growth premise *)
Lemma prod_index_vs_diameter pwh phyd q pikpa rho pi depth nprod eff f1 f2 d1 d2 :
  0 < rho -> 0 < pi -> 0 <= depth -> 0 < d1 -> 0 < d2 -> 0 <= nprod -> 0 <= q -> 0 < eff ->
  f2 * pow5 d1 <= f1 * pow5 d2 ->
  let dp d f := dp_prod_index pwh phyd q pikpa rho depth (dp_of f q rho pi depth d) in
  dp d2 f2 <= dp d1 f1 /\
  prod_power true nprod q eff (dp d2 f2) rho <= prod_power true nprod q eff (dp d1 f1) rho.
Proof.
  intros Hr Hp Hdepth Hd1 Hd2 Hn Hq He Hg dp.
  assert (Hf : dp_of f2 q rho pi depth d2 <= dp_of f1 q rho pi depth d1) by (apply dp_of_mono_growth; assumption).
  assert (Hdp : dp d2 f2 <= dp d1 f1) by (unfold dp; rewrite (dp_prod_index_split _ _ _ _ _ _ (dp_of f2 _ _ _ _ _)),
    (dp_prod_index_split _ _ _ _ _ _ (dp_of f1 _ _ _ _ _)); lra).
  split; [exact Hdp|]. apply prod_power_mono; assumption.
Qed.

Lemma inj_index_vs_diameter phyd q qw wl nprod ninj iikpa rho pi depth pout eff f1 f2 d1 d2 :
  0 < rho -> 0 < pi -> 0 <= depth -> 0 < d1 -> 0 < d2 -> 0 <= nprod -> 0 <= q -> 0 <= 1 + wl -> 0 < eff ->
  f2 * pow5 d1 <= f1 * pow5 d2 ->
  let dp d f := dp_inj_index phyd q wl nprod ninj iikpa rho depth (dp_of f qw rho pi depth d) pout in
  dp d2 f2 <= dp d1 f1 /\
  inj_power nprod q wl eff (dp d2 f2) rho <= inj_power nprod q wl eff (dp d1 f1) rho.
Proof.
  intros Hr Hp Hdepth Hd1 Hd2 Hn Hq Hw He Hg dp.
  assert (Hf : dp_of f2 qw rho pi depth d2 <= dp_of f1 qw rho pi depth d1) by (apply dp_of_mono_growth; assumption).
  assert (Hdp : dp d2 f2 <= dp d1 f1) by (unfold dp; rewrite (dp_inj_index_split _ _ _ _ _ _ _ _ (dp_of f2 _ _ _ _ _)),
    (dp_inj_index_split _ _ _ _ _ _ _ _ (dp_of f1 _ _ _ _ _)); lra).
  split; [exact Hdp|]. apply inj_power_mono; assumption.
Qed.

(* impedance model: any smaller well friction (production and/or injection) gives a smaller overall drop and power *)
Lemma imp_vs_friction imp nprod ninj q wl eff rhores rhop rhoi depth dpp1 dpp2 dpi1 dpi2 :
  0 <= ninj -> 0 <= q -> 0 <= 1 + wl -> 0 < rhoi -> 0 < eff -> dpp2 <= dpp1 -> dpi2 <= dpi1 ->
  let dpo dpp dpi := dp_overall (dp_reserv imp nprod q rhores) dpp (dp_buoyancy rhop rhoi depth) dpi in
  dpo dpp2 dpi2 <= dpo dpp1 dpi1 /\
  imp_power ninj q wl eff (dpo dpp2 dpi2) rhoi <= imp_power ninj q wl eff (dpo dpp1 dpi1) rhoi.
Proof.
  intros Hn Hq Hw Hr He Hp Hi dpo.
  assert (H : dpo dpp2 dpi2 <= dpo dpp1 dpi1) by (unfold dpo, dp_overall; lra).
  split; [exact H|]. apply imp_power_mono; assumption.
Qed.
