(* Proofs/FlatFacts.v - reflection lemmas for the boolean comparisons of Base/Flat.v *)
From Coq Require Import QArith Qabs Qminmax List ZArith Bool Lia Lqa.
From Verif Require Import Base.Flat.
Import ListNotations.
Open Scope Q_scope.

Lemma Qltb_true a b : Qltb a b = true <-> a < b.
Proof.
  unfold Qltb. rewrite negb_true_iff. split; intros H.
  - apply Qnot_le_lt. intros Hle. apply Qle_bool_iff in Hle. congruence.
  - destruct (Qle_bool b a) eqn:E; [|reflexivity]. apply Qle_bool_iff in E. lra.
Qed.

Lemma Qltb_false a b : Qltb a b = false <-> b <= a.
Proof.
  unfold Qltb. rewrite negb_false_iff. apply Qle_bool_iff.
Qed.

Lemma Qleb_true a b : Qleb a b = true <-> a <= b.
Proof. apply Qle_bool_iff. Qed.

Lemma Qleb_false a b : Qleb a b = false <-> b < a.
Proof.
  unfold Qleb. split; intros H.
  - apply Qnot_le_lt. intros Hle. apply Qle_bool_iff in Hle. congruence.
  - destruct (Qle_bool a b) eqn:E; [|reflexivity]. apply Qle_bool_iff in E. lra.
Qed.

Lemma Qeqb_true a b : Qeqb a b = true <-> a == b.
Proof. apply Qeq_bool_iff. Qed.

Lemma Qltb_spec a b : reflect (a < b) (Qltb a b).
Proof. destruct (Qltb a b) eqn:E; constructor. now apply Qltb_true. apply Qltb_false in E. lra. Qed.

Lemma Qleb_spec a b : reflect (a <= b) (Qleb a b).
Proof. destruct (Qleb a b) eqn:E; constructor. now apply Qleb_true. apply Qleb_false in E. lra. Qed.

Lemma sumQ_red_from_eq l : forall acc, sumQ_red_from acc l == acc + sumQ l.
Proof.
  induction l as [|x r IH]; intros acc; cbn [sumQ_red_from sumQ].
  - ring.
  - rewrite IH. rewrite Qred_correct. ring.
Qed.

Lemma sumQ_red_eq l : sumQ_red l == sumQ l.
Proof. unfold sumQ_red. rewrite sumQ_red_from_eq. ring. Qed.

Lemma sumQ_app a b : sumQ (a ++ b) == sumQ a + sumQ b.
Proof. induction a as [|x r IH]; cbn [app sumQ]. ring. rewrite IH. ring. Qed.

Lemma close_0_eq a b : close 0 a b = true -> a == b.
Proof.
  unfold close. intros H. apply Qle_bool_iff in H.
  rewrite Qmult_0_l in H.
  pose proof (Qabs_nonneg (a - b)) as Hn.
  assert (Hz : Qabs (a - b) <= 0) by lra.
  apply Qabs_Qle_condition in Hz. lra.
Qed.
