(* Proofs/FloatProofs.v - facts about the float model Model/Float.v: rounding to 53 bits is within half a unit of the
   last kept bit (ties included) of the exact integer, + - * are the exact result rounded once, and the extremes
   are elements of the series. *)
From Coq Require Import String Ascii QArith ZArith List Bool Lia.
From Verif Require Import Model.Fmt Model.Float.
Import ListNotations.
Open Scope Z_scope.

Lemma pow2_pos d : 0 <= d -> 0 < 2 ^ d.
Proof. intros. apply Z.pow_pos_nonneg; lia. Qed.

(* round53 m e = (m', e'):  e <= e',  |m' * 2^(e'-e) - m| <= 2^(e'-e) / 2,  |m'| <= 2^53 *)
Lemma round53_spec m e : forall m' e', round53 m e = (m', e') ->
  e <= e' /\ 2 * Z.abs (m' * 2 ^ (e' - e) - m) <= 2 ^ (e' - e) /\ Z.abs m' <= 2 ^ 53 /\ (m = 0 <-> m' = 0).
Proof.
  intros m' e'. unfold round53.
  destruct (Z.log2 (Z.abs m) <=? 52) eqn:HL.
  - intros H. inversion H; subst. apply Z.leb_le in HL.
    replace (e' - e') with 0 by lia. rewrite Z.mul_1_r. replace (m' - m') with 0 by lia. simpl Z.abs.
    split; [lia|]. split; [simpl; lia|]. split; [|tauto].
    destruct (Z.eq_dec m' 0) as [->|N]; [simpl; lia|].
    assert (0 < Z.abs m') by lia.
    pose proof (Z.log2_spec (Z.abs m') H0) as [_ U].
    assert (2 ^ Z.succ (Z.log2 (Z.abs m')) <= 2 ^ 53) by (apply Z.pow_le_mono_r; lia). lia.
  - apply Z.leb_gt in HL. set (a := Z.abs m) in *. set (L := Z.log2 a) in *. set (d := L - 52).
    assert (Hd : 0 < d) by (unfold d; lia).
    assert (Ha : 0 < a). { destruct (Z.eq_dec a 0) as [E|E]; [|unfold a in *; lia]. unfold L in HL. rewrite E in HL. simpl in HL. lia. }
    pose proof (Z.log2_spec a Ha) as [LB UB]. fold L in LB, UB.
    set (P := 2 ^ d). assert (HP : 0 < P) by (apply pow2_pos; lia).
    set (q := Z.shiftr a d). assert (Eq : q = a / P) by (unfold q, P; apply Z.shiftr_div_pow2; lia).
    assert (Es : Z.shiftl q d = q * P) by (unfold P; apply Z.shiftl_mul_pow2; lia).
    set (h := Z.shiftl 1 (d - 1)). assert (Eh : h = 2 ^ (d - 1)) by (unfold h; rewrite Z.shiftl_mul_pow2 by lia; lia).
    assert (E2 : P = 2 * h). { rewrite Eh. unfold P. replace d with (Z.succ (d - 1)) at 1 by lia. rewrite Z.pow_succ_r by lia. reflexivity. }
    rewrite Es. set (r := a - q * P).
    assert (Hr : 0 <= r < P). { unfold r. rewrite Eq. pose proof (Z.div_mod a P ltac:(lia)). pose proof (Z.mod_pos_bound a P HP). lia. }
    assert (Hq : 0 <= q < 2 ^ 53).
    { rewrite Eq. split; [apply Z.div_pos; lia|]. apply Z.div_lt_upper_bound; [lia|].
      unfold P. rewrite <- Z.pow_add_r by lia. replace (d + 53) with (Z.succ L) by (unfold d; lia). lia. }
    assert (Hq1 : 1 <= q).
    { rewrite Eq. apply Z.div_le_lower_bound; [lia|]. unfold P, d.
      assert (2 ^ (L - 52) <= 2 ^ L) by (apply Z.pow_le_mono_r; lia). lia. }
    intros H. inversion H; subst e'. clear H.
    replace (e + d - e) with d by lia. fold P.
    assert (Core : forall q', (q' = q /\ r <= h) \/ (q' = q + 1 /\ h <= r) ->
              2 * Z.abs (q' * P - a) <= P /\ Z.abs q' <= 2 ^ 53 /\ q' <> 0).
    { intros q' [[-> C]|[-> C]]; unfold r in *; split; try split; lia. }
    assert (Pick : (match r ?= h with Lt => q | Gt => q + 1 | Eq => if Z.even q then q else q + 1 end = q /\ r <= h)
                   \/ (match r ?= h with Lt => q | Gt => q + 1 | Eq => if Z.even q then q else q + 1 end = q + 1 /\ h <= r)).
    { destruct (Z.compare_spec r h) as [E|E|E]; [destruct (Z.even q)|..]; lia. }
    destruct (Core _ Pick) as (C1 & C2 & C3).
    set (q' := match r ?= h with Lt => q | Gt => q + 1 | Eq => if Z.even q then q else q + 1 end) in *.
    split; [lia|].
    destruct (m <? 0) eqn:Hm.
    + apply Z.ltb_lt in Hm. assert (Em : m = - a) by (unfold a; lia).
      split; [|split; [rewrite Z.abs_opp; exact C2|lia]].
      replace (- q' * P - m) with (- (q' * P - a)) by lia. rewrite Z.abs_opp. exact C1.
    + apply Z.ltb_ge in Hm. assert (Em : m = a) by (unfold a; lia).
      split; [rewrite Em; exact C1|split; [exact C2|lia]].
Qed.

(* the sum / difference / product are formed exactly and rounded once *)
Lemma fadd_exact mx ex my ey : fadd (FD mx ex) (FD my ey) =
  mk (mx * 2 ^ (ex - Z.min ex ey) + my * 2 ^ (ey - Z.min ex ey)) (Z.min ex ey).
Proof. unfold fadd. rewrite !Z.shiftl_mul_pow2 by lia. reflexivity. Qed.

Lemma fsub_exact mx ex my ey : fsub (FD mx ex) (FD my ey) =
  mk (mx * 2 ^ (ex - Z.min ex ey) - my * 2 ^ (ey - Z.min ex ey)) (Z.min ex ey).
Proof. unfold fsub. rewrite !Z.shiftl_mul_pow2 by lia. reflexivity. Qed.

(* what mk returns: +0 for an exact zero, else the 53-bit rounding of the exact value, never further than half a unit
   of its last bit *)
Lemma mk_spec s e0 m e : mk s e0 = Some (FD m e) ->
  (s = 0 /\ m = 0) \/
  (s <> 0 /\ e0 <= e /\ 2 * Z.abs (m * 2 ^ (e - e0) - s) <= 2 ^ (e - e0) /\ Z.abs m <= 2 ^ 53 /\ m <> 0).
Proof.
  unfold mk. destruct (s =? 0) eqn:Z0.
  - apply Z.eqb_eq in Z0. intros H. inversion H. left. auto.
  - apply Z.eqb_neq in Z0. destruct (round53 s e0) as [m' e'] eqn:R.
    destruct ((-1022 <=? Z.log2 (Z.abs m') + e') && (Z.log2 (Z.abs m') + e' <? 1024)); [|discriminate].
    intros H. inversion H; subst. right. destruct (round53_spec _ _ _ _ R) as (A & B & C & D). repeat split; try assumption. tauto.
Qed.

Theorem fadd_half_ulp mx ex my ey m e : fadd (FD mx ex) (FD my ey) = Some (FD m e) ->
  let e0 := Z.min ex ey in
  let s := mx * 2 ^ (ex - e0) + my * 2 ^ (ey - e0) in      (* the exact sum, in units of 2^e0 *)
  (s = 0 /\ m = 0) \/ (s <> 0 /\ e0 <= e /\ 2 * Z.abs (m * 2 ^ (e - e0) - s) <= 2 ^ (e - e0) /\ Z.abs m <= 2 ^ 53 /\ m <> 0).
Proof. rewrite fadd_exact. apply mk_spec. Qed.

Theorem fsub_half_ulp mx ex my ey m e : fsub (FD mx ex) (FD my ey) = Some (FD m e) ->
  let e0 := Z.min ex ey in
  let s := mx * 2 ^ (ex - e0) - my * 2 ^ (ey - e0) in
  (s = 0 /\ m = 0) \/ (s <> 0 /\ e0 <= e /\ 2 * Z.abs (m * 2 ^ (e - e0) - s) <= 2 ^ (e - e0) /\ Z.abs m <= 2 ^ 53 /\ m <> 0).
Proof. rewrite fsub_exact. apply mk_spec. Qed.

Theorem fmul_half_ulp mx ex my ey m e : fmul (FD mx ex) (FD my ey) = Some (FD m e) ->
  let s := mx * my in let e0 := ex + ey in                   (* the exact product, in units of 2^(ex+ey) *)
  (s = 0 /\ m = 0) \/ (s <> 0 /\ e0 <= e /\ 2 * Z.abs (m * 2 ^ (e - e0) - s) <= 2 ^ (e - e0) /\ Z.abs m <= 2 ^ 53 /\ m <> 0).
Proof.
  unfold fmul. destruct ((mx * my =? 0) && ((mx <? 0) || (my <? 0))); [discriminate|]. apply mk_spec.
Qed.

(* an operation of the model never returns the marker *)
Lemma mk_not_bad s e : mk s e <> Some FBad.
Proof.
  unfold mk. destruct (s =? 0); [discriminate|]. destruct (round53 s e). destruct (_ && _); discriminate.
Qed.

(* the extremes are elements of the series *)
Lemma extreme_in keep : forall l best x, extreme keep best l = Some x -> x = best \/ In x l.
Proof.
  induction l as [|y l IH]; intros best x H; simpl in H.
  - inversion H. auto.
  - destruct (keep best y) as [[|]|]; [| |discriminate].
    + destruct (IH _ _ H); auto. right. right. assumption.
    + destruct (IH _ _ H) as [->|]; [right; left; reflexivity|right; right; assumption].
Qed.

Theorem np_max_in l x : np_max l = Some x -> In x l.
Proof.
  unfold np_max. destruct l as [|[m e|] r]; try discriminate. intros H. destruct (extreme_in _ _ _ _ H) as [->|]; [left; reflexivity|right; assumption].
Qed.

Theorem np_min_in l x : np_min l = Some x -> In x l.
Proof.
  unfold np_min. destruct l as [|[m e|] r]; try discriminate. intros H. destruct (extreme_in _ _ _ _ H) as [->|]; [left; reflexivity|right; assumption].
Qed.

(* the average is the pairwise sum divided by the count; a series cell of a table row is the series at the row's index *)
Lemma np_average_def l : l <> [] -> np_average l = match np_sum l with Some s => fdiv s (FD (Z.of_nat (length l)) 0) | None => None end.
Proof. destruct l; [congruence|reflexivity]. Qed.

Lemma seval_row_leaf idx l : seval (Some idx) (SRow (ALeaf l)) = match nth_error l idx with Some x => not_bad x | None => None end.
Proof. reflexivity. Qed.

Lemma seval_ratio_to_first idx l :
  seval (Some idx) (SDiv (SRow (ALeaf l)) (SIdx (ALeaf l) 0)) = bind2 fdiv (aget (Some idx) (ALeaf l) idx) (aget (Some idx) (ALeaf l) 0).
Proof. reflexivity. Qed.
