(* Proofs/IrrProofs.v - the internal rate of return of a conventional cash flow is unique (C04):
   for a series made of non-positive years (with at least one strictly negative) followed by non-negative years,
   NPV(r) x (1+r)^k is strictly decreasing in r on r > -1, so at most one rate zeroes the NPV. *)
From Coq Require Import QArith Qabs Qpower Qfield List ZArith Bool Lia Lqa.
From Verif Require Import Base.Flat Model.CashFlow Model.Lcoe Proofs.CashFlowProofs Proofs.LcoeProofs Proofs.ScalingProofs.
Import ListNotations.
Open Scope Q_scope.

Lemma npv_ext r r' : r == r' -> forall cf, npv r cf == npv r' cf.
Proof. intros H cf. induction cf as [|c cf IH]; simpl; [reflexivity|]. now rewrite IH, H. Qed.

(* NPV as a function of x = 1 + r *)
Definition npvx (x : Q) (cf : list Q) : Q := npv (x - 1) cf.
Lemma npvx_cons x c l : npvx x (c :: l) == c + npvx x l / x.
Proof. unfold npvx. simpl. assert (H : 1 + (x - 1) == x) by ring. now rewrite H. Qed.
Lemma npvx_nil x : npvx x [] == 0.
Proof. reflexivity. Qed.

Lemma qpow_pos x n : 0 < x -> 0 < qpow x n.
Proof.
  intros Hx. induction n as [|n IH]; [reflexivity|]. rewrite qpow_S. now apply Qmult_lt_0_compat.
Qed.
Lemma qpow_mono x y n : 0 < x -> x <= y -> qpow x n <= qpow y n.
Proof.
  intros Hx Hxy. induction n as [|n IH]; [apply Qle_refl|]. rewrite !qpow_S.
  pose proof (qpow_pos x n Hx). assert (0 < y) by lra. pose proof (qpow_pos y n H0). nra.
Qed.
Lemma qpow_strict x y n : 0 < x -> x < y -> qpow x (S n) < qpow y (S n).
Proof.
  intros Hx Hxy. rewrite !qpow_S. pose proof (qpow_mono x y n Hx (Qlt_le_weak _ _ Hxy)).
  pose proof (qpow_pos x n Hx). nra.
Qed.

(* G_x(l) = x^|l| * NPV_x(l) = sum_t l_t x^(|l| - t) *)
Definition G (x : Q) (l : list Q) : Q := qpow x (length l) * npvx x l.
Lemma G_cons x c l : 0 < x -> G x (c :: l) == c * qpow x (S (length l)) + G x l.
Proof.
  intros Hx. unfold G. cbn [length]. rewrite npvx_cons, qpow_S. field. lra.
Qed.

Definition nonpos (l : list Q) : Prop := Forall (fun c => c <= 0) l.

Lemma G_antitone x y : 0 < x -> x <= y -> forall l, nonpos l -> G y l <= G x l.
Proof.
  intros Hx Hxy l Hl. assert (Hy : 0 < y) by lra. induction Hl as [|c l Hc _ IH].
  - unfold G. cbn [length]. rewrite (npvx_nil x), (npvx_nil y).
    assert (E : forall a, a * 0 == 0) by (intros; ring). rewrite (E (qpow x 0)), (E (qpow y 0)). apply Qle_refl.
  - rewrite !G_cons by assumption. pose proof (qpow_mono x y (S (length l)) Hx Hxy) as Hm.
    set (a := qpow x (S (length l))) in *. set (b := qpow y (S (length l))) in *.
    assert (c * b <= c * a) by (assert (0 <= (- c) * (b - a)) by (apply Qmult_le_0_compat; lra); lra). lra.
Qed.

Lemma G_strict x y : 0 < x -> x < y -> forall l, nonpos l -> Exists (fun c => c < 0) l -> G y l < G x l.
Proof.
  intros Hx Hxy l Hl Hex. assert (Hy : 0 < y) by lra.
  induction Hl as [|c l Hc Hl IH]; [inversion Hex|].
  rewrite !G_cons by assumption.
  pose proof (qpow_strict x y (length l) Hx Hxy) as Hs.
  pose proof (G_antitone x y Hx (Qlt_le_weak _ _ Hxy) l Hl) as Ha.
  set (a := qpow x (S (length l))) in *. set (b := qpow y (S (length l))) in *.
  inversion Hex as [? ? Hneg | ? ? Hex']; subst.
  - assert (c * b < c * a) by (assert (0 < (- c) * (b - a)) by (apply Qmult_lt_0_compat; lra); lra). lra.
  - specialize (IH Hex').
    assert (c * b <= c * a) by (assert (0 <= (- c) * (b - a)) by (apply Qmult_le_0_compat; lra); lra). lra.
Qed.

Lemma npvx_nonneg x : 0 < x -> forall l, nonneg l -> 0 <= npvx x l.
Proof.
  intros Hx l Hl. induction Hl as [|c l Hc _ IH]; [rewrite (npvx_nil x); lra|].
  rewrite npvx_cons. assert (0 <= npvx x l / x) by (apply Qle_shift_div_l; lra). lra.
Qed.

Lemma npvx_pos_antitone x y : 0 < x -> x <= y -> forall l, nonneg l -> npvx y l <= npvx x l.
Proof.
  intros Hx Hxy l Hl. assert (Hy : 0 < y) by lra. induction Hl as [|c l Hc Hl IH]; [rewrite (npvx_nil x), (npvx_nil y); lra|].
  rewrite !npvx_cons. pose proof (npvx_nonneg y Hy l Hl) as H0.
  assert (npvx y l / y <= npvx x l / x).
  { apply Qle_shift_div_l; [assumption|]. unfold Qdiv. rewrite <- Qmult_assoc, (Qmult_comm (/ y)), Qmult_assoc.
    apply Qle_shift_div_r; [assumption|]. nra. }
  lra.
Qed.

Lemma npvx_app x : 0 < x -> forall a b, npvx x (a ++ b) == npvx x a + npvx x b / qpow x (length a).
Proof.
  intros Hx. induction a as [|c a IH]; intros b.
  - cbn [app length]. rewrite (npvx_nil x). unfold qpow. simpl. field.
  - cbn [app length]. rewrite !npvx_cons, IH, qpow_S. pose proof (qpow_pos x (length a) Hx). field. split; lra.
Qed.

(* g(x) = x^k * NPV_x(neg ++ pos) = G_x(neg) + NPV_x(pos) *)
Lemma scaled_npv x neg pos : 0 < x -> qpow x (length neg) * npvx x (neg ++ pos) == G x neg + npvx x pos.
Proof.
  intros Hx. rewrite npvx_app by assumption. unfold G. pose proof (qpow_pos x (length neg) Hx). field. lra.
Qed.

Theorem scaled_npv_strictly_decreasing x y neg pos : 0 < x -> x < y ->
  nonpos neg -> Exists (fun c => c < 0) neg -> nonneg pos ->
  qpow y (length neg) * npvx y (neg ++ pos) < qpow x (length neg) * npvx x (neg ++ pos).
Proof.
  intros Hx Hxy Hn Hex Hp. assert (Hy : 0 < y) by lra.
  rewrite !scaled_npv by assumption.
  pose proof (G_strict x y Hx Hxy neg Hn Hex). pose proof (npvx_pos_antitone x y Hx (Qlt_le_weak _ _ Hxy) pos Hp). lra.
Qed.

(* a conventional cash flow has at most one internal rate of return above -100 % *)
Theorem irr_unique r1 r2 neg pos : 0 < 1 + r1 -> 0 < 1 + r2 ->
  nonpos neg -> Exists (fun c => c < 0) neg -> nonneg pos ->
  npv r1 (neg ++ pos) == 0 -> npv r2 (neg ++ pos) == 0 -> r1 == r2.
Proof.
  intros H1 H2 Hn Hex Hp Z1 Z2.
  assert (E1 : npvx (1 + r1) (neg ++ pos) == 0).
  { unfold npvx. rewrite (npv_ext (1 + r1 - 1) r1) by ring. exact Z1. }
  assert (E2 : npvx (1 + r2) (neg ++ pos) == 0).
  { unfold npvx. rewrite (npv_ext (1 + r2 - 1) r2) by ring. exact Z2. }
  destruct (Q_dec (1 + r1) (1 + r2)) as [[Hlt | Hgt] | Heq].
  - pose proof (scaled_npv_strictly_decreasing (1 + r1) (1 + r2) neg pos H1 Hlt Hn Hex Hp) as Hs.
    rewrite E1, E2 in Hs. lra.
  - pose proof (scaled_npv_strictly_decreasing (1 + r2) (1 + r1) neg pos H2 Hgt Hn Hex Hp) as Hs.
    rewrite E1, E2 in Hs. lra.
  - lra.
Qed.

(* the project cash flow of the model is conventional whenever capital cost is positive and every operating year's
   cash flow is non-negative: construction years are -CCap/cy *)
Lemma construction_years_nonpos c : 0 <= ci_ccap c -> (1 <= ci_cy c)%nat -> nonpos (repeat (capex_year c) (ci_cy c)).
Proof.
  intros Hc Hcy. unfold nonpos. apply Forall_forall. intros x Hx. apply repeat_spec in Hx. subst x.
  unfold capex_year.
  assert (0 < natQ (ci_cy c)) by (unfold natQ; change 0 with (inject_Z 0); rewrite <- Zlt_Qlt; lia).
  assert (0 <= ci_ccap c / natQ (ci_cy c)) by (apply Qle_shift_div_l; lra). lra.
Qed.

Theorem project_irr_unique c r1 r2 : 0 < ci_ccap c -> (1 <= ci_cy c)%nat -> nonneg (total_ops c) ->
  0 < 1 + r1 -> 0 < 1 + r2 -> npv r1 (total_cashflow c) == 0 -> npv r2 (total_cashflow c) == 0 -> r1 == r2.
Proof.
  intros Hc Hcy Hops H1 H2. unfold total_cashflow. apply irr_unique; try assumption.
  - apply construction_years_nonpos; [lra | assumption].
  - destruct (ci_cy c) as [|n] eqn:E; [lia|]. simpl. apply Exists_cons_hd. unfold capex_year. rewrite E.
    assert (0 < natQ (S n)) by (unfold natQ; change 0 with (inject_Z 0); rewrite <- Zlt_Qlt; lia).
    assert (0 < ci_ccap c / natQ (S n)) by (apply Qlt_shift_div_l; lra). lra.
Qed.
