(* Proofs/RangeReaderProofs.v - lemmas about Model/RangeReader.v (C07, reused by C19) *)
From Coq Require Import QArith ZArith List String Bool Lia Lqa.
From Verif Require Import Base.Flat Base.ParamRec Proofs.FlatFacts Model.RangeReader.
Import ListNotations.
Open Scope Q_scope.

(* the value in use after the call is [v] *)
Definition final_is (p : param) (o : outcome) (v : Q) : Prop :=
  exists x, final p o = Some x /\ x == v.

(* ---------- booleans ---------- *)

Lemma Qeq_bool_compat_l a b d : a == b -> Qeq_bool a d = Qeq_bool b d.
Proof.
  intros H. destruct (Qeq_bool a d) eqn:E1, (Qeq_bool b d) eqn:E2; try reflexivity.
  - apply Qeq_bool_iff in E1. apply Qeq_bool_neq in E2. exfalso. apply E2. rewrite <- H. exact E1.
  - apply Qeq_bool_iff in E2. apply Qeq_bool_neq in E1. exfalso. apply E1. rewrite H. exact E2.
Qed.

Lemma oeq_compat o a b : a == b -> oeq o a = oeq o b.
Proof. intros H. destruct o as [d|]; cbn; [apply Qeq_bool_compat_l; exact H | reflexivity]. Qed.

Lemma oeq_true o v : oeq o v = true -> exists d, o = Some d /\ v == d.
Proof. destruct o as [d|]; cbn; intros H; [|discriminate]. exists d. split; [reflexivity|]. now apply Qeq_bool_iff. Qed.

Lemma oQeqb_intro o x v : o = Some x -> x == v -> oQeqb o v = true.
Proof. intros -> H. cbn. now apply Qeq_bool_iff. Qed.

Lemma oQeqb_true o v : oQeqb o v = true -> exists x, o = Some x /\ x == v.
Proof. destruct o as [x|]; cbn; intros H; [|discriminate]. exists x. split; [reflexivity|]. now apply Qeq_bool_iff. Qed.

Lemma trunc_inject n : trunc (inject_Z n) = n.
Proof. unfold trunc, inject_Z. cbn. apply Z.quot_1_r. Qed.

Lemma integral_inject n : integral (inject_Z n) = true.
Proof. unfold integral. rewrite trunc_inject. apply Qeq_bool_iff. reflexivity. Qed.

Lemma integral_eq v : integral v = true -> inject_Z (trunc v) == v.
Proof. unfold integral. intros H. now apply Qeq_bool_iff. Qed.

(* ---------- the model satisfies the property predicate ---------- *)

Lemma read_float_spec p v : p_kind p = KFloat -> spec_ok p v (read_float p v) = true.
Proof.
  intros Hk. unfold spec_ok, in_domain, read_float, is_sentinel. rewrite Hk.
  destruct (oeq (p_value p) v) eqn:E.
  - destruct (oeq_true _ _ E) as [d [Hd Hv]].
    destruct (Qleb (p_min p) v && Qleb v (p_max p)).
    + cbn [final]. apply (oQeqb_intro _ d); [exact Hd | symmetry; exact Hv].
    + apply orb_true_r.
  - destruct (Qltb_spec v (p_min p)) as [H1|H1]; cbn [orb].
    + assert (F : Qleb (p_min p) v = false) by (apply Qleb_false; exact H1).
      rewrite F. cbn. apply String.eqb_refl.
    + destruct (Qltb_spec (p_max p) v) as [H2|H2].
      * assert (F : Qleb v (p_max p) = false) by (apply Qleb_false; exact H2).
        rewrite F, andb_false_r. apply String.eqb_refl.
      * apply Qnot_lt_le in H1. apply Qnot_lt_le in H2.
        assert (T1 : Qleb (p_min p) v = true) by (apply Qleb_true; exact H1).
        assert (T2 : Qleb v (p_max p) = true) by (apply Qleb_true; exact H2).
        rewrite T1, T2. cbn. apply Qeq_bool_iff. reflexivity.
Qed.

Lemma read_int_spec p v :
  p_kind p = KInt -> integral v = true -> no_shadow p v = true -> spec_ok p v (read_int p v) = true.
Proof.
  intros Hk Hi Hs. pose proof (integral_eq _ Hi) as Hq.
  unfold spec_ok, in_domain, read_int, is_sentinel, no_shadow in *. rewrite Hk in *. rewrite Hi. cbn [andb].
  rewrite (oeq_compat (p_default p) _ _ Hq), (oeq_compat (p_value p) _ _ Hq).
  destruct (oeq (p_default p) v) eqn:Ed.
  - cbn in Hs. destruct (oeq_true _ _ Hs) as [d [Hd Hv]].
    destruct (in_runs (trunc v) (p_range p)).
    + cbn [final]. apply (oQeqb_intro _ d); [exact Hd | symmetry; exact Hv].
    + reflexivity.
  - destruct (oeq (p_value p) v) eqn:Ev.
    + destruct (oeq_true _ _ Ev) as [d [Hd Hv]].
      destruct (in_runs (trunc v) (p_range p)).
      * cbn [final]. apply (oQeqb_intro _ d); [exact Hd | symmetry; exact Hv].
      * reflexivity.
    + destruct (in_runs (trunc v) (p_range p)).
      * cbn. exact Hi.
      * apply String.eqb_refl.
Qed.

Lemma model_meets_spec p v :
  is_numeric p = true -> (p_kind p = KInt -> integral v = true) -> no_shadow p v = true ->
  spec_ok p v (read_param p v) = true.
Proof.
  unfold is_numeric, read_param. intros Hn Hi Hs. destruct (p_kind p) eqn:Hk; try discriminate.
  - apply read_float_spec; exact Hk.
  - apply read_int_spec; auto.
Qed.

(* ---------- readable consequences ---------- *)

Lemma reject_out_of_domain p v :
  is_numeric p = true -> (p_kind p = KInt -> integral v = true) ->
  in_domain p v = false -> is_sentinel p v = false -> read_param p v = Reject (p_name p).
Proof.
  intros Hn Hi Hd Hs. unfold is_sentinel in Hs. apply orb_false_iff in Hs. destruct Hs as [Hs1 Hs2].
  unfold is_numeric, read_param, in_domain in *. destruct (p_kind p) eqn:Hk; try discriminate.
  - unfold read_float. rewrite Hs2.
    destruct (Qltb_spec v (p_min p)) as [H1|H1]; [reflexivity|]. cbn [orb].
    destruct (Qltb_spec (p_max p) v) as [H2|H2]; [reflexivity|].
    exfalso. apply Qnot_lt_le in H1. apply Qnot_lt_le in H2.
    apply Qleb_true in H1. apply Qleb_true in H2. rewrite H1, H2 in Hd. discriminate.
  - specialize (Hi eq_refl). pose proof (integral_eq _ Hi) as Hq. rewrite Hi in Hd. cbn in Hd.
    unfold read_int. rewrite (oeq_compat (p_default p) _ _ Hq), (oeq_compat (p_value p) _ _ Hq), Hs1, Hs2, Hd.
    reflexivity.
Qed.

Lemma reject_float p v :
  p_kind p = KFloat -> (v < p_min p \/ p_max p < v) -> is_sentinel p v = false ->
  read_param p v = Reject (p_name p).
Proof.
  intros Hk Hr Hs. apply reject_out_of_domain; auto.
  - unfold is_numeric. now rewrite Hk.
  - intros H. rewrite Hk in H. discriminate.
  - unfold in_domain. rewrite Hk. destruct Hr as [H|H].
    + apply Qleb_false in H. rewrite H. reflexivity.
    + apply Qleb_false in H. rewrite H. apply andb_false_r.
Qed.

Lemma reject_int p n :
  p_kind p = KInt -> in_runs n (p_range p) = false -> is_sentinel p (inject_Z n) = false ->
  read_param p (inject_Z n) = Reject (p_name p).
Proof.
  intros Hk Hr Hs. apply reject_out_of_domain; auto.
  - unfold is_numeric. now rewrite Hk.
  - intros _. apply integral_inject.
  - unfold in_domain. rewrite Hk, trunc_inject, Hr. apply andb_false_r.
Qed.

Lemma accept_in_domain p v :
  is_numeric p = true -> (p_kind p = KInt -> integral v = true) -> no_shadow p v = true ->
  in_domain p v = true -> final_is p (read_param p v) v.
Proof.
  intros Hn Hi Hs Hd. pose proof (model_meets_spec p v Hn Hi Hs) as H.
  unfold spec_ok in H. rewrite Hd in H. apply oQeqb_true in H. exact H.
Qed.

Lemma accept_float p v :
  p_kind p = KFloat -> p_min p <= v -> v <= p_max p -> final_is p (read_param p v) v.
Proof.
  intros Hk H1 H2. apply accept_in_domain.
  - unfold is_numeric. now rewrite Hk.
  - intros H. rewrite Hk in H. discriminate.
  - unfold no_shadow. now rewrite Hk.
  - unfold in_domain. rewrite Hk. apply Qleb_true in H1. apply Qleb_true in H2. now rewrite H1, H2.
Qed.

Lemma accept_bounds_float p :
  p_kind p = KFloat -> p_min p <= p_max p ->
  final_is p (read_param p (p_min p)) (p_min p) /\ final_is p (read_param p (p_max p)) (p_max p).
Proof. intros Hk H. split; apply accept_float; auto; lra. Qed.

Lemma accept_int p n :
  p_kind p = KInt -> in_runs n (p_range p) = true -> no_shadow p (inject_Z n) = true ->
  final_is p (read_param p (inject_Z n)) (inject_Z n).
Proof.
  intros Hk Hr Hs. apply accept_in_domain; auto.
  - unfold is_numeric. now rewrite Hk.
  - intros _. apply integral_inject.
  - unfold in_domain. rewrite Hk, trunc_inject, Hr, integral_inject. reflexivity.
Qed.

(* unit-qualified values: the verdict on "v unit" is the verdict of the range model on the converted value *)
Lemma qualified_verdict p conv v :
  p_kind p = KFloat ->
  ((conv v < p_min p \/ p_max p < conv v) -> is_sentinel p (conv v) = false -> read_qualified p conv v = Reject (p_name p)) /\
  (p_min p <= conv v -> conv v <= p_max p -> final_is p (read_qualified p conv v) (conv v)).
Proof.
  intros Hk. unfold read_qualified. split.
  - intros Hr Hs. apply reject_float; auto.
  - intros H1 H2. apply accept_float; auto.
Qed.

(* the only out-of-domain values that are not rejected are the 'not provided' values *)
Lemma sentinel_only p v :
  is_numeric p = true -> (p_kind p = KInt -> integral v = true) -> in_domain p v = false ->
  read_param p v <> Reject (p_name p) -> is_sentinel p v = true.
Proof.
  intros Hn Hi Hd Hr. destruct (is_sentinel p v) eqn:E; [reflexivity|].
  exfalso. apply Hr. apply reject_out_of_domain; auto.
Qed.

(* never clamped, never replaced: an accepted value is the supplied one and lies in the domain *)
Lemma accept_is_input p v w :
  is_numeric p = true -> (p_kind p = KInt -> integral v = true) ->
  read_param p v = Accept w -> w == v /\ in_domain p v = true.
Proof.
  unfold is_numeric, read_param, in_domain. intros Hn Hi H. destruct (p_kind p) eqn:Hk; try discriminate.
  - unfold read_float in H. destruct (oeq (p_value p) v); [discriminate|].
    destruct (Qltb_spec v (p_min p)) as [H1|H1]; [discriminate|]. cbn [orb] in H.
    destruct (Qltb_spec (p_max p) v) as [H2|H2]; [discriminate|].
    injection H as <-. split; [reflexivity|].
    apply Qnot_lt_le in H1. apply Qnot_lt_le in H2.
    apply Qleb_true in H1. apply Qleb_true in H2. now rewrite H1, H2.
  - specialize (Hi eq_refl). unfold read_int in H.
    destruct (oeq (p_default p) _); [discriminate|]. destruct (oeq (p_value p) _); [discriminate|].
    destruct (in_runs (trunc v) (p_range p)) eqn:Hr; [|discriminate].
    injection H as <-. split; [apply integral_eq; exact Hi | now rewrite Hi].
Qed.

(* what an int parameter does with ANY finite number: it is the truncation that is tested and stored *)
Lemma accept_int_is_trunc p v w :
  p_kind p = KInt -> read_param p v = Accept w -> w = inject_Z (trunc v) /\ in_runs (trunc v) (p_range p) = true.
Proof.
  unfold read_param. intros Hk H. rewrite Hk in H. unfold read_int in H.
  destruct (oeq (p_default p) _); [discriminate|]. destruct (oeq (p_value p) _); [discriminate|].
  destruct (in_runs (trunc v) (p_range p)) eqn:Hr; [|discriminate]. injection H as <-. auto.
Qed.

Lemma model_never_crashes p v : read_param p v <> Crash.
Proof.
  unfold read_param, read_float, read_int. destruct (p_kind p); try discriminate.
  - destruct (oeq _ _); [discriminate|]. destruct (_ || _); discriminate.
  - destruct (oeq _ _); [discriminate|]. destruct (oeq _ _); [discriminate|]. destruct (in_runs _ _); discriminate.
Qed.

(* ---------- run-encoded AllowableRange ---------- *)

Lemma in_runs_min rs m : runs_wf rs = true -> runs_min rs = Some m -> in_runs m rs = true.
Proof.
  revert m. induction rs as [|[lo hi] r IH]; intros m Hw Hm; cbn in *; [discriminate|].
  apply andb_true_iff in Hw. destruct Hw as [Hlh Hw]. apply Z.leb_le in Hlh.
  destruct (runs_min r) as [m'|] eqn:E.
  - injection Hm as <-. destruct (Z.le_ge_cases lo m') as [H|H].
    + rewrite Z.min_l by exact H. apply orb_true_iff. left.
      apply andb_true_iff. split; apply Z.leb_le; lia.
    + rewrite Z.min_r by exact H. apply orb_true_iff. right. apply IH; auto.
  - injection Hm as <-. apply orb_true_iff. left. apply andb_true_iff. split; apply Z.leb_le; lia.
Qed.

Lemma in_runs_max rs m : runs_wf rs = true -> runs_max rs = Some m -> in_runs m rs = true.
Proof.
  revert m. induction rs as [|[lo hi] r IH]; intros m Hw Hm; cbn in *; [discriminate|].
  apply andb_true_iff in Hw. destruct Hw as [Hlh Hw]. apply Z.leb_le in Hlh.
  destruct (runs_max r) as [m'|] eqn:E.
  - injection Hm as <-. destruct (Z.le_ge_cases m' hi) as [H|H].
    + rewrite Z.max_l by exact H. apply orb_true_iff. left.
      apply andb_true_iff. split; apply Z.leb_le; lia.
    + rewrite Z.max_r by exact H. apply orb_true_iff. right. apply IH; auto.
  - injection Hm as <-. apply orb_true_iff. left. apply andb_true_iff. split; apply Z.leb_le; lia.
Qed.

Lemma in_runs_ge_min rs n m : in_runs n rs = true -> runs_min rs = Some m -> (m <= n)%Z.
Proof.
  revert m. induction rs as [|[lo hi] r IH]; intros m Hn Hm; cbn in *; [discriminate|].
  apply orb_true_iff in Hn.
  destruct (runs_min r) as [m'|] eqn:E.
  - injection Hm as <-. destruct Hn as [Hn|Hn].
    + apply andb_true_iff in Hn. destruct Hn as [Hn _]. apply Z.leb_le in Hn. lia.
    + specialize (IH m' Hn eq_refl). lia.
  - injection Hm as <-. destruct Hn as [Hn|Hn].
    + apply andb_true_iff in Hn. destruct Hn as [Hn _]. apply Z.leb_le in Hn. lia.
    + destruct r as [|[a b] r']; cbn in *; [discriminate|]. destruct (runs_min r'); discriminate.
Qed.

Lemma in_runs_le_max rs n m : in_runs n rs = true -> runs_max rs = Some m -> (n <= m)%Z.
Proof.
  revert m. induction rs as [|[lo hi] r IH]; intros m Hn Hm; cbn in *; [discriminate|].
  apply orb_true_iff in Hn.
  destruct (runs_max r) as [m'|] eqn:E.
  - injection Hm as <-. destruct Hn as [Hn|Hn].
    + apply andb_true_iff in Hn. destruct Hn as [_ Hn]. apply Z.leb_le in Hn. lia.
    + specialize (IH m' Hn eq_refl). lia.
  - injection Hm as <-. destruct Hn as [Hn|Hn].
    + apply andb_true_iff in Hn. destruct Hn as [_ Hn]. apply Z.leb_le in Hn. lia.
    + destruct r as [|[a b] r']; cbn in *; [discriminate|]. destruct (runs_max r'); discriminate.
Qed.

(* ---------- lifting to a whole table ---------- *)

Definition row_property (p : param) : Prop :=
  exists lo hi, lo_bound p = Some lo /\ hi_bound p = Some hi /\
    final_is p (read_param p lo) lo /\ final_is p (read_param p hi) hi /\
    forall v, (p_kind p = KInt -> integral v = true) -> (v < lo \/ hi < v) -> is_sentinel p v = false ->
              read_param p v = Reject (p_name p).

Lemma row_ok_property p : is_numeric p = true -> row_ok p = true -> row_property p.
Proof.
  unfold is_numeric, row_ok, row_property, lo_bound, hi_bound. intros Hn Hr.
  destruct (p_kind p) eqn:Hk; try discriminate.
  - apply Qleb_true in Hr. exists (p_min p), (p_max p).
    destruct (accept_bounds_float p Hk Hr) as [A B].
    repeat split; auto. intros v _ Hv Hs. apply reject_float; auto.
  - apply andb_true_iff in Hr. destruct Hr as [Hr Hhi]. apply andb_true_iff in Hr. destruct Hr as [Hw Hlo].
    destruct (runs_min (p_range p)) as [lo|] eqn:Elo; [|discriminate].
    destruct (runs_max (p_range p)) as [hi|] eqn:Ehi; [|discriminate].
    cbn in Hlo, Hhi |- *. exists (inject_Z lo), (inject_Z hi). repeat split.
    + apply accept_int; auto. apply in_runs_min; auto.
    + apply accept_int; auto. apply in_runs_max; auto.
    + intros v Hi Hv Hs. specialize (Hi eq_refl). pose proof (integral_eq _ Hi) as Hq.
      apply reject_out_of_domain; auto.
      * unfold is_numeric. now rewrite Hk.
      * unfold in_domain. rewrite Hk, Hi. cbn [andb].
        destruct (in_runs (trunc v) (p_range p)) eqn:E; [|reflexivity]. exfalso.
        pose proof (in_runs_ge_min _ _ _ E Elo) as G1. pose proof (in_runs_le_max _ _ _ E Ehi) as G2.
        rewrite <- Hq in Hv. rewrite <- !Zlt_Qlt in Hv. lia.
Qed.

Lemma table_property tbl :
  forallb row_ok tbl = true -> forall p, In p tbl -> is_numeric p = true -> row_property p.
Proof.
  intros H p Hin Hn. rewrite forallb_forall in H. apply row_ok_property; auto.
Qed.

(* ---------- the clauses the pinned reader refutes (witness rows copied from the pinned declarations) ---------- *)

Definition w_production_wells : param :=
  mkParam "WellBores" "Number of Production Wells" KInt (Some (2#1)) (Some (2#1)) 0 0 [(1, 200)%Z]
          "" "" "NONE" true "integer" "2/1".

Definition w_ags_laterals : param :=
  mkParam "AGSWellBores" "Number of Multilateral Sections" KInt (Some (0#1)) (Some (1#1)) 0 0 [(0, 100)%Z]
          "" "" "NONE" false "integer" "0/1".

(* 3.7 production wells: not an integer, not in the AllowableRange - accepted, 3 is used *)
Lemma int_fraction_refuted :
  exists p v w, p_kind p = KInt /\ integral v = false /\ in_domain p v = false /\
                read_param p v = Accept w /\ ~ w == v.
Proof.
  exists w_production_wells, (37#10), (3#1). repeat split; try (vm_compute; reflexivity).
  intros H. vm_compute in H. discriminate.
Qed.

(* AGS/SBT: 0 laterals is the documented minimum and the declared default, but the object starts at 1:
   supplying the bound 0 is silently ignored and 1 is used *)
Lemma int_bound_shadow_refuted :
  exists p n, p_kind p = KInt /\ runs_min (p_range p) = Some n /\ in_domain p (inject_Z n) = true /\
              ~ final_is p (read_param p (inject_Z n)) (inject_Z n).
Proof.
  exists w_ags_laterals, 0%Z. repeat split; try (vm_compute; reflexivity).
  intros [x [Hf Hx]]. vm_compute in Hf. injection Hf as <-. vm_compute in Hx. discriminate.
Qed.
