(* Proofs/ResultParserTableProofs.v - facts about the tables regenerated from the sources
   (Gen/C10Fields.v: what the client looks for; Gen/C10Labels.v: what the writers print). *)
From Coq Require Import String Ascii List Bool.
From Verif Require Import Model.ResultParser Proofs.ResultParserProofs Gen.C10Fields Gen.C10Labels.
Import ListNotations.
Open Scope string_scope.

Lemma no_foreign_match_now :
  no_foreign_match_table C10Fields.fields C10Labels.writer_labels C10Labels.writer_other_lines = true.
Proof. vm_compute. reflexivity. Qed.

Lemma no_foreign_match_labels : forall f l,
  In f C10Fields.fields -> In l C10Labels.writer_labels ->
  contains (marker_of f) (label_prefix l) = true -> own_label f l = true.
Proof. exact (no_foreign_match_table_labels _ _ _ no_foreign_match_now). Qed.

Lemma no_match_in_other_lines : forall f o,
  In f C10Fields.fields -> In o C10Labels.writer_other_lines -> contains (marker_of f) o = false.
Proof. exact (no_foreign_match_table_others _ _ _ no_foreign_match_now). Qed.
