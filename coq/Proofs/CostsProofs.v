(* Proofs/CostsProofs.v - the roll-up identities of Model/Costs.v (C03; ITC / grant clause of C16; neutral
   elements for C11). *)
From Coq Require Import QArith Qabs Qminmax Qfield List ZArith Bool Lia Lqa.
From Verif Require Import Base.Flat Model.Costs Proofs.CashFlowProofs.
Import ListNotations.
Open Scope Q_scope.

Lemma ccap_sum k : k_total_valid k = false ->
  ccap k == cexpl k + cwell k + cstim k + cgath k + cplant k + cpiping k + k_dh k
            - ritc_value k + k_flat k - k_other k - k_grant k.
Proof. intros H. unfold ccap, ccap_pre, components_sum. rewrite H. ring. Qed.

Lemma ccap_total_override k : k_total_valid k = true ->
  ccap k == k_total_fixed k - ritc_value k + k_flat k - k_other k - k_grant k /\ ccap_pre k = k_total_fixed k.
Proof. intros H. unfold ccap, ccap_pre. rewrite H. split; [ring | reflexivity]. Qed.

Lemma itc_exact k :
  (k_ritc_provided k = true -> ritc_value k == k_ritc k * ccap_pre k /\
                               ccap k == (1 - k_ritc k) * ccap_pre k + k_flat k - k_other k - k_grant k) /\
  (k_ritc_provided k = false -> ritc_value k == 0 /\ ccap k == ccap_pre k + k_flat k - k_other k - k_grant k).
Proof. split; intros H; unfold ccap, ritc_value; rewrite H; split; ring. Qed.

Lemma component_overrides k :
  (k_stim_valid k = true -> cstim k = k_stim_fixed k) /\
  (k_gath_valid k = true -> cgath k = k_gath_fixed k) /\
  (k_plant_valid k = true -> cplant k = k_plant_fixed k) /\
  (k_expl_valid k = true -> cexpl k = k_expl_fixed k) /\
  (k_ppwc_valid k = true -> c1p k = k_ppwc k /\ c1i k = (if k_piwc_provided k then k_piwc k else k_ppwc k)) /\
  (k_oamplant_valid k = true -> coamplant k = k_oamplant_fixed k) /\
  (k_oamwell_valid k = true -> coamwell k = k_oamwell_fixed k) /\
  (k_oamwater_valid k = true -> coamwater k = k_oamwater_fixed k) /\
  (k_oam_total_valid k = true -> coam_pre k = k_oam_total k).
Proof.
  unfold cstim, cgath, cplant, cexpl, c1p, c1i, coamplant, coamwell, coamwater, coam_pre.
  repeat match goal with |- _ /\ _ => split end; intros Hv; rewrite Hv; try split; reflexivity.
Qed.

Lemma wellfield k :
  (k_ppwc_valid k = false -> k_sbt k = false ->
     cwell k == (105 # 100) * (k_c1p_corr k * k_nprod k + k_c1i_corr k * k_ninj k + k_lateral k)) /\
  (k_ppwc_valid k = false -> k_sbt k = true ->
     cwell k == k_c1p_corr k * k_nprod k + k_c1i_corr k * k_ninj k + k_lateral k + k_junction k) /\
  (k_ppwc_valid k = true ->
     cwell k == k_ppwc k * k_nprod k + (if k_piwc_provided k then k_piwc k else k_ppwc k) * k_ninj k).
Proof.
  unfold cwell, wells_sum, c1p, c1i, q105. split; [|split].
  - intros H Hs. rewrite H, Hs. ring.
  - intros H Hs. rewrite H, Hs. ring.
  - intros H. rewrite H. ring.
Qed.

Lemma coam_sum k : k_oam_total_valid k = false ->
  coam k == coamwell k + coamplant k + coamwater k + chilleropex k + k_dh_oam k
            + redrill_amortised k + k_annual_fee k - k_taxrelief k.
Proof. intros H. unfold coam, coam_pre, oam_components_sum. rewrite H. ring. Qed.

Lemma coam_total_override k : k_oam_total_valid k = true ->
  coam k == k_oam_total k + redrill_amortised k + k_annual_fee k - k_taxrelief k.
Proof. intros H. unfold coam, coam_pre. rewrite H. ring. Qed.

Lemma redrill_amortisation k :
  (0 < k_redrill k -> redrill_amortised k == (cwell k + cstim k) * k_redrill k / k_life k) /\
  (k_redrill k <= 0 -> redrill_amortised k == 0).
Proof.
  unfold redrill_amortised. split; intros H.
  - apply Qltb_true in H. rewrite H. reflexivity.
  - destruct (Qltb 0 (k_redrill k)) eqn:E; [|reflexivity]. apply Qltb_true in E. lra.
Qed.

(* the chiller's capital cost is taken out of the plant cost before the plant O&M percentage is applied, and the
   chiller O&M is counted once *)
Lemma chiller_counted_once k : k_is_chiller k = true -> k_oamplant_valid k = false ->
  coamplant k == k_oamplant_adj k * ((15 # 1000) * (cplant k - k_chillercapex k) + (75 # 100) * k_labor k) /\
  chilleropex k = (if k_chilleropex_provided k then k_chilleropex_in k else k_chillercapex k * 2 / 100).
Proof. intros Hc Hv. unfold coamplant, chilleropex. rewrite Hc, Hv. split; reflexivity. Qed.
Lemma no_chiller_opex k : k_is_chiller k = false -> chilleropex k = 0.
Proof. intros H. unfold chilleropex. now rewrite H. Qed.

(* zero incentives, fees and a zero-rate credit change nothing (C11) *)
Lemma neutral_adjustments k : k_ritc k == 0 -> k_flat k == 0 -> k_other k == 0 -> k_grant k == 0 ->
  ccap k == ccap_pre k.
Proof.
  intros Hr Hf Ho Hg. unfold ccap, ritc_value. destruct (k_ritc_provided k); rewrite ?Hr, Hf, Ho, Hg; ring.
Qed.

(* drilled length: total = vertical + lateral, vertical additive in the well counts *)
Lemma drilling_total cfg nsec nv ind outd np ni :
  match drilling_lengths cfg nsec nv ind outd np ni with
  | [tot; vert; lat; junction] => tot == vert + lat /\ junction == 0 /\
      (cfg <> CfgULoop -> vert == (np + ni) * ind * 1000) /\
      (cfg = CfgULoop -> vert == np * ind * 1000 + ni * outd * 1000) /\
      (cfg = CfgVertical -> lat == 0) /\ (cfg <> CfgVertical -> lat == nsec * nv * 1000)
  | _ => False
  end.
Proof. destruct cfg; simpl; repeat split; intros; try congruence; try ring. Qed.

(* per-well cost: the correlation's quadratic times the adjustment factor, per-metre fall-back below 500 m *)
Lemma one_vertical_well_cases simple coef d per_m adj :
  (simple = false -> 500 <= d -> one_vertical_well simple coef d per_m adj == adj * quad_cost coef d) /\
  (simple = true \/ d < 500 -> one_vertical_well simple coef d per_m adj == adj * (per_m * d / 1000000)).
Proof.
  unfold one_vertical_well. split.
  - intros -> Hd. destruct (Qltb d 500) eqn:E; [apply Qltb_true in E; lra | reflexivity].
  - intros [-> | Hd]; [reflexivity|]. apply Qltb_true in Hd. rewrite Hd, orb_true_r. reflexivity.
Qed.

Lemma coam_fees_exact k : coam k == coam_pre k + redrill_amortised k + k_annual_fee k - k_taxrelief k.
Proof. unfold coam. reflexivity. Qed.

(* district network: a supplied total is used verbatim; otherwise cost = rate x length / 1000 with the length chosen by the
   documented precedence (piping length, 75 % of road length, population density), and the density-based length is at least
   1 km per km2 and at most 7.5 km per km2 when the area is non-negative *)
Lemma dh_cost_cases d :
  (d_total_provided d = true -> dh_network_cost d = d_total d) /\
  (d_total_provided d = false -> d_piping_provided d = true -> dh_network_cost d == d_rate d * d_piping_len d / 1000) /\
  (d_total_provided d = false -> d_piping_provided d = false -> d_road_provided d = true ->
     dh_network_cost d == d_rate d * ((75 # 100) * d_road_len d) / 1000) /\
  (d_total_provided d = false -> d_piping_provided d = false -> d_road_provided d = false ->
     dh_network_cost d == d_rate d * dh_length_from_density d / 1000).
Proof.
  unfold dh_network_cost. repeat split.
  - intros H. now rewrite H.
  - intros H1 H2. rewrite H1, H2. unfold Qdiv. ring.
  - intros H1 H2 H3. rewrite H1, H2, H3. unfold Qdiv. ring.
  - intros H1 H2 H3. rewrite H1, H2, H3. reflexivity.
Qed.

Lemma dh_length_bounds d : 0 <= d_area d -> 0 <= dh_density d ->
  d_area d <= dh_length_from_density d /\ dh_length_from_density d <= (75 # 10) * d_area d.
Proof.
  intros Ha Hr. unfold dh_length_from_density. cbv zeta. destruct (Qltb 1000 (dh_density d)) eqn:E.
  - split; [nra | apply Qle_refl].
  - assert (Hle : dh_density d <= 1000).
    { destruct (Qlt_le_dec 1000 (dh_density d)) as [Hlt|]; [|assumption]. apply Qltb_true in Hlt. congruence. }
    split; [apply Q.le_max_r|]. apply Q.max_lub; [|nra].
    assert (dh_density d / 1000 <= 1) by (apply Qle_shift_div_r; lra).
    assert (0 <= (75 # 10) * d_area d) by nra.
    assert (dh_density d / 1000 * ((75 # 10) * d_area d) <= 1 * ((75 # 10) * d_area d)) by (apply Qmult_le_compat_r; assumption).
    lra.
Qed.

(* surface-plant capital cost *)
Lemma plant_cost_cases p :
  (p_fixed_valid p = true -> plant_cost p = p_fixed p) /\
  (p_fixed_valid p = false -> p_kind p <> PPower ->
     plant_cost p == q112 * q115 * p_adj p * (250 # 1000000) * p_max_he p * 1000 + equipment_cost p) /\
  (p_fixed_valid p = false -> p_kind p = PPower ->
     plant_cost p == q112 * q115 * p_adj p * p_corr p * (102 # 100) * (110 # 100)
                     + (if p_cogen p then q112 * q115 * p_adj p * (250 # 1000000) * p_max_hp_over_eff p * 1000 else 0)).
Proof.
  unfold plant_cost, capex_elec_plant, capex_heat_plant, direct_use_cost, q1288. repeat split.
  - intros H. now rewrite H.
  - intros H Hk. rewrite H. destruct (p_kind p); try congruence; reflexivity.
  - intros H Hk. rewrite H, Hk. destruct (p_cogen p); ring.
Qed.

(* with a power plant the electricity and heat parts add up to the plant cost, and the allocation ratio (when not supplied)
   is the electricity part over the total, so the two shares of C01 add up to the whole *)
Lemma plant_split p : p_kind p = PPower ->
  capex_elec_plant p + capex_heat_plant p == plant_cost p /\
  (p_fixed_valid p = false -> p_ratio_provided p = false -> ~ plant_cost p == 0 ->
     plant_ratio p * plant_cost p == capex_elec_plant p).
Proof.
  intros Hk. split.
  - unfold plant_cost, capex_elec_plant, capex_heat_plant. rewrite Hk. destruct (p_fixed_valid p); ring.
  - intros Hf Hr Hnz. unfold plant_ratio. rewrite Hf, Hr. simpl. field. exact Hnz.
Qed.

(* the user-supplied equipment cost is used verbatim, including a supplied 0 (the -1 "not provided" sentinel is the
   only value replaced by the correlation) *)
Lemma equipment_verbatim p : p_eq_provided p = true -> (p_kind p = PChiller \/ p_kind p = PHeatPump) -> equipment_cost p = p_eq_in p.
Proof. intros H [Hk | Hk]; unfold equipment_cost; rewrite Hk, H; reflexivity. Qed.

(* plant cost is non-decreasing in its adjustment factor when the correlation and the heat loads are non-negative *)
Lemma plant_cost_mono_adj p adj adj' : p_fixed_valid p = false -> 0 <= p_corr p -> 0 <= p_max_he p -> 0 <= p_max_hp_over_eff p ->
  adj <= adj' ->
  plant_cost {| p_kind := p_kind p; p_cogen := p_cogen p; p_fixed_valid := p_fixed_valid p; p_fixed := p_fixed p; p_adj := adj;
                p_max_he := p_max_he p; p_eq_provided := p_eq_provided p; p_eq_in := p_eq_in p; p_max_eq := p_max_eq p;
                p_max_peaking := p_max_peaking p; p_corr := p_corr p; p_max_hp_over_eff := p_max_hp_over_eff p;
                p_ratio_provided := p_ratio_provided p; p_ratio_in := p_ratio_in p |}
  <= plant_cost {| p_kind := p_kind p; p_cogen := p_cogen p; p_fixed_valid := p_fixed_valid p; p_fixed := p_fixed p; p_adj := adj';
                p_max_he := p_max_he p; p_eq_provided := p_eq_provided p; p_eq_in := p_eq_in p; p_max_eq := p_max_eq p;
                p_max_peaking := p_max_peaking p; p_corr := p_corr p; p_max_hp_over_eff := p_max_hp_over_eff p;
                p_ratio_provided := p_ratio_provided p; p_ratio_in := p_ratio_in p |}.
Proof.
  intros Hf Hc Hh Hm Ha. unfold plant_cost, capex_elec_plant, capex_heat_plant, direct_use_cost, equipment_cost, q1288, q112, q115.
  cbn [p_kind p_cogen p_fixed_valid p_fixed p_adj p_max_he p_eq_provided p_eq_in p_max_eq p_max_peaking p_corr p_max_hp_over_eff
       p_ratio_provided p_ratio_in].
  rewrite Hf. destruct (p_kind p); try destruct (p_eq_provided p); try destruct (p_cogen p); nra.
Qed.

(* ---- lateral sections ---- *)
Lemma lateral_vertical_zero pm simple cased coef nsec len per_m adj :
  lateral_cost true pm simple cased coef nsec len per_m adj = 0.
Proof. reflexivity. Qed.

Lemma lateral_uncased_half pm simple coef nsec len per_m adj v :
  lateral_cost v pm simple false coef nsec len per_m adj == (1 # 2) * lateral_cost v pm simple true coef nsec len per_m adj.
Proof.
  unfold lateral_cost. destruct v; [ring|].
  destruct (pm || simple || Qltb (len / nsec) 500); unfold Qdiv; ring.
Qed.

Lemma lateral_per_metre pm simple cased coef nsec len per_m adj :
  ~ nsec == 0 -> pm = true \/ simple = true \/ len / nsec < 500 ->
  lateral_cost false pm simple cased coef nsec len per_m adj == adj * ((if cased then 1 else 1 # 2) * (per_m * len) / 1000000).
Proof.
  intros Hn H. unfold lateral_cost.
  assert (E : pm || simple || Qltb (len / nsec) 500 = true).
  { destruct H as [-> | [-> | H]]; [reflexivity | now rewrite orb_true_r | ].
    rewrite orb_true_iff. right. unfold Qltb. destruct (Qle_bool 500 (len / nsec)) eqn:C; [|reflexivity].
    apply Qle_bool_iff in C. exfalso. exact (Qlt_not_le _ _ H C). }
  rewrite E. destruct cased; field; exact Hn.
Qed.

Lemma lateral_by_correlation cased coef nsec len per_m adj :
  500 <= len / nsec ->
  lateral_cost false false false cased coef nsec len per_m adj == adj * ((if cased then 1 else 1 # 2) * nsec * quad_cost coef (len / nsec)).
Proof.
  intros H. unfold lateral_cost. cbn [orb].
  assert (E : Qltb (len / nsec) 500 = false).
  { unfold Qltb. assert (C : Qle_bool 500 (len / nsec) = true) by (apply Qle_bool_iff; exact H). now rewrite C. }
  rewrite E. destruct cased; ring.
Qed.

