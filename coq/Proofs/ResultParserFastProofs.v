(* Proofs/ResultParserFastProofs.v - the indexed field search finds exactly the same candidates. *)
From Coq Require Import String Ascii List Bool Lia.
From Verif Require Import Base.Flat Model.ResultParser Model.ResultParserFast Proofs.ResultParserProofs.
Import ListNotations.
Open Scope string_scope.

Lemma rev_onto_app : forall a b acc, rev_onto (a ++ b) acc = rev_onto b (rev_onto a acc).
Proof. induction a; simpl; intros; [reflexivity | apply IHa]. Qed.

Lemma rev_onto_acc : forall a acc, rev_onto a acc = rev_onto a "" ++ acc.
Proof.
  induction a; intros acc; [reflexivity |]. simpl. rewrite IHa, (IHa (String a "")).
  now rewrite app_assoc_s.
Qed.

Lemma rev_str_app : forall a b, rev_str (a ++ b) = rev_str b ++ rev_str a.
Proof. intros. unfold rev_str. rewrite rev_onto_app. apply rev_onto_acc. Qed.

Lemma rev_str_involutive : forall a, rev_str (rev_str a) = a.
Proof.
  induction a; [reflexivity |]. change (String a a0) with (String a "" ++ a0).
  rewrite rev_str_app, rev_str_app, IHa. reflexivity.
Qed.

Lemma contains_split : forall p s, contains p s = true <-> exists x y, s = x ++ p ++ y.
Proof.
  intros p s. split.
  - induction s; intros H.
    + simpl in H. destruct (prefixb p "") eqn:E; [| discriminate].
      rewrite <- (app_nil_r_s p) in E. apply prefixb_app_inv in E. destruct E as (y & E & _). exists "", y. exact E.
    + simpl in H. destruct (prefixb p (String a s)) eqn:E.
      * rewrite <- (app_nil_r_s p) in E. apply prefixb_app_inv in E. destruct E as (y & E & _). exists "", y. exact E.
      * destruct (IHs H) as (x & y & ->). exists (String a x), y. reflexivity.
  - intros (x & y & ->). apply contains_mid.
Qed.

Lemma prefixb_split : forall p s, prefixb p s = true <-> exists y, s = p ++ y.
Proof.
  intros. split.
  - intros H. rewrite <- (app_nil_r_s p) in H. apply prefixb_app_inv in H. destruct H as (y & E & _). eauto.
  - intros (y & ->). apply prefixb_app.
Qed.

(* the index of a line: exactly the reversed texts in front of an occurrence of sep *)
Lemma rev_prefixes_In : forall sep s acc rp,
  In rp (rev_prefixes sep acc s) <-> exists x y, s = x ++ sep ++ y /\ rp = rev_onto x acc.
Proof.
  induction s; intros acc rp.
  - simpl. destruct (prefixb sep "") eqn:E.
    + split.
      * intros [<- | []]. apply prefixb_split in E. destruct E as (y & E). exists "", y. auto.
      * intros (x & y & E1 & ->). destruct x; [now left | discriminate].
    + split; [intros [] |]. intros (x & y & E1 & _). destruct x; [| discriminate].
      assert (prefixb sep "" = true) by (apply prefixb_split; exists y; exact E1). congruence.
  - simpl. rewrite in_app_iff, IHs. split.
    + intros [H | (x & y & -> & ->)].
      * destruct (prefixb sep (String a s)) eqn:E; [| destruct H]. destruct H as [<- | []].
        apply prefixb_split in E. destruct E as (y & E). exists "", y. auto.
      * exists (String a x), y. auto.
    + intros (x & y & E & ->). destruct x as [|c x].
      * left. simpl in E. assert (Hp : prefixb sep (String a s) = true) by (apply prefixb_split; eauto).
        rewrite Hp. now left.
      * right. simpl in E. injection E as -> ->. exists x, y. auto.
Qed.

Lemma fast_match_iff : forall m sep l,
  existsb (prefixb (rev_str m)) (rev_prefixes sep "" l) = contains (m ++ sep) l.
Proof.
  intros m sep l. apply eq_true_iff_eq. rewrite existsb_exists, contains_split. split.
  - intros (rp & Hin & Hp). apply rev_prefixes_In in Hin. destruct Hin as (x & y & -> & ->).
    apply prefixb_split in Hp. destruct Hp as (z & Hz). fold (rev_str x) in Hz.
    assert (Ex : x = rev_str z ++ m).
    { rewrite <- (rev_str_involutive x), Hz, rev_str_app, rev_str_involutive. reflexivity. }
    exists (rev_str z), y. rewrite Ex. now rewrite !app_assoc_s.
  - intros (x & y & ->). exists (rev_str (x ++ m)). split.
    + apply rev_prefixes_In. exists (x ++ m), y. split; [now rewrite !app_assoc_s | reflexivity].
    + rewrite rev_str_app. apply prefixb_app.
Qed.

Lemma filter_map_index : forall (p : iline -> bool) lines,
  map il_line (filter p (map index_line lines)) = filter (fun l => p (index_line l)) lines.
Proof.
  induction lines; [reflexivity |]. simpl. destruct (p (index_line a)); simpl; now rewrite IHlines.
Qed.

Lemma fast_matching_colon : forall m lines,
  fast_matching (rev_str m) il_colon (map index_line lines) = matching_lines (m ++ ": ") lines.
Proof.
  intros. unfold fast_matching, matching_lines. rewrite filter_map_index. f_equal.
  apply filter_ext. intros l. simpl. apply fast_match_iff.
Qed.

Lemma fast_matching_equal : forall m lines,
  fast_matching (rev_str m) il_equal (map index_line lines) = matching_lines (m ++ " = ") lines.
Proof.
  intros. unfold fast_matching, matching_lines. rewrite filter_map_index. f_equal.
  apply filter_ext. intros l. simpl. apply fast_match_iff.
Qed.

Lemma fast_candidates_same : forall f lines, fast_candidates f (map index_line lines) = candidates_of f lines.
Proof.
  intros f lines. unfold fast_candidates, candidates_of, field_candidates, eq_candidates, field_marker, eq_marker.
  destruct (fs_kind f) as [|[|[|k]]]; rewrite ?fast_matching_colon, ?fast_matching_equal, ?app_assoc_s; reflexivity.
Qed.

Lemma check_fields_from_same : forall fs i lines impl,
  fast_check_fields_from i fs (map index_line lines) impl = check_fields_from i fs lines impl.
Proof.
  induction fs; intros i lines impl; destruct impl; simpl; try reflexivity.
  rewrite fast_candidates_same, IHfs. reflexivity.
Qed.

Lemma check_fields_from_prefilter : forall fs i lines impl,
  check_fields_from i fs (filter relevant_line lines) impl = check_fields_from i fs lines impl.
Proof.
  induction fs; intros i lines impl; destruct impl; simpl; try reflexivity.
  rewrite candidates_prefilter, IHfs. reflexivity.
Qed.

(* the kernel check may use the indexed search: it returns what the plain scan returns *)
Lemma fast_check_fields_same : forall fs text impl, fast_check_fields fs text impl = check_fields fs text impl.
Proof.
  intros. unfold fast_check_fields, check_fields. rewrite check_fields_from_same.
  symmetry. apply check_fields_from_prefilter.
Qed.

Lemma check_report_fast_same : forall t text raised r, check_report_fast t text raised r = check_report t text raised r.
Proof.
  intros. unfold check_report_fast, check_report, check_report_with.
  now rewrite fast_check_fields_same.
Qed.
